package main

import (
	"archive/tar"
	"bytes"
	"encoding/hex"
	"fmt"
	"path"
	"sort"
	"strings"
	"syscall"

	fusefs "github.com/hanwen/go-fuse/v2/fs"
	"github.com/hanwen/go-fuse/v2/fuse"

	"verifharness/internal/gen"
	"verifharness/internal/nodefs"
	"verifharness/internal/prng"
)

// attribute-comparison contexts
const (
	ctxNode          = iota // any node reached by Lookup / Getattr
	ctxRootAtMount          // root attributes read at RootNode() time
	ctxRootAfterLoad        // root attributes read from a fresh RootNode() after the store finished loading
)

type stats struct{ m map[string]int64 }

func newStats() *stats                 { return &stats{m: map[string]int64{}} }
func (s *stats) inc(k string, n int64) { s.m[k] += n }
func (s *stats) add(o *stats) {
	for k, v := range o.m {
		s.m[k] += v
	}
}

type pendingViolation struct {
	key, what string
	replay    map[string]any
}

// walker is one goroutine's access history. All its state is private; the only shared
// objects are the root nodes (and, with "adopt", the inode tree below them), exactly the
// objects the kernel shares between concurrent requests.
type walker struct {
	er   *envRun
	id   int
	rng  *prng.R
	c    *tcase
	st   *stats
	viol []pendingViolation
	seen map[string]bool

	nodes        map[string]*nodefs.N // private cache of looked-up nodes by clean path
	excuseErrors bool                 // outage phase: EIO from reads/opens is not judged
	lastOps      []string             // short trail of this walker's last operations (for replays)
}

func newWalker(er *envRun, id int, rng *prng.R) *walker {
	return &walker{er: er, id: id, rng: rng, c: er.c, st: newStats(), seen: map[string]bool{}, nodes: map[string]*nodefs.N{}}
}

func (w *walker) trail(s string) {
	if len(w.lastOps) >= 8 {
		w.lastOps = w.lastOps[1:]
	}
	w.lastOps = append(w.lastOps, s)
}

func (w *walker) violate(key, what string, extra map[string]any) {
	w.st.inc("divergences_observed", 1)
	if w.seen[key] {
		// keep one witness per key and walker; still count
		w.viol = append(w.viol, pendingViolation{key: key})
		return
	}
	w.seen[key] = true
	m := map[string]any{"walker": w.id, "last_ops": append([]string(nil), w.lastOps...)}
	for k, v := range extra {
		m[k] = v
	}
	w.viol = append(w.viol, pendingViolation{key, what, w.c.replay(w.er.e, m)})
}

// flush hands the collected violations to the run (called after the join, never on the
// operation path).
func (w *walker) flush() {
	for _, v := range w.viol {
		w.er.r.Violate(v.key, v.what, v.replay)
	}
	w.viol = nil
}

// ---------------------------------------------------------------------------------------
// classification of model nodes (used in violation keys)

func (w *walker) class(p string, n *gen.Node) string {
	if w.er.e.scenario != "" {
		// dedicated history scenarios name themselves: one key per oracle clause, whatever
		// the kind of node
		return w.er.e.scenario
	}
	if p == "" {
		return "root"
	}
	switch n.Type {
	case tar.TypeDir:
		if n.Implicit {
			return "dir-implicit"
		}
		if w.c.explicitCount[p] > 1 {
			return "dir-repeated"
		}
		return "dir"
	case tar.TypeReg:
		if n.NLink > 1 {
			return "reg-hardlinked"
		}
		return "reg"
	case tar.TypeSymlink:
		return "symlink"
	case tar.TypeChar:
		return "chardev"
	case tar.TypeBlock:
		return "blockdev"
	case tar.TypeFifo:
		return "fifo"
	}
	return "other"
}

func wantType(t byte) uint32 {
	switch t {
	case tar.TypeDir:
		return syscall.S_IFDIR
	case tar.TypeReg, tar.TypeLink:
		return syscall.S_IFREG
	case tar.TypeSymlink:
		return syscall.S_IFLNK
	case tar.TypeChar:
		return syscall.S_IFCHR
	case tar.TypeBlock:
		return syscall.S_IFBLK
	case tar.TypeFifo:
		return syscall.S_IFIFO
	}
	return 0
}

// wantPerm: permission bits + suid/sgid/sticky as the tar header mode carries them
// (tar: 04000 suid, 02000 sgid, 01000 sticky — numerically the st_mode bits).
func wantPerm(mode int64) uint32 { return uint32(mode & 0o7777) }

// encodeDev is the Linux "new" dev_t encoding used on the FUSE wire (fuse_attr.rdev is
// decoded by the kernel with new_decode_dev): minor[7:0] | major[11:0]<<8 | minor[19:8]<<20.
func encodeDev(major, minor int64) uint32 {
	return uint32(minor&0xff) | uint32(major&0xfff)<<8 | uint32(minor&^0xff)<<12
}

func typeName(m uint32) string {
	switch m & syscall.S_IFMT {
	case syscall.S_IFDIR:
		return "dir"
	case syscall.S_IFREG:
		return "reg"
	case syscall.S_IFLNK:
		return "symlink"
	case syscall.S_IFCHR:
		return "chardev"
	case syscall.S_IFBLK:
		return "blockdev"
	case syscall.S_IFIFO:
		return "fifo"
	case syscall.S_IFSOCK:
		return "socket"
	}
	return fmt.Sprintf("type(%o)", m&syscall.S_IFMT)
}

// cmpAttr compares a served fuse.Attr with the model node.
//
// Judged strictly: type, permission+suid/sgid/sticky, uid, gid, mtime seconds (+ zero
// nanoseconds: the generator only emits whole seconds), size of regular files and
// symlinks, rdev (devices: encoded major/minor; others: 0), nlink of non-directories.
// Slack (not part of the statement): inode number, blocks/blksize, atime/ctime, directory
// nlink, size of directories/devices/fifos; mode/uid/gid/mtime of implicit directories
// (the tar does not describe them).
func (w *walker) cmpAttr(p string, n *gen.Node, a *fuse.Attr, ctx int) {
	w.st.inc("cmp.attr", 1)
	store := w.er.e.store
	suffix := store + ":" + w.class(p, n)
	switch ctx {
	case ctxRootAtMount:
		// Specific key for the known db-store defect (DESIGN.md section 6): GetAttr(root)
		// does not wait for the background load, RootNode() memoises default attributes.
		suffix = store + "-root-before-load"
	case ctxRootAfterLoad:
		suffix = store + "-root-after-load"
	}
	bad := func(field string, got, want any) {
		w.violate("attr:"+field+"@"+suffix,
			fmt.Sprintf("%s of %q: served %v, tar describes %v (store %s)", field, "/"+p, got, want, store),
			map[string]any{"path": p, "field": field, "served": fmt.Sprint(got), "model": fmt.Sprint(want), "served_attr": fmt.Sprintf("%+v", *a)})
	}
	if got, want := a.Mode&syscall.S_IFMT, wantType(n.Type); got != want {
		bad("type", typeName(got), typeName(want))
	}
	judgeMeta := !(n.Type == tar.TypeDir && n.Implicit)
	if judgeMeta {
		if got, want := a.Mode&0o7777, wantPerm(n.Mode); got != want {
			f := "mode"
			if (got^want)&0o777 == 0 {
				f = "mode-special-bits" // only suid/sgid/sticky differ
			}
			bad(f, fmt.Sprintf("%04o", got), fmt.Sprintf("%04o", want))
		}
		if a.Uid != uint32(n.UID) {
			bad("uid", a.Uid, n.UID)
		}
		if a.Gid != uint32(n.GID) {
			bad("gid", a.Gid, n.GID)
		}
		if int64(a.Mtime) != n.ModTime || a.Mtimensec != 0 {
			bad("mtime", fmt.Sprintf("%d.%09d", a.Mtime, a.Mtimensec), n.ModTime)
		}
	}
	switch n.Type {
	case tar.TypeReg:
		if int64(a.Size) != n.Size {
			bad("size", a.Size, n.Size)
		}
	case tar.TypeSymlink:
		if int64(a.Size) != int64(len(n.Linkname)) {
			bad("size", a.Size, len(n.Linkname))
		}
	}
	wantRdev := uint32(0)
	if n.Type == tar.TypeChar || n.Type == tar.TypeBlock {
		wantRdev = encodeDev(n.Devmajor, n.Devminor)
	}
	if a.Rdev != wantRdev {
		bad("rdev", fmt.Sprintf("%#x", a.Rdev), fmt.Sprintf("%#x (major %d minor %d)", wantRdev, n.Devmajor, n.Devminor))
	}
	if n.Type != tar.TypeDir {
		got := a.Nlink
		if got == 0 {
			got = 1 // "zero NumLink means one" (fs/layer/node.go, metadata.Attr)
		}
		if int(got) != n.NLink {
			bad("nlink", a.Nlink, n.NLink)
		}
	}
}

// cmpXattrs compares Listxattr + Getxattr of a node with the model.
// Slack: a PAX record with an empty value means "attribute absent" (POSIX pax; archive/tar
// drops such records when reading), so a model attribute with an empty value may be absent
// or present-and-empty.
func (w *walker) cmpXattrs(p string, n *gen.Node, nd *nodefs.N, ctx int) {
	w.st.inc("op.xattr", 1)
	store := w.er.e.store
	suffix := store + ":" + w.class(p, n)
	switch ctx {
	case ctxRootAtMount:
		suffix = store + "-root-before-load"
	case ctxRootAfterLoad:
		suffix = store + "-root-after-load"
	}
	names, errno := nd.Listxattr()
	if errno != 0 {
		w.violate("xattr:list-errno@"+suffix, fmt.Sprintf("Listxattr(%q): errno %v", "/"+p, errno), map[string]any{"path": p})
		return
	}
	got := map[string]bool{}
	for _, k := range names {
		if got[k] {
			w.violate("xattr:list-duplicate@"+suffix, fmt.Sprintf("Listxattr(%q) lists %q twice", "/"+p, k), map[string]any{"path": p, "served": names})
		}
		got[k] = true
	}
	for _, k := range sortedKeys(n.Xattrs) {
		v := n.Xattrs[k]
		if !got[k] {
			if v == "" {
				w.st.inc("xattr.empty_value_absent(allowed)", 1)
				continue
			}
			w.violate("xattr:missing@"+suffix, fmt.Sprintf("xattr %q of %q described by the tar is not listed", k, "/"+p),
				map[string]any{"path": p, "served": names, "model": sortedKeys(n.Xattrs)})
			continue
		}
		val, errno := nd.Getxattr(k)
		if errno != 0 {
			w.violate("xattr:get-errno@"+suffix, fmt.Sprintf("Getxattr(%q,%q): errno %v although listed", "/"+p, k, errno), map[string]any{"path": p})
			continue
		}
		w.st.inc("cmp.xattr_value", 1)
		if string(val) != v {
			w.violate("xattr:value@"+suffix, fmt.Sprintf("xattr %q of %q: served %s, tar describes %s", k, "/"+p, hex.EncodeToString(val), hex.EncodeToString([]byte(v))),
				map[string]any{"path": p, "name": k, "served_hex": hex.EncodeToString(val), "model_hex": hex.EncodeToString([]byte(v))})
		}
	}
	for _, k := range names {
		if _, ok := n.Xattrs[k]; !ok {
			w.violate("xattr:extra@"+suffix, fmt.Sprintf("xattr %q of %q is served but not described by the tar", k, "/"+p),
				map[string]any{"path": p, "served": names, "model": sortedKeys(n.Xattrs)})
		}
	}
	// a name the tar does not give must answer ENODATA
	absent := "user.c02-absent"
	if _, ok := n.Xattrs[absent]; !ok {
		if _, errno := nd.Getxattr(absent); errno != syscall.ENODATA {
			w.violate("xattr:absent-name@"+suffix, fmt.Sprintf("Getxattr(%q,%q): errno %v, want ENODATA", "/"+p, absent, errno), map[string]any{"path": p})
		}
	}
}

// ---------------------------------------------------------------------------------------
// navigation

func (w *walker) pickRoot() *nodefs.N {
	rs := w.er.roots
	return rs[w.rng.Intn(len(rs))]
}

// node returns a node for model path p, looking it up component-wise (every component's
// EntryOut is compared with the model). fresh=true ignores the private cache.
func (w *walker) node(p string, fresh bool) *nodefs.N {
	if p == "" {
		return w.pickRoot()
	}
	if !fresh {
		if n, ok := w.nodes[p]; ok {
			return n
		}
	}
	parts := strings.Split(p, "/")
	cur := w.pickRoot()
	start := 0
	if !fresh {
		// start from the deepest cached ancestor
		for i := len(parts) - 1; i >= 1; i-- {
			if n, ok := w.nodes[strings.Join(parts[:i], "/")]; ok {
				cur, start = n, i
				break
			}
		}
	}
	for i := start; i < len(parts); i++ {
		pp := strings.Join(parts[:i+1], "/")
		mn := w.c.model.Nodes[pp]
		w.st.inc("op.lookup", 1)
		child, eo, errno := cur.Lookup(parts[i])
		if errno != 0 {
			key := "lookup:enoent-for-present@" + w.er.e.store
			if errno != syscall.ENOENT {
				key = "lookup:errno@" + w.er.e.store
			}
			w.violate(key, fmt.Sprintf("Lookup(%q in %q) = %v, the tar describes a %s there", parts[i], "/"+path.Dir("/" + pp)[1:], errno, w.class(pp, mn)),
				map[string]any{"path": pp, "errno": errno.Error()})
			return nil
		}
		w.cmpAttr(pp, mn, &eo.Attr, ctxNode)
		if w.er.e.adopt && w.rng.Chance(1, 2) {
			// What the go-fuse bridge does after a successful LOOKUP: the child becomes part
			// of the inode tree, later lookups take the "lookup on memory nodes" path.
			cur.Inode.AddChild(parts[i], child.Inode, true)
			w.st.inc("adopted_children", 1)
		}
		w.nodes[pp] = child
		cur = child
	}
	return cur
}

// ---------------------------------------------------------------------------------------
// operations

func (w *walker) step() {
	c := w.c
	x := w.rng.Intn(100)
	switch {
	case x < 18: // lookup a path component-wise
		p := c.paths[w.rng.Intn(len(c.paths))]
		w.trail("walk " + p)
		w.node(p, w.rng.Chance(1, 3))
	case x < 28:
		w.opAbsent()
	case x < 40:
		w.opReaddir()
	case x < 50:
		w.opGetattr()
	case x < 55:
		w.opReadlink()
	case x < 63:
		p := c.paths[w.rng.Intn(len(c.paths))]
		if p == "" {
			return // root xattrs are judged by the two dedicated readings
		}
		w.trail("xattr " + p)
		if nd := w.node(p, false); nd != nil {
			w.cmpXattrs(p, c.model.Nodes[p], nd, ctxNode)
		}
	default:
		w.opRead()
	}
}

var absentBases = []string{"a", "b", "bin", "etc", "nosuch", "x.txt", "ZZ", "file", "dir", ".", "..", "", ".prefetch.landmark", ".no.prefetch.landmark", "stargz.index.json", ".wh.a", ".wh..wh..opq"}

func (w *walker) opAbsent() {
	c := w.c
	d := c.dirs[w.rng.Intn(len(c.dirs))]
	dn := c.model.Nodes[d]
	var name string
	switch w.rng.Intn(4) {
	case 0: // a real child's name, altered
		for k := range dn.Children {
			name = k
			break
		}
		if name != "" {
			switch w.rng.Intn(4) {
			case 0:
				name += "x"
			case 1:
				name = name[:len(name)-1]
			case 2:
				name = strings.ToUpper(name)
			default:
				name = " " + name
			}
		}
	case 1: // the name of a child of another directory
		o := c.model.Nodes[c.dirs[w.rng.Intn(len(c.dirs))]]
		ks := make([]string, 0, len(o.Children))
		for k := range o.Children {
			ks = append(ks, k)
		}
		sort.Strings(ks)
		if len(ks) > 0 {
			name = ks[w.rng.Intn(len(ks))]
		}
	default:
		name = absentBases[w.rng.Intn(len(absentBases))]
	}
	w.checkAbsent(d, name)
}

// checkAbsent looks up a name the tar does not describe in directory d and expects ENOENT.
func (w *walker) checkAbsent(d, name string) {
	c := w.c
	dn := c.model.Nodes[d]
	if _, present := dn.Children[name]; present {
		return
	}
	if name == "" || strings.Contains(name, "/") {
		return // not a name the kernel can send
	}
	if d == "" && name == ".stargz-snapshotter" {
		return // the state directory (excluded by the task statement)
	}
	nd := w.node(d, false)
	if nd == nil {
		return
	}
	w.trail(fmt.Sprintf("lookup-absent %q in %q", name, d))
	w.st.inc("op.lookup_absent", 1)
	_, eo, errno := nd.Lookup(name)
	if errno == syscall.ENOENT {
		return
	}
	store := w.er.e.store
	key := "lookup:hit-for-absent@" + store
	switch {
	case errno != 0:
		key = "lookup:errno-for-absent@" + store
	case name == "." && d == "" && c.rootEntry:
		// Specific key for the known db-store defect: a tar with an explicit root entry
		// ("./", "/", ".") gives the db root a child "." that is the root itself.
		key = "lookup:dot-self-child@" + store + "-root-entry"
	case name == "." || name == "..":
		key = "lookup:dot-name-resolves@" + store
	}
	w.violate(key, fmt.Sprintf("Lookup(%q in %q) = errno %v mode %o, the tar describes no such name (want ENOENT)", name, "/"+d, errno, eo.Attr.Mode),
		map[string]any{"dir": d, "name": name, "errno": errno.Error(), "served_attr": fmt.Sprintf("%+v", eo.Attr)})
}

func (w *walker) opReaddir() {
	c := w.c
	d := c.dirs[w.rng.Intn(len(c.dirs))]
	nd := w.node(d, w.rng.Chance(1, 5))
	if nd == nil {
		return
	}
	w.trail("readdir " + d)
	w.st.inc("op.readdir", 1)
	ents, errno := nd.Readdir()
	store := w.er.e.store
	if errno != 0 {
		w.violate("readdir:errno@"+store, fmt.Sprintf("Readdir(%q): errno %v", "/"+d, errno), map[string]any{"dir": d})
		return
	}
	dn := c.model.Nodes[d]
	got := map[string]uint32{}
	var names []string
	for _, e := range ents {
		// "." and ".." are protocol entries; the state directory is excluded at the root.
		if e.Name == "." || e.Name == ".." {
			continue
		}
		if d == "" && e.Name == ".stargz-snapshotter" {
			continue
		}
		names = append(names, e.Name)
		if _, dup := got[e.Name]; dup {
			w.violate("readdir:duplicate@"+store, fmt.Sprintf("Readdir(%q) lists %q twice", "/"+d, e.Name), map[string]any{"dir": d, "served": names})
		}
		got[e.Name] = e.Mode
	}
	sort.Strings(names)
	var want []string
	for k := range dn.Children {
		want = append(want, k)
	}
	sort.Strings(want)
	w.st.inc("cmp.readdir_entries", int64(len(want)))
	for _, k := range want {
		m, ok := got[k]
		if !ok {
			w.violate("readdir:missing@"+store, fmt.Sprintf("Readdir(%q) lacks %q (a %s in the tar)", "/"+d, k, w.class(joinPath(d, k), dn.Children[k])),
				map[string]any{"dir": d, "served": names, "model": want})
			continue
		}
		if gt, wt := m&syscall.S_IFMT, wantType(dn.Children[k].Type); gt != wt {
			w.violate("readdir:type@"+store, fmt.Sprintf("Readdir(%q): entry %q has type %s, tar describes %s", "/"+d, k, typeName(gt), typeName(wt)),
				map[string]any{"dir": d, "name": k})
		}
	}
	for _, k := range names {
		if _, ok := dn.Children[k]; !ok {
			w.violate("readdir:extra@"+store, fmt.Sprintf("Readdir(%q) lists %q which the tar does not describe", "/"+d, k),
				map[string]any{"dir": d, "served": names, "model": want})
		}
	}
}

func joinPath(d, k string) string {
	if d == "" {
		return k
	}
	return d + "/" + k
}

func (w *walker) opGetattr() {
	c := w.c
	p := c.paths[w.rng.Intn(len(c.paths))]
	var nd *nodefs.N
	ctx := ctxNode
	if p == "" {
		nd = w.er.roots[0] // the after-load root; the mount-time root is judged once, at mount
		ctx = ctxRootAfterLoad
	} else {
		nd = w.node(p, false)
	}
	if nd == nil {
		return
	}
	w.trail("getattr " + p)
	w.st.inc("op.getattr", 1)
	a, errno := nd.Getattr()
	if errno != 0 {
		w.violate("getattr:errno@"+w.er.e.store, fmt.Sprintf("Getattr(%q): errno %v", "/"+p, errno), map[string]any{"path": p})
		return
	}
	w.cmpAttr(p, c.model.Nodes[p], &a, ctx)
}

func (w *walker) opReadlink() {
	c := w.c
	if len(c.symlinks) == 0 {
		return
	}
	p := c.symlinks[w.rng.Intn(len(c.symlinks))]
	nd := w.node(p, false)
	if nd == nil {
		return
	}
	w.trail("readlink " + p)
	w.st.inc("op.readlink", 1)
	t, errno := nd.Readlink()
	if errno != 0 {
		w.violate("readlink:errno@"+w.er.e.store, fmt.Sprintf("Readlink(%q): errno %v", "/"+p, errno), map[string]any{"path": p})
		return
	}
	if want := c.model.Nodes[p].Linkname; t != want {
		w.violate("readlink:target@"+w.er.e.store, fmt.Sprintf("Readlink(%q) = %q, tar describes %q", "/"+p, t, want), map[string]any{"path": p, "served": t, "model": want})
	}
}

// pickRange draws (offset, length) around every boundary in play.
func (w *walker) pickRange(size int64) (int64, int) {
	c := int64(w.c.chunk)
	rng := w.rng
	var off int64
	switch rng.Intn(10) {
	case 0:
		off = 0
	case 1:
		off = size - 1
	case 2:
		off = size
	case 3:
		off = size + int64(rng.Pick(1, 2, int(c), 100000))
	case 4, 5, 6: // around a chunk boundary
		k := int64(1)
		if size/c > 0 {
			k = 1 + rng.Int63n(size/c+1)
		}
		off = k*c + int64(rng.Pick(-2, -1, 0, 1))
	default:
		off = rng.Int63n(size + 1)
	}
	if off < 0 {
		off = 0
	}
	var ln int64
	switch rng.Intn(10) {
	case 0:
		ln = 1
	case 1:
		ln = 2
	case 2:
		ln = c - 1
	case 3:
		ln = c
	case 4:
		ln = c + 1
	case 5:
		ln = 2*c + 1
	case 6:
		ln = size + int64(rng.Pick(0, 1, 10))
	case 7:
		ln = size - off + int64(rng.Pick(-1, 0, 1)) // ends around EOF
	case 8:
		ln = int64(rng.Pick(0, 3, 4096, 131072))
	default:
		ln = 1 + rng.Int63n(3*c+1)
	}
	if ln < 0 {
		ln = 0
	}
	if ln > 1<<20 {
		ln = 1 << 20
	}
	return off, int(ln)
}

func clamp(size, off int64, ln int) int {
	n := size - off
	if n < 0 {
		n = 0
	}
	if n > int64(ln) {
		n = int64(ln)
	}
	return int(n)
}

func (w *walker) opRead() {
	c := w.c
	if len(c.files) == 0 {
		return
	}
	p := c.files[w.rng.Intn(len(c.files))]
	mn := c.model.Nodes[p]
	nd := w.node(p, w.rng.Chance(1, 10))
	if nd == nil {
		return
	}
	store := w.er.e.store
	w.st.inc("op.open", 1)
	fh, _, errno := nd.Open()
	if errno != 0 {
		if w.excuseErrors {
			w.st.inc("errors_excused_during_outage", 1)
			return
		}
		sf := w.stateFile()
		w.violate("open:errno"+errClass(sf, store), fmt.Sprintf("Open(%q): errno %v with a healthy registry; layer state file: %s", "/"+p, errno, strings.TrimSpace(sf)), map[string]any{"path": p, "state_file": sf})
		return
	}
	defer nodefs.Release(fh)
	if g, ok := fh.(fusefs.FileGetattrer); ok && w.rng.Chance(1, 4) {
		var ao fuse.AttrOut
		if errno := g.Getattr(bg, &ao); errno == 0 {
			w.cmpAttr(p, mn, &ao.Attr, ctxNode)
		}
	}
	// bytes behind the passthrough fd (what the kernel would read directly)
	if pf, ok := fh.(fusefs.FilePassthroughFder); ok && w.er.e.cfg.PassThrough {
		if fd, ok := pf.PassthroughFd(); ok {
			w.checkPassthrough(p, mn, fd)
		} else {
			w.st.inc("passthrough.fd_not_available", 1)
		}
	}
	reads := w.rng.Range(1, 4)
	for i := 0; i < reads; i++ {
		off, ln := w.pickRange(mn.Size)
		w.trail(fmt.Sprintf("read %s off=%d len=%d", p, off, ln))
		w.st.inc("op.read", 1)
		got, errno := nodefs.Read(fh, off, ln)
		if errno != 0 {
			if w.excuseErrors {
				w.st.inc("errors_excused_during_outage", 1)
				continue
			}
			sf := w.stateFile()
			w.violate("read:errno"+errClass(sf, store), fmt.Sprintf("Read(%q, off=%d, len=%d): errno %v with a healthy registry (file size %d); layer state file: %s", "/"+p, off, ln, errno, mn.Size, strings.TrimSpace(sf)),
				map[string]any{"path": p, "off": off, "len": ln, "size": mn.Size, "state_file": sf})
			continue
		}
		want := clamp(mn.Size, off, ln)
		if len(got) != want {
			key := "read:short-count@" + store
			if len(got) > want {
				key = "read:long-count@" + store
			}
			w.violate(key, fmt.Sprintf("Read(%q, off=%d, len=%d) returned %d bytes, want %d (file size %d)", "/"+p, off, ln, len(got), want, mn.Size),
				map[string]any{"path": p, "off": off, "len": ln, "size": mn.Size, "n": len(got), "want": want})
		}
		chk := got
		if len(chk) > want {
			chk = chk[:want]
		}
		if i := gen.CheckContent(mn.ContentID, off, chk); i >= 0 {
			exp := make([]byte, 1)
			gen.FillContent(mn.ContentID, off+int64(i), exp)
			w.violate("read:bytes-differ@"+store+w.cfgFamily(), fmt.Sprintf("Read(%q, off=%d, len=%d): byte at file offset %d is %#02x, the tar has %#02x (%s)", "/"+p, off, ln, off+int64(i), chk[i], exp[0], w.whose(mn, off+int64(i), chk, i)),
				map[string]any{"path": p, "off": off, "len": ln, "size": mn.Size, "first_diff_at": off + int64(i), "chunk": c.chunk})
		}
		w.st.inc("cmp.read_bytes", int64(len(chk)))
		if want > 0 {
			cs := int64(c.chunk)
			if off/cs != (off+int64(want)-1)/cs {
				w.st.inc("read.crossed_chunk_boundary", 1)
			}
			if off+int64(ln) > mn.Size {
				w.st.inc("read.clipped_at_eof", 1)
			}
		} else if off >= mn.Size {
			w.st.inc("read.started_at_or_past_eof", 1)
		}
	}
}

// whose tries to say where a wrong byte comes from (another offset of the same file or
// another file): content is self-describing.
func (w *walker) whose(mn *gen.Node, at int64, got []byte, i int) string {
	n := len(got) - i
	if n > 8 {
		n = 8
	}
	if n < 4 {
		return "too short to attribute"
	}
	probe := got[i : i+n]
	buf := make([]byte, n)
	for _, p := range w.c.files {
		o := w.c.model.Nodes[p]
		lim := o.Size - int64(n)
		for off := int64(0); off <= lim && off < 1<<19; off++ {
			gen.FillContent(o.ContentID, off, buf)
			if bytes.Equal(buf, probe) {
				return fmt.Sprintf("these bytes are offset %d of %q", off, p)
			}
		}
	}
	for k, sib := range w.er.siblings { // multi-layer environments: bytes of another layer?
		if k == w.er.layerNo {
			continue
		}
		for _, p := range sib.files {
			o := sib.model.Nodes[p]
			lim := o.Size - int64(n)
			for off := int64(0); off <= lim && off < 1<<19; off++ {
				gen.FillContent(o.ContentID, off, buf)
				if bytes.Equal(buf, probe) {
					return fmt.Sprintf("these bytes are offset %d of %q of ANOTHER LAYER (layer %d; asked of layer %d)", off, p, k, w.er.layerNo)
				}
			}
		}
	}
	if bytes.Equal(probe, make([]byte, n)) {
		return "zero bytes"
	}
	return "bytes of no file of this tar"
}

// cfgFamily names the configuration family of the environment in byte-level violation
// keys where that family is known to matter: passthrough with merge_worker_count <= 0 (the
// merged whole-file cache entry, which is also the chunk entry of single-chunk files, is
// written without any worker having filled the buffer).
func (w *walker) cfgFamily() string {
	if cfg := w.er.e.cfg; cfg.PassThrough && cfg.MergeWorkerCount <= 0 {
		return ":passthrough-workers<=0"
	}
	return ""
}

func (w *walker) checkPassthrough(p string, mn *gen.Node, fd int) {
	w.st.inc("passthrough.fd_checked", 1)
	store := w.er.e.store
	var st syscall.Stat_t
	if err := syscall.Fstat(fd, &st); err != nil {
		w.violate("passthrough:fstat@"+store, fmt.Sprintf("fstat of the passthrough fd of %q: %v", "/"+p, err), map[string]any{"path": p})
		return
	}
	if st.Size != mn.Size {
		w.violate("passthrough:size@"+store+w.cfgFamily(), fmt.Sprintf("passthrough file of %q has %d bytes, the tar describes %d", "/"+p, st.Size, mn.Size),
			map[string]any{"path": p, "served": st.Size, "model": mn.Size})
	}
	buf := make([]byte, mn.Size+1)
	n, err := syscall.Pread(fd, buf, 0)
	if err != nil {
		w.violate("passthrough:pread@"+store, fmt.Sprintf("pread of the passthrough fd of %q: %v", "/"+p, err), map[string]any{"path": p})
		return
	}
	for int64(n) < mn.Size { // pread may be short on large files
		m, err := syscall.Pread(fd, buf[n:], int64(n))
		if err != nil || m == 0 {
			break
		}
		n += m
	}
	if int64(n) > mn.Size {
		n = int(mn.Size)
	}
	if i := gen.CheckContent(mn.ContentID, 0, buf[:n]); i >= 0 {
		w.violate("passthrough:bytes-differ@"+store+w.cfgFamily(), fmt.Sprintf("passthrough file of %q differs from the tar at offset %d (%s)", "/"+p, i, w.whose(mn, int64(i), buf[:n], i)),
			map[string]any{"path": p, "first_diff_at": i, "size": mn.Size})
	}
	w.st.inc("cmp.passthrough_bytes", int64(n))
}

// errClass turns the layer's last reported error (state file; the node layer only answers
// EIO) into the class part of a violation key. The state file holds the LAST error of the
// layer, so under concurrency the class is a best effort; it only selects the key.
func errClass(stateFile, store string) string {
	switch {
	case strings.Contains(stateFile, "context canceled"):
		// a foreground read that joined the singleflight fetch of a cancellable background
		// fetch inherits that fetch's cancellation (fs/remote/blob.go fetchRange)
		return ":context-canceled"
	case strings.Contains(stateFile, "discard of remaining -"):
		// the pre-reading loop of fileReader.ReadAt discards a negative count:
		//   db store:     readInnerChunks lists every chunk of a node once per stream entry of
		//                 that node (duplicates);
		//   memory store: an empty regular file (offset 0, innerOffset 0) is taken for a member
		//                 of the first gzip stream (offset 0) of a min-chunk-size blob
		return ":negative-discard@" + store
	case strings.Contains(stateFile, "context deadline exceeded"):
		return ":deadline-exceeded"
	case strings.Contains(stateFile, "failed to fetch region"):
		return ":region-not-fetched"
	case strings.Contains(stateFile, "invalid chunk"):
		return ":chunk-verification@" + store
	}
	return "@" + store
}

// stateFile reads the layer's state file (last reported error) for a replay record.
func (w *walker) stateFile() string {
	var sb strings.Builder
	for _, root := range w.er.roots { // every RootNode() has its own state file
		sd, _, errno := root.Lookup(".stargz-snapshotter")
		if errno != 0 {
			continue
		}
		ents, errno := sd.Readdir()
		if errno != 0 || len(ents) == 0 {
			continue
		}
		sf, _, errno := sd.Lookup(ents[0].Name)
		if errno != 0 {
			continue
		}
		if rd, ok := sf.Ops.(fusefs.NodeReader); ok {
			dest := make([]byte, 4096)
			rr, errno := rd.Read(bg, nil, dest, 0)
			if errno == 0 {
				b, _ := rr.Bytes(dest)
				sb.Write(b)
			}
		}
	}
	return sb.String()
}
