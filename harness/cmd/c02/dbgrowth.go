package main

import (
	"archive/tar"
	"context"
	"fmt"
	"os"
	"path/filepath"

	"github.com/containerd/stargz-snapshotter/fs/config"
	"github.com/containerd/stargz-snapshotter/fs/layer"

	"verifharness/internal/blob"
	"verifharness/internal/gen"
	"verifharness/internal/l2"
	"verifharness/internal/memreg"
	"verifharness/internal/nodefs"
	"verifharness/internal/vf"
)

// Stage "dbgrowth" — access history "other layers were resolved in between".
//
// One snapshotter instance keeps ONE bolt file for the metadata of all its layers. Layer A
// (a small generated tar with xattrs, symlinks, devices) is resolved and walked; its nodes
// are kept, as the kernel keeps inodes of a mounted layer. Then further, larger layers are
// resolved through the same resolver, each adding ~2 MiB to the bolt file, and after every
// one of them all answers of the kept nodes of layer A (Getattr, Readlink,
// Listxattr/Getxattr, Read) are compared with the model again. Nothing is evicted, closed or
// unmounted; the statement ("whatever was read, prefetched, cached or evicted before") must
// hold for this history as for any other.
//
// Runs in a child process of its own: on the unchanged tree the db store keeps xattr values
// that alias bolt's memory map, and once the file outgrows the current mapping (16 MiB in
// internal/l2, 64 MiB in the daemon) bolt remaps and the kept values point into unmapped
// memory — Getxattr dies with SIGSEGV. The parent reports the death of this child under the
// key dbgrowth:crash:<signature>.
func dbGrowthStage(r *vf.Run) {
	if len(r.ChildArgs) < 1 {
		r.Inconclusive("dbgrowth child started without arguments")
		return
	}
	journal := r.ChildArgs[0]
	jf, err := os.OpenFile(journal, os.O_CREATE|os.O_WRONLY|os.O_APPEND, 0o644)
	if err != nil {
		r.Inconclusive("cannot open journal: " + err.Error())
		return
	}
	defer jf.Close()
	note := func(s string) {
		fmt.Fprintln(jf, s)
		_ = jf.Sync()
	}
	for _, store := range []string{"memory", "db"} {
		note("BEGIN " + store)
		dbGrowthOne(r, store, note)
		note("END " + store)
		r.FlushPartial()
	}
}

func dbGrowthOne(r *vf.Run, store string, note func(string)) {
	r.Eval(1)
	rng := r.RNG(77, 1)
	// layer A: a generated tar where xattrs are frequent
	o := gen.DefaultOpts(512)
	o.MaxEntries = 24
	ents := gen.RandomTar(rng, o)
	for i := range ents {
		if ents[i].Xattrs == nil && i%2 == 0 {
			ents[i].Xattrs = map[string]string{"user.c02": fmt.Sprintf("value-%04d-0123456789abcdef", i), "security.capability": string(rng.Bytes(20))}
		}
	}
	ents = append(ents, gen.Entry{Name: "zz-multi", Type: tar.TypeReg, Mode: 0o644, ModTime: 1600000000, Size: 3*512 + 1, ContentID: rng.U64() | 1,
		Xattrs: map[string]string{"user.big": string(rng.Bytes(200))}})
	c := &tcase{stage: 3, idx: 0, chunk: 512, ents: ents}
	c.index()
	c.bopts = blob.Opts{ChunkSize: 512, Compression: "gzip", Level: 1}
	built, err := blob.Build(c.tarBytes, c.bopts)
	if err != nil {
		r.Inconclusive("dbgrowth: build of layer A failed: " + classify(err.Error()))
		return
	}
	c.built = built

	// the other layers: 3000 small files each (~2 MiB of bolt pages per layer)
	const nBig = 12
	layers := []*blob.Built{built}
	for k := 0; k < nBig; k++ {
		var es []gen.Entry
		for i := 0; i < 3000; i++ {
			es = append(es, gen.Entry{Name: fmt.Sprintf("d%02d/f%05d", i%50, i), Type: tar.TypeReg, Mode: 0o644, ModTime: 1600000000 + int64(k), Size: 3, ContentID: uint64(2*(k*3000+i) + 1)})
		}
		b, err := blob.Build(gen.TarBytes(es), blob.Opts{ChunkSize: 4096, Compression: "gzip", Level: 1})
		if err != nil {
			r.Inconclusive("dbgrowth: build of a filler layer failed: " + classify(err.Error()))
			return
		}
		layers = append(layers, b)
	}

	root := filepath.Join(r.Scratch, "dbgrowth-"+store)
	defer os.RemoveAll(root)
	reg := memreg.New()
	im, err := l2.Publish(reg, "reg.test", "grow", "v1", layers)
	if err != nil {
		r.Inconclusive("dbgrowth: publish: " + err.Error())
		return
	}
	e := &envSpec{store: store, desc: store + " dbgrowth: layer A kept mounted while 12 layers of 3000 files are resolved through the same resolver", cfg: config.Config{}, scenario: "after-db-growth"}
	e.cfg.FSCacheType, e.cfg.HTTPCacheType = "memory", "memory"
	env, err := l2.NewEnv(reg, root, e.cfg, store, layer.OverlayOpaqueAll, 0)
	if err != nil {
		r.Inconclusive("dbgrowth: NewEnv: " + err.Error())
		return
	}
	defer env.Close()
	ctx := context.Background()
	la, err := env.Resolve(ctx, im, 0)
	if err != nil {
		r.Violate("resolve:error@"+store, "dbgrowth: Resolve(layer A) failed: "+err.Error(), c.replay(e, nil))
		return
	}
	if err := la.Verify(built.TOCDigest); err != nil {
		r.Violate("verify:error@"+store, "dbgrowth: Verify(layer A) failed: "+err.Error(), c.replay(e, nil))
		return
	}
	rn, err := la.RootNode(0)
	if err != nil {
		r.Violate("rootnode:error@"+store, "dbgrowth: RootNode(layer A) failed: "+err.Error(), c.replay(e, nil))
		return
	}
	rootN := nodefs.Root(rn)
	_, _, _ = rootN.Lookup("\x01no-such-name\x01") // wait for the store
	rn2, err := la.RootNode(0)
	if err != nil {
		return
	}
	er := &envRun{r: r, c: c, e: e, env: env, l: la, root: root, roots: []*nodefs.N{nodefs.Root(rn2)}}
	w := newWalker(er, 0, r.RNG(77, 2))
	// walk everything once and keep the nodes
	for _, p := range c.paths {
		w.node(p, false)
	}
	held := len(w.nodes)
	checkAll := func(round int) {
		w.trail(fmt.Sprintf("round %d: re-check of %d kept nodes", round, held))
		for _, p := range c.paths {
			if p == "" {
				continue
			}
			nd := w.nodes[p]
			if nd == nil {
				continue
			}
			mn := c.model.Nodes[p]
			if a, errno := nd.Getattr(); errno == 0 {
				w.cmpAttr(p, mn, &a, ctxNode)
			} else {
				w.violate("getattr:errno@"+store, fmt.Sprintf("Getattr(%q): errno %v", p, errno), nil)
			}
			w.cmpXattrs(p, mn, nd, ctxNode)
			if mn.Type == tar.TypeSymlink {
				if t, errno := nd.Readlink(); errno != 0 || t != mn.Linkname {
					w.violate("readlink:target@"+store, fmt.Sprintf("Readlink(%q) = %q errno %v, tar describes %q", p, t, errno, mn.Linkname), nil)
				}
			}
		}
		for i := 0; i < 20; i++ {
			w.opRead()
		}
	}
	checkAll(0)
	for k := 1; k <= nBig; k++ {
		note(fmt.Sprintf("GROW %d", k))
		lb, err := env.Resolve(ctx, im, k)
		if err != nil {
			r.Violate("resolve:error@"+store, fmt.Sprintf("dbgrowth: Resolve(filler layer %d) failed: %v", k, err), nil)
			break
		}
		if err := lb.Verify(layers[k].TOCDigest); err == nil {
			if rb, err := lb.RootNode(0); err == nil {
				nb := nodefs.Root(rb)
				_, _, _ = nb.Lookup("d00") // forces the store to finish loading this layer
			}
		}
		if st, err := os.Stat(filepath.Join(root, "metadata.db")); err == nil {
			r.Set("dbgrowth_bolt_file_bytes("+store+")", st.Size())
		}
		checkAll(k)
		r.Count("dbgrowth.rounds("+store+")", 1)
	}
	w.flush()
	for k, v := range w.st.m {
		r.Count("dbgrowth."+k, int(v))
	}
	if held >= 5 && w.st.m["cmp.xattr_value"] > 0 {
		r.NonTrivial("dbgrowth/" + store)
	}
}

// runDBGrowth is the parent side of the stage.
func runDBGrowth(r *vf.Run) {
	journal := filepath.Join(r.Scratch, "journal-dbgrowth")
	ex := r.RunChild(vf.ChildSpec{Stage: "dbgrowth", Args: []string{journal}, Timeout: 0})
	if cleanExit(ex) {
		return
	}
	b, _ := os.ReadFile(journal)
	where := lastLines(string(b), 2)
	if ex.TimedOut {
		r.Inconclusive("dbgrowth: child watchdog fired at " + where)
		return
	}
	head := headOf(ex.Output, 1<<20)
	if isResourceLimit(head) {
		r.Inconclusive("dbgrowth: child hit a resource limit at " + where)
		return
	}
	sig := crashSignature(head)
	r.Violate("dbgrowth:crash:"+sig,
		fmt.Sprintf("a node of a mounted layer was asked again after other layers had been resolved through the same resolver (journal: %s): the process died: %s", where, sig),
		map[string]any{"journal": string(b), "crash": crashExcerpt(head), "how": "C02_ONLY=dbgrowth /verif/run.sh C02 quick"})
}

func lastLines(s string, n int) string {
	var ls []string
	for _, l := range splitLines(s) {
		if l != "" {
			ls = append(ls, l)
		}
	}
	if len(ls) > n {
		ls = ls[len(ls)-n:]
	}
	return fmt.Sprint(ls)
}

func splitLines(s string) []string {
	var res []string
	cur := ""
	for _, c := range s {
		if c == '\n' {
			res = append(res, cur)
			cur = ""
			continue
		}
		cur += string(c)
	}
	if cur != "" {
		res = append(res, cur)
	}
	return res
}
