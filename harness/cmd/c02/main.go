// C02 — lazily served files and metadata equal the source tar under any access history.
//
// Real code under test (level L2 of DESIGN.md): memreg registry -> fs/remote blob (range
// fetcher, chunk-aligned http cache, singleflight) -> metadata store (memory | db) ->
// fs/reader (per-chunk verify + uncompressed chunk cache) -> fs/layer (Resolve / Verify /
// Prefetch / BackgroundFetch / RootNode) -> the go-fuse node interfaces of fs/layer/node.go
// called directly (Lookup, Readdir, Getattr, Readlink, Listxattr/Getxattr, Open/Read,
// PassthroughFd), for blobs built by estargz.Build from generated tars.
//
// Oracle: gen.Model(entries) — the tar MODEL, never the repo's code. Every operation reads
// an immutable object, so each answer is compared with the model at once, inside the
// goroutine that performed the operation (no history reasoning, no shared monitor state on
// the operation path: per-goroutine counters and violation lists, merged after the join).
//
// Process layout: the plain top process only orchestrates; the workload runs in child
// stages ("plain" = plain build, "race" = -race build) with an on-disk journal written
// before every case, so that a fatal error of the code under test (SIGSEGV, concurrent map
// access, ...) is reported as a violation with the offending case and the run continues.
package main

import (
	"bufio"
	"fmt"
	"os"
	"path/filepath"
	"regexp"
	"runtime/pprof"
	"strconv"
	"strings"
	"sync"
	"time"

	"github.com/containerd/log"
	"github.com/sirupsen/logrus"

	"verifharness/internal/vf"
)

const rule = "stages plain/race: each case = one generated tar (gen.RandomTar over the whole supported domain + one forced multi-chunk file) built by estargz.Build with a drawn option set; " +
	"each case is served through 4 environments (2 metadata stores x 2 drawn cache/registry configurations) and walked by 4-16 concurrent seeded walkers interleaved with " +
	"Prefetch / BackgroundFetch / prioritized-task pairs / cache-file eviction (and, in a third of the environments, a registry-outage phase followed by a healthy phase). " +
	"An environment is non-trivial iff >=2 walkers completed, >=1 lookup, >=1 directory listing and >=1 read whose byte range crosses a build-chunk boundary were compared with the model, " +
	"and the registry served >=1 ranged GET of the layer blob (nothing was pre-loaded); distinct by (stage, case index, store, configuration). " +
	"Stage probes: hand-minimised archives (explicit root entry, several chunks per gzip stream, empty prioritized file, passthrough merge buffers) through the same environment code. " +
	"Stage dbgrowth: the nodes of one mounted layer are re-judged after each of 12 further layers was resolved through the same resolver (one bolt file); non-trivial iff >=5 kept nodes and >=1 xattr value were compared. " +
	"Stage l3 (if /dev/fuse works): fs.NewFilesystem(...).Mount, then lstat/readdir/readlink/lgetxattr/pread system calls from 3-6 goroutines; non-trivial iff lstat, readdir and a chunk-crossing pread were compared."

// Race attribution (DESIGN.md C02 + task statement).
var attribution = []string{"fs/reader.", "fs/remote.", "cache.", "fs/layer.(*node)", "fs/layer.(*file)"}

func main() {
	logrus.SetLevel(logrus.PanicLevel)
	log.L.Logger.SetLevel(logrus.PanicLevel)
	vf.Main("C02", "exploration", rule, 20, 90, body)
}

func body(r *vf.Run) {
	switch r.Child {
	case "":
		top(r)
	case "plain", "race":
		childBatch(r)
	case "dbgrowth":
		dbGrowthStage(r)
	case "l3":
		l3Stage(r)
	case "probes":
		probesStage(r)
	default:
		r.Inconclusive("unknown stage " + r.Child)
	}
}

// stagePlan: how many cases a stage runs and how heavy each environment is.
type stagePlan struct {
	stage   string
	race    bool
	cases   int
	ops     int // operations per environment (all walkers together, phases A+C)
	maxG    int // max walkers
	timeout time.Duration
}

func top(r *vf.Run) {
	plans := []stagePlan{
		{stage: "plain", cases: r.N(12, 50), ops: r.N(2000, 8000), maxG: r.N(8, 16), timeout: time.Duration(r.N(15, 50)) * time.Minute},
		{stage: "race", race: true, cases: r.N(6, 16), ops: r.N(500, 2000), maxG: r.N(6, 10), timeout: time.Duration(r.N(15, 50)) * time.Minute},
	}
	if v := os.Getenv("C02_ONLY"); v != "" { // debugging aid: C02_ONLY=plain|race
		var keep []stagePlan
		for _, p := range plans {
			if p.stage == v {
				keep = append(keep, p)
			}
		}
		plans = keep
	}
	var wg sync.WaitGroup
	if v := os.Getenv("C02_ONLY"); v == "" || v == "dbgrowth" {
		wg.Add(1)
		go func() {
			defer wg.Done()
			runDBGrowth(r)
		}()
	}
	if v := os.Getenv("C02_ONLY"); v == "" || v == "probes" {
		wg.Add(1)
		go func() {
			defer wg.Done()
			runProbes(r, false)
		}()
		wg.Add(1)
		go func() { // the same probes in the race build (race reports are attributed as in the race stage)
			defer wg.Done()
			runProbes(r, true)
		}()
	}
	if v := os.Getenv("C02_ONLY"); v == "" || v == "l3" {
		wg.Add(1)
		go func() {
			defer wg.Done()
			runL3(r)
		}()
	}
	for _, p := range plans {
		wg.Add(1)
		go func(p stagePlan) {
			defer wg.Done()
			runStage(r, p)
		}(p)
	}
	wg.Wait()
	r.Assume("gen.Model (harness/internal/gen) is the correct reading of the generated tar: names identified after path.Clean, last duplicate wins, implicit parents, hardlinks resolved, nlink = number of names")
	r.Assume("archive/tar (writer) and the monotonic clock are trusted; a PAX record with an empty value means 'no such attribute' (POSIX pax), so empty-valued xattrs may be absent")
	r.Assume("unlinking a committed cache file is an eviction (a later Get simply misses); files under wip/ are never touched")
}

// runStage runs all cases of one stage in child processes, resuming after a case that
// killed its child.
func runStage(r *vf.Run, p stagePlan) {
	journal := filepath.Join(r.Scratch, "journal-"+p.stage)
	next := 0
	if v := os.Getenv("C02_CASE"); v != "" { // debugging aid: run one case only
		if n, err := strconv.Atoi(v); err == nil {
			next = n
			p.cases = n + 1
		}
	}
	for restarts := 0; next < p.cases; restarts++ {
		if restarts > 6+p.cases/3 {
			r.Inconclusive(fmt.Sprintf("stage %s: too many child restarts, cases from %d not run", p.stage, next))
			return
		}
		_ = os.Remove(journal)
		ex := r.RunChild(vf.ChildSpec{
			Stage:   p.stage,
			Race:    p.race,
			Timeout: p.timeout,
			Args:    []string{journal, strconv.Itoa(next), strconv.Itoa(p.cases), strconv.Itoa(p.ops), strconv.Itoa(p.maxG)},
			// races are accounted below with a finer rule than vf's (see accountRaces)
		})
		accountRaces(r, ex.Races)
		begun, ended, stopped := readJournal(journal)
		switch {
		case ex.TimedOut:
			r.Inconclusive(fmt.Sprintf("stage %s: child watchdog fired in case %d", p.stage, begun))
			if begun < next {
				begun = next
			}
			next = begun + 1
		case cleanExit(ex) && !stopped:
			return // all cases done
		case cleanExit(ex) && stopped:
			next = ended + 1 // the child stopped itself after an inconclusive (leaky) case
		default:
			// the child died: a fatal error of the code under test (or of the harness)
			head := headOf(ex.Output, 1<<20)
			if isResourceLimit(head) {
				// a resource limit of the sandbox, not an answer of the code under test
				r.Inconclusive(fmt.Sprintf("stage %s: child hit a resource limit (threads/memory) in case %d", p.stage, begun))
				if begun < next {
					begun = next
				}
				next = begun + 1
				continue
			}
			sig := crashSignature(head)
			r.Violate("crash:"+sig, fmt.Sprintf("stage %s: child process died (exit=%d signal=%s) while running case %d: %s", p.stage, ex.ExitCode, ex.Signal, begun, sig),
				map[string]any{"stage": p.stage, "case": begun, "crash": crashExcerpt(headOf(ex.Output, 1<<20)), "tail": ex.Tail, "how": fmt.Sprintf("C02_ONLY=%s C02_CASE=%d VERIF_SEED=%d /verif/run.sh C02 %s", p.stage, begun, r.Seed, r.Tier)})
			if begun < next {
				begun = next
			}
			next = begun + 1
		}
	}
}

// cleanExit: the child delivered its result and left through os.Exit(0). A race build that
// reported races turns that into exit status 66 (GORACE exitcode default).
func cleanExit(ex vf.ChildExit) bool {
	return ex.Partial && !ex.TimedOut && ex.Signal == "" && (ex.ExitCode == 0 || ex.ExitCode == 66)
}

func readJournal(path string) (begun, ended int, stopped bool) {
	begun, ended = -1, -1
	f, err := os.Open(path)
	if err != nil {
		return
	}
	defer f.Close()
	sc := bufio.NewScanner(f)
	for sc.Scan() {
		fs := strings.Fields(sc.Text())
		if len(fs) == 0 {
			continue
		}
		switch fs[0] {
		case "BEGIN":
			begun, _ = strconv.Atoi(fs[1])
		case "END":
			ended, _ = strconv.Atoi(fs[1])
		case "STOP":
			stopped = true
		}
	}
	return
}

// crashSignature extracts a stable identity of a fatal error from the child's output:
// the first "fatal error:" / "panic:" line without numbers plus the innermost repo frame.
func crashSignature(tail string) string {
	lines := strings.Split(tail, "\n")
	head, frame := "", ""
	for i, l := range lines {
		t := strings.TrimSpace(l)
		if head == "" && (strings.HasPrefix(t, "fatal error:") || strings.HasPrefix(t, "panic:") || strings.HasPrefix(t, "unexpected fault address") || strings.HasPrefix(t, "SIGSEGV")) {
			head = stripNumbers(t)
			for _, m := range lines[i:] {
				m = strings.TrimSpace(m)
				if strings.HasPrefix(m, "github.com/containerd/stargz-snapshotter/") {
					if j := strings.Index(m, "("); j > 0 {
						// keep "(*T).method" receivers: cut at the argument list = last "("
						j = strings.LastIndex(m, "(")
						frame = strings.TrimPrefix(m[:j], "github.com/containerd/stargz-snapshotter/")
					}
					break
				}
			}
		}
	}
	if head == "" {
		return "unknown"
	}
	if len(head) > 80 {
		head = head[:80]
	}
	return head + "@" + frame
}

// crashExcerpt returns the fatal message and the first goroutine of the dump.
func crashExcerpt(out string) string {
	for _, marker := range []string{"panic:", "fatal error:", "unexpected fault address"} {
		if i := strings.Index(out, marker); i >= 0 {
			ex := out[i:]
			if j := strings.Index(ex, "\n\ngoroutine "); j >= 0 {
				if k := strings.Index(ex[j+2:], "\n\n"); k >= 0 {
					ex = ex[:j+2+k]
				}
			}
			if len(ex) > 3000 {
				ex = ex[:3000]
			}
			return ex
		}
	}
	return ""
}

func headOf(path string, n int) string {
	f, err := os.Open(path)
	if err != nil {
		return ""
	}
	defer f.Close()
	b := make([]byte, n)
	m, _ := f.Read(b)
	return string(b[:m])
}

func isResourceLimit(out string) bool {
	return strings.Contains(out, "pthread_create failed") || strings.Contains(out, "out of memory") || strings.Contains(out, "cannot allocate memory")
}

var hexAddr = regexp.MustCompile(`0x[0-9a-fA-F]+`)

// stripNumbers removes addresses and numbers so that a fatal message can be a stable key.
func stripNumbers(s string) string {
	s = hexAddr.ReplaceAllString(s, "")
	var sb strings.Builder
	for _, c := range s {
		if c >= '0' && c <= '9' {
			continue
		}
		sb.WriteRune(c)
	}
	return strings.TrimSpace(sb.String())
}

// accountRaces attributes race reports to C02. Rule (task statement): a report counts
// iff a stargz-snapshotter frame of one of its two access stacks lies in fs/reader,
// fs/remote, cache, fs/layer.(*node) or fs/layer.(*file).
//
// Excluded (documented in NOTES.md):
//   - one stack is a body started by task.(*BackgroundTaskManager).InvokeBackgroundTask and
//     the other stack is not a foreground access (no frame of main.(*walker),
//     fs/layer.(*node) or fs/layer.(*file)): InvokeBackgroundTask does not wait for a
//     cancelled body before it retries/returns, so a stale body still writes the destination
//     buffer and the captured result variables while the retry body or the consumer of the
//     buffer (the decompressor of the background-fetch walk, in errgroup goroutines) uses
//     them. That is the defect of property C13 (DESIGN.md section 6); it is recorded here as
//     "c13_overlap_races" and not as a C02 violation. A race between a background body and
//     a foreground reader is NOT excluded.
const repoMod = "github.com/containerd/stargz-snapshotter/"

func accountRaces(r *vf.Run, reps []vf.RaceReport) {
	for _, rep := range reps {
		r.Count("race_reports_total", 1)
		hit := false
		body, chain, fg := [2]bool{}, [2]bool{}, [2]bool{}
		for i, st := range rep.Access {
			for _, fn := range st {
				if strings.HasPrefix(fn, "main.(*walker)") {
					fg[i] = true
				}
				if !strings.HasPrefix(fn, repoMod) {
					continue
				}
				short := strings.TrimPrefix(fn, repoMod)
				if strings.Contains(short, "task.(*BackgroundTaskManager).InvokeBackgroundTask") {
					body[i] = true
				}
				if strings.Contains(short, "fs/layer.(*layer).backgroundFetch") {
					chain[i] = true
				}
				if strings.Contains(short, "fs/layer.(*node)") || strings.Contains(short, "fs/layer.(*file)") {
					fg[i] = true
				}
				for _, a := range attribution {
					if strings.Contains(short, a) {
						hit = true
					}
				}
			}
		}
		_ = chain
		// one side is a body of InvokeBackgroundTask and the other side is not a foreground
		// (walker / node / file handle) access
		c13 := (body[0] && !fg[1]) || (body[1] && !fg[0])
		a, b := rep.InnermostRepoFrames()
		if a > b {
			a, b = b, a
		}
		switch {
		case hit && c13:
			r.Count("c13_overlap_races", 1)
			r.Distinct("excluded_races(C13 overlap of background bodies)", a+"|"+b)
		case hit:
			key := "race:" + a + "|" + b
			r.Violate(key, "data race between "+a+" and "+b, map[string]any{"report": rep.Text})
			r.Distinct("attributed_races", key)
		default:
			x, y := rep.InnermostFrames()
			r.Distinct("unattributed_races", x+"|"+y)
		}
	}
}

// childBatch runs cases [from, to) in this process.
func childBatch(r *vf.Run) {
	if pf := os.Getenv("C02_PROF"); pf != "" { // debugging aid
		if f, err := os.Create(pf); err == nil {
			_ = pprof.StartCPUProfile(f)
			defer pprof.StopCPUProfile()
		}
	}
	if len(r.ChildArgs) < 5 {
		r.Inconclusive("child started without arguments")
		return
	}
	journal := r.ChildArgs[0]
	from, _ := strconv.Atoi(r.ChildArgs[1])
	to, _ := strconv.Atoi(r.ChildArgs[2])
	ops, _ := strconv.Atoi(r.ChildArgs[3])
	maxG, _ := strconv.Atoi(r.ChildArgs[4])
	jf, err := os.OpenFile(journal, os.O_CREATE|os.O_WRONLY|os.O_APPEND, 0o644)
	if err != nil {
		r.Inconclusive("cannot open journal: " + err.Error())
		return
	}
	defer jf.Close()
	note := func(s string) {
		fmt.Fprintln(jf, s)
		_ = jf.Sync()
	}
	stageLabel := uint64(1)
	if r.Child == "race" {
		stageLabel = 2
	}
	for i := from; i < to; i++ {
		note(fmt.Sprintf("BEGIN %d", i))
		ok := runCase(r, stageLabel, i, ops, maxG)
		note(fmt.Sprintf("END %d", i))
		r.FlushPartial()
		if !ok {
			// a watchdog fired: goroutines of the abandoned environment may still run and
			// hold resources; let the parent continue in a fresh process.
			if i+1 < to {
				note("STOP")
			}
			return
		}
		if r.Violations() > 60 {
			r.Logf("too many distinct violations, stopping the batch early")
			return
		}
	}
}
