package main

// Stage "l3" (optional, behind a capability probe): the daemon's own entry point.
//
//	fs.NewFilesystem(root, cfg, WithGetSources(FromDefaultLabels(memreg hosts)), WithMetadataStore(memory|db), ...)
//	   .Mount(ctx, mountpoint, labels)   -> real FUSE mount (private mount namespace of run.sh)
//
// and then system calls on the mountpoint from several goroutines: lstat, readdir,
// readlink, l{list,get}xattr, open+pread. This is the only stage in which the kernel sits
// between the walker and fs/layer/node.go (inode de-duplication by the go-fuse bridge,
// "lookup on memory nodes", the kernel's dentry/attr/page caches, FOPEN_KEEP_CACHE).
//
// Oracle = the same model; additional slack that the kernel itself introduces:
//   - user.* xattrs are only readable on regular files and directories (VFS rule), so
//     xattrs of symlinks/devices/fifos are judged for the other namespaces only;
//   - security.* xattrs are interpreted by the kernel itself (security.capability must be a
//     vfs_cap_data) and are judged at L2 only;
//   - devices and fifos are never opened; nlink/rdev/mode come from lstat;
//   - BackgroundFetch is off here (fs.NewFilesystem delays it by 5 s after every read
//     anyway); the histories with background fetch are L2's.
// If /dev/fuse is unusable or Mount cannot mount, the stage is skipped(capability) /
// inconclusive and the verdict rests on L2.

import (
	"archive/tar"
	"context"
	"fmt"
	"os"
	"path/filepath"
	"sort"
	"strings"
	"sync"
	"syscall"
	"time"

	"github.com/containerd/containerd/v2/pkg/reference"
	"github.com/containerd/stargz-snapshotter/estargz"
	stargzfs "github.com/containerd/stargz-snapshotter/fs"
	"github.com/containerd/stargz-snapshotter/fs/config"
	"github.com/containerd/stargz-snapshotter/fs/layer"
	"github.com/containerd/stargz-snapshotter/fs/source"
	"github.com/containerd/stargz-snapshotter/metadata"
	esgzexternaltoc "github.com/containerd/stargz-snapshotter/nativeconverter/estargz/externaltoc"
	ocispec "github.com/opencontainers/image-spec/specs-go/v1"
	"golang.org/x/sys/unix"

	"verifharness/internal/blob"
	"verifharness/internal/gen"
	"verifharness/internal/l2"
	"verifharness/internal/memreg"
	"verifharness/internal/prng"
	"verifharness/internal/vf"
)

func runL3(r *vf.Run) {
	if f, err := os.OpenFile("/dev/fuse", os.O_RDWR, 0); err != nil {
		r.Set("l3", "skipped(capability): /dev/fuse unusable: "+err.Error())
		r.Count("l3.skipped_capability", 1)
		return
	} else {
		f.Close()
	}
	journal := filepath.Join(r.Scratch, "journal-l3")
	ex := r.RunChild(vf.ChildSpec{Stage: "l3", Args: []string{journal}, Timeout: time.Duration(r.N(8, 20)) * time.Minute})
	if cleanExit(ex) {
		return
	}
	b, _ := os.ReadFile(journal)
	where := lastLines(string(b), 2)
	head := headOf(ex.Output, 1<<20)
	switch {
	case ex.TimedOut:
		r.Inconclusive("l3: child watchdog fired at " + where)
	case isResourceLimit(head):
		r.Inconclusive("l3: child hit a resource limit at " + where)
	default:
		sig := crashSignature(head)
		r.Violate("l3:crash:"+sig, fmt.Sprintf("the process serving a real FUSE mount died (journal %s): %s", where, sig),
			map[string]any{"journal": string(b), "crash": crashExcerpt(head), "how": "C02_ONLY=l3 /verif/run.sh C02 quick"})
	}
}

func l3Stage(r *vf.Run) {
	if len(r.ChildArgs) < 1 {
		r.Inconclusive("l3 child started without arguments")
		return
	}
	jf, err := os.OpenFile(r.ChildArgs[0], os.O_CREATE|os.O_WRONLY|os.O_APPEND, 0o644)
	if err != nil {
		r.Inconclusive("cannot open journal: " + err.Error())
		return
	}
	defer jf.Close()
	note := func(s string) {
		fmt.Fprintln(jf, s)
		_ = jf.Sync()
	}
	n := r.N(3, 16)
	for i := 0; i < n; i++ {
		c := genCase(r, 4, i)
		built, err := blob.Build(c.tarBytes, c.bopts)
		if err != nil {
			r.Inconclusive("l3: estargz.Build failed: " + classify(err.Error()))
			continue
		}
		c.built = built
		r.Eval(1)
		for si, store := range []string{"memory", "db"} {
			note(fmt.Sprintf("BEGIN case %d %s", i, store))
			ok := r.Watchdog(5*time.Minute, fmt.Sprintf("l3 case %d %s", i, store), func() { l3One(r, c, store, i*2+si) })
			note(fmt.Sprintf("END case %d %s", i, store))
			r.FlushPartial()
			if !ok {
				dumpGoroutines()
				return // a mount may be left behind; the mount namespace dies with run.sh
			}
		}
	}
}

func l3One(r *vf.Run, c *tcase, store string, no int) {
	rng := r.RNG(4, uint64(c.idx), 9, uint64(no))
	root := filepath.Join(r.Scratch, fmt.Sprintf("l3-fs-%d", no))
	mp := filepath.Join(r.Scratch, fmt.Sprintf("l3-mnt-%d", no))
	_ = os.MkdirAll(root, 0o755)
	_ = os.MkdirAll(mp, 0o755)
	defer os.RemoveAll(root)
	reg := memreg.New()
	im, err := l2.Publish(reg, "reg.test", "img", "v1", []*blob.Built{c.built})
	if err != nil {
		r.Inconclusive("l3: publish: " + err.Error())
		return
	}
	ms, closeMS, _, err := l2.MetadataStore(store, root)
	if err != nil {
		r.Inconclusive("l3: metadata store: " + err.Error())
		return
	}
	defer closeMS()
	e := &envSpec{store: store, scenario: ""}
	e.cfg = config.Config{NoPrometheus: true, NoBackgroundFetch: true, PrefetchSize: int64(rng.Pick(0, 1000, 1<<20))}
	e.cfg.BlobConfig.ChunkSize = int64(rng.Pick(0, 500, 4096))
	switch rng.Intn(3) {
	case 0:
		e.cfg.FSCacheType, e.cfg.HTTPCacheType = "memory", "memory"
	case 1:
		e.cfg.DirectoryCacheConfig.Direct = true
	}
	e.desc = fmt.Sprintf("%s L3 fs.Mount regchunk=%d fs=%s direct=%v prefetch=%d", store, e.cfg.BlobConfig.ChunkSize, orDir(e.cfg.FSCacheType), e.cfg.DirectoryCacheConfig.Direct, e.cfg.PrefetchSize)
	hosts := reg.Hosts(nil)
	fsys, err := stargzfs.NewFilesystem(root, e.cfg,
		stargzfs.WithGetSources(source.FromDefaultLabels(hosts)),
		stargzfs.WithMetadataStore(ms),
		stargzfs.WithOverlayOpaqueType(layer.OverlayOpaqueAll),
		stargzfs.WithAdditionalDecompressors(func(ctx context.Context, hosts source.RegistryHosts, refspec reference.Spec, desc ocispec.Descriptor) []metadata.Decompressor {
			return []metadata.Decompressor{esgzexternaltoc.NewRemoteDecompressor(ctx, hosts, refspec, desc)}
		}))
	if err != nil {
		r.Inconclusive("l3: NewFilesystem: " + classify(err.Error()))
		return
	}
	labels := map[string]string{
		"containerd.io/snapshot/remote/stargz.reference": im.Ref.String(),
		"containerd.io/snapshot/remote/stargz.digest":    im.Layers[0].Digest.String(),
		"containerd.io/snapshot/remote/stargz.layers":    im.Layers[0].Digest.String(),
		estargz.TOCJSONDigestAnnotation:                  c.built.TOCDigest.String(),
	}
	ctx := context.Background()
	if err := fsys.Mount(ctx, mp, labels); err != nil {
		if strings.Contains(err.Error(), "fusermount") || strings.Contains(err.Error(), "/dev/fuse") || strings.Contains(err.Error(), "operation not permitted") {
			r.Inconclusive("l3: cannot mount (capability): " + classify(err.Error()))
			return
		}
		r.Violate("l3:mount-error@"+store, "fs.Mount of a genuine layer with the right TOC digest failed: "+err.Error(), c.replay(e, nil))
		return
	}
	r.Count("l3.mounts", 1)
	defer func() {
		if err := fsys.Unmount(ctx, mp); err != nil {
			r.Count("l3.unmount_errors", 1)
			_ = syscall.Unmount(mp, syscall.MNT_DETACH)
		}
	}()
	_ = fsys.Check(ctx, mp, labels)

	er := &envRun{r: r, c: c, e: e}
	// root attributes as the kernel got them at mount
	w0 := newWalker(er, 1000, rng)
	var st syscall.Stat_t
	if err := syscall.Lstat(mp, &st); err == nil {
		w0.cmpStat("", c.model.Root, &st, true)
	}
	walkers := rng.Range(3, 6)
	ops := r.N(250, 1500)
	ws := make([]*walker, walkers)
	var wg sync.WaitGroup
	for i := range ws {
		ws[i] = newWalker(er, i, r.RNG(4, uint64(c.idx), 10, uint64(no), uint64(i)))
		wg.Add(1)
		go func(w *walker) {
			defer wg.Done()
			for j := 0; j < ops; j++ {
				w.l3Step(mp)
			}
		}(ws[i])
	}
	wg.Wait()
	tot := newStats()
	w0.flush()
	tot.add(w0.st)
	for _, w := range ws {
		w.flush()
		tot.add(w.st)
	}
	for k, v := range tot.m {
		r.Count("l3."+k, int(v))
	}
	if tot.m["op.lstat"] > 0 && tot.m["op.readdir"] > 0 && tot.m["read.crossed_chunk_boundary"] > 0 {
		r.NonTrivial(fmt.Sprintf("l3/%d/%s", c.idx, store))
	}
}

// cmpStat compares an lstat result with the model (same clauses and slack as cmpAttr).
func (w *walker) cmpStat(p string, n *gen.Node, st *syscall.Stat_t, atMount bool) {
	w.st.inc("cmp.attr", 1)
	store := w.er.e.store
	suffix := store + ":" + w.class(p, n) + "(kernel)"
	if atMount {
		suffix = store + "-root-before-load" // same defect class as at L2: same key
	}
	bad := func(field string, got, want any) {
		w.violate("attr:"+field+"@"+suffix, fmt.Sprintf("lstat %s of %q through the FUSE mount: %v, tar describes %v (store %s)", field, "/"+p, got, want, store),
			map[string]any{"path": p, "field": field, "served": fmt.Sprint(got), "model": fmt.Sprint(want)})
	}
	if got, want := st.Mode&syscall.S_IFMT, wantType(n.Type); got != want {
		bad("type", typeName(got), typeName(want))
	}
	if !(n.Type == tar.TypeDir && n.Implicit) {
		if got, want := st.Mode&0o7777, wantPerm(n.Mode); got != want {
			bad("mode", fmt.Sprintf("%04o", got), fmt.Sprintf("%04o", want))
		}
		if st.Uid != uint32(n.UID) {
			bad("uid", st.Uid, n.UID)
		}
		if st.Gid != uint32(n.GID) {
			bad("gid", st.Gid, n.GID)
		}
		if st.Mtim.Sec != n.ModTime || st.Mtim.Nsec != 0 {
			bad("mtime", fmt.Sprintf("%d.%09d", st.Mtim.Sec, st.Mtim.Nsec), n.ModTime)
		}
	}
	switch n.Type {
	case tar.TypeReg:
		if st.Size != n.Size {
			bad("size", st.Size, n.Size)
		}
	case tar.TypeSymlink:
		if st.Size != int64(len(n.Linkname)) {
			bad("size", st.Size, len(n.Linkname))
		}
	case tar.TypeChar, tar.TypeBlock:
		if unix.Major(st.Rdev) != uint32(n.Devmajor) || unix.Minor(st.Rdev) != uint32(n.Devminor) {
			bad("rdev", fmt.Sprintf("%d:%d", unix.Major(st.Rdev), unix.Minor(st.Rdev)), fmt.Sprintf("%d:%d", n.Devmajor, n.Devminor))
		}
	}
	if n.Type != tar.TypeDir && int(st.Nlink) != n.NLink {
		bad("nlink", st.Nlink, n.NLink)
	}
}

func (w *walker) l3Step(mp string) {
	c := w.c
	store := w.er.e.store
	x := w.rng.Intn(100)
	switch {
	case x < 25: // lstat
		p := c.paths[w.rng.Intn(len(c.paths))]
		if p == "" {
			return
		}
		w.trail("lstat " + p)
		w.st.inc("op.lstat", 1)
		var st syscall.Stat_t
		if err := syscall.Lstat(filepath.Join(mp, p), &st); err != nil {
			w.violate("lookup:enoent-for-present@"+store+"(kernel)", fmt.Sprintf("lstat(%q) through the FUSE mount: %v, the tar describes a %s", "/"+p, err, w.class(p, c.model.Nodes[p])), map[string]any{"path": p})
			return
		}
		w.cmpStat(p, c.model.Nodes[p], &st, false)
	case x < 35: // absent
		d := c.dirs[w.rng.Intn(len(c.dirs))]
		name := absentBases[w.rng.Intn(len(absentBases))]
		if name == "" || name == "." || name == ".." {
			return // resolved by the VFS itself
		}
		if _, ok := c.model.Nodes[d].Children[name]; ok {
			return
		}
		w.st.inc("op.lookup_absent", 1)
		var st syscall.Stat_t
		err := syscall.Lstat(filepath.Join(mp, d, name), &st)
		if err != syscall.ENOENT {
			w.violate("lookup:hit-for-absent@"+store+"(kernel)", fmt.Sprintf("lstat(%q in %q) = %v, the tar describes no such name", name, "/"+d, err), map[string]any{"dir": d, "name": name})
		}
	case x < 50: // readdir
		d := c.dirs[w.rng.Intn(len(c.dirs))]
		w.trail("readdir " + d)
		w.st.inc("op.readdir", 1)
		ents, err := os.ReadDir(filepath.Join(mp, d))
		if err != nil {
			w.violate("readdir:errno@"+store+"(kernel)", fmt.Sprintf("readdir(%q) through the FUSE mount: %v", "/"+d, err), map[string]any{"dir": d})
			return
		}
		dn := c.model.Nodes[d]
		got := map[string]os.FileMode{}
		var names []string
		for _, e := range ents {
			if d == "" && e.Name() == ".stargz-snapshotter" {
				continue
			}
			if _, dup := got[e.Name()]; dup {
				w.violate("readdir:duplicate@"+store+"(kernel)", fmt.Sprintf("readdir(%q) lists %q twice", "/"+d, e.Name()), nil)
			}
			got[e.Name()] = e.Type()
			names = append(names, e.Name())
		}
		sort.Strings(names)
		var want []string
		for k := range dn.Children {
			want = append(want, k)
		}
		sort.Strings(want)
		w.st.inc("cmp.readdir_entries", int64(len(want)))
		for _, k := range want {
			if _, ok := got[k]; !ok {
				w.violate("readdir:missing@"+store+"(kernel)", fmt.Sprintf("readdir(%q) lacks %q", "/"+d, k), map[string]any{"dir": d, "served": names, "model": want})
			}
		}
		for _, k := range names {
			if _, ok := dn.Children[k]; !ok {
				w.violate("readdir:extra@"+store+"(kernel)", fmt.Sprintf("readdir(%q) lists %q which the tar does not describe", "/"+d, k), map[string]any{"dir": d, "served": names, "model": want})
			}
		}
	case x < 55: // readlink
		if len(c.symlinks) == 0 {
			return
		}
		p := c.symlinks[w.rng.Intn(len(c.symlinks))]
		w.st.inc("op.readlink", 1)
		t, err := os.Readlink(filepath.Join(mp, p))
		if err != nil || t != c.model.Nodes[p].Linkname {
			w.violate("readlink:target@"+store+"(kernel)", fmt.Sprintf("readlink(%q) = %q, %v; tar describes %q", "/"+p, t, err, c.model.Nodes[p].Linkname), map[string]any{"path": p})
		}
	case x < 65: // xattrs
		p := c.paths[w.rng.Intn(len(c.paths))]
		if p == "" {
			return
		}
		w.l3Xattrs(mp, p)
	default:
		w.l3Read(mp)
	}
}

func (w *walker) l3Xattrs(mp, p string) {
	mn := w.c.model.Nodes[p]
	store := w.er.e.store
	full := filepath.Join(mp, p)
	w.st.inc("op.xattr", 1)
	userOK := mn.Type == tar.TypeReg || mn.Type == tar.TypeDir // VFS: user.* only on regular files and directories
	for _, k := range sortedKeys(mn.Xattrs) {
		v := mn.Xattrs[k]
		if strings.HasPrefix(k, "user.") && !userOK {
			continue
		}
		if strings.HasPrefix(k, "security.") {
			continue // the kernel interprets security.capability itself (EINVAL for values that are no vfs_cap_data)
		}
		buf := make([]byte, len(v)+64)
		n, err := unix.Lgetxattr(full, k, buf)
		if err != nil {
			if v == "" && err == unix.ENODATA {
				continue // empty-valued PAX record = absent
			}
			w.violate("xattr:missing@"+store+"(kernel)", fmt.Sprintf("lgetxattr(%q,%q) through the FUSE mount: %v", "/"+p, k, err), map[string]any{"path": p, "name": k})
			continue
		}
		w.st.inc("cmp.xattr_value", 1)
		if string(buf[:n]) != v {
			w.violate("xattr:value@"+store+"(kernel)", fmt.Sprintf("lgetxattr(%q,%q) differs from the tar", "/"+p, k), map[string]any{"path": p, "name": k})
		}
	}
	if userOK {
		buf := make([]byte, 16)
		if _, err := unix.Lgetxattr(full, "user.c02-absent", buf); err != unix.ENODATA {
			w.violate("xattr:absent-name@"+store+"(kernel)", fmt.Sprintf("lgetxattr(%q, absent name) = %v, want ENODATA", "/"+p, err), map[string]any{"path": p})
		}
	}
}

func (w *walker) l3Read(mp string) {
	c := w.c
	if len(c.files) == 0 {
		return
	}
	store := w.er.e.store
	p := c.files[w.rng.Intn(len(c.files))]
	mn := c.model.Nodes[p]
	w.st.inc("op.open", 1)
	f, err := os.Open(filepath.Join(mp, p))
	if err != nil {
		w.violate("open:errno@"+store+"(kernel)", fmt.Sprintf("open(%q) through the FUSE mount: %v", "/"+p, err), map[string]any{"path": p})
		return
	}
	defer f.Close()
	for i, n := 0, w.rng.Range(1, 4); i < n; i++ {
		off, ln := w.pickRange(mn.Size)
		w.trail(fmt.Sprintf("pread %s off=%d len=%d", p, off, ln))
		w.st.inc("op.read", 1)
		buf := make([]byte, ln)
		got := 0
		var rerr error
		for got < ln { // pread may return less than asked; read until EOF or full
			m, err := syscall.Pread(int(f.Fd()), buf[got:], off+int64(got))
			if err != nil {
				rerr = err
				break
			}
			if m == 0 {
				break
			}
			got += m
		}
		if rerr != nil {
			sf := l3StateFile(mp)
			cls := errClass(sf, store)
			if cls == "@"+store {
				cls += "(kernel)" // unclassified: keep the level in the key
			} // a classified error is the same defect as at L2: same key
			w.violate("read:errno"+cls, fmt.Sprintf("pread(%q, off=%d, len=%d): %v with a healthy registry; layer state file: %s", "/"+p, off, ln, rerr, strings.TrimSpace(sf)),
				map[string]any{"path": p, "off": off, "len": ln, "state_file": sf})
			continue
		}
		want := clamp(mn.Size, off, ln)
		if got != want {
			w.violate("read:short-count@"+store+"(kernel)", fmt.Sprintf("pread(%q, off=%d, len=%d) delivered %d bytes up to EOF, want %d (size %d)", "/"+p, off, ln, got, want, mn.Size),
				map[string]any{"path": p, "off": off, "len": ln, "n": got, "want": want})
		}
		chk := buf[:got]
		if len(chk) > want {
			chk = chk[:want]
		}
		if i := gen.CheckContent(mn.ContentID, off, chk); i >= 0 {
			w.violate("read:bytes-differ@"+store+"(kernel)", fmt.Sprintf("pread(%q, off=%d, len=%d): byte at offset %d differs from the tar (%s)", "/"+p, off, ln, off+int64(i), w.whose(mn, off+int64(i), chk, i)),
				map[string]any{"path": p, "off": off, "len": ln, "first_diff_at": off + int64(i)})
		}
		w.st.inc("cmp.read_bytes", int64(len(chk)))
		if want > 0 && off/int64(c.chunk) != (off+int64(want)-1)/int64(c.chunk) {
			w.st.inc("read.crossed_chunk_boundary", 1)
		}
	}
}

// l3StateFile reads the layer's state file through the mount.
func l3StateFile(mp string) string {
	ents, err := os.ReadDir(filepath.Join(mp, ".stargz-snapshotter"))
	if err != nil || len(ents) == 0 {
		return ""
	}
	b, _ := os.ReadFile(filepath.Join(mp, ".stargz-snapshotter", ents[0].Name()))
	return string(b)
}

var _ = prng.Hash64
