package main

import (
	"archive/tar"
	"encoding/base64"
	"fmt"
	"path"
	"sort"
	"strings"

	"github.com/containerd/stargz-snapshotter/fs/config"

	"verifharness/internal/blob"
	"verifharness/internal/gen"
	"verifharness/internal/prng"
	"verifharness/internal/vf"
)

// tcase is one generated archive with its build.
type tcase struct {
	stage    uint64
	idx      int
	chunk    int // build chunk size
	ents     []gen.Entry
	model    *gen.FS
	tarBytes []byte
	bopts    blob.Opts
	built    *blob.Built

	paths         []string // all model paths (sorted), "" = root
	dirs          []string
	files         []string // regular files incl. hardlinked names
	symlinks      []string
	rootEntry     bool           // the tar has an explicit root entry
	explicitCount map[string]int // clean dir path -> number of explicit dir entries in the tar
}

// envSpec is one environment (store + configuration + workload shape) of a case.
type envSpec struct {
	store         string
	cfg           config.Config
	desc          string
	walkers       int
	opsA, opsC    int // operations per walker in the healthy phases
	opsB          int // operations per walker during the outage phase (0 = no outage phase)
	personas      []string
	multi400      bool // registry answers 400 to multi-range GETs (fetcher falls back to single-range mode)
	redirect      bool // registry redirects blob GETs to the CDN host (valid token)
	prefetchSize  int64
	prefetchEarly bool // start Prefetch before Verify (as fs.Mount does) instead of during the walk
	evict         bool
	adopt         bool   // emulate the go-fuse bridge: add looked-up children to the parent inode
	scenario      string // dedicated history scenario (replaces the node class in violation keys)
	tiny          bool   // registry chunk size of a few bytes: minimal workload, no Prefetch/BackgroundFetch
	readHeavy     bool   // three of four operations are reads (cache-pressure probes)
	risky         bool   // configuration known to be able to kill the process: run after the other environments
}

func genCase(r *vf.Run, stage uint64, idx int) *tcase {
	rng := r.RNG(stage, uint64(idx), 1)
	c := &tcase{stage: stage, idx: idx}
	c.chunk = rng.Pick(1, 7, 64, 64, 512, 512, 4096, 4096, 65536)
	if stage == 4 && (c.chunk < 64 || c.chunk > 4096) {
		c.chunk = 512 // L3 stage: moderate sizes only
	}
	if stage == 2 && c.chunk == 65536 {
		// race build: every allocation of a large buffer also clears its shadow memory; a
		// 64 KiB-chunk case costs minutes there and adds nothing race-wise
		c.chunk = 4096
	}
	o := gen.DefaultOpts(int64(c.chunk))
	o.MaxEntries = rng.Pick(4, 12, 24, 24, 40)
	if c.chunk == 65536 {
		o.MaxFileSize = 3 * 65536
	}
	if stage == 2 {
		// race build: estargz.Build (compression) is ~10x slower; keep archives small
		o.MaxEntries = rng.Pick(4, 8, 12, 16)
		o.MaxFileSize = 3 * int64(c.chunk)
	}
	c.ents = gen.RandomTar(rng, o)
	// Force one multi-chunk regular file (unless the name is taken) so that every case
	// can exercise chunk-boundary reads.
	if rng.Chance(9, 10) {
		name := "zz-multi"
		taken := false
		for _, e := range c.ents {
			if strings.HasPrefix(gen.Clean(e.Name), name) {
				taken = true
			}
		}
		if !taken {
			sz := int64(rng.Range(2, 4))*int64(c.chunk) + int64(rng.Pick(-1, 0, 1, 3))
			if sz < 2 {
				sz = 2
			}
			c.ents = append(c.ents, gen.Entry{Name: rng.PickS("", "./", "/") + name, Type: tar.TypeReg, Mode: 0o644, UID: 0, GID: 0,
				ModTime: 1600000000, Size: sz, ContentID: rng.U64() | 1})
		}
	}
	c.index()
	// build options
	c.bopts = blob.RandomOpts(rng, c.chunk)
	if c.bopts.Compression == "zstdchunked" && rng.Bool() {
		c.bopts.Compression, c.bopts.Level = "gzip", 6 // zstd:chunked reads are ~100x slower; keep its share at 1/8
	}
	// Prioritized files. estargz.Build moves a prioritized file together with its parent
	// directories and (for a hardlink) its link target; it answers "not found" when a parent
	// directory has no entry of its own in the tar, so only files whose ancestors (and whose
	// link targets' ancestors) are explicit entries are drawn. (A builder limitation, noted in
	// NOTES.md; not C02's subject.)
	last := map[string]*gen.Entry{}
	for i := range c.ents {
		last[gen.Clean(c.ents[i].Name)] = &c.ents[i]
	}
	var prioritizable func(p string, depth int) bool
	prioritizable = func(p string, depth int) bool {
		if depth > 64 {
			return false
		}
		for d := path.Dir("/" + p)[1:]; d != ""; d = path.Dir("/" + d)[1:] {
			if n := c.model.Nodes[d]; n == nil || n.Implicit {
				return false
			}
		}
		if e := last[p]; e != nil && e.Type == tar.TypeLink {
			return prioritizable(gen.Clean(e.Linkname), depth+1)
		}
		return last[p] != nil
	}
	var cand []string
	for _, f := range c.files {
		if prioritizable(f, 0) {
			cand = append(cand, f)
		}
	}
	if len(cand) > 0 && rng.Chance(1, 2) {
		n := rng.Range(1, 3)
		seen := map[string]bool{}
		for i := 0; i < n; i++ {
			f := cand[rng.Intn(len(cand))]
			if !seen[f] {
				seen[f] = true
				c.bopts.Prioritized = append(c.bopts.Prioritized, rng.PickS("", "./", "/")+f)
			}
		}
	}
	return c
}

// index derives the model and the path lists from c.ents.
func (c *tcase) index() {
	c.model = gen.Model(c.ents)
	c.tarBytes = gen.TarBytes(c.ents)
	c.paths = c.model.Paths()
	c.explicitCount = map[string]int{}
	c.dirs, c.files, c.symlinks, c.rootEntry = nil, nil, nil, false
	for _, e := range c.ents {
		if e.Type == tar.TypeDir {
			c.explicitCount[gen.Clean(e.Name)]++
			if gen.Clean(e.Name) == "" {
				c.rootEntry = true
			}
		}
	}
	for _, p := range c.paths {
		n := c.model.Nodes[p]
		switch n.Type {
		case tar.TypeDir:
			c.dirs = append(c.dirs, p)
		case tar.TypeReg:
			c.files = append(c.files, p)
		case tar.TypeSymlink:
			c.symlinks = append(c.symlinks, p)
		}
	}
}

func (c *tcase) describe() map[string]any {
	m := map[string]any{
		"stage": c.stage, "case": c.idx, "build_chunk": c.chunk, "build": c.bopts.String(),
		"entries": gen.Describe(c.ents), "tar_len": len(c.tarBytes),
	}
	if c.built != nil {
		m["blob_len"] = len(c.built.Blob)
	}
	return m
}

// replay returns everything needed to reproduce a divergence of this case.
func (c *tcase) replay(e *envSpec, extra map[string]any) map[string]any {
	m := c.describe()
	if len(c.tarBytes) <= 48<<10 {
		m["tar_base64"] = base64.StdEncoding.EncodeToString(c.tarBytes)
	}
	if e != nil {
		m["store"] = e.store
		m["env"] = e.desc
	}
	for k, v := range extra {
		m[k] = v
	}
	return m
}

// genEnvs draws the environments of a case: both stores x 2 configurations.
func genEnvs(r *vf.Run, c *tcase, totalOps, maxG int) []*envSpec {
	var res []*envSpec
	blobLen := int64(len(c.built.Blob))
	for ci := 0; ci < 2; ci++ {
		rng := r.RNG(c.stage, uint64(c.idx), 2, uint64(ci))
		base := drawEnv(rng, c, blobLen, totalOps, maxG)
		for _, store := range []string{"memory", "db"} {
			e := *base
			e.store = store
			e.desc = store + " " + e.desc
			res = append(res, &e)
		}
	}
	return res
}

func drawEnv(rng *prng.R, c *tcase, blobLen int64, totalOps, maxG int) *envSpec {
	e := &envSpec{}
	var d []string
	// registry chunk size: 1 B ... blob size (+1), or the default (0 => 50000)
	cands := []int64{64, 500, 500, 4096, blobLen - 1, blobLen, blobLen + 1, blobLen / 2, blobLen / 3, 0, 0}
	cs := cands[rng.Intn(len(cands))]
	if blobLen <= 12<<10 && rng.Chance(1, 10) {
		cs = int64(rng.Pick(1, 3, 7)) // tiny registry chunks: every blob read touches thousands of cache entries
	}
	if cs < 0 {
		cs = 1
	}
	tiny := cs > 0 && cs < 16
	// keep the number of http-cache chunks of the blob bounded (each is a cache entry)
	if cs != 0 && blobLen/cs > 30000 {
		cs = blobLen/30000 + 1
	}
	e.cfg.BlobConfig.ChunkSize = cs
	d = append(d, fmt.Sprintf("regchunk=%d", cs))
	if rng.Chance(1, 3) && cs > 0 && !tiny {
		e.cfg.BlobConfig.PrefetchChunkSize = cs * int64(rng.Pick(2, 3, 10))
		d = append(d, fmt.Sprintf("prefetchchunk=%d", e.cfg.BlobConfig.PrefetchChunkSize))
	}
	if rng.Chance(1, 6) {
		e.cfg.BlobConfig.ForceSingleRangeMode = true
		d = append(d, "singlerange")
	}
	// caches
	switch rng.Intn(5) {
	case 0:
		e.cfg.FSCacheType, e.cfg.HTTPCacheType = "memory", "memory"
		d = append(d, "fs=memory http=memory")
	case 1:
		e.cfg.HTTPCacheType = "memory"
		d = append(d, "fs=dir http=memory")
	case 2:
		e.cfg.FSCacheType = "memory"
		d = append(d, "fs=memory http=dir")
	default:
		d = append(d, "fs=dir http=dir")
	}
	dc := &e.cfg.DirectoryCacheConfig
	switch rng.Intn(4) {
	case 0: // constant eviction
		dc.MaxLRUCacheEntry, dc.MaxCacheFds = rng.Pick(1, 2), rng.Pick(1, 2)
	case 1:
		dc.Direct = true
	case 2:
		dc.MaxLRUCacheEntry, dc.MaxCacheFds = rng.Pick(1, 2, 10), rng.Pick(1, 2, 10)
	default: // defaults (10/10)
	}
	dc.SyncAdd = rng.Bool()
	if cs > 0 && blobLen/cs > 300 {
		// Harness limit: with SyncAdd=false every committed cache entry is written by its own
		// goroutine; thousands of them blocked in file system calls need thousands of OS
		// threads and the child dies in pthread_create (RLIMIT_AS / thread limits).
		dc.SyncAdd = true
	}
	d = append(d, fmt.Sprintf("lru=%d fds=%d direct=%v syncadd=%v", dc.MaxLRUCacheEntry, dc.MaxCacheFds, dc.Direct, dc.SyncAdd))
	// passthrough: the daemon forces Direct when it is on (cmd/containerd-stargz-grpc/main.go);
	// a *os.File can only come from a directory cache.
	if e.cfg.FSCacheType != "memory" && rng.Chance(1, 4) && !tiny {
		e.cfg.PassThrough = true
		dc.Direct = true
		// merge_buffer_size: 0, smaller than a chunk (both: sequential merge), a few chunks
		// (batched merge; chunk-aligned or not), larger than any file (the default, 400 MiB).
		switch rng.Intn(10) {
		case 0:
			e.cfg.MergeBufferSize = 0
		case 1, 2:
			e.cfg.MergeBufferSize = 400 << 20
		case 3, 4:
			e.cfg.MergeBufferSize = int64(rng.Pick(1, c.chunk/2+1))
		case 5, 6, 7:
			e.cfg.MergeBufferSize = int64(c.chunk) * int64(rng.Pick(1, 2, 3))
		default:
			e.cfg.MergeBufferSize = int64(c.chunk)*int64(rng.Pick(1, 2)) + int64(rng.Pick(1, c.chunk/2+1, 36))
		}
		// merge_worker_count: any integer a user can write into the [fuse] section, including
		// 0 and a negative value. A non-positive count can kill the process (negative: slice
		// allocation), so those environments run in the second wave.
		e.cfg.MergeWorkerCount = []int{0, -1, 1, 2, 3, 10, 1, 3, 10, 0}[rng.Intn(10)]
		if e.cfg.MergeWorkerCount <= 0 {
			e.risky = true
		}
		d = append(d, fmt.Sprintf("passthrough(buf=%d,workers=%d,direct)", e.cfg.MergeBufferSize, e.cfg.MergeWorkerCount))
	}
	e.cfg.MaxConcurrency = int64(rng.Pick(1, 2, 4))
	// registry personalities (honest content, varying shapes)
	all := []string{"honest", "squash", "whole", "multipart-always"}
	e.personas = []string{"honest"}
	for _, p := range all[1:] {
		if rng.Chance(1, 2) {
			e.personas = append(e.personas, p)
		}
	}
	if blobLen > 0 && cs > 0 && (blobLen/cs > 4000 || tiny) {
		// "whole" makes every fetch cache the entire blob chunk by chunk: too heavy here
		var keep []string
		for _, p := range e.personas {
			if p != "whole" {
				keep = append(keep, p)
			}
		}
		e.personas = keep
	}
	e.multi400 = rng.Chance(1, 5)
	e.redirect = rng.Chance(1, 5)
	d = append(d, "personas="+strings.Join(e.personas, "+"))
	if e.multi400 {
		d = append(d, "multi400")
	}
	if e.redirect {
		d = append(d, "redirect")
	}
	// workload
	e.walkers = rng.Range(4, maxG)
	if maxG < 4 {
		e.walkers = maxG
	}
	per := totalOps / e.walkers
	if tiny {
		// Registry chunks of 1-7 bytes: one read of n compressed bytes is n (or n/7) cache
		// lookups, a background fetch is (number of chunks) x (compressed file size) of them.
		// Keep the chunk size in the domain but the workload minimal, and leave out
		// Prefetch/BackgroundFetch (they alone take minutes here).
		e.tiny = true
		e.walkers = rng.Range(2, 3)
		per = 6
	}
	if c.bopts.Compression == "zstdchunked" {
		per = per / 3 // the repo's zstd:chunked decompressor allocates a fresh decoder (MBs) per chunk read
	}
	if per < 12 && !tiny {
		per = 12
	}
	if rng.Chance(1, 3) {
		e.opsA, e.opsB, e.opsC = per/2, per/6+5, per/3
		d = append(d, "outage-phase")
	} else {
		e.opsA, e.opsC = per*2/3, per/3
	}
	e.prefetchSize = []int64{0, 1, blobLen / 2, blobLen, blobLen * 2}[rng.Intn(5)]
	e.prefetchEarly = rng.Bool()
	e.evict = rng.Chance(1, 2) && !tiny
	e.adopt = rng.Chance(1, 2)
	d = append(d, fmt.Sprintf("walkers=%d ops=%d/%d/%d prefetch=%d early=%v evict=%v adopt=%v", e.walkers, e.opsA, e.opsB, e.opsC, e.prefetchSize, e.prefetchEarly, e.evict, e.adopt))
	e.desc = strings.Join(d, " ")
	return e
}

func sortedKeys(m map[string]string) []string {
	ks := make([]string, 0, len(m))
	for k := range m {
		ks = append(ks, k)
	}
	sort.Strings(ks)
	return ks
}
