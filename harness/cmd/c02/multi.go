package main

import (
	"context"
	"fmt"
	"os"
	"path/filepath"
	"strings"
	"sync"
	"time"

	"github.com/containerd/stargz-snapshotter/fs/layer"

	"verifharness/internal/blob"
	"verifharness/internal/gen"
	"verifharness/internal/l2"
	"verifharness/internal/memreg"
	"verifharness/internal/nodefs"
	"verifharness/internal/prng"
	"verifharness/internal/vf"
)

// Multi-layer environments — access history "other layers were read in between".
//
// One snapshotter serves all layers of all images through ONE layer.Resolver. The statement
// is about every layer on its own ("for every layer built from a tar archive ... whatever
// was read, prefetched, cached or evicted before"), so what was read from layer 1 must never
// show in layer 2. Here 2-4 layers are resolved through the same l2 env / Resolver and are
// walked INTERLEAVED by the same goroutines; every answer is judged against the model of the
// layer it was asked of. The layers are built from the same entry list (same names, sizes,
// build options => same tree shape, same node ids with the db store, same chunk geometry)
// but with different content ids, mtimes and owners, so that the uncompressed-chunk-cache keys
// genID(nodeID, chunkOffset, chunkSize) of fs/reader collide across layers as often as
// possible while any byte or attribute taken from the wrong layer is recognisably wrong.
// Configuration: directory fs cache with the on-memory LRU in use (Direct=false), small but
// non-zero LRU / fd limits. Half-way one layer is released (Close = evicted from the
// resolver's cache, its caches closed) and resolved again, and the walk goes on.

// siblingOf derives a layer with the same shape as c and different contents/attributes.
func siblingOf(c *tcase, k int) *tcase {
	ents := make([]gen.Entry, len(c.ents))
	copy(ents, c.ents)
	salt := prng.Hash64(uint64(k), 0x5eed)
	for i := range ents {
		e := &ents[i]
		if e.ContentID != 0 {
			e.ContentID = prng.Hash64(e.ContentID, salt) | 1
		}
		e.ModTime += int64(k) // whole seconds, still inside the domain
		if e.UID < 1<<20 {
			e.UID += k
		}
		if e.Xattrs != nil {
			x := map[string]string{}
			for name, v := range e.Xattrs {
				if v != "" {
					v = v + fmt.Sprintf("#%d", k)
				}
				x[name] = v
			}
			e.Xattrs = x
		}
	}
	s := &tcase{stage: c.stage, idx: c.idx, chunk: c.chunk, ents: ents, bopts: c.bopts}
	s.index()
	return s
}

type multiSpec struct {
	layers  int
	reopen  bool // release one layer and resolve it again half-way
	walkers int
	ops     int
}

// drawMultiEnv draws the configuration of the multi-layer environment of a case.
func drawMultiEnv(rng *prng.R, c *tcase, store string, totalOps, maxG int) (*envSpec, multiSpec) {
	e := &envSpec{store: store, personas: []string{"honest", "squash"}, scenario: ""}
	e.cfg.BlobConfig.ChunkSize = int64(rng.Pick(0, 500, 4096, 50000))
	if rng.Bool() {
		e.cfg.HTTPCacheType = "memory"
	}
	dc := &e.cfg.DirectoryCacheConfig
	dc.Direct = false                          // the on-memory LRU and the fd LRU are in use
	dc.MaxLRUCacheEntry = rng.Pick(0, 0, 2, 4) // 0 = default (10)
	dc.MaxCacheFds = rng.Pick(0, 0, 2, 4)
	dc.SyncAdd = rng.Bool()
	e.cfg.MaxConcurrency = int64(rng.Pick(1, 2, 4))
	m := multiSpec{layers: rng.Range(2, 4), reopen: rng.Chance(2, 3)}
	if c.chunk >= 65536 || c.stage == 2 {
		m.layers = 2 // large archives / race build (estargz.Build is ~10x slower there): two layers
	}
	m.walkers = rng.Range(3, 6)
	if m.walkers > maxG {
		m.walkers = maxG
	}
	m.ops = totalOps / m.walkers / 2
	if c.bopts.Compression == "zstdchunked" {
		m.ops /= 3
	}
	if m.ops < 20 {
		m.ops = 20
	}
	e.adopt = rng.Bool()
	e.desc = fmt.Sprintf("%s multilayer layers=%d reopen=%v regchunk=%d fs=dir http=%s lru=%d fds=%d direct=false syncadd=%v walkers=%d ops=2x%d adopt=%v",
		store, m.layers, m.reopen, e.cfg.BlobConfig.ChunkSize, orDir(e.cfg.HTTPCacheType), dc.MaxLRUCacheEntry, dc.MaxCacheFds, dc.SyncAdd, m.walkers, m.ops, e.adopt)
	return e, m
}

// mounted is one resolved layer of the multi-layer environment.
type mounted struct {
	er *envRun
	l  layer.Layer
}

func runMultiEnv(r *vf.Run, c *tcase, e *envSpec, m multiSpec, ei int) {
	r.Count("environments", 1)
	r.Count("multilayer.environments", 1)
	tStart := time.Now()
	defer func() {
		d := time.Since(tStart)
		r.Count("environment_wall_ms", int(d.Milliseconds()))
		if os.Getenv("C02_VERBOSE") != "" {
			r.Logf("case %d env %d (%s) took %v", c.idx, ei, e.desc, d.Round(time.Millisecond))
		}
	}()
	// the layers
	cases := []*tcase{c}
	builts := []*blob.Built{c.built}
	for k := 1; k < m.layers; k++ {
		s := siblingOf(c, k)
		b, err := blob.Build(s.tarBytes, s.bopts)
		if err != nil {
			r.Inconclusive("multilayer: estargz.Build of a sibling layer failed: " + classify(err.Error()))
			return
		}
		s.built = b
		cases = append(cases, s)
		builts = append(builts, b)
	}
	root := filepath.Join(r.Scratch, fmt.Sprintf("menv-%d-%d-%d", c.stage, c.idx, ei))
	defer os.RemoveAll(root)
	reg := memreg.New()
	im, err := l2.Publish(reg, "reg.test", "img", "v1", builts)
	if err != nil {
		r.Inconclusive("multilayer: publish: " + err.Error())
		return
	}
	seed := prng.Hash64(r.Seed, c.stage, uint64(c.idx), uint64(ei), 99)
	layerDigest := map[string]bool{}
	for _, d := range im.Layers {
		layerDigest[d.Digest.String()] = true
	}
	reg.SetScript(func(q *memreg.Request) memreg.Behaviour {
		var b memreg.Behaviour
		if q.Kind != "blob" || !layerDigest[q.Digest] || len(q.Ranges) == 0 {
			return b
		}
		h := seed
		for _, x := range q.Ranges {
			h = prng.Hash64(h, uint64(x[0]), uint64(x[1]))
		}
		if h%2 == 1 {
			b.Mode = memreg.Squash
		}
		return b
	})
	env, err := l2.NewEnv(reg, root, e.cfg, e.store, layer.OverlayOpaqueAll, 0)
	if err != nil {
		r.Inconclusive("multilayer: NewEnv: " + err.Error())
		return
	}
	defer env.Close()
	ctx := context.Background()

	var bgWG sync.WaitGroup
	mount := func(k int, background bool) *mounted {
		ck := cases[k]
		l, err := env.Resolve(ctx, im, k)
		if err != nil {
			r.Violate("resolve:error@"+e.store, fmt.Sprintf("multilayer: Resolve(layer %d) failed: %v", k, err), ck.replay(e, nil))
			return nil
		}
		if err := l.Verify(ck.built.TOCDigest); err != nil {
			r.Violate("verify:error@"+e.store, fmt.Sprintf("multilayer: Verify(layer %d) failed: %v", k, err), ck.replay(e, nil))
			l.Close()
			return nil
		}
		rn, err := l.RootNode(uint32(k))
		if err != nil {
			r.Violate("rootnode:error@"+e.store, fmt.Sprintf("multilayer: RootNode(layer %d) failed: %v", k, err), ck.replay(e, nil))
			l.Close()
			return nil
		}
		rootN := nodefs.Root(rn)
		_, _, _ = rootN.Lookup("\x01no-such-name\x01") // wait for the store
		rn2, err := l.RootNode(uint32(k))
		if err != nil {
			l.Close()
			return nil
		}
		er := &envRun{r: r, c: ck, e: e, env: env, l: l, root: root, roots: []*nodefs.N{nodefs.Root(rn2)}, siblings: cases, layerNo: k}
		if background {
			bgWG.Add(1)
			go func() {
				defer bgWG.Done()
				_ = l.Prefetch(int64(len(ck.built.Blob)))
				_ = l.WaitForPrefetchCompletion()
				if err := l.BackgroundFetch(); err != nil {
					r.Distinct("background_fetch_errors("+e.store+")", classify(err.Error()))
				}
			}()
		}
		return &mounted{er: er, l: l}
	}
	ms := make([]*mounted, len(cases))
	for k := range cases {
		ms[k] = mount(k, k%2 == 1) // background fetch for every other layer: its chunks are added with cache.Direct()
		if ms[k] == nil {
			for _, x := range ms {
				if x != nil {
					x.l.Close()
				}
			}
			return
		}
	}
	// prioritized pairs
	stop := make(chan struct{})
	var ctlWG sync.WaitGroup
	{
		p := r.RNG(c.stage, uint64(c.idx), 21, uint64(ei))
		ctlWG.Add(1)
		go func() {
			defer ctlWG.Done()
			for i := 0; i < 200; i++ {
				select {
				case <-stop:
					return
				default:
				}
				env.TM.DoPrioritizedTask()
				time.Sleep(time.Duration(p.Intn(300)) * time.Microsecond)
				env.TM.DonePrioritizedTask()
				time.Sleep(time.Duration(p.Intn(3000)) * time.Microsecond)
			}
		}()
	}

	// walkers[g][k]: goroutine g's private walker for layer k
	tot := newStats()
	crossedPerLayer := make([]int64, len(cases))
	phase := func(ph int) {
		ws := make([][]*walker, m.walkers)
		var wg sync.WaitGroup
		for g := range ws {
			ws[g] = make([]*walker, len(cases))
			for k := range cases {
				ws[g][k] = newWalker(ms[k].er, g, r.RNG(c.stage, uint64(c.idx), 22, uint64(ei), uint64(ph), uint64(g), uint64(k)))
			}
			pick := r.RNG(c.stage, uint64(c.idx), 23, uint64(ei), uint64(ph), uint64(g))
			wg.Add(1)
			go func(mine []*walker, pick *prng.R) {
				defer wg.Done()
				for i := 0; i < m.ops; i++ {
					w := mine[pick.Intn(len(mine))]
					if pick.Chance(1, 2) {
						w.opRead() // reads are what a foreign cache entry would corrupt
					} else {
						w.step()
					}
				}
			}(ws[g], pick)
		}
		wg.Wait()
		for g := range ws {
			for k, w := range ws[g] {
				w.flush()
				tot.add(w.st)
				crossedPerLayer[k] += w.st.m["read.crossed_chunk_boundary"]
			}
		}
	}
	phase(0)
	if m.reopen {
		// release one layer (evicted from the resolver's cache: reader, caches and blob are
		// closed) and resolve it again; the other layers stay mounted
		bgWG.Wait()
		j := int(prng.Hash64(seed, 7) % uint64(len(cases)))
		ms[j].l.Close()
		r.Count("multilayer.layers_released_and_resolved_again", 1)
		nm := mount(j, false)
		if nm == nil {
			close(stop)
			ctlWG.Wait()
			for k, x := range ms {
				if k != j {
					x.l.Close()
				}
			}
			return
		}
		ms[j] = nm
	}
	phase(1)
	close(stop)
	ctlWG.Wait()
	bgWG.Wait()

	for k, v := range tot.m {
		r.Count(k, int(v))
		if strings.HasPrefix(k, "op.read") {
			r.Count("multilayer."+k, int(v))
		}
	}
	r.Count("registry_requests", int(reg.Requests()))
	layersCrossed := 0
	for _, n := range crossedPerLayer {
		if n > 0 {
			layersCrossed++
		}
	}
	if layersCrossed >= 2 && tot.m["op.lookup"] > 0 && tot.m["op.readdir"] > 0 {
		r.NonTrivial(fmt.Sprintf("%d/%d/%s", c.stage, c.idx, e.desc))
	} else {
		r.Count("trivial_environments", 1)
	}
	for _, x := range ms {
		x.l.Close()
	}
}
