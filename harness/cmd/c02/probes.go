package main

import (
	"archive/tar"
	"fmt"
	"os"
	"path/filepath"

	"verifharness/internal/blob"
	"verifharness/internal/gen"
	"verifharness/internal/vf"
)

// Stage "probes": a handful of hand-minimised inputs, one per weak spot that the random
// exploration found (NOTES.md). They go through exactly the same environment code and
// oracle as the generated cases (runEnv), so they add no oracle of their own; they only make
// sure that every run — whatever the seed — visits these corners. Each probe is journaled:
// the one that can kill the process runs last.
type probe struct {
	name  string
	multi int // > 0: a multi-layer environment with that many same-shaped layers
	ents  []gen.Entry
	bopts blob.Opts
	env   func(e *envSpec)
}

func probeList() []probe {
	reg := func(name string, size int64, id uint64) gen.Entry {
		return gen.Entry{Name: name, Type: tar.TypeReg, Mode: 0o644, ModTime: 1600000000, Size: size, ContentID: id}
	}
	return []probe{
		{
			// explicit root entry with non-default attributes (db: root attributes before the
			// background load finished; root child ".")
			name: "root-entry",
			ents: []gen.Entry{
				{Name: "./", Type: tar.TypeDir, Mode: 0o700, UID: 1000, GID: 1000, ModTime: 1500000000, Xattrs: map[string]string{"user.rootattr": "v"}},
				reg("./a", 5, 11),
				{Name: "./d/", Type: tar.TypeDir, Mode: 0o755, ModTime: 1500000001},
				reg("./d/b", 4097, 13),
			},
			bopts: blob.Opts{ChunkSize: 4096, Compression: "gzip", Level: 1},
		},
		{
			// several chunks of one file inside one gzip stream (min-chunk-size > chunk size)
			name:  "min-chunk-stream",
			ents:  []gen.Entry{reg("f", 3*4096+3, 21), reg("g", 10, 23), reg("h", 4096, 25)},
			bopts: blob.Opts{ChunkSize: 4096, MinChunkSize: 8192, Compression: "gzip", Level: 1},
		},
		{
			// an empty regular file inside the first gzip stream (offset 0) of a blob built with
			// min-chunk-size: only prioritized files live in that stream (the landmark opens
			// the next one)
			name:  "min-chunk-empty-prioritized-file",
			ents:  []gen.Entry{reg("a", 200, 61), reg("empty", 0, 63), reg("b", 10, 65)},
			bopts: blob.Opts{ChunkSize: 64, MinChunkSize: 4096, Compression: "gzip", Level: 1, Prioritized: []string{"a", "empty"}},
		},
		{
			// the same with zstd:chunked and many small files per stream
			name:  "min-chunk-stream-zstd",
			ents:  []gen.Entry{reg("a", 100, 31), reg("b", 200, 33), reg("c", 3*512+1, 35), reg("d", 1, 37)},
			bopts: blob.Opts{ChunkSize: 512, MinChunkSize: 4096, Compression: "zstdchunked", Level: 1},
		},
		{
			// on-memory LRU under pressure: few hot chunks, an LRU smaller than the hot set, many
			// readers and continuous eviction of the cache FILES (a chunk is only Added again
			// when it is neither in memory nor on disk): cache hits (Get + ReadAt of the pooled
			// buffer) constantly overlap with Adds that evict LRU entries and recycle buffers
			name:  "lru-pressure",
			ents:  []gen.Entry{reg("a", 2*4096, 81), reg("b", 2*4096, 83), reg("c", 2*4096, 85)},
			bopts: blob.Opts{ChunkSize: 4096, Compression: "gzip", Level: 1},
			env: func(e *envSpec) {
				e.cfg.DirectoryCacheConfig.MaxLRUCacheEntry, e.cfg.DirectoryCacheConfig.MaxCacheFds = 3, 2
				e.cfg.BlobConfig.ChunkSize = 0
				e.walkers, e.opsA, e.opsC, e.readHeavy, e.evict = 12, 500, 100, true, true
				e.prefetchSize = 0
			},
		},
		{
			// two layers of the same shape through one resolver, on-memory LRU in use: the
			// chunk-cache keys (node id, chunk offset, chunk size) of the two layers coincide
			name:  "same-shaped-layers",
			multi: 3,
			ents:  []gen.Entry{reg("a", 3*64+5, 71), reg("b", 64, 73), reg("c", 200, 75), reg("d/e", 129, 77), reg("d/f", 64, 79)},
			bopts: blob.Opts{ChunkSize: 64, Compression: "gzip", Level: 1},
		},
		{
			// passthrough with a merge buffer that is a multiple of the chunk size
			name:  "passthrough-aligned",
			ents:  []gen.Entry{reg("f", 5*64+7, 41), reg("empty", 0, 43), reg("one", 1, 45)},
			bopts: blob.Opts{ChunkSize: 64, Compression: "gzip", Level: 1},
			env: func(e *envSpec) {
				e.cfg.PassThrough, e.cfg.DirectoryCacheConfig.Direct = true, true
				e.cfg.MergeBufferSize, e.cfg.MergeWorkerCount = 128, 3
			},
		},
		{
			// passthrough with merge_worker_count = 0 and a merge buffer larger than the chunks
			// (batched merge): multi-chunk file, single-chunk file (its merged entry IS its
			// chunk entry), empty file
			name:  "passthrough-workers-zero",
			ents:  []gen.Entry{reg("f", 5*64+7, 91), reg("single", 40, 93), reg("empty", 0, 95)},
			bopts: blob.Opts{ChunkSize: 64, Compression: "gzip", Level: 1},
			env: func(e *envSpec) {
				e.cfg.PassThrough, e.cfg.DirectoryCacheConfig.Direct = true, true
				e.cfg.MergeBufferSize, e.cfg.MergeWorkerCount = 400<<20, 0
			},
		},
		{
			// passthrough with merge_buffer_size = 0 (every chunk is "large": sequential merge)
			name:  "passthrough-buffer-zero",
			ents:  []gen.Entry{reg("f", 5*64+7, 97), reg("empty", 0, 99)},
			bopts: blob.Opts{ChunkSize: 64, Compression: "gzip", Level: 1},
			env: func(e *envSpec) {
				e.cfg.PassThrough, e.cfg.DirectoryCacheConfig.Direct = true, true
				e.cfg.MergeBufferSize, e.cfg.MergeWorkerCount = 0, 2
			},
		},
		{
			// passthrough with a negative merge_worker_count (may kill the process: near the end)
			name:  "passthrough-workers-negative",
			ents:  []gen.Entry{reg("f", 5*64+7, 101)},
			bopts: blob.Opts{ChunkSize: 64, Compression: "gzip", Level: 1},
			env: func(e *envSpec) {
				e.cfg.PassThrough, e.cfg.DirectoryCacheConfig.Direct = true, true
				e.cfg.MergeBufferSize, e.cfg.MergeWorkerCount = 256, -1
			},
		},
		{
			// passthrough with a merge buffer that is NOT a multiple of the chunk size (last:
			// on the unchanged tree this one kills the process)
			name:  "passthrough-misaligned",
			ents:  []gen.Entry{reg("f", 5*64+7, 51)},
			bopts: blob.Opts{ChunkSize: 64, Compression: "gzip", Level: 1},
			env: func(e *envSpec) {
				e.cfg.PassThrough, e.cfg.DirectoryCacheConfig.Direct = true, true
				e.cfg.MergeBufferSize, e.cfg.MergeWorkerCount = 100, 3
			},
		},
	}
}

func probesStage(r *vf.Run) {
	if len(r.ChildArgs) < 2 {
		r.Inconclusive("probes child started without arguments")
		return
	}
	jf, err := os.OpenFile(r.ChildArgs[0], os.O_CREATE|os.O_WRONLY|os.O_APPEND, 0o644)
	if err != nil {
		r.Inconclusive("cannot open journal: " + err.Error())
		return
	}
	defer jf.Close()
	from := 0
	fmt.Sscan(r.ChildArgs[1], &from)
	ps := probeList()
	for i := from; i < len(ps); i++ {
		p := ps[i]
		fmt.Fprintf(jf, "BEGIN %d %s\n", i, p.name)
		_ = jf.Sync()
		c := &tcase{stage: 5, idx: i, chunk: p.bopts.ChunkSize, ents: p.ents, bopts: p.bopts}
		c.index()
		r.Eval(1)
		built, err := blob.Build(c.tarBytes, c.bopts)
		if err != nil {
			r.Inconclusive("probe " + p.name + ": build failed: " + classify(err.Error()))
		} else {
			c.built = built
			for si, store := range []string{"memory", "db"} {
				if p.multi > 0 {
					e := &envSpec{store: store, personas: []string{"honest"}}
					e.cfg.BlobConfig.ChunkSize = 1000
					e.desc = fmt.Sprintf("%s probe:%s multilayer layers=%d reopen direct=false lru=default", store, p.name, p.multi)
					runMultiEnv(r, c, e, multiSpec{layers: p.multi, reopen: true, walkers: 4, ops: 150}, si)
					continue
				}
				e := &envSpec{store: store, walkers: 4, opsA: 120, opsC: 40, personas: []string{"honest"}, prefetchSize: int64(len(built.Blob)), adopt: si == 0}
				e.cfg.BlobConfig.ChunkSize = 1000
				if p.env != nil {
					p.env(e)
				}
				e.desc = fmt.Sprintf("%s probe:%s regchunk=1000 passthrough=%v mergebuf=%d workers=%d", store, p.name, e.cfg.PassThrough, e.cfg.MergeBufferSize, e.cfg.MergeWorkerCount)
				runEnv(r, c, e, si)
			}
		}
		fmt.Fprintf(jf, "END %d %s\n", i, p.name)
		_ = jf.Sync()
		r.FlushPartial()
	}
}

// runProbes is the parent side: resume after a probe that killed the child.
func runProbes(r *vf.Run, race bool) {
	journal := filepath.Join(r.Scratch, fmt.Sprintf("journal-probes-%v", race))
	n := len(probeList())
	next := 0
	for restarts := 0; next < n && restarts <= n; restarts++ {
		_ = os.Remove(journal)
		ex := r.RunChild(vf.ChildSpec{Stage: "probes", Race: race, Args: []string{journal, fmt.Sprint(next)}})
		accountRaces(r, ex.Races)
		if cleanExit(ex) {
			return
		}
		b, _ := os.ReadFile(journal)
		begun, _, _ := readJournal(journal)
		if begun < next {
			begun = next
		}
		name := probeList()[begun].name
		head := headOf(ex.Output, 1<<20)
		switch {
		case ex.TimedOut:
			r.Inconclusive("probe " + name + ": child watchdog fired")
		case isResourceLimit(head):
			r.Inconclusive("probe " + name + ": child hit a resource limit")
		default:
			sig := crashSignature(head)
			r.Violate("crash:"+sig, fmt.Sprintf("probe %s: child process died: %s", name, sig),
				map[string]any{"probe": name, "journal": string(b), "crash": crashExcerpt(head), "how": "C02_ONLY=probes /verif/run.sh C02 quick"})
		}
		next = begun + 1
	}
}
