package main

import (
	"context"
	"fmt"
	"os"
	"path/filepath"
	"runtime"
	"strings"
	"sync"
	"time"

	"github.com/containerd/stargz-snapshotter/fs/layer"

	"verifharness/internal/blob"
	"verifharness/internal/gen"
	"verifharness/internal/l2"
	"verifharness/internal/memreg"
	"verifharness/internal/nodefs"
	"verifharness/internal/prng"
	"verifharness/internal/vf"
)

var t0 = time.Now()

var bg = context.Background()

func now() int64 { return int64(time.Since(t0)) }

// runCase builds the case's blob and runs its environments. It returns false when a
// watchdog fired (the caller then stops this process: abandoned goroutines may linger).
func runCase(r *vf.Run, stage uint64, idx, totalOps, maxG int) bool {
	c := genCase(r, stage, idx)
	r.Eval(1)
	built, err := blob.Build(c.tarBytes, c.bopts)
	if err != nil {
		// estargz.Build refusing an archive of the supported domain is C03's subject; here
		// it only means this case cannot be served.
		r.Inconclusive("estargz.Build failed: " + classify(err.Error()))
		r.Distinct("build_errors", classify(err.Error()))
		if os.Getenv("C02_VERBOSE") != "" {
			r.Logf("case %d: build failed: %v\n  opts %s\n  entries %s", idx, err, c.bopts, gen.Describe(c.ents))
		}
		return true
	}
	c.built = built
	r.Distinct("build_compressions", c.bopts.Compression)
	r.Distinct("build_chunk_sizes", fmt.Sprint(c.chunk))
	if c.bopts.MinChunkSize > 0 {
		r.Count("cases_with_min_chunk_size", 1)
	}
	if len(c.bopts.Prioritized) > 0 {
		r.Count("cases_with_prioritized_files", 1)
	}
	if c.rootEntry {
		r.Count("cases_with_explicit_root_entry", 1)
	}
	r.Sample(c.describe())
	// The environments of a case are independent (own registry, own root directory, own
	// bolt file): run them concurrently, the "risky" ones (configurations known to be able
	// to kill the process) in a second wave so that a crash costs as little as possible.
	envs := genEnvs(r, c, totalOps, maxG)
	allDone := true
	for wave := 0; wave < 2; wave++ {
		var wg sync.WaitGroup
		var mu sync.Mutex
		for ei, e := range envs {
			if e.risky != (wave == 1) {
				continue
			}
			wg.Add(1)
			go func(ei int, e *envSpec) {
				defer wg.Done()
				done := r.Watchdog(time.Duration(r.N(3, 10))*time.Minute, fmt.Sprintf("environment stage=%d case=%d env=%d", stage, idx, ei), func() {
					runEnv(r, c, e, ei)
				})
				if !done {
					mu.Lock()
					allDone = false
					mu.Unlock()
				}
			}(ei, e)
		}
		if wave == 0 {
			// one multi-layer environment per case (stores alternate with the case index):
			// 2-4 same-shaped layers through ONE resolver, walked interleaved (multi.go)
			store := []string{"memory", "db"}[idx%2]
			me, ms := drawMultiEnv(r.RNG(stage, uint64(idx), 20), c, store, totalOps, maxG)
			wg.Add(1)
			go func() {
				defer wg.Done()
				done := r.Watchdog(time.Duration(r.N(3, 10))*time.Minute, fmt.Sprintf("multilayer environment stage=%d case=%d", stage, idx), func() {
					runMultiEnv(r, c, me, ms, 100)
				})
				if !done {
					mu.Lock()
					allDone = false
					mu.Unlock()
				}
			}()
		}
		wg.Wait()
		if !allDone {
			dumpGoroutines()
			return false
		}
	}
	return true
}

func dumpGoroutines() {
	buf := make([]byte, 4<<20)
	n := runtime.Stack(buf, true)
	fmt.Fprintf(os.Stderr, "=== watchdog: goroutine dump ===\n%s\n", buf[:n])
}

// classify strips numbers and long hex strings so that an error text can be a set member.
func classify(s string) string {
	var sb strings.Builder
	run := 0
	for _, c := range s {
		isHex := (c >= '0' && c <= '9') || (c >= 'a' && c <= 'f')
		if isHex {
			run++
		} else {
			run = 0
		}
		if c >= '0' && c <= '9' {
			sb.WriteByte('#')
			continue
		}
		sb.WriteRune(c)
	}
	out := sb.String()
	for strings.Contains(out, "##") {
		out = strings.ReplaceAll(out, "##", "#")
	}
	if len(out) > 160 {
		out = out[:160]
	}
	return out
}

// window is one registry outage [on, off] in monotonic ns.
type envRun struct {
	r    *vf.Run
	c    *tcase
	e    *envSpec
	env  *l2.Env
	l    layer.Layer
	root string

	roots []*nodefs.N // shared, read-only after setup

	siblings []*tcase // multi-layer environments: all layers served by the same resolver
	layerNo  int      // index of this layer among them

	mu       sync.Mutex // used only by background helpers (never by walkers)
	bgErrs   []string
	prefErrs []string
}

func runEnv(r *vf.Run, c *tcase, e *envSpec, ei int) {
	r.Count("environments", 1)
	tStart := time.Now()
	defer func() {
		d := time.Since(tStart)
		r.Count("environment_wall_ms", int(d.Milliseconds()))
		if os.Getenv("C02_VERBOSE") != "" {
			r.Logf("case %d env %d (%s) took %v", c.idx, ei, e.desc, d.Round(time.Millisecond))
		}
	}()
	er := &envRun{r: r, c: c, e: e}
	er.root = filepath.Join(r.Scratch, fmt.Sprintf("env-%d-%d-%d", c.stage, c.idx, ei))
	defer os.RemoveAll(er.root)

	reg := memreg.New()
	im, err := l2.Publish(reg, "reg.test", "img", "v1", []*blob.Built{c.built})
	if err != nil {
		r.Inconclusive("publish: " + err.Error())
		return
	}
	seed := prng.Hash64(r.Seed, c.stage, uint64(c.idx), uint64(ei))
	blobDigest := im.Layers[0].Digest
	if e.redirect {
		reg.AllowToken("tok", true)
	}
	cdn := reg.CDNURL("reg.test", "img", blobDigest, "tok")
	personas := e.personas
	// The script is stateless (a pure function of the request and the case seed): it adds
	// no synchronisation between the goroutines of the code under test.
	reg.SetScript(func(q *memreg.Request) memreg.Behaviour {
		var b memreg.Behaviour
		if q.Kind != "blob" && q.Kind != "cdn" {
			return b
		}
		if q.Digest != blobDigest.String() {
			return b // config / TOC blobs: honest
		}
		if e.redirect && q.Kind == "blob" && q.Method == "GET" {
			b.RedirectTo = cdn
			b.Label = "redirect"
			return b
		}
		if len(q.Ranges) == 0 {
			return b
		}
		if e.multi400 && len(q.Ranges) > 1 {
			b.Status = 400
			b.Label = "multi400"
			return b
		}
		h := seed
		for _, x := range q.Ranges {
			h = prng.Hash64(h, uint64(x[0]), uint64(x[1]))
		}
		switch personas[h%uint64(len(personas))] {
		case "squash":
			b.Mode = memreg.Squash
		case "whole":
			b.Mode = memreg.Whole
		case "multipart-always":
			b.Mode = memreg.MultipartAlways
		}
		return b
	})

	env, err := l2.NewEnv(reg, er.root, e.cfg, e.store, layer.OverlayOpaqueAll, 0)
	if err != nil {
		r.Inconclusive("NewEnv: " + err.Error())
		return
	}
	er.env = env
	defer env.Close()

	ctx := context.Background()
	l, err := env.Resolve(ctx, im, 0)
	if err != nil {
		r.Violate("resolve:error@"+e.store, "Resolve of a genuine layer from a healthy registry failed: "+err.Error(),
			c.replay(e, map[string]any{"error": err.Error()}))
		return
	}
	er.l = l
	closed := false
	defer func() {
		if !closed {
			l.Close()
		}
	}()

	rngE := r.RNG(c.stage, uint64(c.idx), 3, uint64(ei))
	var bgWG sync.WaitGroup
	startPrefetch := func() {
		bgWG.Add(1)
		go func() {
			defer bgWG.Done()
			if err := l.Prefetch(e.prefetchSize); err != nil {
				er.mu.Lock()
				er.prefErrs = append(er.prefErrs, err.Error())
				er.mu.Unlock()
			}
			_ = l.WaitForPrefetchCompletion()
		}()
	}
	// With the db store and an explicit root entry the decision is taken after the
	// self-child probe below (see skipBG).
	probeFirst := e.store == "db" && c.rootEntry
	if e.prefetchEarly && !probeFirst && !e.tiny {
		startPrefetch() // fs.Mount: "go l.Prefetch(...)" before Verify
	}
	if err := l.Verify(c.built.TOCDigest); err != nil {
		r.Violate("verify:error@"+e.store, "Verify(genuine TOC digest) failed: "+err.Error(), c.replay(e, map[string]any{"error": err.Error()}))
		bgWG.Wait()
		return
	}

	// Root attributes, first reading: at RootNode() time (what the kernel is given at mount).
	rn, err := l.RootNode(0)
	if err != nil {
		r.Violate("rootnode:error@"+e.store, "RootNode failed: "+err.Error(), c.replay(e, nil))
		bgWG.Wait()
		return
	}
	root1 := nodefs.Root(rn)
	w0 := newWalker(er, 1000, r.RNG(c.stage, uint64(c.idx), 4, uint64(ei)))
	a1, errno := root1.Getattr()
	if errno != 0 {
		w0.violate("getattr:errno@"+e.store+":root", fmt.Sprintf("Getattr(root) at RootNode() time: errno %v", errno), nil)
	} else {
		w0.cmpAttr("", c.model.Root, &a1, ctxRootAtMount)
	}
	w0.cmpXattrs("", c.model.Root, root1, ctxRootAtMount)
	// Wait until the metadata store finished loading: any child lookup needs the whole tree.
	_, _, _ = root1.Lookup("\x01no-such-name\x01")
	// Second reading: a fresh root node after loading.
	rn2, err := l.RootNode(0)
	if err != nil {
		r.Violate("rootnode:error@"+e.store, "second RootNode failed: "+err.Error(), c.replay(e, nil))
		bgWG.Wait()
		return
	}
	root2 := nodefs.Root(rn2)
	if a2, errno := root2.Getattr(); errno != 0 {
		w0.violate("getattr:errno@"+e.store+":root", fmt.Sprintf("Getattr(root) after load: errno %v", errno), nil)
	} else {
		w0.cmpAttr("", c.model.Root, &a2, ctxRootAfterLoad)
	}
	w0.cmpXattrs("", c.model.Root, root2, ctxRootAfterLoad)
	er.roots = []*nodefs.N{root2}
	if rngE.Bool() {
		// the mount-time root keeps serving lookups too (its own attributes are judged
		// only by the first reading above)
		er.roots = append(er.roots, root1)
	}
	// Names that no tar entry can create below the root: judged once per environment, so that
	// every run sees them (the walkers draw them only now and then).
	for _, nm := range []string{".", "..", ".prefetch.landmark", ".no.prefetch.landmark", "stargz.index.json"} {
		w0.checkAbsent("", nm)
	}
	w0.flush()

	// Self-child probe. On the unchanged tree the db store gives the root of a tar with an
	// explicit root entry a child "." that is the root itself (DESIGN.md section 6; judged by
	// the walkers' absent-name lookups, key lookup:dot-self-child@db-root-entry). With that
	// child present VerifiableReader.Cache() — i.e. Prefetch and BackgroundFetch — re-walks
	// the whole tree 10001 levels deep before failing with "tree is too deep": seconds in the
	// plain build, minutes under -race. The harness therefore decides on the observed state:
	// if "." resolves, Prefetch/BackgroundFetch are only started for tiny trees in the plain
	// build (so that the error class stays visible in the evidence) and skipped otherwise.
	// Once the defect is repaired the probe answers ENOENT and nothing is skipped.
	skipBG := e.tiny
	if e.tiny {
		r.Count("prefetch_and_background_fetch_skipped(tiny registry chunk)", 1)
	}
	if probeFirst {
		if _, _, errno := root2.Lookup("."); errno == 0 {
			r.Count("db_root_self_child_observed", 1)
			if r.RaceBuild || len(c.paths) > 12 || c.chunk > 4096 || !rngE.Chance(1, 2) {
				skipBG = true
				r.Count("prefetch_and_background_fetch_skipped(db self child)", 1)
			}
		}
		if e.prefetchEarly && !skipBG {
			startPrefetch()
		}
	}

	// ---- phase A: healthy registry, walkers + background activity -------------------
	stop := make(chan struct{})
	var ctlWG sync.WaitGroup
	if !e.prefetchEarly && !skipBG {
		d := time.Duration(rngE.Intn(2000)) * time.Microsecond
		bgWG.Add(1)
		go func() {
			defer bgWG.Done()
			time.Sleep(d)
			startPrefetch()
		}()
	}
	if !skipBG {
		d := time.Duration(rngE.Intn(3000)) * time.Microsecond
		bgWG.Add(1)
		go func() {
			defer bgWG.Done()
			time.Sleep(d)
			if err := l.BackgroundFetch(); err != nil {
				er.mu.Lock()
				er.bgErrs = append(er.bgErrs, err.Error())
				er.mu.Unlock()
			}
		}()
	}
	// prioritized begin/end pairs (pause the background fetch)
	{
		prng1 := r.RNG(c.stage, uint64(c.idx), 5, uint64(ei))
		ctlWG.Add(1)
		go func() {
			defer ctlWG.Done()
			for i := 0; i < 300; i++ {
				select {
				case <-stop:
					return
				default:
				}
				env.TM.DoPrioritizedTask()
				time.Sleep(time.Duration(prng1.Intn(300)) * time.Microsecond)
				env.TM.DonePrioritizedTask()
				time.Sleep(time.Duration(prng1.Intn(3000)) * time.Microsecond)
			}
		}()
	}
	var evicted int64
	if e.evict {
		prng2 := r.RNG(c.stage, uint64(c.idx), 6, uint64(ei))
		ctlWG.Add(1)
		go func() {
			defer ctlWG.Done()
			iterations := 200
			if e.readHeavy {
				iterations = 20000 // cache-pressure probes: keep evicting until the walkers are done (bounded)
			}
			for i := 0; i < iterations; i++ {
				select {
				case <-stop:
					return
				default:
				}
				evicted += int64(evictSome(er.root, prng2))
				time.Sleep(time.Duration(prng2.Intn(2000)) * time.Microsecond)
			}
		}()
	}

	walkers := make([]*walker, e.walkers)
	for i := range walkers {
		walkers[i] = newWalker(er, i, r.RNG(c.stage, uint64(c.idx), 7, uint64(ei), uint64(i)))
	}
	runPhase := func(ops int, excuse bool) {
		var wg sync.WaitGroup
		for _, w := range walkers {
			wg.Add(1)
			go func(w *walker) {
				defer wg.Done()
				w.excuseErrors = excuse
				for i := 0; i < ops; i++ {
					if e.readHeavy && w.rng.Chance(3, 4) {
						w.opRead()
					} else {
						w.step()
					}
				}
			}(w)
		}
		wg.Wait()
	}
	runPhase(e.opsA, false)

	// ---- phase B: registry outages; read errors are excused, wrong answers are not ----
	if e.opsB > 0 {
		r.Count("environments_with_outage_phase", 1)
		prng3 := r.RNG(c.stage, uint64(c.idx), 8, uint64(ei))
		stopB := make(chan struct{})
		var bWG sync.WaitGroup
		bWG.Add(1)
		go func() {
			defer bWG.Done()
			for i := 0; i < 400; i++ {
				select {
				case <-stopB:
					reg.SetDown(false)
					return
				default:
				}
				reg.SetDown(true)
				time.Sleep(time.Duration(prng3.Intn(1500)) * time.Microsecond)
				reg.SetDown(false)
				time.Sleep(time.Duration(prng3.Intn(800)) * time.Microsecond)
			}
			reg.SetDown(false)
		}()
		runPhase(e.opsB, true)
		close(stopB)
		bWG.Wait()
	}
	// Join everything that may still be in flight (and may have been hit by an outage)
	// before the last healthy phase: nothing started before this point is running after it.
	close(stop)
	ctlWG.Wait()
	bgWG.Wait()
	reg.SetDown(false)

	// ---- phase C: healthy again, everything local or refetchable; errors are violations --
	runPhase(e.opsC, false)

	// ---- merge --------------------------------------------------------------------------
	tot := newStats()
	for _, w := range walkers {
		w.flush()
		tot.add(w.st)
	}
	tot.add(w0.st)
	for k, v := range tot.m {
		r.Count(k, int(v))
	}
	if evicted > 0 {
		r.Count("cache_files_evicted_by_harness", int(evicted))
	}
	blobGETs := 0
	for _, q := range reg.Log() {
		if q.Kind == "blob" || q.Kind == "cdn" {
			r.Distinct("personalities", q.Mode+"/"+fmt.Sprint(q.Status)+labelOf(q.Label))
			if len(q.Ranges) > 0 {
				blobGETs++
			}
			if len(q.Ranges) > 1 {
				r.Count("registry_multi_range_requests", 1)
			}
		}
	}
	r.Count("registry_requests", int(reg.Requests()))
	r.Count("registry_ranged_blob_gets", blobGETs)
	for _, s := range er.bgErrs {
		r.Count("background_fetch_errors", 1)
		r.Distinct("background_fetch_errors("+e.store+")", classify(s))
	}
	for _, s := range er.prefErrs {
		r.Count("prefetch_errors", 1)
		r.Distinct("prefetch_errors("+e.store+")", classify(s))
	}
	if len(er.bgErrs) == 0 && !skipBG {
		r.Count("background_fetch_completed", 1)
	}
	r.Distinct("stores", e.store)
	r.Distinct("cache_configs", fmt.Sprintf("fs=%s http=%s lru=%d fds=%d direct=%v syncadd=%v pt=%v", orDir(e.cfg.FSCacheType), orDir(e.cfg.HTTPCacheType),
		e.cfg.DirectoryCacheConfig.MaxLRUCacheEntry, e.cfg.DirectoryCacheConfig.MaxCacheFds, e.cfg.DirectoryCacheConfig.Direct, e.cfg.DirectoryCacheConfig.SyncAdd, e.cfg.PassThrough))
	r.Distinct("registry_chunk_size_classes", chunkClass(e.cfg.BlobConfig.ChunkSize, int64(len(c.built.Blob))))
	if e.cfg.PassThrough {
		r.Count("passthrough_environments", 1)
	}

	// non-triviality
	if e.walkers >= 2 && tot.m["op.lookup"] > 0 && tot.m["op.readdir"] > 0 && tot.m["read.crossed_chunk_boundary"] > 0 && blobGETs > 0 {
		r.NonTrivial(fmt.Sprintf("%d/%d/%s", c.stage, c.idx, e.desc))
	} else {
		r.Count("trivial_environments", 1)
	}

	closed = true
	if err := l.Close(); err != nil {
		r.Distinct("layer_close_errors", classify(err.Error()))
	}
	_ = gen.Clean
}

func labelOf(s string) string {
	if s == "" {
		return ""
	}
	return "/" + s
}

func orDir(s string) string {
	if s == "" {
		return "dir"
	}
	return s
}

func chunkClass(cs, blobLen int64) string {
	switch {
	case cs == 0:
		return "default(50000)"
	case cs == 1:
		return "1"
	case cs < 16:
		return "<16"
	case cs == blobLen:
		return "=blob"
	case cs == blobLen-1:
		return "blob-1"
	case cs > blobLen:
		return ">blob"
	case cs < 1024:
		return "<1Ki"
	default:
		return ">=1Ki"
	}
}

// evictSome unlinks up to 3 committed cache files (never files under wip/): an eviction
// of the on-disk cache. Returns the number of unlinked files.
func evictSome(root string, rng *prng.R) int {
	n := 0
	for _, sub := range []string{"fscache", "httpcache"} {
		caches, _ := os.ReadDir(filepath.Join(root, sub))
		for _, cd := range caches {
			shards, _ := os.ReadDir(filepath.Join(root, sub, cd.Name()))
			if len(shards) == 0 {
				continue
			}
			for try := 0; try < 3; try++ {
				sh := shards[rng.Intn(len(shards))]
				if sh.Name() == "wip" || !sh.IsDir() {
					continue
				}
				files, _ := os.ReadDir(filepath.Join(root, sub, cd.Name(), sh.Name()))
				if len(files) == 0 {
					continue
				}
				f := files[rng.Intn(len(files))]
				if os.Remove(filepath.Join(root, sub, cd.Name(), sh.Name(), f.Name())) == nil {
					n++
				}
			}
		}
	}
	return n
}
