package main

import (
	"context"
	"encoding/json"
	"fmt"
	"os"
	"path/filepath"
	"sort"
	"time"

	"github.com/containerd/containerd/v2/core/content"
	"github.com/containerd/containerd/v2/core/images"
	"github.com/containerd/containerd/v2/core/images/converter"
	digest "github.com/opencontainers/go-digest"
	ocispec "github.com/opencontainers/image-spec/specs-go/v1"

	"verifharness/internal/vf"
)

// checkTOCImage: the TOC image maps EVERY converted layer digest to the TOC blob that
// verifies it. Lookup follows the protocol of the repo's fetcher (and of the
// specification of the external TOC image): the manifest layer whose
// "containerd.io/snapshot/stargz/layer.digest" annotation equals the layer digest.
func checkTOCImage(r *vf.Run, c caseSpec, img *imageSrc, e *storeEnv, timg *images.Image, converted map[string]*convLayer, step string, rp func(string, any) convReplay) bool {
	scen := ""
	if step != "" {
		scen = ":" + step // the scenario class is part of the key: another history, another defect
	}
	mb, err := e.blobBytes(timg.Target.Digest.String())
	if err != nil {
		r.Violate("toc-image:manifest-not-in-store", "finalize returned a TOC image whose manifest is not in the content store", rp("", map[string]any{"target": timg.Target}))
		return false
	}
	if sha256Digest(mb) != timg.Target.Digest.String() || int64(len(mb)) != timg.Target.Size {
		r.Violate("toc-image:manifest-descriptor-mismatch", "digest/size of the TOC image target are not those of the manifest blob", rp("", map[string]any{"target": timg.Target, "length": len(mb)}))
	}
	var m manifestDoc
	if err := json.Unmarshal(mb, &m); err != nil {
		r.Violate("toc-image:manifest-invalid", "the TOC image manifest does not parse", rp("", nil))
		return false
	}
	byLayer := map[string][]ocispec.Descriptor{}
	for _, l := range m.Layers {
		byLayer[l.Annotations[annLayerDigest]] = append(byLayer[l.Annotations[annLayerDigest]], l)
	}
	r.Count("toc_image_entries", len(m.Layers))
	ok := true
	var digests []string
	for d := range converted {
		digests = append(digests, d)
	}
	sort.Strings(digests)
	for _, d := range digests {
		cl := converted[d]
		lname := fmt.Sprintf("layer %d (%s) converted to %s", cl.j, c.Layers[cl.j].Src, d)
		ents := byLayer[d]
		if len(ents) == 0 {
			r.Violate("toc-image:layer-missing:"+c.Kind+scen,
				fmt.Sprintf("the TOC image has no entry for a layer this converter instance converted (%d layers converted, %d entries in the TOC image)", len(converted), len(m.Layers)),
				rp(lname, map[string]any{"converted_layers": digests, "toc_image_layer_annotations": keysOf(byLayer)}))
			ok = false
			continue
		}
		for _, ent := range ents {
			tb, err := e.blobBytes(ent.Digest.String())
			if err != nil {
				r.Violate("toc-image:toc-blob-not-in-store", "a TOC image layer names a blob that is not in the content store", rp(lname, map[string]any{"entry": ent}))
				ok = false
				continue
			}
			if sha256Digest(tb) != ent.Digest.String() || int64(len(tb)) != ent.Size {
				r.Violate("toc-image:toc-descriptor-mismatch", "digest/size of a TOC image layer are not those of the TOC blob", rp(lname, map[string]any{"entry": ent, "length": len(tb)}))
			}
			if comp := sniff(tb); compressionOfMediaType(ent.MediaType) != comp {
				r.Violate("toc-image:toc-mediatype-mismatch", "media type of a TOC image layer does not match the compression of the TOC blob", rp(lname, map[string]any{"entry": ent, "blob": comp}))
			}
			js, err := externalTOCJSON(tb)
			if err != nil {
				r.Violate("toc-image:toc-blob-invalid", "a TOC blob of the TOC image is not a gzip'ed tar holding stargz.index.json: "+errClass(err), rp(lname, map[string]any{"entry": ent}))
				ok = false
				continue
			}
			ann := cl.rec.out.Annotations[annTOCDigest]
			got := sha256Digest(js)
			if got != ann {
				r.Violate("toc-image:toc-does-not-verify-layer:"+c.Kind+scen,
					"the TOC blob the TOC image maps the layer to is not the TOC whose digest the layer descriptor carries",
					rp(lname, map[string]any{"layer_toc_digest_annotation": ann, "sha256_of_mapped_toc_json": got}))
				ok = false
			}
			if err := repoMounts(r, c, img.Layers[cl.j], cl.blob, ann, tb, d); err != nil {
				if dump := os.Getenv("VERIF_C19_DUMP"); dump != "" {
					_ = os.WriteFile(filepath.Join(dump, "layer.blob"), cl.blob, 0o644)
					_ = os.WriteFile(filepath.Join(dump, "toc.json"), js, 0o644)
					_ = os.WriteFile(filepath.Join(dump, "source.blob"), img.Layers[cl.j].Blob, 0o644)
					_ = os.WriteFile(filepath.Join(dump, "error.txt"), []byte(err.Error()), 0o644)
				}
				r.Violate("toc-image:mapped-toc-does-not-mount-and-verify:"+c.Kind+scen, "the snapshotter's readers do not mount and verify the layer with the TOC blob the TOC image maps it to: "+errClass(err),
					rp(lname, map[string]any{"layer_toc_digest_annotation": ann}))
				ok = false
			}
			toc, err := parseTOC(js)
			if err != nil {
				r.Violate("toc-image:toc-json-invalid", "the TOC JSON of a TOC blob does not parse", rp(lname, nil))
				ok = false
				continue
			}
			checkTOCAgainstLayer(r, c, img, cl.j, toc, lname, rp)
			r.Count("toc_image_mappings_checked", 1)
		}
	}
	return ok
}

func keysOf(m map[string][]ocispec.Descriptor) []string {
	var ks []string
	for k := range m {
		ks = append(ks, k)
	}
	sort.Strings(ks)
	return ks
}

// ---------------------------------------------------------------------------
// stage "direct": the ConvertFunc contract for descriptors that are not layers.
// converter.ConvertFunc: "When the content was not converted, ConvertFunc returns nil";
// the repo's functions say "No conversion. No need to return an error here."

func directStage(r *vf.Run) {
	useScratchTmp(r)
	ctx, cancel := context.WithTimeout(context.Background(), 5*time.Minute)
	defer cancel()
	nonLayer := []string{
		ocispec.MediaTypeImageConfig,
		"application/vnd.docker.container.image.v1+json",
		ocispec.MediaTypeImageManifest,
		"application/vnd.example.artifact.v1+json",
		"application/octet-stream",
		"",
	}
	for ki, kind := range allKinds {
		c := genCase(r.RNG(2, uint64(ki)), 100000+ki, 1, true)
		c.Kind = kind
		c.Index, c.Retry, c.Labels = false, false, true
		c.Layers = c.Layers[:1]
		c.Layers[0].DupOf, c.Layers[0].Src, c.Layers[0].Dangling = -1, "gzip", false
		img, err := buildImageSrc(c)
		if err != nil {
			r.Inconclusive("direct: source could not be built")
			continue
		}
		e, err := newStore(filepath.Join(r.Scratch, fmt.Sprintf("direct-%d", ki)), true)
		if err != nil {
			r.Inconclusive("direct: store could not be created")
			continue
		}
		root, err := populate(ctx, e, c, img)
		if err != nil {
			r.Inconclusive("direct: source could not be written")
			continue
		}
		mans, err := readManifests(e, root)
		if err != nil || len(mans) != 1 {
			r.Inconclusive("direct: source manifest unreadable")
			continue
		}
		lcf, finalize := newConverter(c, []digest.Digest{img.Layers[0].Digest})
		// first a genuine layer, so that the converter instance has state
		callDirect(r, ctx, e.cs, lcf, mans[0].Layers[0], kind, "layer")
		for _, mt := range nonLayer {
			d := mans[0].Config // an existing blob, described with a non-layer media type
			d.MediaType = mt
			callDirect(r, ctx, e.cs, lcf, d, kind, "non-layer-descriptor")
		}
		if finalize != nil {
			panicked, pv, stack := vf.Recover(func() { _, _ = finalize(ctx, e.cs, "registry.invalid/c19/direct:x", &root) })
			if panicked {
				class, site, _ := crashSignatureText(fmt.Sprintf("panic: %v\n\ngoroutine 1 [running]:\n%s\n\n", pv, stack))
				r.Violate(class+"@"+site+":finalize-after-direct-calls:"+kind, fmt.Sprintf("finalize panicked: %v", pv), map[string]any{"kind": kind, "stack": tail(stack, 2500)})
			}
		}
	}
}

func callDirect(r *vf.Run, ctx context.Context, cs content.Store, lcf converter.ConvertFunc, d ocispec.Descriptor, kind, scen string) {
	r.Eval(1)
	r.Count("direct_calls_"+scen, 1)
	var out *ocispec.Descriptor
	var err error
	panicked, pv, stack := vf.Recover(func() { out, err = lcf(ctx, cs, d) })
	if panicked {
		class, site, _ := crashSignatureText(fmt.Sprintf("panic: %v\n\ngoroutine 1 [running]:\n%s\n\n", pv, stack))
		r.Violate(class+"@"+site+":"+scen,
			fmt.Sprintf("the %s layer ConvertFunc panicked (%v) when called with a descriptor of media type %q; a ConvertFunc has to return nil for content it does not convert", kind, pv, d.MediaType),
			map[string]any{"kind": kind, "descriptor": d, "stack": tail(stack, 2500)})
		return
	}
	switch {
	case err != nil:
		r.Distinct("direct_call_outcomes", kind+" "+scen+": error "+errClass(err))
	case out == nil:
		r.Distinct("direct_call_outcomes", kind+" "+scen+": nil (not converted)")
	default:
		r.Distinct("direct_call_outcomes", kind+" "+scen+": converted to "+out.MediaType)
	}
	_ = digest.Digest("")
}
