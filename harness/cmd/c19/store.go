package main

// Assembling source images in a containerd content/local store.

import (
	"bytes"
	"compress/gzip"
	"context"
	"encoding/json"
	"fmt"
	"hash/fnv"
	"os"
	"path/filepath"
	"strconv"
	"strings"
	"sync"

	"github.com/containerd/containerd/v2/core/content"
	"github.com/containerd/containerd/v2/plugins/content/local"
	"github.com/containerd/stargz-snapshotter/estargz"
	"github.com/klauspost/compress/zstd"
	digest "github.com/opencontainers/go-digest"
	ocispec "github.com/opencontainers/image-spec/specs-go/v1"

	"verifharness/internal/blob"
)

// shardedLabels is the label store of the content store. It is sharded by digest so
// that the monitor adds (almost) no happens-before edges between conversions of
// different layers (AUTHORING rule 4); the real containerd metadata store serialises
// far more. Returned maps are copies (the converters mutate what Info returns).
type shardedLabels struct {
	shards [256]struct {
		mu sync.Mutex
		m  map[digest.Digest]map[string]string
	}
}

func newShardedLabels() *shardedLabels {
	s := &shardedLabels{}
	for i := range s.shards {
		s.shards[i].m = map[digest.Digest]map[string]string{}
	}
	return s
}

func (s *shardedLabels) shard(d digest.Digest) int {
	h := fnv.New32a()
	h.Write([]byte(d))
	return int(h.Sum32() % 256)
}

func cp(m map[string]string) map[string]string {
	r := make(map[string]string, len(m))
	for k, v := range m {
		r[k] = v
	}
	return r
}

func (s *shardedLabels) Get(d digest.Digest) (map[string]string, error) {
	sh := &s.shards[s.shard(d)]
	sh.mu.Lock()
	defer sh.mu.Unlock()
	if m, ok := sh.m[d]; ok {
		return cp(m), nil
	}
	return nil, nil
}

func (s *shardedLabels) Set(d digest.Digest, l map[string]string) error {
	sh := &s.shards[s.shard(d)]
	sh.mu.Lock()
	defer sh.mu.Unlock()
	sh.m[d] = cp(l)
	return nil
}

func (s *shardedLabels) Update(d digest.Digest, u map[string]string) (map[string]string, error) {
	sh := &s.shards[s.shard(d)]
	sh.mu.Lock()
	defer sh.mu.Unlock()
	m, ok := sh.m[d]
	if !ok {
		m = map[string]string{}
	}
	for k, v := range u {
		if v == "" {
			delete(m, k)
		} else {
			m[k] = v
		}
	}
	sh.m[d] = m
	return cp(m), nil
}

type storeEnv struct {
	root   string
	cs     content.Store
	labels *shardedLabels // nil: store without labels
}

func newStore(root string, withLabels bool) (*storeEnv, error) {
	if err := os.MkdirAll(root, 0o755); err != nil {
		return nil, err
	}
	e := &storeEnv{root: root}
	var err error
	if withLabels {
		e.labels = newShardedLabels()
		e.cs, err = local.NewLabeledStore(root, e.labels)
	} else {
		e.cs, err = local.NewStore(root)
	}
	return e, err
}

// blobBytes reads a committed blob straight from the store directory.
func (e *storeEnv) blobBytes(d string) ([]byte, error) {
	i := strings.IndexByte(d, ':')
	if i < 0 {
		return nil, fmt.Errorf("bad digest %q", d)
	}
	return os.ReadFile(filepath.Join(e.root, "blobs", d[:i], d[i+1:]))
}

func (e *storeEnv) put(ctx context.Context, ref string, b []byte, labels map[string]string) (digest.Digest, error) {
	d := digest.FromBytes(b)
	var opts []content.Opt
	if labels != nil {
		opts = append(opts, content.WithLabels(labels))
	}
	err := content.WriteBlob(ctx, e.cs, ref, bytes.NewReader(b), ocispec.Descriptor{Digest: d, Size: int64(len(b))}, opts...)
	return d, err
}

// srcLayer is a source layer blob and the facts the oracle needs about it.
type srcLayer struct {
	Blob        []byte
	Digest      digest.Digest
	MediaType   string
	Annotations map[string]string
	DiffID      string // sha256 of the decompressed source
	MarkerSizes [nMarkers]int64
	MarkerIDs   [nMarkers]uint64 // content ids of the marker files (gen.CheckContent)
}

func gzipBytes(b []byte, level int) []byte {
	var buf bytes.Buffer
	zw, _ := gzip.NewWriterLevel(&buf, level)
	zw.Write(b)
	zw.Close()
	return buf.Bytes()
}

func zstdBytes(b []byte) []byte {
	var buf bytes.Buffer
	zw, _ := zstd.NewWriter(&buf, zstd.WithEncoderLevel(zstd.SpeedFastest))
	zw.Write(b)
	zw.Close()
	return buf.Bytes()
}

func layerMediaType(docker bool, comp string) string {
	if docker {
		switch comp {
		case "tar":
			return "application/vnd.docker.image.rootfs.diff.tar"
		case "zstd":
			return "application/vnd.docker.image.rootfs.diff.tar.zstd" // images.MediaTypeDockerSchema2LayerZstd
		default:
			return "application/vnd.docker.image.rootfs.diff.tar.gzip"
		}
	}
	switch comp {
	case "tar":
		return "application/vnd.oci.image.layer.v1.tar"
	case "zstd":
		return "application/vnd.oci.image.layer.v1.tar+zstd"
	}
	return "application/vnd.oci.image.layer.v1.tar+gzip"
}

// buildSrcLayer produces the source blob of one layer spec.
func buildSrcLayer(c caseSpec, l layerSpec) (*srcLayer, error) {
	tarBytes, ms, ids := layerTar(l.TarSeed)
	s := &srcLayer{MarkerSizes: ms, MarkerIDs: ids}
	comp := "gzip"
	switch l.Src {
	case "tar":
		s.Blob = tarBytes
		comp = "tar"
	case "gzip":
		s.Blob = gzipBytes(tarBytes, gzip.BestSpeed)
	case "zstd":
		s.Blob = zstdBytes(tarBytes)
		comp = "zstd"
	case "esgz", "zstdchunked":
		o := blob.Opts{ChunkSize: 777, Compression: "gzip", Level: 1, Workers: 1}
		if l.Src == "zstdchunked" {
			o.Compression = "zstdchunked"
			comp = "zstd"
		}
		b, err := blob.Build(tarBytes, o, estargz.WithMinChunkSize(20000)) // few gzip members: cheap to produce
		if err != nil {
			return nil, fmt.Errorf("building an already-converted input: %w", err)
		}
		s.Blob = b.Blob
		if !c.Docker {
			// the annotations of the OLD blob, as a converted image carries them
			ul, _, _ := decompressAll(b.Blob)
			s.Annotations = map[string]string{annTOCDigest: b.TOCDigest.String(), annUncompressedSize: strconv.FormatInt(ul, 10)}
		}
	default:
		return nil, fmt.Errorf("unknown src %q", l.Src)
	}
	s.MediaType = layerMediaType(c.Docker, comp)
	s.Digest = digest.FromBytes(s.Blob)
	_, d, err := decompressAll(s.Blob)
	if err != nil {
		return nil, err
	}
	s.DiffID = d
	return s, nil
}

type imageSrc struct {
	Layers []*srcLayer // per manifest layer position (repeated layers share the pointer)
}

func buildImageSrc(c caseSpec) (*imageSrc, error) {
	img := &imageSrc{}
	for _, l := range c.Layers {
		if l.DupOf >= 0 {
			img.Layers = append(img.Layers, img.Layers[l.DupOf])
			continue
		}
		s, err := buildSrcLayer(c, l)
		if err != nil {
			return nil, err
		}
		img.Layers = append(img.Layers, s)
	}
	return img, nil
}

type manifestDoc struct {
	SchemaVersion int                  `json:"schemaVersion"`
	MediaType     string               `json:"mediaType,omitempty"`
	Config        ocispec.Descriptor   `json:"config"`
	Layers        []ocispec.Descriptor `json:"layers"`
}

type indexDoc struct {
	SchemaVersion int                  `json:"schemaVersion"`
	MediaType     string               `json:"mediaType,omitempty"`
	Manifests     []ocispec.Descriptor `json:"manifests"`
}

type configDoc struct {
	Architecture string `json:"architecture"`
	OS           string `json:"os"`
	RootFS       struct {
		Type    string   `json:"type"`
		DiffIDs []string `json:"diff_ids"`
	} `json:"rootfs"`
}

// manifestPlan says which layer positions a manifest of the image uses.
type manifestPlan struct {
	Arch   string
	Layers []int // indices into caseSpec.Layers
}

func (c caseSpec) manifests() []manifestPlan {
	all := make([]int, len(c.Layers))
	for i := range all {
		all[i] = i
	}
	if !c.Index {
		return []manifestPlan{{Arch: "amd64", Layers: all}}
	}
	// two platforms sharing the first half of the layers
	h := (len(all) + 1) / 2
	a := append([]int{}, all...)
	var b []int
	b = append(b, all[:h]...)
	for i := len(all) - 1; i >= h; i-- { // second platform: rest in reverse order
		b = append(b, all[i])
	}
	return []manifestPlan{{Arch: "amd64", Layers: a}, {Arch: "arm64", Layers: b}}
}

// populate writes the source image into the store and returns the root descriptor.
func populate(ctx context.Context, e *storeEnv, c caseSpec, img *imageSrc) (ocispec.Descriptor, error) {
	var root ocispec.Descriptor
	written := map[digest.Digest]bool{}
	for j, s := range img.Layers {
		if written[s.Digest] {
			continue
		}
		written[s.Digest] = true
		var labels map[string]string
		l := c.Layers[j]
		if l.DupOf >= 0 {
			l = c.Layers[l.DupOf]
		}
		if l.Label && s.MediaType != layerMediaType(c.Docker, "tar") {
			labels = map[string]string{labelUncompressed: s.DiffID}
		}
		if _, err := e.put(ctx, fmt.Sprintf("src-layer-%d", j), s.Blob, labels); err != nil {
			return root, err
		}
	}
	mtManifest, mtConfig, mtIndex := ocispec.MediaTypeImageManifest, ocispec.MediaTypeImageConfig, ocispec.MediaTypeImageIndex
	if c.Docker {
		mtManifest = "application/vnd.docker.distribution.manifest.v2+json"
		mtConfig = "application/vnd.docker.container.image.v1+json"
		mtIndex = "application/vnd.docker.distribution.manifest.list.v2+json"
	}
	var mds []ocispec.Descriptor
	for mi, mp := range c.manifests() {
		var cfg configDoc
		cfg.Architecture, cfg.OS = mp.Arch, "linux"
		cfg.RootFS.Type = "layers"
		m := manifestDoc{SchemaVersion: 2, MediaType: mtManifest}
		for _, j := range mp.Layers {
			s := img.Layers[j]
			cfg.RootFS.DiffIDs = append(cfg.RootFS.DiffIDs, s.DiffID)
			d := ocispec.Descriptor{MediaType: s.MediaType, Digest: s.Digest, Size: int64(len(s.Blob))}
			if s.Annotations != nil {
				d.Annotations = cp(s.Annotations)
			}
			m.Layers = append(m.Layers, d)
		}
		cb, _ := json.Marshal(&cfg)
		cd, err := e.put(ctx, fmt.Sprintf("src-config-%d", mi), cb, nil)
		if err != nil {
			return root, err
		}
		m.Config = ocispec.Descriptor{MediaType: mtConfig, Digest: cd, Size: int64(len(cb))}
		mb, _ := json.Marshal(&m)
		gc := map[string]string{"containerd.io/gc.ref.content.config": cd.String()}
		for i, l := range m.Layers {
			gc[fmt.Sprintf("containerd.io/gc.ref.content.l.%d", i)] = l.Digest.String()
		}
		md, err := e.put(ctx, fmt.Sprintf("src-manifest-%d", mi), mb, gc)
		if err != nil {
			return root, err
		}
		mds = append(mds, ocispec.Descriptor{MediaType: mtManifest, Digest: md, Size: int64(len(mb)),
			Platform: &ocispec.Platform{Architecture: mp.Arch, OS: "linux"}})
	}
	if !c.Index {
		root = mds[0]
		root.Platform = nil
		return root, nil
	}
	ix := indexDoc{SchemaVersion: 2, MediaType: mtIndex, Manifests: mds}
	ib, _ := json.Marshal(&ix)
	gc := map[string]string{}
	for i, m := range mds {
		gc[fmt.Sprintf("containerd.io/gc.ref.content.m.%d", i)] = m.Digest.String()
	}
	id, err := e.put(ctx, "src-index", ib, gc)
	if err != nil {
		return root, err
	}
	return ocispec.Descriptor{MediaType: mtIndex, Digest: id, Size: int64(len(ib))}, nil
}

// writeManifest writes one more image (single manifest + config) over the given layer
// descriptors, in the media type family of the case.
func writeManifest(ctx context.Context, e *storeEnv, c caseSpec, name string, layers []ocispec.Descriptor, diffIDs []string) (ocispec.Descriptor, error) {
	mtManifest, mtConfig := ocispec.MediaTypeImageManifest, ocispec.MediaTypeImageConfig
	if c.Docker && !c.Docker2OCI {
		mtManifest = "application/vnd.docker.distribution.manifest.v2+json"
		mtConfig = "application/vnd.docker.container.image.v1+json"
	}
	var cfg configDoc
	cfg.Architecture, cfg.OS = "amd64", "linux"
	cfg.RootFS.Type = "layers"
	cfg.RootFS.DiffIDs = diffIDs
	cb, _ := json.Marshal(&cfg)
	cd, err := e.put(ctx, "cfg-"+name, cb, nil)
	if err != nil {
		return ocispec.Descriptor{}, err
	}
	m := manifestDoc{SchemaVersion: 2, MediaType: mtManifest, Layers: layers,
		Config: ocispec.Descriptor{MediaType: mtConfig, Digest: cd, Size: int64(len(cb))}}
	mb, _ := json.Marshal(&m)
	gc := map[string]string{"containerd.io/gc.ref.content.config": cd.String()}
	for i, l := range layers {
		gc[fmt.Sprintf("containerd.io/gc.ref.content.l.%d", i)] = l.Digest.String()
	}
	md, err := e.put(ctx, "manifest-"+name, mb, gc)
	if err != nil {
		return ocispec.Descriptor{}, err
	}
	return ocispec.Descriptor{MediaType: mtManifest, Digest: md, Size: int64(len(mb))}, nil
}
