package main

// Case generation: a case is one image (1-16 tiny layers), one converter kind and one
// option set; it is a pure function of (VERIF_SEED, tier, case index).

import (
	"archive/tar"
	"fmt"
	"strings"

	"verifharness/internal/gen"
	"verifharness/internal/prng"
)

const (
	kindEstargz    = "estargz"          // nativeconverter/estargz.LayerConvertFunc(common...)
	kindEstargzPer = "estargz-perlayer" // nativeconverter/estargz.LayerConvertWithLayerAndCommonOptsFunc
	kindZstd       = "zstd"             // nativeconverter/zstdchunked.LayerConvertFuncWithCompressionLevel(level, common...)
	kindZstdPer    = "zstd-perlayer"    // nativeconverter/zstdchunked.LayerConvertWithLayerOptsFuncWithCompressionLevel
	kindExtTOC     = "exttoc"           // externaltoc.LayerConvertFunc(common, level)
	kindExtTOCPer  = "exttoc-perlayer"  // externaltoc.LayerConvertWithLayerAndCommonOptsFunc
	kindLossless   = "lossless"         // externaltoc.LayerConvertLossLessFunc
	nMarkers       = 4
	markerDir      = "c19m"
)

var allKinds = []string{kindEstargz, kindEstargzPer, kindZstd, kindZstdPer, kindExtTOC, kindExtTOCPer, kindLossless}

// perLayerChunks: chunk sizes handed to individual layers; the common chunk size is
// never one of them, so a TOC tells whose option set built it.
// (every gzip member costs a fresh flate compressor, so chunks are kept to a handful per file)
var perLayerChunks = []int{300, 350, 400, 450, 500, 550, 600, 650, 333, 375, 425, 475, 525, 575, 625, 675}

const commonChunk = 1000

type layerSpec struct {
	TarSeed  uint64 `json:"tar_seed"`
	Src      string `json:"src"`    // tar | gzip | zstd | esgz | zstdchunked
	DupOf    int    `json:"dup_of"` // -1, or the index of the earlier layer whose blob is repeated
	Label    bool   `json:"label"`  // the source blob carries containerd.io/uncompressed
	Dangling bool   `json:"dangling,omitempty"`
	// Interrupted (with Dangling): the leftover ingest is not garbage but the first N bytes an
	// interrupted conversion of this very layer wrote under the converter's ref — a conversion
	// with ANOTHER option set (the ref "convert-…-from-<digest>" does not depend on the options)
	Interrupted bool `json:"interrupted,omitempty"`
	Chunk       int  `json:"chunk,omitempty"` // per-layer WithChunkSize (per-layer kinds)
	Prio        int  `json:"prio"`            // per-layer prioritized marker file, -1 none
}

type caseSpec struct {
	Idx        int         `json:"case"`
	Kind       string      `json:"kind"`
	Docker     bool        `json:"docker_media_types"`
	Docker2OCI bool        `json:"docker2oci"`
	Index      bool        `json:"index"`     // image index with two platform manifests, converted with platforms.All
	Labels     bool        `json:"labels"`    // content store with a label store
	Chunk      int         `json:"chunk"`     // common WithChunkSize (0: option not given)
	MinChunk   int         `json:"min_chunk"` // common WithMinChunkSize
	Level      int         `json:"level"`
	Workers    int         `json:"workers"`
	Prio       int         `json:"prio"` // common prioritized marker (-1: none). As in ctr-remote the option is append()ed to the base slice.
	Layers     []layerSpec `json:"layers"`
	Reps       int         `json:"reps"`
	Lean       bool        `json:"lean"`
	Retry      bool        `json:"retry"` // the last repetition re-converts inside the store of the previous one
	// Reconvert: after the last repetition the RESULT is converted again, in the same store, by a
	// fresh converter instance with identical options: "all" = the converted image as it is,
	// "mixed" = a new image whose even layers are the converted ones and whose odd layers are the
	// original sources (an image sharing already converted layers), "" = no second step.
	Reconvert string `json:"reconvert,omitempty"`
}

func (c caseSpec) family() string {
	switch c.Kind {
	case kindZstd, kindZstdPer:
		return "zstdchunked"
	case kindLossless:
		return "lossless"
	}
	return "estargz"
}

func (c caseSpec) perLayer() bool {
	return c.Kind == kindEstargzPer || c.Kind == kindZstdPer || c.Kind == kindExtTOCPer
}

func (c caseSpec) external() bool {
	return c.Kind == kindExtTOC || c.Kind == kindExtTOCPer || c.Kind == kindLossless
}

func (c caseSpec) desc() string {
	var sb strings.Builder
	fmt.Fprintf(&sb, "case %d kind=%s docker=%v docker2oci=%v index=%v labels=%v chunk=%d minchunk=%d level=%d workers=%d prio=%d reps=%d retry=%v reconvert=%q layers=[", c.Idx, c.Kind, c.Docker, c.Docker2OCI, c.Index, c.Labels, c.Chunk, c.MinChunk, c.Level, c.Workers, c.Prio, c.Reps, c.Retry, c.Reconvert)
	for i, l := range c.Layers {
		if i > 0 {
			sb.WriteString(" ")
		}
		if l.DupOf >= 0 {
			fmt.Fprintf(&sb, "dup(%d)", l.DupOf)
			continue
		}
		fmt.Fprintf(&sb, "%s", l.Src)
		if l.Label {
			sb.WriteString("+label")
		}
		if l.Dangling && l.Interrupted {
			sb.WriteString("+interrupted")
		} else if l.Dangling {
			sb.WriteString("+dangling")
		}
		if c.perLayer() {
			fmt.Fprintf(&sb, "{chunk=%d,prio=%d}", l.Chunk, l.Prio)
		}
	}
	sb.WriteString("]")
	return sb.String()
}

// genCase draws case idx. lean (race stage): 8-10 layers, one Build worker and one gzip
// member per ~20 kB, because in the -race build every compressor instance costs up to a
// second on the shared VM; the converter glue under test is the same.
func genCase(rng *prng.R, idx int, reps int, lean bool) caseSpec {
	c := caseSpec{Idx: idx, Reps: reps, Lean: lean}
	// every kind appears in every 7 consecutive cases; the rest is drawn
	c.Kind = allKinds[idx%len(allKinds)]
	c.Docker = rng.Chance(1, 3)
	c.Docker2OCI = !c.Docker || rng.Chance(4, 5)
	if c.Kind == kindZstd || c.Kind == kindZstdPer {
		c.Docker2OCI = true // zstd:chunked "must be used in conjunction with --oci"
	}
	c.Index = rng.Chance(1, 4)
	c.Labels = rng.Chance(3, 4)
	if rng.Chance(3, 4) {
		c.Chunk = commonChunk
	}
	// Every gzip member costs a fresh 0.7 MB flate compressor (tens of ms in the -race
	// build), and without WithMinChunkSize every tar entry and every chunk is a member of
	// its own. The subject here is the converter glue, not Build: most cases ask for one
	// member per ~20 kB, a quarter keeps the one-member-per-chunk layout.
	switch rng.Intn(8) {
	case 0, 1:
		c.MinChunk = 0
	case 2:
		c.MinChunk = rng.Pick(300, 2000)
	default:
		c.MinChunk = 20000
	}
	c.Level = rng.Pick(1, 1, 1, 6, 9)
	if c.family() == "zstdchunked" {
		c.Level = rng.Pick(1, 2, 3)
	}
	// WithParallelism: 0 = GOMAXPROCS sub-blobs per layer, each with compressors of its own
	// (a zstd encoder allocates megabytes, which the -race build pays for per byte)
	c.Workers = rng.Pick(1, 1, 1, 1, 2, 2, 4, 0)
	c.Prio = -1
	if rng.Chance(1, 2) {
		c.Prio = rng.Intn(nMarkers)
	}
	if c.Kind == kindLossless {
		c.Prio = -1 // the lossless converter takes no prioritized files
	}
	if lean && c.Prio < 0 && (c.Kind == kindEstargz || c.Kind == kindExtTOC) {
		// fifth wave (C19-7): the constructors that take the caller's option slice always get
		// it with spare capacity in the race stage (len 6 cap 8, as ctr-remote builds it), so
		// that an in-place append by concurrently converted layers is a write to shared memory
		c.Prio = idx % nMarkers
	}
	c.Retry = reps > 1 && rng.Chance(1, 3)
	if c.external() {
		c.Reconvert = rng.PickS("all", "mixed")
	} else {
		c.Reconvert = rng.PickS("", "", "", "", "all", "mixed")
	}
	n := rng.Range(8, 16)
	if rng.Chance(1, 5) {
		n = rng.Range(1, 7)
	}
	if lean {
		n = rng.Range(8, 10)
		c.MinChunk = 20000
		c.Workers = 1
		c.Level = 1
	}
	chunkBase := rng.Intn(len(perLayerChunks))
	for j := 0; j < n; j++ {
		l := layerSpec{TarSeed: rng.U64(), DupOf: -1, Prio: -1}
		if j > 0 && rng.Chance(1, 8) {
			l.DupOf = rng.Intn(j)
			for c.Layers[l.DupOf].DupOf >= 0 {
				l.DupOf = c.Layers[l.DupOf].DupOf
			}
			c.Layers = append(c.Layers, l)
			continue
		}
		switch {
		case c.Kind == kindLossless:
			// documented domain of the lossless converter: plain or gzip'ed tar without a TOC entry
			l.Src = rng.PickS("tar", "gzip", "gzip")
		case c.Docker:
			l.Src = rng.PickS("tar", "gzip", "zstd", "gzip", "esgz", "zstd") // Docker has a zstd layer type too (images.MediaTypeDockerSchema2LayerZstd)
		default:
			l.Src = rng.PickS("tar", "gzip", "gzip", "zstd", "esgz", "zstdchunked")
		}
		l.Label = rng.Chance(1, 2)
		l.Dangling = rng.Chance(1, 4)
		l.Interrupted = rng.Bool()
		if c.perLayer() {
			l.Chunk = perLayerChunks[(chunkBase+j)%len(perLayerChunks)]
			if rng.Chance(1, 8) {
				l.Chunk = 0 // this layer has no entry in the per-layer map
			} else if rng.Chance(3, 4) {
				l.Prio = (j + idx) % nMarkers
			}
		}
		c.Layers = append(c.Layers, l)
	}
	return c
}

// effective option values of layer j (what ITS option set says).
func (c caseSpec) effective(j int) (chunk int, prio int) {
	l := c.Layers[j]
	if l.DupOf >= 0 {
		l = c.Layers[l.DupOf]
	}
	chunk, prio = c.Chunk, c.Prio
	if c.perLayer() && l.Chunk > 0 {
		// estargz options are applied in order; the per-layer ones come last
		chunk = l.Chunk
		if l.Prio >= 0 {
			prio = l.Prio
		}
	}
	if c.Kind == kindZstdPer {
		// the zstd:chunked per-layer constructor takes no common options at all
		chunk, prio = 0, -1
		if l.Chunk > 0 {
			chunk, prio = l.Chunk, l.Prio
		}
	}
	return
}

func markerName(k int) string { return fmt.Sprintf("%s/p%d", markerDir, k) }

// layerTar draws the tar of one layer: a small random tree of the shared generator plus
// the marker files c19m/p0..p3 (regular, unique, 700..1500 bytes, p0 >= 1100) that every layer
// contains, so that "whose chunk size / whose prioritized file was applied" is decidable.
func layerTar(seed uint64) (tarBytes []byte, markerSizes [nMarkers]int64, markerIDs [nMarkers]uint64) {
	rng := prng.New(seed)
	o := gen.DefaultOpts(128)
	o.MaxEntries = 4
	o.MaxFileSize = 700
	o.LongNames = false
	es := gen.RandomTar(rng, o)
	es = append(es, gen.Entry{Name: markerDir + "/", Type: tar.TypeDir, Mode: 0o755, ModTime: 1500000000})
	for k := 0; k < nMarkers; k++ {
		sz := int64(rng.Range(700, 1500))
		if k == 0 {
			sz = int64(rng.Range(1100, 1500)) // longer than the common chunk size
		}
		markerSizes[k] = sz
		markerIDs[k] = rng.U64() | 1
		es = append(es, gen.Entry{Name: markerName(k), Type: tar.TypeReg, Mode: 0o644, ModTime: 1500000000 + int64(k), Size: sz, ContentID: markerIDs[k]})
	}
	return gen.TarBytes(es), markerSizes, markerIDs
}
