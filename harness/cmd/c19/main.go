// C19 — image conversion emits descriptors that describe exactly the blobs it wrote.
//
// Real code under test: nativeconverter/estargz, nativeconverter/zstdchunked,
// nativeconverter/estargz/externaltoc (lossy and lossless) and estargz.Build, driven the
// way ctr-remote / nerdctl drive them: ONE converter instance per image, handed to
// containerd's converter.DefaultIndexConvertFunc, which converts all layers of a manifest
// (and all manifests of an index) concurrently against a content/local store.
//
// Stages (children of this process; a "fatal error: concurrent map writes" or a panic in
// one of containerd's errgroup goroutines kills the process, so every case is journaled
// before it runs and a dead batch is resumed behind the offending case):
//
//	conv   (race build)  the case list, race reports attributed to nativeconverter/
//	convp  (plain build) the same case list at full speed (other interleavings; the
//	                     semantic oracle alone, no detector)
//	direct (race build)  the layer ConvertFuncs called directly with non-layer descriptors
//
// Oracle: independent recomputation from the committed blobs (oracle.go shares no code
// with /repo) plus "estargz.Open + VerifyTOC accept the blob under the annotated digest".
package main

import (
	"bufio"
	"fmt"
	"io"
	"os"
	"path/filepath"
	"runtime/pprof"
	"strconv"
	"strings"
	"sync"
	"syscall"
	"time"

	"github.com/containerd/log"
	"github.com/sirupsen/logrus"

	"verifharness/internal/vf"
)

const attribution = "nativeconverter/"

func main() {
	vf.Main("C19", "exploration",
		"each case is one image (1-16 tiny generated layers: plain/gzip/zstd tar, already converted eStargz or zstd:chunked, repeated layers, OCI or Docker media types, manifest or two-platform index, "+
			"source labels present or absent, dangling writers under the converter's refs) converted by ONE converter instance (estargz / zstd:chunked / external-TOC / lossless; common and per-layer option sets) "+
			"through containerd's DefaultIndexConvertFunc, several times; every returned layer descriptor and the TOC image are recomputed independently from the committed blobs. "+
			"non-trivial = a conversion in which the monitor saw at least two layer conversions of the one converter instance overlap in time and every converted layer was checked; distinct by (case descriptor, repetition, build)",
		12, 60, body)
}

func quiet() {
	logrus.SetLevel(logrus.PanicLevel)
	logrus.SetOutput(io.Discard)
	log.L.Logger.SetLevel(logrus.PanicLevel)
	log.L.Logger.SetOutput(io.Discard)
}

func body(r *vf.Run) {
	quiet()
	// containerd's archive/compression forks unpigz/igzip for every gzip stream when the
	// binaries exist; forking a -race process (terabytes of shadow mappings) takes seconds.
	// The pure-Go gzip reader is the same code path of containerd minus the subprocess.
	os.Setenv("CONTAINERD_DISABLE_PIGZ", "1")
	os.Setenv("CONTAINERD_DISABLE_IGZIP", "1")
	switch r.Child {
	case "":
		top(r)
	case "conv", "convp":
		child(r)
	case "direct":
		directStage(r)
	default:
		r.Inconclusive("unknown stage " + r.Child)
	}
}

// Case counts. A conversion is expensive out of proportion to the 10 kB it converts:
// every gzip member costs a fresh 0.7 MB flate compressor and every zstd writer
// GOMAXPROCS encoders, which the -race build pays for per byte of shadow memory (on the
// shared VM of this project a page fault costs ~90 us). The race stage therefore runs
// fewer cases and repetitions than the plain stage; the race reports do not depend on
// the schedule, the semantic oracle (plain and race stage) does.
func nCases(r *vf.Run, stage string) int {
	if stage == "conv" {
		return r.N(7, 28)
	}
	return r.N(21, 105)
}

func nReps(stage string) int {
	if stage == "conv" {
		return 2
	}
	return 3
}

// caseOf: each stage has its own case stream (race: lean cases, see genCase).
func caseOf(r *vf.Run, stage string, i int) caseSpec {
	if stage == "conv" {
		return genCase(r.RNG(1, uint64(i)), i, nReps(stage), true)
	}
	return genCase(r.RNG(3, uint64(i)), i, nReps(stage), false)
}

// childEnv: fewer Ps and fewer GC cycles for the children. The race detector's verdict
// does not depend on parallelism; zstd allocates one encoder per P, Build one sub-blob
// per P, and a GC cycle has to stop every P of a process that competes with ~100 others.
var childEnv = []string{"GOMAXPROCS=4", "GOGC=400"}

// mountScratchTmpfs puts the scratch directory on a tmpfs when this process runs in a
// private mount namespace (run.sh): content/local fsyncs every commit. Returns the undo.
func mountScratchTmpfs(r *vf.Run) func() {
	// run.sh: timeout -> unshare -m (exec) -> this process; the parent (timeout) still lives
	// in the original namespace. Mount only when ours provably differs from it.
	self, err1 := os.Readlink("/proc/self/ns/mnt")
	init1, err2 := os.Readlink(fmt.Sprintf("/proc/%d/ns/mnt", os.Getppid()))
	if err1 != nil || err2 != nil || self == init1 || os.Geteuid() != 0 {
		r.Set("scratch_on_tmpfs", fmt.Sprintf("no: not in a private mount namespace (self=%s parent=%s %v %v)", self, init1, err1, err2))
		return func() {}
	}
	if err := syscall.Mount("tmpfs", r.Scratch, "tmpfs", 0, "size=6g,mode=0755"); err != nil {
		r.Set("scratch_on_tmpfs", "no: mount failed: "+err.Error())
		return func() {}
	}
	r.Set("scratch_on_tmpfs", "yes")
	return func() { _ = syscall.Unmount(r.Scratch, syscall.MNT_DETACH) }
}

func top(r *vf.Run) {
	defer mountScratchTmpfs(r)()
	if only := os.Getenv("VERIF_C19_ONLY"); only != "" {
		// debugging / replay aid: run the single case <only> (both builds), nothing else
		i, _ := strconv.Atoi(only)
		runBatches(r, "conv", i, i+1, 1, true)
		runBatches(r, "convp", i, i+1, 1, false)
		return
	}
	// The batches are independent: run a few children side by side (each has 4 Ps).
	type job struct {
		stage  string
		lo, hi int
		race   bool
	}
	var jobs []job
	split := func(stage string, per int, race bool) {
		n := nCases(r, stage)
		for lo := 0; lo < n; lo += per {
			hi := lo + per
			if hi > n {
				hi = n
			}
			jobs = append(jobs, job{stage, lo, hi, race})
		}
	}
	split("conv", r.N(1, 2), true)
	split("convp", r.N(3, 7), false)
	jobs = append(jobs, job{stage: "direct", race: true})
	ch := make(chan job)
	var wg sync.WaitGroup
	for w := 0; w < 4; w++ {
		wg.Add(1)
		go func() {
			defer wg.Done()
			for j := range ch {
				t := time.Now()
				if j.stage == "direct" {
					runDirect(r)
				} else {
					runBatches(r, j.stage, j.lo, j.hi, j.hi-j.lo, j.race)
				}
				r.Count("stage_wall_ms_"+j.stage, int(time.Since(t).Milliseconds()))
			}
		}()
	}
	for _, j := range jobs {
		ch <- j
	}
	close(ch)
	wg.Wait()
	r.Assume("containerd v2.2.3 content/local store, images/converter.DefaultIndexConvertFunc and archive/compression are the environment, not the subject; blobs are read back straight from the store directory")
	r.Assume("std compress/gzip, archive/tar, encoding/json, crypto/sha256 and klauspost/compress/zstd (trusted base) decode the blobs for the independent recomputation")
	r.Assume("the label store handed to content/local is sharded by digest; it adds happens-before edges only between operations on digests of the same shard (256 shards); a quarter of the cases run without any label store")
	r.Assume("a conversion that returns an error on a generated image proves nothing about descriptors and is counted as inconclusive, not as passed")
}

func runDirect(r *vf.Run) {
	ex := r.RunChild(vf.ChildSpec{Stage: "direct", Race: true, Timeout: 15 * time.Minute, Env: childEnv})
	accountRaces(r, ex.Races)
	if ex.TimedOut {
		r.Inconclusive("watchdog: stage direct timed out")
	} else if (ex.ExitCode != 0 && ex.ExitCode != 66) || ex.Signal != "" || !ex.Partial {
		class, site, head := crashSignature(ex.Output)
		if class != "" {
			r.Violate(class+"@"+site+":direct-call", "the process crashed ("+head+") while a layer ConvertFunc was called directly", map[string]any{"stage": "direct", "crash": head, "output_tail": tail(ex.Tail, 2500)})
		} else {
			r.Inconclusive(fmt.Sprintf("stage direct ended abnormally (exit %d %s)", ex.ExitCode, ex.Signal))
		}
	}
}

// accountRaces turns the race reports of a child into violations. The framework's own
// accounting keys a report by the innermost repo frames of BOTH stacks, but the detector
// restores the stack of the previous access from a bounded history (history_size=5) and
// that stack is often truncated or belongs to an unrelated call (seen here: a map write of
// externaltoc.layerConvert reported "in estargz.decompressBlob"). The stack of the
// current access is exact, and every racing access is the current one in some report, so
// the key is built from the current access only:
//
//	race:<map|mem>@<innermost nativeconverter function of that stack>
//
// A report counts against C19 iff one of its two stacks runs through nativeconverter/.
func accountRaces(r *vf.Run, reps []vf.RaceReport) {
	for _, rep := range reps {
		r.Count("race_reports_total", 1)
		cur, prev := rep.Access[0], rep.Access[1]
		in := func(st []string) bool {
			for _, fn := range st {
				if strings.HasPrefix(fn, repoMod+attribution) {
					return true
				}
			}
			return false
		}
		if !in(cur) && !in(prev) {
			a, b := rep.InnermostFrames()
			r.Distinct("c19_unattributed_races", a+"|"+b)
			continue
		}
		// a race whose current access is in the harness itself would be my bug
		if len(cur) > 0 && strings.HasPrefix(firstNonRuntime(cur), "main.") {
			r.Inconclusive("race report with the current access in the harness: " + firstNonRuntime(cur))
			continue
		}
		st := cur
		if !in(cur) {
			st = prev
		}
		inner, conv := "", ""
		for _, fn := range st {
			if !strings.HasPrefix(fn, repoMod) {
				continue
			}
			if inner == "" {
				inner = midFunc(fn)
			}
			if strings.HasPrefix(fn, repoMod+attribution) {
				conv = midFunc(fn)
				break
			}
		}
		acc := accessKind(rep.Text, st)
		// One key per (converter function, kind of memory): the frames below the converter
		// function (estargz.Build, (*Compressor).WriteTOCAndFooter, ...) vary with the moment
		// at which the shared object is touched and go into the description only.
		key := "race:" + acc + "@" + conv
		what := "data race (" + acc + " access in " + inner
		if conv != inner {
			what += ", called from " + conv
		}
		r.Violate(key, what+") on state shared by the concurrent layer conversions of one converter instance",
			map[string]any{"report": rep.Text, "innermost_repo_function": inner})
		r.Distinct("c19_attributed_races", key)
	}
}

const repoMod = "github.com/containerd/stargz-snapshotter/"

func firstNonRuntime(st []string) string {
	for _, fn := range st {
		if !strings.HasPrefix(fn, "runtime.") && !strings.HasPrefix(fn, "internal/runtime") {
			return fn
		}
	}
	return ""
}

// midFunc: module prefix stripped, closure suffixes and inlining prefixes normalised,
// directory kept ("nativeconverter/estargz.LayerConvertFunc" vs "estargz.Build").
func midFunc(fn string) string {
	fn = strings.TrimPrefix(fn, repoMod)
	dir := ""
	if i := strings.LastIndex(fn, "/"); i >= 0 {
		dir, fn = fn[:i+1], fn[i+1:]
	}
	return dir + shortFunc(fn)
}

func accessKind(text string, st []string) string {
	kind := "access"
	first := strings.TrimSpace(strings.TrimPrefix(text, "WARNING: DATA RACE"))
	switch {
	case strings.HasPrefix(first, "Write"):
		kind = "write"
	case strings.HasPrefix(first, "Read"):
		kind = "read"
	case strings.HasPrefix(first, "Atomic"):
		kind = "atomic"
	}
	_ = kind
	if len(st) > 0 && (strings.HasPrefix(st[0], "runtime.map") || strings.HasPrefix(st[0], "internal/runtime/maps")) {
		return "map"
	}
	return "mem"
}

// runBatches runs cases [from,n) of a stage in child processes of at most `batch` cases.
func runBatches(r *vf.Run, stage string, from, n, batch int, race bool) {
	crashes := 0
	for lo := from; lo < n; {
		hi := lo + batch
		if hi > n {
			hi = n
		}
		journal := filepath.Join(r.Scratch, fmt.Sprintf("journal-%s-%d-%d", stage, lo, crashes))
		timeout := 30 * time.Minute
		if r.Thorough() {
			timeout = 60 * time.Minute
		}
		ex := r.RunChild(vf.ChildSpec{
			Stage: stage, Args: []string{strconv.Itoa(lo), strconv.Itoa(hi), journal},
			Race: race, Timeout: timeout, Env: childEnv, // no Attribution: accountRaces below
		})
		accountRaces(r, ex.Races)
		open, lastEnd := readJournal(journal)
		if ex.TimedOut {
			r.Inconclusive("watchdog: child stage " + stage + " timed out")
			if open >= 0 {
				lo = open + 1
				continue
			}
			return
		}
		// exit status 66 is the race detector's "reports were written" status of a run that completed
		if (ex.ExitCode == 0 || ex.ExitCode == 66) && ex.Signal == "" && ex.Partial && open < 0 && lastEnd == hi-1 {
			lo = hi
			continue
		}
		r.Count("child_crashes", 1)
		crashes++
		if open < 0 {
			r.Inconclusive(fmt.Sprintf("child stage %s ended abnormally outside a case (exit %d %s)", stage, ex.ExitCode, ex.Signal))
			if lastEnd >= lo {
				lo = lastEnd + 1
				continue
			}
			return
		}
		class, site, head := crashSignature(ex.Output)
		c := caseOf(r, stage, open)
		if class == "" {
			r.Inconclusive(fmt.Sprintf("child stage %s died in a case without a recognisable crash report (exit %d %s)", stage, ex.ExitCode, ex.Signal))
		} else {
			r.Violate(class+"@"+site+":concurrent-layers",
				"the converting process crashed ("+head+") while one "+c.Kind+" converter instance converted the layers of an image concurrently (converter.DefaultIndexConvertFunc)",
				map[string]any{"stage": stage, "case": c, "descriptor": c.desc(), "crash": head,
					"note": "process-fatal: raised in a goroutine of containerd's errgroup running the repo's layer ConvertFunc", "output_tail": tail(ex.Tail, 3000)})
			r.Distinct("process_crash_sites", class+"@"+site)
		}
		lo = open + 1
		if crashes > 200 {
			r.Inconclusive("too many child crashes; stage " + stage + " abandoned")
			return
		}
	}
}

func tail(s string, n int) string {
	if len(s) > n {
		return s[len(s)-n:]
	}
	return s
}

func readJournal(path string) (open, lastEnd int) {
	open, lastEnd = -1, -1
	f, err := os.Open(path)
	if err != nil {
		return
	}
	defer f.Close()
	sc := bufio.NewScanner(f)
	for sc.Scan() {
		var i int
		if _, e := fmt.Sscanf(sc.Text(), "BEGIN %d", &i); e == nil {
			open = i
		} else if _, e := fmt.Sscanf(sc.Text(), "END %d", &i); e == nil {
			lastEnd = i
			if open == i {
				open = -1
			}
		}
	}
	return
}

// crashSignature extracts the crash class ("fatal:concurrent-map-writes", "panic:nil-deref",
// ...) and the innermost nativeconverter frame (else the innermost stargz-snapshotter
// frame) of the crashing goroutine from a dead child's output.
func crashSignature(outPath string) (class, site, head string) {
	b, err := os.ReadFile(outPath)
	if err != nil {
		return "", "", ""
	}
	return crashSignatureText(string(b))
}

func crashSignatureText(s string) (class, site, head string) {
	j := strings.Index(s, "\npanic: ")
	k := strings.Index(s, "\nfatal error: ")
	if strings.HasPrefix(s, "panic: ") {
		j = 0
	}
	if strings.HasPrefix(s, "fatal error: ") {
		k = 0
	}
	if j < 0 || (k >= 0 && k < j) {
		j = k
	}
	if j < 0 {
		return "", "", ""
	}
	rest := strings.TrimLeft(s[j:], "\n")
	head = rest
	if e := strings.Index(head, "\n"); e >= 0 {
		head = head[:e]
	}
	g := strings.Index(rest, "\ngoroutine ")
	if g < 0 {
		return crashClass(rest), "unknown", head
	}
	blk := rest[g+1:]
	if e := strings.Index(blk, "\n\n"); e >= 0 {
		blk = blk[:e]
	}
	return crashClass(rest[:g]), crashSite(blk), head
}

func crashClass(msg string) string {
	switch {
	case strings.Contains(msg, "concurrent map writes"):
		return "fatal:concurrent-map-writes"
	case strings.Contains(msg, "concurrent map read and map write"), strings.Contains(msg, "concurrent map iteration and map write"):
		return "fatal:concurrent-map-read-write"
	case strings.Contains(msg, "nil pointer dereference"):
		return "panic:nil-deref"
	case strings.Contains(msg, "index out of range"):
		return "panic:index-out-of-range"
	case strings.Contains(msg, "slice bounds out of range"):
		return "panic:slice-bounds"
	case strings.Contains(msg, "all goroutines are asleep"):
		return "fatal:deadlock"
	case strings.HasPrefix(msg, "fatal error"):
		return "fatal:other"
	}
	return "panic:other"
}

// crashSite: "externaltoc.writeTOCTo" style name of the innermost nativeconverter frame
// of the stack (closure suffixes stripped), else of the innermost repo frame.
func crashSite(stack string) string {
	const mod = repoMod
	first := ""
	for _, ln := range strings.Split(stack, "\n") {
		ln = strings.TrimSpace(ln)
		if !strings.HasPrefix(ln, mod) {
			continue
		}
		fn := strings.TrimPrefix(ln, mod)
		if j := strings.LastIndex(fn, "("); j > 0 && !strings.HasSuffix(fn[:j], ")") {
			fn = fn[:j]
		} else if j := strings.LastIndex(fn, "("); j > 0 {
			fn = fn[:j]
		}
		short := shortFunc(fn)
		if first == "" {
			first = short
		}
		if strings.HasPrefix(fn, attribution) {
			return short
		}
	}
	if first == "" {
		return "unknown"
	}
	return first
}

// shortFunc turns "nativeconverter/estargz/externaltoc.layerConvert.func1" (or, when the
// compiler inlined layerConvert into its caller, "….externaltoc.LayerConvertFunc.layerConvert.func2")
// into "externaltoc.layerConvert": closure numbering and inlining are not stable across edits.
func shortFunc(fn string) string {
	if i := strings.LastIndex(fn, "/"); i >= 0 {
		fn = fn[i+1:]
	}
	// split at dots outside parentheses
	var parts []string
	depth, start := 0, 0
	for i := 0; i < len(fn); i++ {
		switch fn[i] {
		case '(':
			depth++
		case ')':
			depth--
		case '.':
			if depth == 0 {
				parts = append(parts, fn[start:i])
				start = i + 1
			}
		}
	}
	parts = append(parts, fn[start:])
	for len(parts) > 2 {
		last := parts[len(parts)-1]
		if strings.HasPrefix(last, "func") || isDigits(last) || strings.HasPrefix(last, "gowrap") {
			parts = parts[:len(parts)-1]
			continue
		}
		break
	}
	if len(parts) <= 2 {
		return strings.Join(parts, ".")
	}
	if strings.HasPrefix(parts[len(parts)-2], "(") { // method: pkg.(*T).M
		return parts[0] + "." + parts[len(parts)-2] + "." + parts[len(parts)-1]
	}
	return parts[0] + "." + parts[len(parts)-1]
}

func isDigits(s string) bool {
	if s == "" {
		return false
	}
	for _, c := range s {
		if c < '0' || c > '9' {
			return false
		}
	}
	return true
}

// useScratchTmp: estargz.Build creates its temporary files with os.CreateTemp("", ...);
// keep them in this stage's scratch directory (never /tmp).
func useScratchTmp(r *vf.Run) {
	tmp := filepath.Join(r.Scratch, "tmp")
	_ = os.MkdirAll(tmp, 0o755)
	os.Setenv("TMPDIR", tmp)
}

// child runs cases [lo,hi) of the conversion stage.
func child(r *vf.Run) {
	if len(r.ChildArgs) != 3 {
		r.Inconclusive("child started without arguments")
		return
	}
	lo, _ := strconv.Atoi(r.ChildArgs[0])
	hi, _ := strconv.Atoi(r.ChildArgs[1])
	jf, err := os.OpenFile(r.ChildArgs[2], os.O_CREATE|os.O_WRONLY|os.O_APPEND, 0o644)
	if err != nil {
		r.Inconclusive("journal cannot be created")
		return
	}
	defer jf.Close()
	useScratchTmp(r)
	if pf := os.Getenv("VERIF_C19_PROF"); pf != "" {
		if f, err := os.Create(pf); err == nil {
			_ = pprof.StartCPUProfile(f)
			defer pprof.StopCPUProfile()
		}
	}
	for i := lo; i < hi; i++ {
		fmt.Fprintf(jf, "BEGIN %d\n", i)
		_ = jf.Sync()
		c := caseOf(r, r.Child, i)
		runCase(r, c, filepath.Join(r.Scratch, fmt.Sprintf("c%05d", i)))
		fmt.Fprintf(jf, "END %d\n", i)
		r.FlushPartial()
	}
}
