package main

// Running one case: assemble the image, build ONE converter instance, convert through
// containerd's DefaultIndexConvertFunc, observe every layer ConvertFunc call at its
// boundary, then recompute everything independently.

import (
	"bytes"
	"context"
	"encoding/json"
	"errors"
	"fmt"
	"io"
	"os"
	"sort"
	"strconv"
	"strings"
	"sync/atomic"
	"time"

	"github.com/containerd/containerd/v2/core/content"
	"github.com/containerd/containerd/v2/core/images"
	"github.com/containerd/containerd/v2/core/images/converter"
	"github.com/containerd/platforms"
	"github.com/containerd/stargz-snapshotter/cache"
	"github.com/containerd/stargz-snapshotter/estargz"
	esgzexternaltoc "github.com/containerd/stargz-snapshotter/estargz/externaltoc"
	esgzzstd "github.com/containerd/stargz-snapshotter/estargz/zstdchunked"
	fsreader "github.com/containerd/stargz-snapshotter/fs/reader"
	"github.com/containerd/stargz-snapshotter/metadata"
	memorymeta "github.com/containerd/stargz-snapshotter/metadata/memory"
	estargzconvert "github.com/containerd/stargz-snapshotter/nativeconverter/estargz"
	externaltocconvert "github.com/containerd/stargz-snapshotter/nativeconverter/estargz/externaltoc"
	zstdchunkedconvert "github.com/containerd/stargz-snapshotter/nativeconverter/zstdchunked"
	"github.com/klauspost/compress/zstd"
	digest "github.com/opencontainers/go-digest"
	ocispec "github.com/opencontainers/image-spec/specs-go/v1"

	"verifharness/internal/gen"
	"verifharness/internal/vf"
)

var t0 = time.Now()

func now() int64 { return int64(time.Since(t0)) }

type finalizeFunc func(ctx context.Context, cs content.Store, ref string, desc *ocispec.Descriptor) (*images.Image, error)

// ---------------------------------------------------------------------------
// boundary recorder (no lock and no shared atomic on the operation path: one slot per
// source digest, prepared before the conversion starts; the slot counter is per object)

type callRec struct {
	in        ocispec.Descriptor
	out       *ocispec.Descriptor // deep copy taken when the ConvertFunc returned
	err       error
	t0, t1    int64
	label     string // containerd.io/uncompressed of the new blob when the ConvertFunc returned
	hasLabel  bool
	labelErr  error
	completed bool
}

type slot struct {
	n    atomic.Int32
	recs [32]callRec
}

type recorder struct {
	slots    map[digest.Digest]*slot // read-only while the conversion runs
	labeled  bool
	overflow atomic.Int32
	unknown  atomic.Int32
}

func copyDesc(d *ocispec.Descriptor) *ocispec.Descriptor {
	if d == nil {
		return nil
	}
	c := *d
	if d.Annotations != nil {
		c.Annotations = cp(d.Annotations)
	}
	return &c
}

func (rc *recorder) wrap(inner converter.ConvertFunc) converter.ConvertFunc {
	return func(ctx context.Context, cs content.Store, desc ocispec.Descriptor) (*ocispec.Descriptor, error) {
		s := rc.slots[desc.Digest]
		if s == nil {
			rc.unknown.Add(1)
			return inner(ctx, cs, desc)
		}
		i := int(s.n.Add(1)) - 1
		if i >= len(s.recs) {
			rc.overflow.Add(1)
			return inner(ctx, cs, desc)
		}
		r := &s.recs[i]
		r.in = *copyDesc(&desc)
		r.t0 = now()
		out, err := inner(ctx, cs, desc)
		r.t1 = now()
		r.out, r.err = copyDesc(out), err
		if err == nil && out != nil && rc.labeled {
			info, ierr := cs.Info(ctx, out.Digest)
			if ierr != nil {
				r.labelErr = ierr
			} else {
				r.label, r.hasLabel = info.Labels[labelUncompressed]
			}
		}
		r.completed = true
		return out, err
	}
}

func (rc *recorder) all() []*callRec {
	var res []*callRec
	for _, s := range rc.slots {
		n := int(s.n.Load())
		if n > len(s.recs) {
			n = len(s.recs)
		}
		for i := 0; i < n; i++ {
			res = append(res, &s.recs[i])
		}
	}
	sort.Slice(res, func(i, j int) bool { return res[i].t0 < res[j].t0 })
	return res
}

// ---------------------------------------------------------------------------
// converter construction (as ctr-remote does it)

// commonOpts builds the common option slice the way cmd/ctr-remote does: a literal of
// the base options, then append() for the record-in options. Like there, the resulting
// slice may have spare capacity.
func commonOpts(c caseSpec, ignored *[]string) []estargz.Option {
	var o []estargz.Option
	if c.family() == "zstdchunked" {
		o = []estargz.Option{estargz.WithChunkSize(c.Chunk), estargz.WithParallelism(c.Workers)}
	} else {
		o = []estargz.Option{
			estargz.WithCompressionLevel(c.Level),
			estargz.WithChunkSize(c.Chunk),
			estargz.WithMinChunkSize(c.MinChunk),
			estargz.WithParallelism(c.Workers),
		}
	}
	if c.Prio >= 0 {
		o = append(o, estargz.WithPrioritizedFiles([]string{markerName(c.Prio)}))
		o = append(o, estargz.WithAllowPrioritizeNotFound(ignored))
	}
	return o
}

// perLayerOpts: the per-layer option map, keyed by the digest of the layer blob that is the
// INPUT of this conversion step (in[j] for layer position j; repeated layers share a spec).
func perLayerOpts(c caseSpec, in []digest.Digest) map[digest.Digest][]estargz.Option {
	m := map[digest.Digest][]estargz.Option{}
	for j, l := range c.Layers {
		if l.DupOf >= 0 {
			l = c.Layers[l.DupOf]
		}
		if l.Chunk == 0 {
			continue
		}
		o := []estargz.Option{estargz.WithChunkSize(l.Chunk)}
		if c.Kind == kindZstdPer {
			o = append(o, estargz.WithParallelism(c.Workers)) // this constructor takes no common options
		}
		if l.Prio >= 0 {
			o = append(o, estargz.WithPrioritizedFiles([]string{markerName(l.Prio)}))
		}
		m[in[j]] = o
	}
	return m
}

// The repo's constructors are called through function values: a direct call lets the
// compiler inline them into this package, and the closures they return would then be named
// "main.newConverter.LayerConvertFunc.layerConvert.func9" in stack traces and race reports,
// outside the attribution set.
var (
	mkEstargz     = estargzconvert.LayerConvertFunc
	mkEstargzPer  = estargzconvert.LayerConvertWithLayerAndCommonOptsFunc
	mkZstd        = zstdchunkedconvert.LayerConvertFuncWithCompressionLevel
	mkZstdPer     = zstdchunkedconvert.LayerConvertWithLayerOptsFuncWithCompressionLevel
	mkExtTOC      = externaltocconvert.LayerConvertFunc
	mkExtTOCPer   = externaltocconvert.LayerConvertWithLayerAndCommonOptsFunc
	mkExtLossless = externaltocconvert.LayerConvertLossLessFunc
)

func newConverter(c caseSpec, in []digest.Digest) (converter.ConvertFunc, finalizeFunc) {
	ignored := new([]string)
	switch c.Kind {
	case kindEstargz:
		return mkEstargz(commonOpts(c, ignored)...), nil
	case kindEstargzPer:
		return mkEstargzPer(perLayerOpts(c, in), commonOpts(c, ignored)...), nil
	case kindZstd:
		return mkZstd(zstd.EncoderLevel(c.Level), commonOpts(c, ignored)...), nil
	case kindZstdPer:
		return mkZstdPer(zstd.EncoderLevel(c.Level), perLayerOpts(c, in)), nil
	case kindExtTOC:
		return mkExtTOC(commonOpts(c, ignored), c.Level)
	case kindExtTOCPer:
		return mkExtTOCPer(perLayerOpts(c, in), commonOpts(c, ignored), c.Level)
	case kindLossless:
		return mkExtLossless(externaltocconvert.LayerConvertLossLessConfig{CompressionLevel: c.Level, ChunkSize: c.Chunk, MinChunkSize: c.MinChunk})
	}
	panic("unknown kind " + c.Kind)
}

func convertRefs(c caseSpec, s *srcLayer) []string {
	if c.family() == "zstdchunked" {
		return []string{"convert-zstdchunked-from-" + s.Digest.String(), "convert-uncompress-from-" + s.Digest.String()}
	}
	return []string{"convert-estargz-from-" + s.Digest.String()}
}

var errInterrupted = errors.New("c19: conversion interrupted (injected)")

// interruptingStore: the writers opened under a converter ref accept `limit` bytes and then
// fail, which leaves the partial ingest in the store exactly like a killed conversion.
type interruptingStore struct {
	content.Store
	limit int64
}

type interruptingWriter struct {
	content.Writer
	left int64
}

func (s *interruptingStore) Writer(ctx context.Context, opts ...content.WriterOpt) (content.Writer, error) {
	var wo content.WriterOpts
	for _, o := range opts {
		if err := o(&wo); err != nil {
			return nil, err
		}
	}
	w, err := s.Store.Writer(ctx, opts...)
	if err != nil {
		return nil, err
	}
	if strings.HasPrefix(wo.Ref, "convert-estargz-from-") || strings.HasPrefix(wo.Ref, "convert-zstdchunked-from-") {
		return &interruptingWriter{Writer: w, left: s.limit}, nil
	}
	return w, nil
}

func (w *interruptingWriter) Write(p []byte) (int, error) {
	if int64(len(p)) <= w.left {
		n, err := w.Writer.Write(p)
		w.left -= int64(n)
		return n, err
	}
	n, _ := w.Writer.Write(p[:w.left])
	w.left -= int64(n)
	return n, errInterrupted
}

// otherOptions: an option set of the same converter kind that builds other bytes
// (chunk size, level, prioritized file), for the interrupted earlier attempt.
func otherOptions(c caseSpec) caseSpec {
	a := c
	a.Chunk = 777
	a.Prio = (c.Prio + 2) % nMarkers // -1 -> 1
	if c.family() == "zstdchunked" {
		a.Level = c.Level%3 + 1
	} else if c.Level == 1 {
		a.Level = 6
	} else {
		a.Level = 1
	}
	a.Layers = append([]layerSpec{}, c.Layers...)
	for j := range a.Layers {
		if a.Layers[j].Chunk > 0 {
			a.Layers[j].Chunk += 41
		}
		a.Layers[j].Prio = (a.Layers[j].Prio + 2) % nMarkers
	}
	return a
}

// leaveDanglingWriters simulates an interrupted earlier run: an ingest under the very ref
// the converter will use, never committed, holding either garbage (100 B or 40 kB) or the
// first 64/500/1500 bytes that a conversion of the same layer with ANOTHER option set wrote
// before it was interrupted.
func leaveDanglingWriters(ctx context.Context, r *vf.Run, e *storeEnv, c caseSpec, img *imageSrc, in []digest.Digest) int {
	n := 0
	var alt converter.ConvertFunc
	for j, l := range c.Layers {
		if l.DupOf >= 0 || !l.Dangling {
			continue
		}
		if l.Interrupted {
			if alt == nil {
				alt, _ = newConverter(otherOptions(c), in)
			}
			s := img.Layers[j]
			d := ocispec.Descriptor{MediaType: s.MediaType, Digest: s.Digest, Size: int64(len(s.Blob))}
			if s.Annotations != nil {
				d.Annotations = cp(s.Annotations)
			}
			is := &interruptingStore{Store: e.cs, limit: []int64{64, 500, 1500}[j%3]}
			var err error
			panicked, _, _ := vf.Recover(func() { _, err = alt(ctx, is, d) })
			switch {
			case panicked:
				r.Inconclusive("the interrupted earlier attempt panicked")
			case errors.Is(err, errInterrupted):
				r.Count("interrupted_conversions_with_other_options_left_partial_ingest", 1)
				n++
			case err == nil:
				r.Count("interrupted_conversions_that_completed", 1)
			default:
				r.Inconclusive("the interrupted earlier attempt failed otherwise: " + errClass(err))
			}
			continue
		}
		for k, ref := range convertRefs(c, img.Layers[j]) {
			w, err := content.OpenWriter(ctx, e.cs, content.WithRef(ref))
			if err != nil {
				r.Inconclusive("dangling writer could not be created")
				continue
			}
			sz := 100
			if (j+k)%2 == 0 {
				sz = 40000 // longer than any blob of this check
			}
			garbage := bytes.Repeat([]byte{0xde, 0xad, byte(j), 0x1f, 0x8b}, sz/5)
			w.Write(garbage)
			w.Close() // no Commit, no Abort: the ingest stays
			n++
		}
	}
	return n
}

// ---------------------------------------------------------------------------

func runCase(r *vf.Run, c caseSpec, dir string) {
	build := "plain"
	if r.RaceBuild {
		build = "race"
	}
	if os.Getenv("VERIF_C19_TIMING") != "" {
		r.Logf("BEGIN %s", c.desc())
	}
	img, err := buildImageSrc(c)
	if err != nil {
		r.Inconclusive("source image could not be built: " + errClass(err))
		return
	}
	if c.Idx < 4 && r.Child == "conv" {
		r.Sample(map[string]any{"case": c.Idx, "descriptor": c.desc()})
	}
	var env *storeEnv
	defer os.RemoveAll(dir)
	for rep := 0; rep < c.Reps; rep++ {
		retry := c.Retry && rep == c.Reps-1 && env != nil
		ctx, cancel := context.WithTimeout(context.Background(), 20*time.Minute) // generous: the watchdog decides nothing
		if !retry {
			if env != nil {
				os.RemoveAll(env.root)
			}
			env, err = newStore(fmt.Sprintf("%s/store-%d", dir, rep), c.Labels)
			if err != nil {
				r.Inconclusive("content store could not be created")
				cancel()
				return
			}
		}
		root, err := populate(ctx, env, c, img) // on a retry everything exists already (AlreadyExists is fine)
		if err != nil && !retry {
			r.Inconclusive("source image could not be written: " + errClass(err))
			cancel()
			return
		}
		in := make([]digest.Digest, len(img.Layers))
		for j, s := range img.Layers {
			in[j] = s.Digest
		}
		if n := leaveDanglingWriters(ctx, r, env, c, img, in); n > 0 {
			r.Count("dangling_writers_left_under_converter_refs", n)
		}
		first := convStep{root: root, in: in, plans: c.manifests(), allowIndex: true}
		res := runConversion(ctx, r, c, img, env, first, rep, retry, build)
		if res != nil && rep == c.Reps-1 && c.Reconvert != "" {
			if second, ok := secondStep(ctx, r, c, img, env, res); ok {
				runConversion(ctx, r, c, img, env, second, rep, retry, build)
			}
		}
		cancel()
	}
}

// convStep is one conversion: the image to convert and, per layer position of the case,
// the digest of the layer blob that is the input of this step.
type convStep struct {
	name       string // "" = the generated source image | "already-converted-input" | "partly-converted-input"
	root       ocispec.Descriptor
	in         []digest.Digest
	plans      []manifestPlan
	allowIndex bool
}

// convResult is what a successful step leaves for the next one.
type convResult struct {
	final  ocispec.Descriptor
	mans   []manifestDoc
	byPos  map[int]*convLayer // layer position -> converted layer (positions of repeated layers included)
	diffID map[string]string  // converted digest -> sha256 of the decompressed blob
}

// secondStep builds the input of the two-step history: the converted image itself ("all"), or
// a new single-manifest image that shares the already converted layers at the even positions
// and has the original source layers at the odd ones ("mixed").
func secondStep(ctx context.Context, r *vf.Run, c caseSpec, img *imageSrc, e *storeEnv, res *convResult) (convStep, bool) {
	n := len(c.Layers)
	st := convStep{in: make([]digest.Digest, n)}
	for j := 0; j < n; j++ {
		cl := res.byPos[j]
		if cl == nil {
			r.Inconclusive("second step: a layer of the first conversion is not known")
			return st, false
		}
	}
	if c.Reconvert == "all" {
		st.name, st.root, st.plans, st.allowIndex = "already-converted-input", res.final, c.manifests(), true
		for j := 0; j < n; j++ {
			st.in[j] = res.byPos[j].rec.out.Digest
		}
		return st, true
	}
	// mixed: manifest 0 of the converted image lists all layers in case order
	if len(res.mans) == 0 || len(res.mans[0].Layers) != n {
		r.Inconclusive("second step: converted manifest has an unexpected shape")
		return st, false
	}
	var layers []ocispec.Descriptor
	var diffIDs []string
	for j := 0; j < n; j++ {
		if j%2 == 0 {
			d := res.mans[0].Layers[j]
			layers = append(layers, d)
			diffIDs = append(diffIDs, res.diffID[d.Digest.String()])
			st.in[j] = d.Digest
		} else {
			s := img.Layers[j]
			d := ocispec.Descriptor{MediaType: s.MediaType, Digest: s.Digest, Size: int64(len(s.Blob))}
			if s.Annotations != nil {
				d.Annotations = cp(s.Annotations)
			}
			layers = append(layers, d)
			diffIDs = append(diffIDs, s.DiffID)
			st.in[j] = s.Digest
		}
	}
	root, err := writeManifest(ctx, e, c, "mixed", layers, diffIDs)
	if err != nil {
		r.Inconclusive("second step: the mixed image could not be written: " + errClass(err))
		return st, false
	}
	all := make([]int, n)
	for j := range all {
		all[j] = j
	}
	st.name, st.root, st.plans = "partly-converted-input", root, []manifestPlan{{Arch: "amd64", Layers: all}}
	return st, true
}

type convReplay struct {
	Case  caseSpec `json:"case"`
	Desc  string   `json:"descriptor"`
	Rep   int      `json:"repetition"`
	Retry bool     `json:"retry_in_same_store"`
	Step  string   `json:"step,omitempty"`
	Build string   `json:"build"`
	Layer string   `json:"layer,omitempty"`
	More  any      `json:"detail,omitempty"`
}

// runConversion converts st.root with ONE fresh converter instance and checks everything;
// it returns nil unless the step completed and could be read back.
func runConversion(ctx context.Context, r *vf.Run, c caseSpec, img *imageSrc, e *storeEnv, st convStep, rep int, retry bool, build string) *convResult {
	root := st.root
	r.Eval(1)
	r.Count("conversions_"+c.Kind, 1)
	if st.name != "" {
		r.Count("conversions_of_"+st.name, 1)
	}
	rp := func(layer string, more any) convReplay {
		return convReplay{Case: c, Desc: c.desc(), Rep: rep, Retry: retry, Step: st.name, Build: build, Layer: layer, More: more}
	}
	rc := &recorder{slots: map[digest.Digest]*slot{}, labeled: e.labels != nil}
	for _, d := range st.in {
		if rc.slots[d] == nil {
			rc.slots[d] = &slot{}
		}
	}
	lcf, finalize := newConverter(c, st.in) // ONE instance for the whole image
	var mc platforms.MatchComparer = platforms.DefaultStrict()
	if c.Index && st.allowIndex {
		mc = platforms.All
	}
	cf := converter.DefaultIndexConvertFunc(rc.wrap(lcf), c.Docker2OCI, mc)

	var newDesc *ocispec.Descriptor
	var cerr error
	tConv := time.Now()
	panicked, pv, stack := vf.Recover(func() { newDesc, cerr = cf(ctx, e.cs, root) })
	if os.Getenv("VERIF_C19_TIMING") != "" {
		r.Logf("%s rep %d: converted in %v", c.desc(), rep, time.Since(tConv).Round(time.Millisecond))
		defer func(t time.Time) {
			r.Logf("case %d rep %d: checked in %v", c.Idx, rep, time.Since(t).Round(time.Millisecond))
		}(time.Now())
	}
	if panicked {
		class, site, _ := crashSignatureText(fmt.Sprintf("panic: %v\n\ngoroutine 1 [running]:\n%s\n\n", pv, stack))
		r.Violate(class+"@"+site+":convert:"+c.Kind, fmt.Sprintf("the conversion panicked: %v", pv), rp("", map[string]any{"stack": tail(stack, 3000)}))
		return nil
	}
	recs := rc.all()
	if os.Getenv("VERIF_C19_TIMING") != "" {
		for _, rec := range recs {
			r.Logf("   call %s: start +%v dur %v", rec.in.MediaType, time.Duration(rec.t0-int64(tConv.Sub(t0))).Round(time.Millisecond), time.Duration(rec.t1-rec.t0).Round(time.Millisecond))
		}
	}
	if cerr != nil {
		r.Inconclusive("conversion returned an error (" + c.Kind + "): " + errClass(cerr))
		r.Distinct("conversion_errors", c.Kind+": "+errClass(cerr))
		return nil
	}
	if rc.overflow.Load() > 0 || rc.unknown.Load() > 0 {
		r.Inconclusive("recorder: a layer call could not be recorded")
		return nil
	}

	// ---- overlap actually observed (non-triviality) --------------------------------
	maxConc, overlaps := concurrency(recs)
	r.Count("layer_convertfunc_calls", len(recs))
	if overlaps > 0 {
		r.Count("conversions_with_overlapping_layer_calls", 1)
	}
	r.Distinct("max_concurrent_layer_calls", strconv.Itoa(maxConc))

	// ---- the converted image ------------------------------------------------------
	final := root
	if newDesc != nil {
		final = *newDesc
	}
	mans, err := readManifests(e, final)
	if err != nil {
		r.Inconclusive("converted image cannot be read back: " + errClass(err))
		return nil
	}
	plans := st.plans
	if len(mans) != len(plans) {
		r.Inconclusive("converted image has another number of manifests than the source")
		return nil
	}

	// ---- every returned layer descriptor -----------------------------------------
	ok := true
	converted := map[string]*convLayer{} // by converted digest
	res := &convResult{final: final, mans: mans, byPos: map[int]*convLayer{}, diffID: map[string]string{}}
	srcIdx := map[digest.Digest]int{}
	for j, d := range st.in {
		if _, dup := srcIdx[d]; !dup {
			srcIdx[d] = j
		}
	}
	for _, rec := range recs {
		j := srcIdx[rec.in.Digest]
		lname := fmt.Sprintf("layer %d (%s, source %s)", j, c.Layers[j].Src, rec.in.MediaType)
		if st.name != "" {
			lname += " [" + st.name + "]"
		}
		if !rec.completed {
			r.Inconclusive("a layer ConvertFunc did not return")
			ok = false
			continue
		}
		if rec.err != nil {
			continue // the whole conversion would have failed
		}
		if rec.out == nil {
			r.Count("layers_left_unconverted", 1)
			continue
		}
		r.Count("layers_converted", 1)
		r.Distinct("media_type_transitions", c.family()+": "+rec.in.MediaType+" -> "+rec.out.MediaType)
		cl := &convLayer{rec: rec, j: j}
		if !checkLayer(r, c, img, e, rec, j, st.name == "", lname, rp, cl) {
			ok = false
		}
		converted[rec.out.Digest.String()] = cl
		res.diffID[rec.out.Digest.String()] = cl.diffID
		for jj, d := range st.in {
			if d == rec.in.Digest {
				res.byPos[jj] = cl
			}
		}
	}

	// the layers of the converted manifests must be the descriptors the ConvertFunc returned
	for mi, m := range mans {
		if len(m.Layers) != len(plans[mi].Layers) {
			r.Inconclusive("converted manifest has another number of layers than the source")
			ok = false
			continue
		}
		for li, l := range m.Layers {
			if _, okc := converted[l.Digest.String()]; !okc {
				if st.in[plans[mi].Layers[li]] == l.Digest {
					continue // left unconverted
				}
				r.Inconclusive("converted manifest names a layer no ConvertFunc call returned")
				ok = false
			}
		}
	}

	// ---- lossless: DiffIDs unchanged ---------------------------------------------
	if c.Kind == kindLossless {
		for mi, m := range mans {
			cfg, err := readConfig(e, m.Config)
			if err != nil {
				r.Inconclusive("converted config cannot be read back")
				ok = false
				continue
			}
			var want []string
			for _, j := range plans[mi].Layers {
				want = append(want, img.Layers[j].DiffID)
			}
			if strings.Join(cfg.RootFS.DiffIDs, ",") != strings.Join(want, ",") {
				r.Violate("lossless:config-diffids-changed", "after a lossless conversion rootfs.diff_ids of the image config differ from the source image",
					rp("", map[string]any{"manifest": mi, "got": cfg.RootFS.DiffIDs, "want": want}))
			}
		}
	}

	// ---- external TOC image ---------------------------------------------------------
	if finalize != nil {
		ref := fmt.Sprintf("registry.invalid/c19/img%d:rep%d%s", c.Idx, rep, st.name)
		var timg *images.Image
		var ferr error
		panicked, pv, stack := vf.Recover(func() { timg, ferr = finalize(ctx, e.cs, ref, &final) })
		switch {
		case panicked:
			class, site, _ := crashSignatureText(fmt.Sprintf("panic: %v\n\ngoroutine 1 [running]:\n%s\n\n", pv, stack))
			r.Violate(class+"@"+site+":finalize:"+c.Kind, fmt.Sprintf("finalize panicked: %v", pv), rp("", map[string]any{"stack": tail(stack, 3000)}))
			ok = false
		case ferr != nil:
			r.Inconclusive("finalize returned an error: " + errClass(ferr))
			ok = false
		default:
			if timg.Name != ref+"-esgztoc" {
				r.Violate("toc-image:name", "the TOC image is not named <ref>-esgztoc", rp("", map[string]any{"name": timg.Name, "ref": ref}))
			}
			if !checkTOCImage(r, c, img, e, timg, converted, st.name, rp) {
				ok = false
			}
		}
	}

	if ok && overlaps > 0 && len(converted) > 0 {
		r.NonTrivial(fmt.Sprintf("%s|rep%d|%s|%s", c.desc(), rep, build, st.name))
	}
	if !ok {
		return nil
	}
	return res
}

func concurrency(recs []*callRec) (maxConc, overlaps int) {
	type ev struct {
		t int64
		d int
	}
	var evs []ev
	for _, r := range recs {
		if !r.completed {
			continue
		}
		evs = append(evs, ev{r.t0, 1}, ev{r.t1, -1})
	}
	sort.Slice(evs, func(i, j int) bool {
		if evs[i].t != evs[j].t {
			return evs[i].t < evs[j].t
		}
		return evs[i].d < evs[j].d
	})
	cur := 0
	for _, e := range evs {
		cur += e.d
		if e.d > 0 && cur >= 2 {
			overlaps++
		}
		if cur > maxConc {
			maxConc = cur
		}
	}
	return
}

func errClass(err error) string {
	s := err.Error()
	// strip digests, numbers and paths so that the string is a class
	var sb strings.Builder
	for i := 0; i < len(s); i++ {
		ch := s[i]
		if ch >= '0' && ch <= '9' {
			if sb.Len() == 0 || sb.String()[sb.Len()-1] != '#' {
				sb.WriteByte('#')
			}
			continue
		}
		sb.WriteByte(ch)
	}
	out := sb.String()
	if len(out) > 160 {
		out = out[:160]
	}
	return out
}

func readManifests(e *storeEnv, d ocispec.Descriptor) ([]manifestDoc, error) {
	b, err := e.blobBytes(d.Digest.String())
	if err != nil {
		return nil, err
	}
	if images.IsIndexType(d.MediaType) {
		var ix indexDoc
		if err := json.Unmarshal(b, &ix); err != nil {
			return nil, err
		}
		var res []manifestDoc
		for _, m := range ix.Manifests {
			ms, err := readManifests(e, m)
			if err != nil {
				return nil, err
			}
			res = append(res, ms...)
		}
		return res, nil
	}
	var m manifestDoc
	if err := json.Unmarshal(b, &m); err != nil {
		return nil, err
	}
	return []manifestDoc{m}, nil
}

func readConfig(e *storeEnv, d ocispec.Descriptor) (*configDoc, error) {
	b, err := e.blobBytes(d.Digest.String())
	if err != nil {
		return nil, err
	}
	var c configDoc
	if err := json.Unmarshal(b, &c); err != nil {
		return nil, err
	}
	return &c, nil
}

// compressionOfMediaType: what a layer media type says about the compression.
func compressionOfMediaType(mt string) string {
	// exact table of the layer media types that exist (OCI image spec and containerd's images
	// package): a suffix test would accept mixtures such as "...docker...diff.tar+gzip", which
	// images.DiffCompression and every consumer treat as "no known compression"
	switch mt {
	case "application/vnd.oci.image.layer.v1.tar+gzip", "application/vnd.oci.image.layer.nondistributable.v1.tar+gzip",
		"application/vnd.docker.image.rootfs.diff.tar.gzip", "application/vnd.docker.image.rootfs.foreign.diff.tar.gzip":
		return "gzip"
	case "application/vnd.oci.image.layer.v1.tar+zstd", "application/vnd.oci.image.layer.nondistributable.v1.tar+zstd",
		"application/vnd.docker.image.rootfs.diff.tar.zstd":
		return "zstd"
	case "application/vnd.oci.image.layer.v1.tar", "application/vnd.oci.image.layer.nondistributable.v1.tar",
		"application/vnd.docker.image.rootfs.diff.tar", "application/vnd.docker.image.rootfs.foreign.diff.tar":
		return "tar"
	}
	return "unknown(" + mt + ")"
}

// checkLayer recomputes every claim of one returned layer descriptor.
func checkLayer(r *vf.Run, c caseSpec, img *imageSrc, e *storeEnv, rec *callRec, j int, firstStep bool, lname string,
	rp func(string, any) convReplay, cl *convLayer) bool {
	out := rec.out
	fam := c.family()
	src := img.Layers[j]
	scen := srcScenario(c, j)
	if !firstStep {
		scen = "already-converted-input"
	}

	// (1) digest and size are those of the committed blob
	blob, err := e.blobBytes(out.Digest.String())
	if err != nil {
		r.Violate("descriptor:blob-not-in-store:"+fam, "the returned descriptor names a digest under which the content store holds no blob", rp(lname, map[string]any{"returned": out}))
		return false
	}
	cl.blob = blob
	if got := sha256Digest(blob); got != out.Digest.String() {
		r.Violate("descriptor:digest-mismatch:"+fam, "the returned digest is not the SHA-256 of the committed blob", rp(lname, map[string]any{"returned": out, "sha256_of_blob": got}))
	}
	if int64(len(blob)) != out.Size {
		r.Violate("descriptor:size-mismatch:"+fam+":"+scen, fmt.Sprintf("the returned size is not the length of the committed blob (source size %d)", rec.in.Size),
			rp(lname, map[string]any{"returned_size": out.Size, "blob_length": len(blob), "source_size": rec.in.Size}))
	}

	// (2) media type matches the compression
	comp := sniff(blob)
	if mtc := compressionOfMediaType(out.MediaType); mtc != comp {
		r.Violate("mediatype:"+comp+"-blob-typed-"+mtc+":"+fam+":from-"+compressionOfMediaType(rec.in.MediaType),
			fmt.Sprintf("the committed blob is %s-compressed but the returned media type is %q (source media type %q)", comp, out.MediaType, rec.in.MediaType),
			rp(lname, map[string]any{"returned_media_type": out.MediaType, "blob_magic": fmt.Sprintf("% x", blob[:4])}))
	}

	// (3) uncompressed size annotation and uncompressed label
	ulen, diffID, err := decompressAll(blob)
	if err != nil {
		r.Violate("descriptor:blob-does-not-decompress:"+fam+":"+scen, "the committed blob cannot be decompressed: "+errClass(err),
			rp(lname, map[string]any{"returned": out, "blob_length": len(blob)}))
		return false
	}
	cl.diffID = diffID
	if v, okA := out.Annotations[annUncompressedSize]; !okA {
		r.Violate("annotation:uncompressed-size-missing:"+fam, "the returned descriptor has no "+annUncompressedSize+" annotation", rp(lname, map[string]any{"returned": out}))
	} else if v != strconv.FormatInt(ulen, 10) {
		r.Violate("annotation:uncompressed-size-mismatch:"+fam, "the uncompressed-size annotation is not the length of the decompressed blob",
			rp(lname, map[string]any{"annotation": v, "decompressed_length": ulen, "blob_length": len(blob)}))
	}
	if e.labels != nil {
		switch {
		case rec.labelErr != nil:
			r.Inconclusive("label of the new blob could not be read")
		case !rec.hasLabel:
			r.Violate("label-uncompressed:missing:"+fam, "when the ConvertFunc returned, the new blob carried no "+labelUncompressed+" label", rp(lname, map[string]any{"source_had_label": c.Layers[j].Label}))
		case rec.label != diffID:
			what := "label-uncompressed:mismatch:" + fam
			if rec.label == src.DiffID {
				what = "label-uncompressed:stale-source-diffid:" + fam
			}
			r.Violate(what, "when the ConvertFunc returned, the "+labelUncompressed+" label of the new blob was not the SHA-256 of the decompressed blob",
				rp(lname, map[string]any{"label": rec.label, "sha256_of_decompressed_blob": diffID, "source_diffid": src.DiffID}))
		}
		r.Count("labels_checked", 1)
	}

	// (6) lossless: DiffID unchanged
	if c.Kind == kindLossless && diffID != src.DiffID {
		r.Violate("lossless:diffid-changed", "the decompressed converted blob differs from the decompressed source", rp(lname, map[string]any{"source_diffid": src.DiffID, "converted_diffid": diffID}))
	}

	// (4) TOC digest annotation
	tocAnn, hasTOCAnn := out.Annotations[annTOCDigest]
	if !hasTOCAnn {
		r.Violate("annotation:toc-digest-missing:"+fam, "the returned descriptor has no "+annTOCDigest+" annotation", rp(lname, map[string]any{"returned": out}))
	}
	tocJSON, ctoc, loc, lerr := locateTOC(blob)
	wantExternal := c.external()
	switch {
	case lerr == errExternalTOC && wantExternal:
		// the TOC lives in the TOC image: checked by checkTOCImage
	case lerr == errExternalTOC:
		r.Violate("blob:unexpected-external-toc:"+fam, "a converter that is not the external-TOC one wrote a blob whose footer announces an external TOC", rp(lname, nil))
		return false
	case lerr != nil:
		r.Violate("blob:toc-not-locatable:"+fam, "the TOC of the committed blob cannot be located through its footer: "+errClass(lerr), rp(lname, nil))
		return false
	case wantExternal:
		r.Violate("blob:toc-inside-external-toc-blob", "the external-TOC converter wrote a blob with an embedded TOC", rp(lname, nil))
	}
	if lerr == nil {
		got := sha256Digest(tocJSON)
		if hasTOCAnn && tocAnn != got {
			r.Violate("annotation:toc-digest-mismatch:"+fam, "the TOC digest annotation is not the SHA-256 of the TOC JSON located through the footer of the committed blob",
				rp(lname, map[string]any{"annotation": tocAnn, "sha256_of_toc_json": got}))
		}
		if hasTOCAnn {
			if err := repoMounts(r, c, src, blob, tocAnn, nil, out.Digest.String()); err != nil {
				r.Violate("annotation:toc-digest-does-not-mount-and-verify:"+fam, "the snapshotter's readers do not mount and verify the committed blob under the annotated TOC digest: "+errClass(err), rp(lname, map[string]any{"annotation": tocAnn}))
			}
		}
		toc, perr := parseTOC(tocJSON)
		if perr != nil {
			r.Violate("blob:toc-json-invalid:"+fam, "the TOC JSON does not parse", rp(lname, nil))
			return false
		}
		cl.toc = toc
		checkTOCAgainstLayer(r, c, img, j, toc, lname, rp)
		if fam == "zstdchunked" {
			checkZstdManifestAnnotations(r, c, out, ctoc, loc, tocJSON, lname, rp)
		}
	}
	return true
}

// srcScenario: part of the size/digest/decompression keys — what the converter found under
// its writer ref (the Truncate(0) path).
func srcScenario(c caseSpec, j int) string {
	l := c.Layers[j]
	if l.DupOf >= 0 {
		l = c.Layers[l.DupOf]
	}
	switch {
	case l.Dangling && l.Interrupted:
		return "after-interrupted-conversion-with-other-options"
	case l.Dangling:
		return "after-dangling-writer"
	}
	return "fresh-ref"
}

// repoMounts: "the digest under which the blob mounts and verifies" — the snapshotter's own
// mount path: metadata/memory.NewReader over the blob (external TOC supplied as the
// fetcher would), fs/reader.NewReader + VerifiableReader.VerifyTOC(annotated digest), then
// every marker file is read through the verifying reader (chunk digests are checked on
// the way) and compared with the generator's content.
// When the blob was built without WithMinChunkSize the legacy estargz.Reader
// (estargz.Open + VerifyTOC) must accept it under the same digest as well; with
// MinChunkSize that legacy verifier rejects any blob ("offset N found twice": entries
// sharing a gzip member share the offset), which is recorded but is not this property.
func repoMounts(r *vf.Run, c caseSpec, src *srcLayer, blob []byte, tocDigest string, externalTOC []byte, layerDigest string) error {
	d, err := digest.Parse(tocDigest)
	if err != nil {
		return err
	}
	var verr error
	panicked, pv, _ := vf.Recover(func() {
		ds := []metadata.Decompressor{new(esgzzstd.Decompressor)}
		if externalTOC != nil {
			ds = append(ds, esgzexternaltoc.NewGzipDecompressor(func() ([]byte, error) { return externalTOC, nil }))
		}
		sr := io.NewSectionReader(bytes.NewReader(blob), 0, int64(len(blob)))
		mr, err := memorymeta.NewReader(sr, metadata.WithDecompressors(ds...))
		if err != nil {
			verr = fmt.Errorf("metadata reader: %w", err)
			return
		}
		defer mr.Close()
		vr, err := fsreader.NewReader(mr, cache.NewMemoryCache(), digest.Digest(layerDigest))
		if err != nil {
			verr = fmt.Errorf("fs reader: %w", err)
			return
		}
		defer vr.Close()
		rr, err := vr.VerifyTOC(d)
		if err != nil {
			verr = fmt.Errorf("VerifyTOC: %w", err)
			return
		}
		dirID, _, err := mr.GetChild(mr.RootID(), markerDir)
		if err != nil {
			verr = fmt.Errorf("lookup %s: %w", markerDir, err)
			return
		}
		for k := 0; k < nMarkers; k++ {
			id, attr, err := mr.GetChild(dirID, fmt.Sprintf("p%d", k))
			if err != nil {
				verr = fmt.Errorf("lookup marker: %w", err)
				return
			}
			if attr.Size != src.MarkerSizes[k] {
				verr = fmt.Errorf("marker file has another size under this TOC")
				return
			}
			f, err := rr.OpenFile(id)
			if err != nil {
				verr = fmt.Errorf("open marker: %w", err)
				return
			}
			buf := make([]byte, attr.Size)
			if n, err := f.ReadAt(buf, 0); int64(n) != attr.Size || (err != nil && err != io.EOF) {
				verr = fmt.Errorf("verified read of a marker file failed: n=%d err=%v", n, err)
				return
			}
			if at := gen.CheckContent(src.MarkerIDs[k], 0, buf); at >= 0 {
				verr = fmt.Errorf("verified read of a marker file returned other bytes than the layer holds")
				return
			}
		}
		r.Count("blobs_mounted_and_read_under_annotated_toc_digest", 1)
		// legacy reader
		var lerr error
		rd, lerr := estargz.Open(io.NewSectionReader(bytes.NewReader(blob), 0, int64(len(blob))), estargz.WithDecompressors(legacyDecompressors(externalTOC)...))
		if lerr == nil {
			_, lerr = rd.VerifyTOC(d)
		}
		switch {
		case lerr == nil:
			r.Count("blobs_accepted_by_estargz_Open_VerifyTOC", 1)
		case c.MinChunk > 0 && strings.Contains(lerr.Error(), "found twice"):
			r.Count("blobs_with_minchunksize_rejected_by_legacy_estargz_Verifiers", 1)
		default:
			verr = fmt.Errorf("estargz.Open+VerifyTOC: %w", lerr)
		}
	})
	if panicked {
		return fmt.Errorf("panic: %v", pv)
	}
	return verr
}

func legacyDecompressors(externalTOC []byte) []estargz.Decompressor {
	ds := []estargz.Decompressor{new(esgzzstd.Decompressor)}
	if externalTOC != nil {
		ds = append(ds, esgzexternaltoc.NewGzipDecompressor(func() ([]byte, error) { return externalTOC, nil }))
	}
	return ds
}

// checkTOCAgainstLayer: the TOC describes THIS layer and was built with THIS layer's options.
func checkTOCAgainstLayer(r *vf.Run, c caseSpec, img *imageSrc, j int, toc *tocDoc, lname string, rp func(string, any) convReplay) {
	fam := c.family()
	src := img.Layers[j]
	chunk, prio := c.effective(j)
	for k := 0; k < nMarkers; k++ {
		offs, size, found := toc.chunkOffsetsOf(markerName(k))
		if !found || size != src.MarkerSizes[k] {
			r.Violate("toc:describes-another-layer:"+fam, "the TOC found for the converted blob does not describe this layer's files (marker file absent or of another size)",
				rp(lname, map[string]any{"marker": markerName(k), "size_in_toc": size, "size_in_layer": src.MarkerSizes[k], "found": found}))
			return
		}
		eff := int64(chunk)
		if eff <= 0 {
			eff = 4 << 20 // default chunk size of the format
		}
		if want := expectedChunkOffsets(size, eff); !equalI64(offs, want) {
			key := fam + ":options-leak-between-layers:chunk-size"
			if !c.perLayer() || c.Kind == kindLossless {
				key = fam + ":options-not-applied:chunk-size"
			}
			r.Violate(key, fmt.Sprintf("the chunk boundaries in the TOC are not those of the chunk size given for this layer (%d)", eff),
				rp(lname, map[string]any{"marker": markerName(k), "size": size, "chunk_offsets_in_toc": offs, "expected": want}))
			break
		}
	}
	r.Count("tocs_checked_against_own_options", 1)
	if c.Kind == kindLossless {
		return // the lossless writer keeps the order of the source tar; no landmarks
	}
	li, ni := toc.indexOf(landmarkPrefetch), toc.indexOf(landmarkNoPrefetch)
	key := fam + ":options-leak-between-layers:prioritized-files"
	if !c.perLayer() {
		key = fam + ":options-not-applied:prioritized-files"
	}
	if prio < 0 {
		if li >= 0 || ni < 0 {
			r.Violate(key, "no file is prioritized for this layer but its TOC has a prefetch landmark", rp(lname, map[string]any{"prefetch_landmark_index": li, "no_prefetch_landmark_index": ni}))
		}
		return
	}
	if li < 0 {
		r.Violate(key, "a file is prioritized for this layer but its TOC has no prefetch landmark", rp(lname, map[string]any{"prioritized": markerName(prio)}))
		return
	}
	for k := 0; k < nMarkers; k++ {
		pi := toc.indexOf(markerName(k))
		if (k == prio) != (pi < li) {
			r.Violate(key, "the files laid out before the prefetch landmark are not the ones prioritized for this layer",
				rp(lname, map[string]any{"prioritized_for_this_layer": markerName(prio), "marker": markerName(k), "index": pi, "landmark_index": li}))
			return
		}
	}
}

// checkZstdManifestAnnotations: the zstd:chunked annotations are produced by the
// Compressor instance handed to Build through the option slice; a missing or foreign
// value shows that this layer was built with another layer's option (its compressor).
func checkZstdManifestAnnotations(r *vf.Run, c caseSpec, out *ocispec.Descriptor, ctoc []byte, loc tocLocation, tocJSON []byte, lname string, rp func(string, any) convReplay) {
	wantPos := fmt.Sprintf("%d:%d:%d:1", loc.Offset, len(ctoc), len(tocJSON))
	wantSum := sha256Digest(ctoc)
	pos, okP := out.Annotations[annZstdPosition]
	sum, okS := out.Annotations[annZstdChecksum]
	switch {
	case !okP || !okS:
		r.Violate("zstd:options-leak-between-layers:manifest-annotations-missing",
			"the zstd:chunked manifest annotations are missing from the returned descriptor: the layer was built with a compressor that belongs to another layer's call",
			rp(lname, map[string]any{"returned": out}))
	case pos != wantPos || sum != wantSum:
		r.Violate("zstd:options-leak-between-layers:manifest-annotations-of-another-blob",
			"the zstd:chunked manifest annotations do not describe the TOC frame of the committed blob",
			rp(lname, map[string]any{"position": pos, "recomputed_position": wantPos, "checksum": sum, "recomputed_checksum": wantSum}))
	default:
		r.Count("zstd_manifest_annotations_checked", 1)
	}
}

// convLayer is one converted layer as returned by the ConvertFunc.
type convLayer struct {
	rec    *callRec
	j      int // a layer position of the case with this source digest
	blob   []byte
	toc    *tocDoc
	diffID string // sha256 of the decompressed blob (recomputed)
}
