package main

// Independent recomputation of everything a converted layer descriptor claims.
// Nothing in this file calls into /repo: std compress/gzip, archive/tar, encoding/json,
// crypto/sha256 and klauspost zstd only (trusted base). Format knowledge comes from
// docs/estargz.md and the zstd:chunked footer layout.

import (
	"archive/tar"
	"bytes"
	"compress/gzip"
	"crypto/sha256"
	"encoding/binary"
	"encoding/hex"
	"encoding/json"
	"errors"
	"fmt"
	"io"
	"strconv"

	"github.com/klauspost/compress/zstd"
)

// Names fixed by the eStargz specification (written out here, not imported).
const (
	annTOCDigest        = "containerd.io/snapshot/stargz/toc.digest"
	annUncompressedSize = "io.containers.estargz.uncompressed-size"
	annZstdChecksum     = "io.containers.zstd-chunked.manifest-checksum"
	annZstdPosition     = "io.containers.zstd-chunked.manifest-position"
	annLayerDigest      = "containerd.io/snapshot/stargz/layer.digest"
	labelUncompressed   = "containerd.io/uncompressed"
	tocTarName          = "stargz.index.json"
	landmarkPrefetch    = ".prefetch.landmark"
	landmarkNoPrefetch  = ".no.prefetch.landmark"
)

func sha256Digest(b []byte) string {
	h := sha256.Sum256(b)
	return "sha256:" + hex.EncodeToString(h[:])
}

// sniff returns "gzip", "zstd" or "tar" from the magic number of the blob.
func sniff(b []byte) string {
	switch {
	case len(b) >= 3 && b[0] == 0x1f && b[1] == 0x8b && b[2] == 0x08:
		return "gzip"
	case len(b) >= 4 && b[0] == 0x28 && b[1] == 0xb5 && b[2] == 0x2f && b[3] == 0xfd:
		return "zstd"
	case len(b) >= 4 && b[0]&0xf0 == 0x50 && b[1] == 0x2a && b[2] == 0x4d && b[3] == 0x18:
		return "zstd" // starts with a skippable frame
	}
	return "tar"
}

// decompressAll decompresses the whole blob (all gzip members / all zstd frames,
// skippable frames skipped) and returns length and sha256 of the result.
func decompressAll(b []byte) (int64, string, error) {
	var r io.Reader
	switch sniff(b) {
	case "gzip":
		zr, err := gzip.NewReader(bytes.NewReader(b)) // multistream is the default
		if err != nil {
			return 0, "", err
		}
		defer zr.Close()
		r = zr
	case "zstd":
		zr, err := zstd.NewReader(bytes.NewReader(b))
		if err != nil {
			return 0, "", err
		}
		defer zr.Close()
		r = zr
	default:
		r = bytes.NewReader(b)
	}
	h := sha256.New()
	n, err := io.Copy(h, r)
	if err != nil {
		return 0, "", err
	}
	return n, "sha256:" + hex.EncodeToString(h.Sum(nil)), nil
}

var errExternalTOC = errors.New("footer announces an external TOC")

type tocLocation struct {
	Kind          string // "gzip" | "zstdchunked" | "external"
	Offset        int64
	CompressedLen int64 // zstd:chunked only
	RawLen        int64 // zstd:chunked only
}

// locateTOC finds the TOC JSON of an eStargz / zstd:chunked blob through its footer.
// For an external-TOC blob it returns errExternalTOC (loc.Kind == "external").
func locateTOC(b []byte) (tocJSON []byte, compressedTOC []byte, loc tocLocation, err error) {
	switch sniff(b) {
	case "gzip":
		// external-TOC footer: 46 bytes, extra subfield "STARGZEXTERNALTOC"
		if len(b) >= 46 {
			if extra, e := gzipExtra(b[len(b)-46:]); e == nil && len(extra) == 4+17 && extra[0] == 'S' && extra[1] == 'G' && string(extra[4:]) == "STARGZEXTERNALTOC" {
				return nil, nil, tocLocation{Kind: "external"}, errExternalTOC
			}
		}
		if len(b) < 51 {
			return nil, nil, loc, fmt.Errorf("blob shorter than a footer")
		}
		extra, e := gzipExtra(b[len(b)-51:])
		if e != nil {
			return nil, nil, loc, fmt.Errorf("footer: %v", e)
		}
		// 'S' 'G' LEN(2, little endian)=22 "%016xSTARGZ"
		if len(extra) != 4+22 || extra[0] != 'S' || extra[1] != 'G' || binary.LittleEndian.Uint16(extra[2:4]) != 22 || string(extra[4+16:]) != "STARGZ" {
			return nil, nil, loc, fmt.Errorf("footer extra field %q is not an eStargz footer", extra)
		}
		off, e := strconv.ParseInt(string(extra[4:4+16]), 16, 64)
		if e != nil {
			return nil, nil, loc, fmt.Errorf("footer offset: %v", e)
		}
		if off <= 0 || off >= int64(len(b)-51) {
			return nil, nil, loc, fmt.Errorf("footer offset %d outside the blob", off)
		}
		loc = tocLocation{Kind: "gzip", Offset: off}
		zr, e := gzip.NewReader(bytes.NewReader(b[off : len(b)-51]))
		if e != nil {
			return nil, nil, loc, fmt.Errorf("TOC gzip member: %v", e)
		}
		zr.Multistream(false)
		js, e := tocFromTar(zr)
		return js, nil, loc, e
	case "zstd":
		if len(b) < 48 {
			return nil, nil, loc, fmt.Errorf("blob shorter than a footer")
		}
		f := b[len(b)-40:]
		if string(f[32:40]) != "GnUlInUx" {
			return nil, nil, loc, fmt.Errorf("no zstd:chunked magic in the footer")
		}
		off := int64(binary.LittleEndian.Uint64(f[0:8]))
		clen := int64(binary.LittleEndian.Uint64(f[8:16]))
		rlen := int64(binary.LittleEndian.Uint64(f[16:24]))
		if off < 0 || clen < 0 || off+clen > int64(len(b)-48) {
			return nil, nil, loc, fmt.Errorf("footer TOC range [%d,+%d) outside the blob", off, clen)
		}
		loc = tocLocation{Kind: "zstdchunked", Offset: off, CompressedLen: clen, RawLen: rlen}
		ct := b[off : off+clen]
		zr, e := zstd.NewReader(bytes.NewReader(ct))
		if e != nil {
			return nil, nil, loc, e
		}
		defer zr.Close()
		js, e := io.ReadAll(zr)
		if e != nil {
			return nil, nil, loc, fmt.Errorf("TOC zstd frame: %v", e)
		}
		return js, ct, loc, nil
	}
	return nil, nil, loc, fmt.Errorf("blob is not compressed")
}

// gzipExtra parses one gzip member header and returns its extra field.
func gzipExtra(p []byte) ([]byte, error) {
	zr, err := gzip.NewReader(bytes.NewReader(p))
	if err != nil {
		return nil, err
	}
	defer zr.Close()
	return zr.Header.Extra, nil
}

// tocFromTar reads the single tar entry "stargz.index.json" from r.
func tocFromTar(r io.Reader) ([]byte, error) {
	tr := tar.NewReader(r)
	h, err := tr.Next()
	if err != nil {
		return nil, fmt.Errorf("TOC tar: %v", err)
	}
	if h.Name != tocTarName {
		return nil, fmt.Errorf("TOC tar entry is named %q", h.Name)
	}
	return io.ReadAll(tr)
}

// externalTOCJSON extracts the TOC JSON from an external TOC blob (gzip'ed tar with
// the single entry stargz.index.json).
func externalTOCJSON(tocBlob []byte) ([]byte, error) {
	zr, err := gzip.NewReader(bytes.NewReader(tocBlob))
	if err != nil {
		return nil, err
	}
	defer zr.Close()
	return tocFromTar(zr)
}

type tocEntry struct {
	Name        string `json:"name"`
	Type        string `json:"type"`
	Size        int64  `json:"size"`
	Offset      int64  `json:"offset"`
	ChunkOffset int64  `json:"chunkOffset"`
	ChunkSize   int64  `json:"chunkSize"`
}

type tocDoc struct {
	Version int        `json:"version"`
	Entries []tocEntry `json:"entries"`
}

func parseTOC(js []byte) (*tocDoc, error) {
	var d tocDoc
	if err := json.Unmarshal(js, &d); err != nil {
		return nil, err
	}
	return &d, nil
}

// chunkOffsetsOf returns the chunkOffset sequence of the reg/chunk entries of name.
func (d *tocDoc) chunkOffsetsOf(name string) (offs []int64, size int64, found bool) {
	for _, e := range d.Entries {
		if e.Name != name {
			continue
		}
		switch e.Type {
		case "reg":
			found = true
			size = e.Size
			offs = append(offs, e.ChunkOffset)
		case "chunk":
			offs = append(offs, e.ChunkOffset)
		}
	}
	return
}

func (d *tocDoc) indexOf(name string) int {
	for i, e := range d.Entries {
		if e.Name == name {
			return i
		}
	}
	return -1
}

// expectedChunkOffsets: a file of size s written with chunk size c is described by
// ceil(s/c) entries at offsets 0, c, 2c, ...
func expectedChunkOffsets(size int64, chunk int64) []int64 {
	var res []int64
	if size == 0 {
		return []int64{0}
	}
	for o := int64(0); o < size; o += chunk {
		res = append(res, o)
	}
	return res
}

func equalI64(a, b []int64) bool {
	if len(a) != len(b) {
		return false
	}
	for i := range a {
		if a[i] != b[i] {
			return false
		}
	}
	return true
}
