package main

// The oracle of C14, derived from the property statement:
//
//	"the output places those files, each preceded by its not-yet-placed parent directories
//	 and hardlink targets, in the order given and each at most once, then exactly one
//	 prefetch landmark, then all remaining entries in their original relative order, so the
//	 data of every file in that leading group lies strictly before the landmark's offset and
//	 no other file's data does; with an empty list a single no-prefetch landmark is emitted
//	 instead. No input entry is lost or duplicated by the reordering, and a listed path that
//	 does not exist aborts the build or is reported back, as selected."
//
// Reading used here (everything the statement leaves open is accepted, see "slack"):
//
//   - identity of a path = path.Clean("/"+name); the input is first reduced to its last
//     duplicates (at the later position) and landmark-named input entries do not count
//     (the output has exactly ONE landmark);
//   - the list is processed in order; a listed path p that has an entry and is not placed
//     yet opens a BLOCK = {p} + its dependencies not placed before, where dependencies are
//     the entries of its ancestor directories (incl. an explicit root entry) and, for a
//     hardlink, its target together with the target's dependencies (transitively);
//     the prioritized group is the concatenation of the blocks in list order, p is the last
//     entry of its block, and inside a block every dependency precedes its dependant.
//     slack: the statement does not order a path's parents relative to its link targets,
//     so any dependency-respecting order inside a block is accepted;
//   - slack: listing the root, a directory that exists only implicitly (no entry of its
//     own), or a landmark name is neither "existing" nor "missing" by the statement:
//     aborting / reporting / ignoring are all accepted for those; if the list is non-empty
//     but nothing could be placed either landmark kind is accepted;
//   - slack: the position of a NO-prefetch landmark is not fixed by the statement;
//   - slack: a listed hardlink whose chain ends at a name without entry (dangling) is neither
//     "existing" nor "missing": see expect(). It must still never be lost or duplicated.

import (
	"archive/tar"
	"bytes"
	"fmt"
	"sort"
	"strings"

	"verifharness/internal/gen"
	"verifharness/internal/specread"
)

type model struct {
	seq     []*gen.Entry          // deduplicated input without landmark-named entries, archive order
	byClean map[string]*gen.Entry // clean name -> entry
	pos     map[string]int        // clean name -> position in seq
}

func isLandmark(clean string) bool {
	return clean == specread.PrefetchLandmark || clean == specread.NoPrefetchLandmark
}

func buildModel(ents []gen.Entry) *model {
	m := &model{byClean: map[string]*gen.Entry{}, pos: map[string]int{}}
	last := map[string]int{}
	for i := range ents {
		last[gen.Clean(ents[i].Name)] = i
	}
	for i := range ents {
		c := gen.Clean(ents[i].Name)
		if isLandmark(c) || last[c] != i {
			continue
		}
		m.pos[c] = len(m.seq)
		m.seq = append(m.seq, &ents[i])
		m.byClean[c] = &ents[i]
	}
	return m
}

func (m *model) hasDescendant(p string) bool {
	for c := range m.byClean {
		if strings.HasPrefix(c, p+"/") {
			return true
		}
	}
	return false
}

// ancestors returns the proper ancestors of a clean path, top-down, starting with the root "".
func ancestors(p string) []string {
	res := []string{""}
	parts := strings.Split(p, "/")
	for i := 1; i < len(parts); i++ {
		res = append(res, strings.Join(parts[:i], "/"))
	}
	return res
}

// item is one listed path that has an entry of its own.
type item struct {
	Listed   string          // as given
	Clean    string          // the listed entry (last of its block)
	Closure  map[string]bool // the entry and all its dependencies that have an entry
	Flexible bool            // the closure runs into a dangling hardlink: see expect
}

type expectation struct {
	items          []item
	missing        []string // listed strings that certainly do not exist
	slack          []string // listed strings the statement does not classify
	implicitParent []string // listed strings that have an entry but an ancestor (or a link target's ancestor) without one
	dangling       []string // listed strings whose hardlink chain ends at a name that has no entry
}

// closure adds p's dependencies and p to set; implicit is set when an ancestor directory has
// no entry, dangling when a hardlink (p or a target in its chain) names a target without entry.
func (m *model) closure(p string, set map[string]bool, implicit, dangling *bool, depth int) {
	if depth > 64 || set[p] {
		return
	}
	if p != "" {
		for _, a := range ancestors(p) {
			if m.byClean[a] != nil {
				set[a] = true
			} else if a != "" {
				*implicit = true
			}
		}
	}
	if e := m.byClean[p]; e != nil {
		if e.Type == tar.TypeLink {
			t := gen.Clean(e.Linkname)
			if m.byClean[t] != nil {
				m.closure(t, set, implicit, dangling, depth+1)
			} else {
				*dangling = true
			}
		}
		set[p] = true
	}
}

// expect classifies the listed strings.
//
// A listed path whose hardlink chain dangles (the link target has no entry in the archive)
// is FLEXIBLE: the statement does not say whether such a path "exists" (its entry does) or
// "does not exist" (it cannot be laid out after its target). Accepted for it: reported back
// or not; aborting the build only without WithAllowPrioritizeNotFound; any subset of its
// closure placed in its slot of the leading group (dependencies first). What is never
// accepted: an input entry that is lost or duplicated.
func expect(m *model, list []string) *expectation {
	x := &expectation{}
	for _, l := range list {
		p := gen.Clean(l)
		if p == "" {
			if m.byClean[""] != nil {
				x.items = append(x.items, item{Listed: l, Clean: "", Closure: map[string]bool{"": true}})
			} else {
				x.slack = append(x.slack, l)
			}
			continue
		}
		if m.byClean[p] == nil {
			if m.hasDescendant(p) || isLandmark(p) || p == specread.TOCName {
				x.slack = append(x.slack, l)
			} else {
				x.missing = append(x.missing, l)
			}
			continue
		}
		set := map[string]bool{}
		implicit, dangling := false, false
		m.closure(p, set, &implicit, &dangling, 0)
		if implicit {
			x.implicitParent = append(x.implicitParent, l)
		}
		if dangling {
			x.dangling = append(x.dangling, l)
		}
		x.items = append(x.items, item{Listed: l, Clean: p, Closure: set, Flexible: dangling})
	}
	return x
}

type finding struct{ Clause, What string }

type result struct {
	fs          []finding
	counts      map[string]int
	distinct    [][2]string
	nontrivial  bool
	outcome     string
	orderSample string
}

func (r *result) add(clause, format string, a ...any) {
	if len(r.fs) < 30 {
		r.fs = append(r.fs, finding{clause, fmt.Sprintf(format, a...)})
	}
}

func contains(s []string, x string) bool {
	for _, y := range s {
		if y == x {
			return true
		}
	}
	return false
}

func setNames(s map[string]bool) string {
	var n []string
	for k := range s {
		n = append(n, fmt.Sprintf("%q", k))
	}
	sort.Strings(n)
	return "{" + strings.Join(n, ",") + "}"
}

func sameEntry(h *tar.Header, body []byte, e *gen.Entry) string {
	ht := h.Typeflag
	if ht == tar.TypeRegA {
		ht = tar.TypeReg
	}
	switch {
	case ht != e.Type:
		return fmt.Sprintf("type %q != %q", ht, e.Type)
	case h.Linkname != e.Linkname:
		return fmt.Sprintf("linkname %q != %q", h.Linkname, e.Linkname)
	case h.Mode != e.Mode || h.Uid != e.UID || h.Gid != e.GID || h.ModTime.Unix() != e.ModTime:
		return "mode/owner/mtime differ"
	case e.Type == tar.TypeReg && h.Size != e.Size:
		return fmt.Sprintf("size %d != %d", h.Size, e.Size)
	case e.Type == tar.TypeReg && gen.CheckContent(e.ContentID, 0, body) >= 0:
		return "content differs"
	}
	return ""
}

func judge(c *caseSpec, m *model, exp *expectation, b *built, err error) (res result) {
	res.counts = map[string]int{}
	// ---- missing paths: abort or report, as selected -----------------------------------
	if err != nil {
		res.distinct = append(res.distinct, [2]string{"build_errors", trimErr(err.Error())})
		switch {
		case !c.Allow && len(exp.missing) > 0:
			res.outcome = "aborted: a listed path does not exist (as selected)"
			res.counts["aborts_on_missing_path"]++
		case !c.Allow && len(exp.dangling) > 0 && strings.Contains(err.Error(), "not found"):
			res.outcome = "aborted on a listed hardlink whose target has no entry (unclassified by the statement)"
			res.counts["aborts_on_dangling_hardlink"]++
		case !c.Allow && len(exp.implicitParent) > 0 && strings.Contains(err.Error(), "not found"):
			res.outcome = "aborted although every listed path has an entry (implicit parent)"
			res.add("existing-path-treated-as-missing:implicit-parent",
				"Build aborted with %q although every listed path has a tar entry; %q sits under a directory that has no entry of its own", err.Error(), exp.implicitParent)
		case !c.Allow && len(exp.slack) > 0:
			res.outcome = "aborted on a path the statement does not classify (root / implicit directory / landmark name)"
			res.counts["aborts_on_unclassified_path"]++
		default:
			res.outcome = "unexpected error"
			res.add("build-error", "estargz.Build failed although no listed path is missing: %v", err)
		}
		return
	}
	if !c.Allow && len(exp.missing) > 0 {
		res.add("missing-path-not-aborted", "listed %q do not exist, WithAllowPrioritizeNotFound was not given, but Build succeeded", exp.missing)
	}
	if !c.Allow && len(b.Missed) > 0 {
		res.add("reported-without-option", "missed files were reported without WithAllowPrioritizeNotFound: %q", b.Missed)
	}
	implicitFinding := false
	if c.Allow {
		for _, l := range exp.missing {
			if !contains(b.Missed, l) {
				res.add("missing-path-not-reported", "listed %q does not exist but was not reported back (reported: %q)", l, b.Missed)
			} else {
				res.counts["missing_paths_reported_back"]++
			}
		}
		for _, rp := range b.Missed {
			switch {
			case contains(exp.missing, rp):
			case contains(exp.slack, rp):
				res.counts["unclassified_paths_reported_back"]++
			case contains(exp.dangling, rp):
				res.counts["dangling_hardlinks_reported_back"]++
			case contains(exp.implicitParent, rp):
				implicitFinding = true
				res.add("existing-path-treated-as-missing:implicit-parent",
					"listed %q has a tar entry but was reported back as not found (an ancestor directory has no entry of its own)", rp)
			case contains(c.List, rp):
				res.add("existing-path-reported-missing", "listed %q exists in the input but was reported back as not found", rp)
			default:
				res.add("reported-unlisted-path", "%q was reported back but is not a string of the list", rp)
			}
		}
	}
	if implicitFinding {
		res.outcome = "existing path reported missing (implicit parent); layout not judged"
		return
	}

	// ---- reading (a): the blob as a plain tar -----------------------------------------------
	raw, derr := specread.DecompressAll(b.Blob, c.Scheme == "zstdchunked")
	if derr != nil {
		res.add("stream-invalid", "std decompression of the blob failed: %v", derr)
		return
	}
	out, _, terr := specread.ReadTar(raw)
	if terr != nil {
		res.add("tar-invalid", "std archive/tar on the decompressed blob: %v", terr)
		return
	}
	if c.Scheme == "gzip" && len(out) > 0 && out[len(out)-1].Header.Name == specread.TOCName {
		out = out[:len(out)-1]
	}
	li := -1
	nl := 0
	for i, e := range out {
		if isLandmark(gen.Clean(e.Header.Name)) {
			nl++
			if li < 0 {
				li = i
			}
		}
	}
	if nl != 1 {
		res.add("landmark-count", "%d landmark entries in the output (want exactly 1)", nl)
		return
	}
	lm := out[li]
	if lm.Header.Typeflag != tar.TypeReg || lm.Header.Size != 1 || !bytes.Equal(lm.Content, []byte{0x0f}) {
		res.add("landmark-shape", "landmark %q is not a 1-byte regular file 0x0f", lm.Header.Name)
	}
	prefetch := lm.Header.Name == specread.PrefetchLandmark
	if !prefetch && lm.Header.Name != specread.NoPrefetchLandmark {
		res.add("landmark-name", "landmark is spelled %q", lm.Header.Name)
	}
	// a prefetch landmark is required as soon as one strictly classified listed path must be
	// placed (a path that a flexible item might have pulled in before is not counted)
	mustPlace := false
	flexAllowed := map[string]bool{}
	for _, it := range exp.items {
		if it.Flexible {
			for n := range it.Closure {
				flexAllowed[n] = true
			}
		}
	}
	for _, it := range exp.items {
		if !it.Flexible && !flexAllowed[it.Clean] {
			mustPlace = true
		}
	}
	switch {
	case len(c.List) == 0 && prefetch:
		res.add("landmark-kind", "empty list but a prefetch landmark was emitted")
	case mustPlace && !prefetch:
		res.add("landmark-kind", "files are prioritized but the landmark is %q", lm.Header.Name)
	case len(c.List) > 0 && !mustPlace:
		res.counts["nonempty_list_nothing_to_place_landmark_"+lm.Header.Name]++
	}
	if prefetch {
		res.counts["prefetch_landmarks"]++
	} else {
		res.counts["no_prefetch_landmarks"]++
		res.distinct = append(res.distinct, [2]string{"no_prefetch_landmark_position", map[bool]string{true: "first", false: "not-first"}[li == 0]})
	}

	// nothing lost, nothing duplicated, nothing altered
	seen := map[string]int{}
	for i, e := range out {
		if i == li {
			continue
		}
		cl := gen.Clean(e.Header.Name)
		seen[cl]++
		in := m.byClean[cl]
		if in == nil {
			res.add("entry-invented", "output entry %q has no counterpart in the input", e.Header.Name)
			continue
		}
		if e.Header.Name != in.Name {
			res.add("entry-renamed", "output entry %q, input spelled it %q", e.Header.Name, in.Name)
		} else if d := sameEntry(e.Header, e.Content, in); d != "" {
			res.add("entry-altered", "output entry %q is not the last input entry of that name: %s", e.Header.Name, d)
		}
	}
	for _, in := range m.seq {
		switch n := seen[gen.Clean(in.Name)]; {
		case n == 0:
			res.add("entry-lost", "input entry %q (type %q) is missing from the output", in.Name, in.Type)
		case n > 1:
			res.add("entry-duplicated", "input entry %q appears %d times in the output", in.Name, n)
		}
	}
	if len(res.fs) > 0 {
		return
	}

	// ---- order ------------------------------------------------------------------------------
	names := func(es []specread.TarEntry) []string {
		var n []string
		for _, e := range es {
			n = append(n, gen.Clean(e.Header.Name))
		}
		return n
	}
	A, B := names(out[:li]), names(out[li+1:])
	var show []string
	for _, n := range A {
		show = append(show, fmt.Sprintf("%q", n))
	}
	res.orderSample = "A=[" + strings.Join(show, " ") + "] landmark=" + lm.Header.Name + fmt.Sprintf(" rest=%d entries", len(B))
	if !prefetch {
		// position of a no-prefetch landmark is not judged; everything else keeps the input order
		A, B = nil, append(append([]string{}, A...), B...)
	}
	// The leading group is matched item by item, in list order, against what has been placed
	// so far: a strict item contributes exactly {its closure} minus {placed}, with the listed
	// entry last; a flexible item (dangling hardlink chain) contributes any run of entries out
	// of its closure. Inside a block every dependency precedes its dependant.
	placed := map[string]bool{}
	depOrder := func(got []string) {
		gs := map[string]int{}
		for i, n := range got {
			gs[n] = i + 1
		}
		for i, n := range got {
			if n != "" {
				for _, a := range ancestors(n) {
					if j := gs[a]; j > 0 && j-1 > i {
						res.add("dependency-order", "%q precedes its parent directory %q (block %q)", n, a, got)
					}
				}
			}
			if e := m.byClean[n]; e != nil && e.Type == tar.TypeLink {
				if j := gs[gen.Clean(e.Linkname)]; j > 0 && j-1 > i {
					res.add("dependency-order", "hardlink %q precedes its target %q (block %q)", n, gen.Clean(e.Linkname), got)
				}
				res.counts["hardlinks_in_prioritized_group"]++
			}
		}
	}
	if prefetch {
		k := 0
		for _, it := range exp.items {
			if it.Flexible {
				start := k
				for k < len(A) && it.Closure[A[k]] && !placed[A[k]] {
					placed[A[k]] = true
					k++
				}
				got := A[start:k]
				depOrder(got)
				for i, n := range got {
					if n == it.Clean && i != len(got)-1 {
						res.add("prioritized-order", "listed %q is not the last entry of its block %q", it.Listed, got)
					}
				}
				res.counts["flexible_blocks(dangling hardlink)"]++
				res.counts["entries_placed_for_dangling_hardlinks"] += len(got)
				continue
			}
			if placed[it.Clean] {
				continue // already placed: "each at most once"
			}
			set := map[string]bool{}
			for n := range it.Closure {
				if !placed[n] {
					set[n] = true
				}
			}
			if k+len(set) > len(A) {
				res.add("prioritized-after-landmark", "the group before the landmark ends before the block of listed %q %s is complete (group: %q)", it.Listed, setNames(set), A)
				break
			}
			got := A[k : k+len(set)]
			okSet := true
			seenIn := map[string]bool{}
			for _, n := range got {
				if !set[n] || seenIn[n] {
					okSet = false
				}
				seenIn[n] = true
			}
			if !okSet {
				res.add("prioritized-order", "positions %d..%d before the landmark hold %q; the statement puts there the block of listed %q = %s", k, k+len(got)-1, got, it.Listed, setNames(set))
				break
			}
			if got[len(got)-1] != it.Clean {
				res.add("prioritized-order", "listed %q is not preceded by all of its parents/link targets: block %q", it.Listed, got)
				break
			}
			depOrder(got)
			for n := range set {
				placed[n] = true
			}
			res.counts["blocks_verified"]++
			res.counts["dependencies_pulled_in"] += len(set) - 1
			k += len(set)
		}
		if len(res.fs) == 0 && k < len(A) {
			res.add("non-prioritized-before-landmark", "entries %q sit before the landmark but belong to no listed path", A[k:])
		}
	}
	if len(res.fs) > 0 {
		return
	}
	var rest []string
	for _, in := range m.seq {
		cl := gen.Clean(in.Name)
		if placed[cl] {
			continue
		}
		rest = append(rest, cl)
	}
	if strings.Join(rest, "\x00") != strings.Join(B, "\x00") {
		i := 0
		for i < len(rest) && i < len(B) && rest[i] == B[i] {
			i++
		}
		res.add("rest-order", "entries after the landmark are not the remaining input entries in input order (first difference at position %d: want %q)", i, at(rest, i))
		return
	}

	// ---- reading (b): offsets from the TOC --------------------------------------------------
	sb, perr := specread.Parse(b.Blob, b.ExternalTOC)
	if perr != nil {
		res.add("toc-unreadable", "%v", perr)
		return
	}
	var tocNames []string
	var L *specread.Entry
	for _, e := range sb.Entries {
		if e.Type == "chunk" {
			continue
		}
		tocNames = append(tocNames, e.Name)
		if isLandmark(gen.Clean(e.Name)) {
			if L != nil {
				res.add("toc-landmark-count", "more than one landmark entry in the TOC")
			}
			L = e
		}
	}
	var tarNames []string
	for _, e := range out {
		tarNames = append(tarNames, e.Header.Name)
	}
	if strings.Join(tocNames, "\x00") != strings.Join(tarNames, "\x00") {
		res.add("toc-order-differs-from-tar", "the TOC lists the entries in another order / with other names than the tar stream")
		return
	}
	if L == nil {
		res.add("toc-landmark-count", "no landmark entry in the TOC")
		return
	}
	if p, rerr := sb.ReadChunk(L); rerr != nil || !bytes.Equal(p, []byte{0x0f}) {
		res.add("landmark-unreadable", "landmark read through offset/innerOffset gives %x (err=%v)", p, rerr)
	}
	if !prefetch {
		if L.InnerOffset != 0 {
			res.counts["no_prefetch_landmark_inside_shared_stream"]++
		}
		res.outcome = "no-prefetch landmark, order kept"
		res.counts["layouts_verified"]++
		return
	}
	if L.InnerOffset != 0 {
		res.add("landmark-not-at-stream-start", "prefetch landmark has innerOffset %d (offset %d): it does not start its own compressed stream", L.InnerOffset, L.Offset)
	}
	if merr := sb.CheckMagic(L.Offset); merr != nil {
		res.add("landmark-offset-no-stream-header", "%v", merr)
	}
	var prevData *specread.Entry
	before, after := 0, 0
	for _, e := range sb.Entries {
		if !e.HasData() || e == L {
			continue
		}
		if e.Index < L.Index {
			prevData = e
			before++
			if e.Offset >= L.Offset {
				res.add("prioritized-data-not-before-landmark", "data of prioritized %q (offset %d, innerOffset %d) is not strictly before the landmark offset %d", e.Name, e.Offset, e.InnerOffset, L.Offset)
			}
		} else {
			after++
			if e.Offset < L.Offset {
				res.add("other-data-before-landmark", "data of non-prioritized %q (offset %d) lies before the landmark offset %d", e.Name, e.Offset, L.Offset)
			}
			if e.Offset == L.Offset {
				res.counts["entries_sharing_the_landmark_stream_after_it"]++
			}
		}
	}
	if prevData != nil && prevData.Offset == L.Offset {
		res.add("landmark-shares-stream", "prefetch landmark has the same offset %d as the preceding data entry %q", L.Offset, prevData.Name)
	}
	res.counts["data_entries_before_landmark"] += before
	res.counts["data_entries_after_landmark"] += after
	res.counts["layouts_verified"]++
	res.outcome = fmt.Sprintf("prefetch landmark at offset %d, %d data entries before, %d after", L.Offset, before, after)
	res.nontrivial = before > 0 && after > 0
	return
}

func at(s []string, i int) string {
	if i < len(s) {
		return s[i]
	}
	return "<end>"
}

func trimErr(s string) string {
	// error strings carry quoted file names: keep the shape only
	if i := strings.Index(s, "file:"); i >= 0 {
		return s[:i] + "file: <name>: not found"
	}
	if len(s) > 120 {
		s = s[:120]
	}
	return s
}
