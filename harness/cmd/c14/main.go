// C14 — prioritized files are laid out first, in order, ahead of a single landmark.
//
// Real code under test: estargz.Build with WithPrioritizedFiles / WithAllowPrioritizeNotFound
// (sortEntries, moveRec, importTar), the Writer's stream handling for landmarks
// (needsOpenGz under MinChunkSize) and the parallel sub-blob combine.
//
// Oracle (derived from the property statement, not from moveRec): see oracle.go.
// The output is read (a) as a plain tar through std gunzip/zstd + archive/tar (entry order,
// nothing lost or duplicated) and (b) through internal/specread (offset / innerOffset of
// every data entry relative to the landmark).
//
// Process layout: the plain top process coordinates; cases run in child batches with an
// on-disk journal (a panic inside one of Build's worker goroutines cannot be recovered).
package main

import (
	"archive/tar"
	"bufio"
	"bytes"
	"fmt"
	"io"
	"os"
	"path/filepath"
	"regexp"
	"strconv"
	"strings"
	"sync"
	"time"

	"github.com/containerd/stargz-snapshotter/estargz"
	"github.com/containerd/stargz-snapshotter/estargz/externaltoc"
	"github.com/containerd/stargz-snapshotter/estargz/zstdchunked"
	"github.com/klauspost/compress/zstd"
	"github.com/sirupsen/logrus"

	"verifharness/internal/gen"
	"verifharness/internal/prng"
	"verifharness/internal/vf"
)

const ruleText = "each case = (random tar from gen.RandomTar: ./ ../ / spellings, duplicates, hardlink chains, specials, explicit root entry, implicit parents in 1/5 of the cases, " +
	"landmark-named input entries in 1/6; prioritized list of 0-8 items drawn from existing entries of every type, hardlinks and their targets, directories, duplicates, " +
	"missing paths, the root, in absolute / ./ / ../ / unclean spellings; with/without WithAllowPrioritizeNotFound; chunk size, min-chunk-size, scheme, WithParallelism 1..8), all from the seed; " +
	"non-trivial = the list was non-empty, Build succeeded, and both the prioritized group and the rest contain at least one file with data whose offsets were compared with the landmark offset; " +
	"distinct by case descriptor"

type caseSpec struct {
	Idx      int
	Scheme   string
	Level    int
	Chunk    int
	MinChunk int
	Workers  int
	List     []string
	Allow    bool
	Implicit bool // the tar may lack parent directory entries
	Inject   int  // number of landmark-named input entries
	Dangling int  // number of injected dangling hardlinks
}

func (c *caseSpec) String() string {
	return fmt.Sprintf("#%d %s level=%d chunk=%d minchunk=%d workers=%d allowNotFound=%v implicitDirs=%v injectedLandmarks=%d danglingLinks=%d list=%q",
		c.Idx, c.Scheme, c.Level, c.Chunk, c.MinChunk, c.Workers, c.Allow, c.Implicit, c.Inject, c.Dangling, c.List)
}

func (c *caseSpec) keyClass() string {
	if c.MinChunk > 0 {
		return "minchunk"
	}
	if c.Workers > 1 {
		return "parallel"
	}
	return "sequential"
}

func respell(rng *prng.R, clean string, isDir bool) string {
	p := clean
	if rng.Chance(1, 6) && strings.Contains(p, "/") {
		// unclean but equivalent spellings
		i := strings.Index(p, "/")
		switch rng.Intn(3) {
		case 0:
			p = p[:i] + "//" + p[i+1:]
		case 1:
			p = p[:i] + "/./" + p[i+1:]
		case 2:
			p = p[:i] + "/zz/../" + p[i+1:]
		}
	}
	switch rng.Intn(5) {
	case 0:
		p = "/" + p
	case 1:
		p = "./" + p
	case 2:
		p = "../" + p
	case 3:
		p = "../../" + p
	}
	if isDir && rng.Bool() {
		p += "/"
	}
	return p
}

// genCase is a pure function of (seed, tier, index).
func genCase(r *vf.Run, i int) (*caseSpec, []gen.Entry) {
	rng := r.RNG(uint64(i))
	c := &caseSpec{Idx: i}
	c.Chunk = rng.Pick(16, 64, 512, 512, 4096, 4096, 0)
	gch := int64(c.Chunk)
	if gch == 0 {
		gch = 1024
	}
	c.Scheme = rng.PickS("gzip", "gzip", "gzip", "zstdchunked", "externaltoc")
	c.Level = rng.Pick(1, 6, 9)
	if c.Scheme == "zstdchunked" {
		c.Level = rng.Pick(1, 2, 3)
	}
	if rng.Chance(1, 2) {
		c.MinChunk = rng.Pick(1, int(gch)/2+1, int(gch), 2*int(gch), 8*int(gch), 100000, 1<<20)
	}
	c.Workers = rng.Range(1, 8)
	c.Allow = rng.Bool()
	c.Implicit = rng.Chance(1, 5)

	o := gen.DefaultOpts(gch)
	o.ImplicitDirs = c.Implicit
	o.MaxEntries = rng.Pick(4, 12, 24, 24, 40)
	ents := gen.RandomTar(rng.Derive(1), o)
	if rng.Chance(1, 6) {
		lr := rng.Derive(3)
		c.Inject = lr.Range(1, 3)
		for k := 0; k < c.Inject; k++ {
			e := gen.Entry{Name: lr.PickS(".prefetch.landmark", ".no.prefetch.landmark", "./.prefetch.landmark", "/.no.prefetch.landmark"), Type: tar.TypeReg,
				Mode: 0o644, Size: int64(lr.Pick(1, 1, 300)), ContentID: 0x1a2b3c00 + uint64(k), ModTime: 1600000000}
			pos := lr.Intn(len(ents) + 1)
			ents = append(ents[:pos:pos], append([]gen.Entry{e}, ents[pos:]...)...)
		}
	}

	// dangling hardlinks (the target names no entry of the archive), optionally with a second
	// link pointing at the dangling one; they and/or a sibling are put into the list below
	var dangling, danglingSiblings []string
	if rng.Chance(1, 6) {
		dr := rng.Derive(5)
		c.Dangling = dr.Range(1, 2)
		for k := 0; k < c.Dangling; k++ {
			// parent: the root or an explicit directory entry; the link goes right after it or later
			parent, ppos := "", -1
			var dirIdx []int
			for i, e := range ents {
				if e.Type == tar.TypeDir && gen.Clean(e.Name) != "" {
					dirIdx = append(dirIdx, i)
				}
			}
			if len(dirIdx) > 0 && dr.Chance(2, 3) {
				ppos = dirIdx[len(dirIdx)-1-dr.Intn((len(dirIdx)+1)/2)] // a late directory entry (not re-defined afterwards in most cases)
				parent = gen.Clean(ents[ppos].Name) + "/"
			}
			name := fmt.Sprintf("%sdangle%d", parent, k)
			l := gen.Entry{Name: dr.PickS("", "./", "/") + name, Type: tar.TypeLink, Mode: 0o644, ModTime: 1600000100,
				Linkname: dr.PickS("no/such/target", "../gone", name+"-target", "/zz/absent")}
			pos := ppos + 1 + dr.Intn(len(ents)-ppos)
			ents = append(ents[:pos:pos], append([]gen.Entry{l}, ents[pos:]...)...)
			dangling = append(dangling, name)
			if dr.Bool() { // a link to the dangling link, later in the archive
				l2 := gen.Entry{Name: fmt.Sprintf("%sdangle%d-again", parent, k), Type: tar.TypeLink, Mode: 0o644, ModTime: 1600000101, Linkname: "./" + name}
				pos2 := pos + 1 + dr.Intn(len(ents)-pos)
				ents = append(ents[:pos2:pos2], append([]gen.Entry{l2}, ents[pos2:]...)...)
				dangling = append(dangling, gen.Clean(l2.Name))
			}
			for _, e := range ents {
				cl := gen.Clean(e.Name)
				if cl != name && strings.HasPrefix(cl, parent) && !strings.Contains(strings.TrimPrefix(cl, parent), "/") && !strings.HasPrefix(strings.TrimPrefix(cl, parent), "dangle") && cl != "" && cl+"/" != parent {
					danglingSiblings = append(danglingSiblings, cl)
				}
			}
		}
	}

	// candidates
	m := buildModel(ents)
	lr := rng.Derive(2)
	var all, links, targets, dirs []string
	for _, e := range m.seq {
		cl := gen.Clean(e.Name)
		if cl == "" {
			continue
		}
		all = append(all, cl)
		switch e.Type {
		case tar.TypeLink:
			links = append(links, cl)
			targets = append(targets, gen.Clean(e.Linkname))
		case tar.TypeDir:
			dirs = append(dirs, cl)
		}
	}
	pick := func(s []string) string {
		if len(s) == 0 {
			s = all
		}
		if len(s) == 0 {
			return "no/such/file"
		}
		return s[lr.Intn(len(s))]
	}
	n := 0
	if !lr.Chance(1, 7) {
		n = lr.Range(1, 8)
	}
	for k := 0; k < n; k++ {
		var p string
		switch x := lr.Intn(20); {
		case x < 8:
			p = pick(all)
		case x < 12:
			p = pick(links)
		case x < 14:
			p = pick(targets)
		case x < 16:
			p = pick(dirs)
		case x < 17 && len(c.List) > 0:
			c.List = append(c.List, c.List[lr.Intn(len(c.List))]) // exact duplicate
			continue
		case x < 18 && len(c.List) > 0:
			p = gen.Clean(c.List[lr.Intn(len(c.List))]) // duplicate in another spelling
		case x < 19:
			c.List = append(c.List, lr.PickS("/", ".", "./", "", "../"))
			continue
		default:
			switch lr.Intn(3) {
			case 0:
				p = "no/such/file"
			case 1:
				p = pick(dirs) + "/missing-child"
			default:
				p = pick(all) + "x"
			}
		}
		isDir := false
		if e := m.byClean[p]; e != nil && e.Type == tar.TypeDir {
			isDir = true
		}
		c.List = append(c.List, respell(lr, p, isDir))
	}
	if len(dangling) > 0 {
		// list the dangling link, or only a sibling of it, or both, at random positions
		ins := func(p string) {
			e := m.byClean[p]
			sp := respell(lr, p, e != nil && e.Type == tar.TypeDir)
			pos := lr.Intn(len(c.List) + 1)
			c.List = append(c.List[:pos:pos], append([]string{sp}, c.List[pos:]...)...)
		}
		mode := lr.Intn(3)
		if mode != 1 {
			ins(dangling[lr.Intn(len(dangling))])
		}
		if mode != 0 && len(danglingSiblings) > 0 {
			ins(danglingSiblings[lr.Intn(len(danglingSiblings))])
		}
		if mode == 1 && len(danglingSiblings) == 0 {
			ins(dangling[0])
		}
	}
	return c, ents
}

func main() {
	vf.Main("C14", "exploration", ruleText, 15, 450, body)
}

func body(r *vf.Run) {
	logrus.SetLevel(logrus.PanicLevel)
	tmp := filepath.Join(r.Scratch, "tmp")
	_ = os.MkdirAll(tmp, 0o755)
	os.Setenv("TMPDIR", tmp) // estargz.Build: os.CreateTemp("", ...)

	if r.Child != "" {
		childBody(r)
		return
	}
	n := r.N(200, 5000)
	all := make([]int, n)
	for i := range all {
		all[i] = i
	}
	runBatches(r, "plain", all)
	r.Assume("Go std compress/gzip, archive/tar, encoding/json and klauspost/compress/zstd decode correctly; internal/specread implements docs/estargz.md")
	r.Assume("the statement leaves the relative order of an entry's parent directories and hardlink targets open: any order in which every dependency precedes its dependant is accepted")
	r.Assume("listing the root, an implicit directory (no tar entry of its own) or nothing-but-missing paths is outside what the statement fixes: reported-missing or not, prefetch or no-prefetch landmark are both accepted there")
}

var frameRe = regexp.MustCompile(`github\.com/containerd/stargz-snapshotter/(estargz[^\s(]*\.[^\s(]+)\(`)

func runBatches(r *vf.Run, stage string, cases []int) {
	remaining := append([]int(nil), cases...)
	for attempt := 0; len(remaining) > 0 && attempt < 6; attempt++ {
		list := filepath.Join(r.Scratch, fmt.Sprintf("%s-cases-%d.txt", stage, attempt))
		journal := filepath.Join(r.Scratch, fmt.Sprintf("%s-journal-%d.txt", stage, attempt))
		var sb strings.Builder
		for _, i := range remaining {
			fmt.Fprintln(&sb, i)
		}
		_ = os.WriteFile(list, []byte(sb.String()), 0o644)
		ex := r.RunChild(vf.ChildSpec{Stage: stage, Args: []string{list, journal}, Timeout: 50 * time.Minute})
		begun, ended := readJournal(journal)
		if ex.TimedOut {
			r.Inconclusive("watchdog: child stage " + stage)
		}
		clean := ex.ExitCode == 0 && ex.Signal == "" && !ex.TimedOut
		var next, inflight []int
		for _, i := range remaining {
			switch {
			case ended[i]:
			case begun[i]:
				inflight = append(inflight, i)
			default:
				next = append(next, i)
			}
		}
		if clean {
			if len(next)+len(inflight) > 0 {
				r.Inconclusive("child stage " + stage + " ended without finishing its list")
			}
			return
		}
		if !ex.TimedOut {
			site := crashSite(ex)
			var descs []string
			for _, i := range inflight {
				c, _ := genCase(r, i)
				descs = append(descs, c.String())
			}
			r.Violate("crash@"+site, "the process running estargz.Build died (exit="+strconv.Itoa(ex.ExitCode)+" signal="+ex.Signal+")",
				map[string]any{"in_flight_cases": descs, "tail": lastLines(ex.Tail, 60)})
		}
		remaining = next
	}
	if len(remaining) > 0 {
		r.Inconclusive("cases not executed after repeated crashes of stage " + stage)
	}
}

// crashSite names the innermost estargz frame of the goroutine that panicked.
func crashSite(ex vf.ChildExit) string {
	text := ex.Tail
	if b, err := os.ReadFile(ex.Output); err == nil {
		text = string(b)
	}
	for _, marker := range []string{"\npanic: ", "\nfatal error: "} {
		if i := strings.Index(text, marker); i >= 0 {
			text = text[i:]
			break
		}
	}
	if m := frameRe.FindStringSubmatch(text); m != nil {
		return m[1]
	}
	return "unknown"
}

func lastLines(s string, n int) string {
	ls := strings.Split(s, "\n")
	if len(ls) > n {
		ls = ls[len(ls)-n:]
	}
	return strings.Join(ls, "\n")
}

func readJournal(path string) (begun, ended map[int]bool) {
	begun, ended = map[int]bool{}, map[int]bool{}
	f, err := os.Open(path)
	if err != nil {
		return
	}
	defer f.Close()
	sc := bufio.NewScanner(f)
	for sc.Scan() {
		var k string
		var i int
		if _, err := fmt.Sscanf(sc.Text(), "%s %d", &k, &i); err == nil {
			if k == "BEGIN" {
				begun[i] = true
			} else if k == "END" {
				ended[i] = true
			}
		}
	}
	return
}

func childBody(r *vf.Run) {
	if len(r.ChildArgs) < 2 {
		r.Inconclusive("child without arguments")
		return
	}
	b, err := os.ReadFile(r.ChildArgs[0])
	if err != nil {
		r.Inconclusive("child cannot read its case list")
		return
	}
	var cases []int
	for _, f := range strings.Fields(string(b)) {
		i, _ := strconv.Atoi(f)
		cases = append(cases, i)
	}
	jf, err := os.OpenFile(r.ChildArgs[1], os.O_CREATE|os.O_WRONLY|os.O_APPEND, 0o644)
	if err != nil {
		r.Inconclusive("child cannot open its journal")
		return
	}
	defer jf.Close()
	var jmu sync.Mutex
	jw := func(kind string, i int) {
		jmu.Lock()
		fmt.Fprintf(jf, "%s %d\n", kind, i)
		if kind == "BEGIN" {
			jf.Sync()
		}
		jmu.Unlock()
	}
	ch := make(chan int)
	var wg sync.WaitGroup
	var done int
	var dmu sync.Mutex
	for w := 0; w < 4; w++ {
		wg.Add(1)
		go func() {
			defer wg.Done()
			for i := range ch {
				jw("BEGIN", i)
				runCase(r, i)
				jw("END", i)
				dmu.Lock()
				done++
				flush := done%20 == 0
				dmu.Unlock()
				if flush {
					r.FlushPartial()
				}
			}
		}()
	}
	for _, i := range cases {
		ch <- i
	}
	close(ch)
	wg.Wait()
}

// ---------------------------------------------------------------------------
// driver

type zstdCompression struct {
	*zstdchunked.Compressor
	*zstdchunked.Decompressor
}

type built struct {
	Blob        []byte
	ExternalTOC []byte
	Missed      []string
}

func runBuild(tarBytes []byte, c *caseSpec) (*built, error) {
	opts := []estargz.Option{estargz.WithChunkSize(c.Chunk), estargz.WithParallelism(c.Workers)}
	if c.MinChunk > 0 {
		opts = append(opts, estargz.WithMinChunkSize(c.MinChunk))
	}
	// an empty list is passed as such (WithPrioritizedFiles(nil) == no option)
	opts = append(opts, estargz.WithPrioritizedFiles(c.List))
	res := &built{}
	if c.Allow {
		opts = append(opts, estargz.WithAllowPrioritizeNotFound(&res.Missed))
	}
	var ext *externaltoc.GzipCompression
	switch c.Scheme {
	case "gzip":
		opts = append(opts, estargz.WithCompressionLevel(c.Level))
	case "zstdchunked":
		opts = append(opts, estargz.WithCompression(&zstdCompression{
			Compressor:   &zstdchunked.Compressor{CompressionLevel: zstd.EncoderLevel(c.Level)},
			Decompressor: &zstdchunked.Decompressor{},
		}))
	case "externaltoc":
		ext = externaltoc.NewGzipCompressionWithLevel(nil, c.Level).(*externaltoc.GzipCompression)
		opts = append(opts, estargz.WithCompression(ext))
	}
	b, err := estargz.Build(io.NewSectionReader(bytes.NewReader(tarBytes), 0, int64(len(tarBytes))), opts...)
	if err != nil {
		return nil, err
	}
	data, rerr := io.ReadAll(b)
	cerr := b.Close()
	if rerr != nil {
		return nil, fmt.Errorf("reading the Blob: %w", rerr)
	}
	if cerr != nil {
		return nil, fmt.Errorf("Blob.Close: %w", cerr)
	}
	res.Blob = data
	if ext != nil {
		var tb bytes.Buffer
		if _, err := ext.WriteTOCTo(&tb); err != nil {
			return nil, fmt.Errorf("external toc: %w", err)
		}
		res.ExternalTOC = tb.Bytes()
	}
	return res, nil
}

func runCase(r *vf.Run, idx int) {
	c, ents := genCase(r, idx)
	r.Eval(1)
	replay := map[string]any{"case": idx, "desc": c.String(), "entries": gen.Describe(ents),
		"how": fmt.Sprintf("VERIF_SEED=%d /verif/run.sh C14 %s (case index %d)", r.Seed, r.Tier, idx)}
	viol := func(clause, what string) {
		key := clause + ":" + c.keyClass()
		if strings.HasPrefix(clause, "existing-path-treated-as-missing") {
			key = clause // independent of chunking and workers: decided in sortEntries
		}
		r.Violate(key, what+"  ["+c.String()+"]", replay)
	}
	m := buildModel(ents)
	exp := expect(m, c.List)
	tarBytes := gen.TarBytes(ents)

	var b *built
	var err error
	panicked, pv, stack := vf.Recover(func() { b, err = runBuild(tarBytes, c) })
	if panicked {
		site := "unknown"
		if mm := frameRe.FindStringSubmatch(stack); mm != nil {
			site = mm[1]
		}
		r.Violate("panic@"+site, fmt.Sprintf("panic %v in estargz.Build [%s]", pv, c.String()), replay)
		return
	}
	r.Count("builds", 1)
	r.Count(fmt.Sprintf("workers_%d", c.Workers), 1)
	r.Count("scheme_"+c.Scheme, 1)
	if c.MinChunk > 0 {
		r.Count("builds_with_minchunk", 1)
	}
	if c.Inject > 0 {
		r.Count("inputs_with_landmark_entries", 1)
	}
	if c.Dangling > 0 {
		r.Count("inputs_with_dangling_hardlinks", 1)
	}
	if len(c.List) == 0 {
		r.Count("lists_empty", 1)
	}
	r.Count("listed_paths", len(c.List))
	r.Count("listed_existing", len(exp.items))
	r.Count("listed_dangling_hardlink_chain", len(exp.dangling))
	r.Count("listed_definitely_missing", len(exp.missing))
	r.Count("listed_slack(root/implicit-dir/landmark-name)", len(exp.slack))
	r.Count("listed_existing_under_implicit_parent", len(exp.implicitParent))

	res := judge(c, m, exp, b, err)
	for _, f := range res.fs {
		viol(f.Clause, f.What)
	}
	for k, n := range res.counts {
		r.Count(k, n)
	}
	for _, d := range res.distinct {
		r.Distinct(d[0], d[1])
	}
	if res.nontrivial && len(res.fs) == 0 {
		r.NonTrivial(c.String())
	}
	if idx < 5 {
		r.Sample(map[string]any{"case": c.String(), "entries": gen.Describe(ents), "outcome": res.outcome, "order": res.orderSample})
	}
}
