// L3 stage of C12: the daemon's own holder of a layer, fs.NewFilesystem(...).Mount /
// Unmount (fs/fs.go is an anchored file). Mount takes a reference from Resolver.Resolve and
// must give it back on EVERY failing exit; Unmount releases with the evicting Close.
//
// A case = one filesystem over an image of 2-3 pool layers and 4-8 mount requests:
// refused ones (TOC digest label of another layer / malformed digest label / no digest
// label while verification is mandatory / a stale label for a layer that another mountpoint
// has mounted and verified) and, behind the /dev/fuse probe, accepted ones (a file is read
// through the kernel and compared with the model, then Unmount). Then: wait (state) until no
// goroutine is inside the fs packages any more, expire every name through the resolver the
// filesystem owns (reached by reflection: fs.filesystem.resolver is private and there is no
// export shim), and run the quiescence clause (3) on the filesystem's root; finally mount
// once more and read (4).
package main

import (
	"context"
	"fmt"
	"os"
	"path/filepath"
	"reflect"
	"strconv"
	"strings"
	"time"
	"unsafe"

	"github.com/containerd/stargz-snapshotter/estargz"
	stargzfs "github.com/containerd/stargz-snapshotter/fs"
	"github.com/containerd/stargz-snapshotter/fs/config"
	"github.com/containerd/stargz-snapshotter/fs/layer"
	"github.com/containerd/stargz-snapshotter/fs/source"
	"github.com/containerd/stargz-snapshotter/snapshot"

	"verifharness/internal/blob"
	"verifharness/internal/gen"
	"verifharness/internal/l2"
	"verifharness/internal/lx"
	"verifharness/internal/memreg"
	"verifharness/internal/prng"
	"verifharness/internal/vf"
)

func stageL3(r *vf.Run) {
	from, _ := strconv.Atoi(r.ChildArgs[0])
	to, _ := strconv.Atoi(r.ChildArgs[1])
	fuseOK := false
	if f, err := os.OpenFile("/dev/fuse", os.O_RDWR, 0); err == nil {
		f.Close()
		fuseOK = true
	} else {
		r.Set("l3", "accepted mounts skipped(capability): /dev/fuse unusable: "+err.Error())
	}
	if len(r.ChildArgs) > 3 {
		pool, _ = lx.LoadPool(r.ChildArgs[3])
	}
	if pool == nil {
		var err error
		if pool, err = buildPool(r); err != nil {
			r.Inconclusive("harness: layer build failed: " + err.Error())
			return
		}
	}
	for i := from; i < to; i++ {
		_ = os.WriteFile(filepath.Join(r.Scratch, "journal"), []byte(fmt.Sprintf("BEGIN stage=l3 case=%d seed=%d", i, r.Seed)), 0o644)
		rng := r.RNG(31, uint64(i))
		if !r.Watchdog(6*time.Minute, "case l3", func() { l3Case(r, i, rng, fuseOK) }) {
			return
		}
	}
}

func resolverOf(fsys snapshot.FileSystem) (res *layer.Resolver) {
	defer func() {
		if recover() != nil {
			res = nil
		}
	}()
	v := reflect.ValueOf(fsys).Elem().FieldByName("resolver")
	return reflect.NewAt(v.Type(), unsafe.Pointer(v.UnsafeAddr())).Elem().Interface().(*layer.Resolver)
}

func l3Case(r *vf.Run, idx int, rng *prng.R, fuseOK bool) {
	r.Eval(1)
	nl := rng.Range(2, 3)
	var layers []*lx.LayerSpec
	var bs []*blob.Built
	for _, i := range rng.Perm(len(pool))[:nl] {
		layers = append(layers, pool[i])
		bs = append(bs, pool[i].Built)
	}
	store := rng.PickS("memory", "db")
	noBG := !rng.Chance(1, 4) // background fetch waits 5 s after every Mount (silence period of fs.NewFilesystem)
	cfg := config.Config{NoPrometheus: true, NoBackgroundFetch: noBG, NoPrefetch: rng.Chance(1, 3), ResolveResultEntryTTLSec: 3600, PrefetchTimeoutSec: 1,
		BlobConfig: config.BlobConfig{ChunkSize: int64(rng.Pick(256, 4096, 50000))}}
	cfg.DirectoryCacheConfig.SyncAdd = rng.Bool()
	var ops []string
	desc := fmt.Sprintf("l3 store=%s nobg=%v noprefetch=%v chunk=%d syncadd=%v layers=%d", store, noBG, cfg.NoPrefetch, cfg.BlobConfig.ChunkSize, cfg.DirectoryCacheConfig.SyncAdd, nl)
	replay := func() map[string]any {
		return map[string]any{"stage": "l3", "case": idx, "seed": r.Seed, "config": desc, "operations": ops,
			"goroutines_at_violation": lx.AllStacks(64 << 10)}
	}
	reg := memreg.New()
	im, err := l2.Publish(reg, "reg.test", "img", "v1", bs)
	if err != nil {
		r.Inconclusive("l3: publish: " + err.Error())
		return
	}
	root := filepath.Join(r.Scratch, fmt.Sprintf("l3fs-%d", idx))
	_ = os.MkdirAll(root, 0o755)
	defer os.RemoveAll(root)
	ms, closeMS, db, err := l2.MetadataStore(store, root)
	if err != nil {
		r.Inconclusive("l3: metadata store: " + err.Error())
		return
	}
	if db != nil {
		db.NoSync = true
	}
	defer closeMS()
	fsys, err := stargzfs.NewFilesystem(root, cfg, stargzfs.WithGetSources(source.FromDefaultLabels(reg.Hosts(nil))), stargzfs.WithMetadataStore(ms))
	if err != nil {
		r.Inconclusive("l3: NewFilesystem: " + err.Error())
		return
	}
	res := resolverOf(fsys)
	if res == nil {
		r.Inconclusive("l3: cannot reach fs.filesystem.resolver (capability)")
		return
	}
	var all []string
	for i := range im.Layers {
		all = append(all, im.Layers[i].Digest.String())
	}
	labels := func(li int, toc string, withTOC bool) map[string]string {
		m := map[string]string{
			"containerd.io/snapshot/remote/stargz.reference": im.Ref.String(),
			"containerd.io/snapshot/remote/stargz.digest":    all[li],
			"containerd.io/snapshot/remote/stargz.layers":    strings.Join(all, ","),
		}
		if withTOC {
			m[estargz.TOCJSONDigestAnnotation] = toc
		}
		return m
	}
	ctx := context.Background()
	mounted := map[string]int{} // mountpoint -> layer
	nmp := 0
	newMP := func() string {
		nmp++
		mp := filepath.Join(r.Scratch, fmt.Sprintf("l3mnt-%d-%d", idx, nmp))
		_ = os.MkdirAll(mp, 0o755)
		return mp
	}
	unmount := func(mp string) {
		if err := fsys.Unmount(ctx, mp); err != nil {
			r.Count("l3_unmount_errors", 1)
		}
		delete(mounted, mp)
		ops = append(ops, "Unmount("+filepath.Base(mp)+")")
	}
	defer func() {
		for mp := range mounted {
			_ = fsys.Unmount(ctx, mp)
		}
	}()
	mount := func(li int, lb map[string]string, what string) (string, error) {
		mp := newMP()
		var merr error
		if !r.Watchdog(3*time.Minute, "l3 Mount", func() { merr = fsys.Mount(ctx, mp, lb) }) {
			return mp, fmt.Errorf("watchdog")
		}
		ops = append(ops, fmt.Sprintf("Mount(L%d,%s)->%v", li, what, merr == nil))
		r.Count("l3_mount_"+what, 1)
		return mp, merr
	}
	readOne := func(mp string, li int, key string) {
		ls := layers[li]
		p := ls.Files[rng.Intn(len(ls.Files))]
		want := ls.FS.Nodes[p]
		got, err := os.ReadFile(filepath.Join(mp, p))
		if err != nil || int64(len(got)) != want.Size || gen.CheckContent(want.ContentID, 0, got) >= 0 {
			r.Violate(key, fmt.Sprintf("file %q of a mounted layer read through the kernel mount: err=%v len=%d want=%d [%s]", p, err, len(got), want.Size, desc), replay())
		}
		r.Count("l3_kernel_reads", 1)
	}
	refused := 0
	steps := rng.Range(4, 8)
	for s := 0; s < steps; s++ {
		li := rng.Intn(nl)
		good := layers[li].Built.TOCDigest.String()
		other := layers[(li+1)%nl].Built.TOCDigest.String()
		kind := rng.PickS("wrong-digest", "malformed-digest", "no-digest", "ok", "ok", "stale-label-while-mounted")
		if !fuseOK && (kind == "ok" || kind == "stale-label-while-mounted") {
			kind = "wrong-digest"
		}
		switch kind {
		case "wrong-digest", "malformed-digest", "no-digest":
			lb := labels(li, other, true)
			if kind == "malformed-digest" {
				lb = labels(li, "sha256:zz-not-a-digest", true)
			} else if kind == "no-digest" {
				lb = labels(li, "", false)
			}
			mp, merr := mount(li, lb, kind)
			if merr == nil {
				// accepting it is C01's business; here it is simply a holder to release
				r.Count("l3_refusable_mount_accepted", 1)
				mounted[mp] = li
				unmount(mp)
			} else {
				refused++
			}
		case "ok":
			mp, merr := mount(li, labels(li, good, true), "ok")
			if merr != nil {
				r.Violate("l3-mount-fails:registry-healthy", fmt.Sprintf("Mount with correct labels fails on a healthy registry: %v [%s]", merr, desc), replay())
				continue
			}
			mounted[mp] = li
			readOne(mp, li, "l3-held-read")
			if rng.Chance(2, 3) {
				unmount(mp)
			}
		case "stale-label-while-mounted":
			mp1, merr := mount(li, labels(li, good, true), "ok")
			if merr != nil {
				r.Violate("l3-mount-fails:registry-healthy", fmt.Sprintf("Mount with correct labels fails on a healthy registry: %v [%s]", merr, desc), replay())
				continue
			}
			mounted[mp1] = li
			mp2, merr2 := mount(li, labels(li, other, true), "stale-label")
			if merr2 == nil {
				r.Count("l3_refusable_mount_accepted", 1)
				mounted[mp2] = li
				unmount(mp2)
			} else {
				refused++
			}
			// the first mount still holds the layer: it must keep serving (clause 1)
			readOne(mp1, li, "l3-held-read:after-refused-second-mount")
			unmount(mp1)
		}
	}
	for mp := range mounted {
		unmount(mp)
	}
	// quiescence: nothing of the fs packages running any more (pre-resolution, prefetch,
	// background fetch goroutines started by Mount) - state, bounded by a watchdog
	deadline := time.Now().Add(3 * time.Minute)
	for lx.GoroutinesIn("containerd/stargz-snapshotter/fs") > 0 {
		if time.Now().After(deadline) {
			r.Inconclusive("l3 watchdog: goroutines started by Mount did not finish")
			return
		}
		time.Sleep(20 * time.Millisecond)
	}
	expire := func() {
		for _, x := range rng.Perm(2 * nl) {
			if x%2 == 0 {
				res.VerifExpireLayer(im.LayerName(x / 2))
			} else {
				res.VerifExpireBlob(im.LayerName(x / 2))
			}
		}
	}
	scan := func(tag string) {
		ls, bl := res.VerifCachedNames()
		if len(ls)+len(bl) > 0 {
			r.Violate("l3-quiescence:cache-entry-left", fmt.Sprintf("%s: after expiry of every name the filesystem's resolver still caches %d layers / %d blobs [%s]", tag, len(ls), len(bl), desc), replay())
		}
		for _, kind := range []string{"fscache", "httpcache"} {
			if d := lx.CacheDirs(root, kind); len(d) > 0 {
				class, what := lx.DescribeLeft(root, kind)
				r.Violate("l3-quiescence:"+kind+"-left:"+class, fmt.Sprintf("%s: every mount was refused or unmounted and every name expired, but %s/ still has %d director(ies) (%s); %d mount(s) had been refused after the layer was resolved [%s]", tag, kind, len(d), what, refused, desc), replay())
			}
		}
		if n, _ := lx.BucketCount(db); n > 0 {
			r.Violate("l3-quiescence:db-bucket-left", fmt.Sprintf("%s: every mount was refused or unmounted and every name expired, but the bolt `filesystems` bucket still has %d entr(ies) [%s]", tag, n, desc), replay())
		}
		left, ok := lx.LeakedFds(root, 10, filepath.Join(root, "metadata.db"))
		if !ok {
			r.Inconclusive("l3 watchdog: fd scan")
		} else if len(left) > 0 {
			r.Violate("l3-quiescence:open-fd-left", fmt.Sprintf("%s: %d descriptor(s) below the filesystem root survive: %v [%s]", tag, len(left), left[:min(4, len(left))], desc), replay())
		}
		r.Count("l3_quiescence_checks", 1)
	}
	expire()
	ops = append(ops, "Quiesce")
	scan("final")
	// (4) a later mount works
	if fuseOK {
		li := rng.Intn(nl)
		mark := lx.Mark(reg)
		mp, merr := mount(li, labels(li, layers[li].Built.TOCDigest.String(), true), "ok")
		if merr != nil {
			r.Violate("l3-re-mount:fails", fmt.Sprintf("after everything was released and expired a new Mount fails: %v [%s]", merr, desc), replay())
		} else {
			mounted[mp] = li
			if lx.Heads(lx.Since(reg, mark), all[li]) < 1 {
				r.Violate("l3-re-mount:not-fresh", "after everything was released and expired a new Mount did not resolve the layer afresh ["+desc+"]", replay())
			}
			readOne(mp, li, "l3-re-mount:read")
			unmount(mp)
			deadline := time.Now().Add(3 * time.Minute)
			for lx.GoroutinesIn("containerd/stargz-snapshotter/fs") > 0 && time.Now().Before(deadline) {
				time.Sleep(20 * time.Millisecond)
			}
			expire()
			scan("after-re-mount")
		}
	}
	if refused > 0 {
		r.NonTrivial("l3:" + desc + " | " + strings.Join(ops, " "))
		r.Count("nontrivial_l3", 1)
	}
	r.Count("l3_refused_mounts", refused)
	if idx < 1 {
		r.Sample(map[string]any{"stage": "l3", "case": idx, "config": desc, "operations": ops})
	}
	_ = memreg.CDNHost
}
