// C12 — a mounted layer stays usable; a released layer gives back all its resources.
//
// Real code under test: fs/layer.Resolver (Resolve, the two TTL caches, the per-name
// resolve lock, layerRef.Done/Close, layer.close), fs/remote.blob (Check/Refresh/Close),
// the directory caches and both metadata stores, driven in process (level L2) on the
// in-memory registry. TTL expiry is an explicit operation (VerifExpireLayer/Blob = the
// timer callback body).
//
// Stages (children of the plain top process; `seq` and `conc` each run as a plain and as
// a -race binary):
//
//	seq   seeded sequential histories over 3-6 layers and up to 8 holders: Resolve (with and
//	      without injected registry faults), Verify, reads through RootNode, Done, Close,
//	      expiry of layer/blob cache entries, failing connectivity checks (-> re-resolve),
//	      Refresh, Check, prioritized begin/end, Prefetch/BackgroundFetch in the background,
//	      bursts of 2-8 concurrent Resolves of one layer, quiescence checks.
//	conc  2-8 holder goroutines with their own scripts plus one chaos goroutine (expiry,
//	      check/HEAD fault windows, prioritized begin/end), then quiescence.
//
// Oracle clauses (keys start with the clause):
//
//	held-read / conc-read   (1) a holder's read fails or returns a wrong byte although no
//	                        data request is being failed
//	burst                   (2) N concurrent Resolves of one uncached layer: more than one
//	                        blob resolution (HEAD), more than one fscache/httpcache directory
//	quiescence              (3) no holders, everything expired: cache entry / directory /
//	                        descriptor below the root / bolt bucket left
//	re-resolve              (4) a later Resolve fails, reads wrongly, or shows no fresh resolution
//	resolve-fails / ...     an operation fails although no fault is installed
//	failed-resolve          a Resolve that failed (fault injected) left a directory or bucket
//
// The monitor keeps per-goroutine logs only (no lock or shared counter of its own on the
// operation path); the memreg script of a fault window uses an atomic budget, memreg itself
// takes a read lock per request.
package main

import (
	"context"
	"errors"
	"fmt"
	"os"
	"path/filepath"
	"runtime"
	"sort"
	"strconv"
	"strings"
	"sync"
	"sync/atomic"
	"time"

	"github.com/containerd/containerd/v2/pkg/reference"
	"github.com/containerd/stargz-snapshotter/fs/config"
	"github.com/containerd/stargz-snapshotter/fs/layer"

	"verifharness/internal/lx"
	"verifharness/internal/memreg"
	"verifharness/internal/nodefs"
	"verifharness/internal/prng"
	"verifharness/internal/vf"
)

var attribution = []string{"fs/layer.(*Resolver)", "fs/layer.(*layer)", "fs/layer.(*layerRef)", "util/cacheutil.", "util/namedmutex."}

// No exclusions of "statistics": the anchored files keep theirs (prefetchSize, lastCheck,
// lastReadTime) under their own mutexes, so none is "deliberately unsynchronised".

var t0 = time.Now()

func now() int64 { return int64(time.Since(t0)) }

var bg = context.Background()

func main() {
	vf.Main("C12", "exploration",
		"each case is one seeded history over one resolver (store memory|db, blob chunk size, CheckAlways, SyncAdd, cache types and LRU/fd-cache sizes, 3-6 layers, <=8 holders): "+
			"`seq` = 25-60 sequential operations incl. bursts of concurrent Resolves, `conc` = 2-8 holder goroutines + a chaos goroutine; every case ends with the quiescence check (3) and a re-resolve (4). "+
			"non-trivial = a holder read correct bytes AFTER its layer's cache entry expired / was evicted by another holder's Close / was re-resolved because of a failing connectivity check / was refreshed, while it still held the layer, "+
			"and the quiescence check ran over >=1 resolved layer; distinct by configuration + executed operation list",
		20, 150, body)
}

func body(r *vf.Run) {
	lx.Quiet(r.Scratch)
	switch r.Child {
	case "":
		top(r)
	case "seq", "conc":
		stage(r)
	case "l3":
		stageL3(r)
	default:
		r.Inconclusive("unknown stage " + r.Child)
	}
}

// ---------------------------------------------------------------------------
// top: child batches

var poolPath string

type batch struct {
	stage    string
	race     bool
	from, to int
}

func top(r *vf.Run) {
	var bs []batch
	add := func(stage string, race bool, n, per int) {
		for f := 0; f < n; f += per {
			t := f + per
			if t > n {
				t = n
			}
			bs = append(bs, batch{stage, race, f, t})
		}
	}
	add("seq", false, r.N(36, 280), r.N(36, 70))
	add("conc", true, r.N(12, 70), r.N(12, 35))
	add("seq", true, r.N(8, 40), r.N(8, 20))
	add("conc", false, r.N(24, 170), r.N(24, 85))
	add("l3", false, r.N(8, 60), r.N(8, 30))

	// the layer pool is a function of VERIF_SEED only; built once, handed to the children
	poolPath = filepath.Join(r.Scratch, "pool.gob")
	if p, err := buildPool(r); err != nil || lx.SavePool(poolPath, p) != nil {
		poolPath = "" // children build it themselves
	}
	par := 3
	if r.Thorough() {
		par = 4
	}
	sem := make(chan struct{}, par)
	var wg sync.WaitGroup
	for _, b := range bs {
		wg.Add(1)
		sem <- struct{}{}
		go func(b batch) {
			defer wg.Done()
			defer func() { <-sem }()
			runBatch(r, b)
		}(b)
	}
	wg.Wait()
	r.Assume("internal/gen model + self-describing content, internal/memreg (registry semantics, request log), internal/nodefs (go-fuse node calls as fs.Mount would dispatch them)")
	r.Assume("VerifExpireLayer/VerifExpireBlob run exactly the TTL timer callback body (hook H4/H5); real timers never fire (ResolveResultEntryTTLSec = 1h)")
	r.Assume("an os.File that is unreachable is closed by its finalizer within 2 (+ up to 10) forced GC cycles, each awaited through a sentinel finalizer")
	r.Assume("CLOCK_MONOTONIC orders the harness's per-goroutine stamps (conc stage: fault-window overlap test)")
}

func runBatch(r *vf.Run, b batch) {
	label := fmt.Sprintf("%s/%s[%d,%d)", b.stage, map[bool]string{false: "plain", true: "race"}[b.race], b.from, b.to)
	to := 12 * time.Minute
	if r.Thorough() {
		to = 40 * time.Minute
	}
	args := []string{strconv.Itoa(b.from), strconv.Itoa(b.to), strconv.FormatBool(b.race)}
	if poolPath != "" {
		args = append(args, poolPath)
	}
	// Attribution is done here (not by vf) because of one exception that vf's
	// substring-exclude cannot express, see accountRaces.
	ex := r.RunChild(vf.ChildSpec{
		Stage: b.stage, Args: args,
		Race: b.race, Timeout: to,
	})
	r.Count("children", 1)
	accountRaces(r, ex.Races)
	if ex.ExitCode == 66 && ex.Partial && len(ex.Races) > 0 {
		ex.ExitCode = 0 // the race runtime's exit status "races were reported"; the body completed
	}
	switch {
	case ex.TimedOut:
		r.Inconclusive("child watchdog: " + b.stage)
		r.Logf("child %s timed out; output %s", label, ex.Output)
	case ex.ExitCode != 0 || ex.Signal != "" || !ex.Partial:
		out, _ := os.ReadFile(ex.Output)
		sig := lx.CrashSignature(string(out))
		site := lx.CrashSite(string(out))
		jr, _ := os.ReadFile(filepath.Join(filepath.Dir(ex.Output), "journal"))
		tail := ex.Tail
		if i := strings.Index(string(out), sig[:min(len(sig), 6)]); i >= 0 {
			end := i + 3000
			if end > len(out) {
				end = len(out)
			}
			tail = string(out[i:end])
		}
		r.Violate("crash:"+b.stage+":"+sig+"@"+site,
			fmt.Sprintf("child %s died (exit=%d signal=%q) while running %s", label, ex.ExitCode, ex.Signal, strings.TrimSpace(string(jr))),
			map[string]any{"stage": b.stage, "race": b.race, "journal": strings.TrimSpace(string(jr)), "output": tail})
	}
}

// accountRaces attributes race reports to C12: a report counts iff a stargz-snapshotter
// frame of one of its two access stacks matches the attribution set. One exception that
// vf's substring-exclude cannot express: reports in which one access stack runs inside the
// body closure of layer.backgroundFetch (backgroundFetch.func1.1: it writes the caller's
// read buffer and result variables) and NO frame of either stack matches the attribution
// set other than through layer.backgroundFetch itself. Those are: a second body of the same
// invocation, or the consumer of the buffer (backgroundFetch's caller chain: section reader
// -> decompressor -> readAndCache) reading it after InvokeBackgroundTask returned. That is
// the defect of task.InvokeBackgroundTask (it retries or returns after cancel() without
// waiting for the cancelled body: overlapping bodies, writes after return), which belongs
// to C13 and is attributed by C13/C15; it says nothing about holders or resource
// reclamation. A race of the body against layer.close, the Resolver, a layerRef, cacheutil
// or namedmutex is still attributed here. The exempted reports are listed in the evidence
// as races_owned_by_C13.
func accountRaces(r *vf.Run, reps []vf.RaceReport) {
	const mod = "github.com/containerd/stargz-snapshotter/"
	for _, rep := range reps {
		hit, hitOther, inBody := false, false, false
		for _, st := range rep.Access {
			for _, fn := range st {
				if !strings.HasPrefix(fn, mod) {
					continue
				}
				short := strings.TrimPrefix(fn, mod)
				bgf := strings.Contains(short, "fs/layer.(*layer).backgroundFetch") || strings.Contains(short, "fs/layer.(*layer).BackgroundFetch") || strings.Contains(short, "fs/layer.(*layerRef).BackgroundFetch")
				if strings.Contains(short, "fs/layer.(*layer).backgroundFetch.func1.1") {
					inBody = true
				}
				for _, a := range attribution {
					if strings.Contains(short, a) {
						hit = true
						if !bgf {
							hitOther = true
						}
					}
				}
			}
		}
		a, b := rep.InnermostRepoFrames()
		fr := []string{a, b}
		sort.Strings(fr)
		key := "race:" + fr[0] + "|" + fr[1]
		switch {
		case inBody && !hitOther:
			r.Distinct("races_owned_by_C13", key)
			r.Count("race_reports_owned_by_C13", 1)
		case hit:
			r.Violate(key, "data race between "+fr[0]+" and "+fr[1], map[string]any{"report": rep.Text})
			r.Distinct("attributed_races", key)
		}
	}
}

// ---------------------------------------------------------------------------
// stage driver

func stage(r *vf.Run) {
	from, _ := strconv.Atoi(r.ChildArgs[0])
	to, _ := strconv.Atoi(r.ChildArgs[1])
	race := r.ChildArgs[2] == "true"
	lbl := uint64(1)
	if r.Child == "conc" {
		lbl = 2
	}
	if race {
		lbl += 10
	}
	for i := from; i < to; i++ {
		_ = os.WriteFile(filepath.Join(r.Scratch, "journal"), []byte(fmt.Sprintf("BEGIN stage=%s race=%v case=%d seed=%d", r.Child, race, i, r.Seed)), 0o644)
		rng := r.RNG(lbl, uint64(i))
		ok := r.Watchdog(5*time.Minute, "case "+r.Child, func() {
			tc := time.Now()
			defer func() {
				r.Count(fmt.Sprintf("wall_ms_%s_race=%v", r.Child, race), int(time.Since(tc).Milliseconds()))
			}()
			c := newCase(r, i, race, rng)
			if c == nil {
				return
			}
			if r.Child == "seq" {
				c.runSeq()
			} else {
				c.runConc()
			}
			c.finish()
		})
		if !ok {
			// a stuck case keeps its goroutines; do not pile more work on top
			return
		}
		if i%8 == 7 {
			r.FlushPartial()
		}
	}
}

// ---------------------------------------------------------------------------
// case

type caseCfg struct {
	Store       string
	BlobChunk   int64
	CheckAlways bool
	SyncAdd     bool
	FSMem       bool
	HTTPMem     bool
	LRU, Fds    int
	NLayers     int
	MaxHolders  int
}

func (c caseCfg) String() string {
	return fmt.Sprintf("store=%s blobchunk=%d checkalways=%v syncadd=%v fsmem=%v httpmem=%v lru=%d fds=%d layers=%d holders=%d",
		c.Store, c.BlobChunk, c.CheckAlways, c.SyncAdd, c.FSMem, c.HTTPMem, c.LRU, c.Fds, c.NLayers, c.MaxHolders)
}

type holder struct {
	id         int
	li         int
	l          layer.Layer
	verified   bool
	root       *nodefs.N
	heldAcross string // non-empty: what happened to its layer while held
}

type kase struct {
	r     *vf.Run
	idx   int
	race  bool
	rng   *prng.R
	cfg   caseCfg
	w     *lx.World
	root  string
	ops   []string
	cnt   map[string]int
	dist  map[string]map[string]bool
	hs    []*holder
	nextH int

	everResolved map[int]bool
	prioOpen     int
	bgWG         sync.WaitGroup
	bgMaybe      bool // a background Prefetch/BackgroundFetch goroutine may still be running

	mirror              reference.Spec
	skipVerify          bool // this case uses SkipVerify instead of Verify everywhere (seq stage, 1 in 10)
	leakF, leakH, leakB int  // already attributed to failed resolves
	verifiedAcross      int
	quiesced            int
	concDesc            string
}

var pool []*lx.LayerSpec // built once per process, a function of VERIF_SEED only

func buildPool(r *vf.Run) ([]*lx.LayerSpec, error) {
	return lx.Pool(prng.New(r.Seed).DeriveS("C12-pool"), 24, true)
}

func newCase(r *vf.Run, idx int, race bool, rng *prng.R) *kase {
	c := &kase{r: r, idx: idx, race: race, rng: rng, cnt: map[string]int{}, dist: map[string]map[string]bool{}, everResolved: map[int]bool{}}
	cfg := caseCfg{
		Store:       rng.PickS("memory", "db"),
		BlobChunk:   int64(rng.Pick(256, 1000, 4096, 50000)),
		CheckAlways: rng.Chance(3, 4),
		SyncAdd:     rng.Bool(),
		FSMem:       rng.Chance(1, 8),
		HTTPMem:     rng.Chance(1, 8),
		LRU:         rng.Pick(1, 2, 10),
		Fds:         rng.Pick(1, 2, 10),
		NLayers:     rng.Range(3, 6),
		MaxHolders:  rng.Range(2, 8),
	}
	c.cfg = cfg
	if pool == nil {
		var err error
		if len(r.ChildArgs) > 3 {
			pool, err = lx.LoadPool(r.ChildArgs[3])
		}
		if pool == nil {
			pool, err = buildPool(r)
		}
		if err != nil {
			r.Inconclusive("harness: layer build failed: " + err.Error())
			return nil
		}
	}
	var layers []*lx.LayerSpec
	for _, i := range rng.Perm(len(pool))[:cfg.NLayers] {
		layers = append(layers, pool[i])
	}
	var conf config.Config
	conf.BlobConfig.ChunkSize = cfg.BlobChunk
	conf.BlobConfig.CheckAlways = cfg.CheckAlways
	conf.ResolveResultEntryTTLSec = 3600
	conf.PrefetchTimeoutSec = 5
	conf.DirectoryCacheConfig.SyncAdd = cfg.SyncAdd
	conf.DirectoryCacheConfig.MaxLRUCacheEntry = cfg.LRU
	conf.DirectoryCacheConfig.MaxCacheFds = cfg.Fds
	if cfg.FSMem {
		conf.FSCacheType = "memory"
	}
	if cfg.HTTPMem {
		conf.HTTPCacheType = "memory"
	}
	c.root = filepath.Join(r.Scratch, fmt.Sprintf("w-%s-%d", r.Child, idx))
	w, err := lx.NewWorld(c.root, layers, conf, cfg.Store)
	if err != nil {
		r.Inconclusive("harness: world: " + err.Error())
		return nil
	}
	c.w = w
	// a "bad mirror": another repository of the same registry that holds, under each layer's
	// digest, an object of a different size and different bytes (Refresh against it resolves
	// but must be refused)
	for i, ls := range layers {
		bad := make([]byte, len(ls.Built.Blob)+4096)
		for j := range bad {
			if j < len(ls.Built.Blob) {
				bad[j] = ^ls.Built.Blob[j]
			} else {
				bad[j] = 0xee
			}
		}
		w.Reg.AddBlobAs("reg.test", "mirror", w.Img.Layers[i].Digest, bad)
	}
	c.mirror, _ = reference.Parse("reg.test/mirror:v1")
	return c
}

func (c *kase) count(name string, n int) { c.cnt[name] += n }
func (c *kase) distinct(set, v string) {
	m := c.dist[set]
	if m == nil {
		m = map[string]bool{}
		c.dist[set] = m
	}
	m[v] = true
}
func (c *kase) op(format string, a ...any) { c.ops = append(c.ops, fmt.Sprintf(format, a...)) }

func (c *kase) replay() map[string]any {
	ops := c.ops
	if len(ops) > 400 {
		ops = ops[len(ops)-400:]
	}
	return map[string]any{"stage": c.r.Child, "race_build": c.race, "case": c.idx, "seed": c.r.Seed, "config": c.cfg.String(), "operations": ops, "conc_scripts": c.concDesc}
}

func (c *kase) violate(key, what string) {
	rp := c.replay()
	if strings.HasPrefix(key, "quiescence:") || strings.HasPrefix(key, "failed-resolve:") {
		// what is still running at the moment a resource clause fires
		rp["goroutines_at_violation"] = lx.AllStacks(96 << 10)
		rp["resolver_root_listing"] = listTree(c.root, 60)
	}
	c.r.Violate(key, what+" ["+c.cfg.String()+"]", rp)
}

func listTree(root string, max int) []string {
	var res []string
	_ = filepath.Walk(root, func(p string, info os.FileInfo, err error) error {
		if err == nil && len(res) < max {
			rel, _ := filepath.Rel(root, p)
			res = append(res, fmt.Sprintf("%s (%d)", rel, info.Size()))
		}
		return nil
	})
	return res
}

func (c *kase) finish() {
	c.r.Eval(1)
	for k, n := range c.cnt {
		c.r.Count(k, n)
	}
	for set, m := range c.dist {
		for v := range m {
			c.r.Distinct(set, v)
		}
	}
	desc := c.cfg.String() + " | " + strings.Join(c.ops, " ") + " | " + c.concDesc
	if c.verifiedAcross > 0 && c.quiesced > 0 && len(c.everResolved) > 0 {
		c.r.NonTrivial(c.r.Child + ":" + desc)
		c.r.Count("nontrivial_"+c.r.Child, 1)
	}
	if c.idx < 2 && !c.race {
		ops := c.ops
		if len(ops) > 70 {
			ops = ops[:70]
		}
		c.r.Sample(map[string]any{"stage": c.r.Child, "case": c.idx, "config": c.cfg.String(), "operations": ops, "conc_scripts": c.concDesc})
	}
	c.w.Close()
	os.RemoveAll(c.root)
}

func (c *kase) name(li int) string   { return c.w.Img.LayerName(li) }
func (c *kase) digest(li int) string { return c.w.Digest(li) }

// ---------------------------------------------------------------------------
// fault scripts

type fault struct {
	kind string // probe | head | data
	dgst string // "" = any blob
	k    int64  // probe/head: fail the first k matching requests; data: fail the k-th only
	mode string // err | 500
	seen atomic.Int64
	hits atomic.Int64
}

func (f *fault) String() string { return fmt.Sprintf("%s/%d/%s", f.kind, f.k, f.mode) }

func (f *fault) script(q *memreg.Request) memreg.Behaviour {
	if q.Kind != "blob" || (f.dgst != "" && q.Digest != f.dgst) {
		return memreg.Behaviour{}
	}
	match := false
	switch f.kind {
	case "probe":
		match = lx.IsProbe(q) && f.seen.Add(1) <= f.k
	case "head":
		match = q.Method == "HEAD" && f.seen.Add(1) <= f.k
	case "data":
		match = lx.IsData(q) && f.seen.Add(1) == f.k
	}
	if !match {
		return memreg.Behaviour{}
	}
	f.hits.Add(1)
	if f.mode == "err" {
		return memreg.Behaviour{Err: errors.New("memreg: injected transport error"), Label: "fault:" + f.kind}
	}
	return memreg.Behaviour{Status: 500, Label: "fault:" + f.kind}
}

func (c *kase) drawFault(li int, forRefresh bool) *fault {
	f := &fault{dgst: c.digest(li), mode: c.rng.PickS("err", "500")}
	switch x := c.rng.Intn(10); {
	case x < 5:
		f.kind, f.k = "probe", int64(c.rng.Range(1, 3))
	case x < 7 || forRefresh:
		f.kind, f.k = "head", 1
	default:
		f.kind, f.k = "data", int64(c.rng.Range(1, 3))
	}
	return f
}

// ---------------------------------------------------------------------------
// observation snapshots

type snap struct{ f, h, b int }

func (c *kase) snapshot() snap {
	s := snap{f: len(lx.CacheDirs(c.root, "fscache")), h: len(lx.CacheDirs(c.root, "httpcache"))}
	s.b, _ = lx.BucketCount(c.w.Env.DB)
	return s
}

func contains(ss []string, s string) bool {
	for _, x := range ss {
		if x == s {
			return true
		}
	}
	return false
}

func (c *kase) cached(li int) (layerCached, blobCached bool) {
	ls, bs := c.w.Env.Resolver.VerifCachedNames()
	return contains(ls, c.name(li)), contains(bs, c.name(li))
}

// ---------------------------------------------------------------------------
// sequential operations

func (c *kase) holdersOf(li int) []*holder {
	var res []*holder
	for _, h := range c.hs {
		if h.li == li {
			res = append(res, h)
		}
	}
	return res
}

func (c *kase) markAcross(li int, what string, except *holder) {
	for _, h := range c.holdersOf(li) {
		if h != except && h.heldAcross == "" {
			h.heldAcross = what
		}
	}
}

func (c *kase) addHolder(li int, l layer.Layer) *holder {
	h := &holder{id: c.nextH, li: li, l: l}
	c.nextH++
	c.hs = append(c.hs, h)
	c.everResolved[li] = true
	return h
}

func errClass(err error) string {
	s := err.Error()
	for _, m := range []string{"already closed", "failed to redirect", "failed to get size", "error reading footer", "failed to get the reader of TOC", "failed to read TOC", "failed to initialize matadata", "failed to resolve the blob", "failed to resolve the source", "unexpected status code", "injected transport error", "check failed", "failed to refresh URL", "invalid size of new blob"} {
		if strings.Contains(s, m) {
			return m
		}
	}
	if len(s) > 60 {
		s = s[:60]
	}
	return s
}

func (c *kase) opResolve(li int, f *fault) {
	before := c.snapshot()
	lc, bc := c.cached(li)
	if f != nil {
		c.w.Reg.SetScript(f.script)
	}
	l, err := c.w.Env.Resolve(bg, c.w.Img, li)
	if f != nil {
		c.w.Reg.SetScript(nil)
	}
	hits := int64(0)
	fs := "-"
	if f != nil {
		hits = f.hits.Load()
		fs = f.String()
	}
	c.op("Resolve(L%d,fault=%s,cached=%v/%v)->%v", li, fs, lc, bc, err == nil)
	c.count("op_resolve", 1)
	if err != nil {
		if hits == 0 {
			c.violate("resolve-fails:registry-healthy", fmt.Sprintf("Resolve of layer %d failed although no request was being failed: %v", li, err))
			return
		}
		c.count("resolve_failed_under_fault", 1)
		c.distinct("resolve_errors_under_fault", f.kind+": "+errClass(err))
		// a failed Resolve must not leave anything behind (attribution of clause 3)
		after := c.snapshot()
		if after.f > before.f {
			c.leakF += after.f - before.f
			c.violate("failed-resolve:leaves-fscache-dir@"+f.kind, fmt.Sprintf("a Resolve that failed (%s: %v) left %d new fscache directory(ies) behind", fs, err, after.f-before.f))
		}
		if after.h > before.h {
			c.leakH += after.h - before.h
			c.violate("failed-resolve:leaves-httpcache-dir@"+f.kind, fmt.Sprintf("a Resolve that failed (%s: %v) left %d new httpcache directory(ies) behind", fs, err, after.h-before.h))
		}
		if after.b > before.b {
			c.leakB += after.b - before.b
			c.violate("failed-resolve:leaves-db-bucket@"+f.kind+":"+errClass(err), fmt.Sprintf("a Resolve that failed (%s: %v) left %d new filesystem bucket(s) in the db metadata store: nothing refers to them any more, they are never deleted", fs, err, after.b-before.b))
		}
		if lc {
			// the cached instance may have been evicted by the failing connectivity check
			c.markAcross(li, "failed-resolve-evicted-cached", nil)
		}
		return
	}
	if hits > 0 && lc {
		c.count("reresolved_after_check_failure", 1)
		c.markAcross(li, "re-resolved-after-check-failure", nil)
	}
	if hits > 0 {
		c.count("resolve_ok_under_fault", 1)
	}
	h := c.addHolder(li, l)
	if c.rng.Chance(4, 5) {
		c.opVerify(h)
	}
}

func (c *kase) opVerify(h *holder) bool {
	if h.verified {
		return true
	}
	// One mode per case: since /repo 40ef6e6 a layer that some holder put into use with
	// SkipVerify refuses a later Verify ("already in use without verification"), so mixing
	// the two on one shared instance is not a legal history any more.
	var err error
	if c.skipVerify {
		h.l.SkipVerify()
	} else {
		err = h.l.Verify(c.w.Layers[h.li].Built.TOCDigest)
	}
	c.count("op_verify", 1)
	if err != nil {
		c.violate("verify-fails:held-layer", fmt.Sprintf("Verify with the genuine TOC digest failed on a held layer (held across %q): %v", h.heldAcross, err))
		return false
	}
	h.verified = true
	return true
}

func (c *kase) opRead(h *holder, full bool) {
	if !c.opVerify(h) {
		return
	}
	ls := c.w.Layers[h.li]
	if h.root == nil || c.rng.Chance(1, 3) {
		root, rerr := lx.Root(h.l)
		if rerr != nil {
			c.readViolation(h, rerr)
			return
		}
		h.root = root
	}
	p := ls.Files[c.rng.Intn(len(ls.Files))]
	sz := ls.FS.Nodes[p].Size
	var rerr *lx.ReadErr
	if full || sz == 0 {
		rerr = lx.ReadFull(h.root, ls, p)
	} else {
		off := c.rng.Int63n(sz)
		n := 1 + c.rng.Intn(int(sz-off))
		rerr = lx.ReadRange(h.root, ls, p, off, n)
	}
	c.count("op_read", 1)
	if rerr != nil {
		c.readViolation(h, rerr)
		return
	}
	if h.heldAcross != "" {
		c.verifiedAcross++
		c.count("reads_ok_after_"+h.heldAcross, 1)
	}
}

func (c *kase) readViolation(h *holder, e *lx.ReadErr) {
	ctx := "plain"
	if h.heldAcross != "" {
		ctx = "after-" + h.heldAcross
	}
	c.violate("held-read:"+e.Class+":"+ctx, fmt.Sprintf("holder %d of layer %d (still holding it, no request being failed) cannot read: %v", h.id, h.li, e))
}

func (c *kase) opRelease(h *holder, closeIt bool) {
	if closeIt {
		if err := h.l.Close(); err != nil {
			c.distinct("close_errors", errClass(err))
		}
		c.markAcross(h.li, "evicted-by-other-close", h)
		c.op("Close(h%d:L%d)", h.id, h.li)
		c.count("op_close", 1)
	} else {
		h.l.Done()
		c.op("Done(h%d:L%d)", h.id, h.li)
		c.count("op_done", 1)
	}
	h.l, h.root = nil, nil
	for i, x := range c.hs {
		if x == h {
			c.hs = append(c.hs[:i], c.hs[i+1:]...)
			break
		}
	}
}

func (c *kase) opExpire(li int, blobToo bool) {
	lc, bc := c.cached(li)
	if blobToo {
		c.w.Env.Resolver.VerifExpireBlob(c.name(li))
		c.op("ExpireBlob(L%d)", li)
		c.count("op_expire_blob", 1)
		if bc {
			c.markAcross(li, "blob-expired", nil)
		}
		return
	}
	c.w.Env.Resolver.VerifExpireLayer(c.name(li))
	c.op("ExpireLayer(L%d)", li)
	c.count("op_expire_layer", 1)
	if lc {
		c.markAcross(li, "layer-expired", nil)
	}
}

func (c *kase) opRefresh(h *holder, f *fault) {
	if f != nil {
		c.w.Reg.SetScript(f.script)
	}
	err := h.l.Refresh(bg, c.w.Env.Hosts, c.w.Img.Ref, c.w.Img.Layers[h.li])
	if f != nil {
		c.w.Reg.SetScript(nil)
	}
	fs := "-"
	hits := int64(0)
	if f != nil {
		fs, hits = f.String(), f.hits.Load()
	}
	c.op("Refresh(h%d:L%d,fault=%s)->%v", h.id, h.li, fs, err == nil)
	c.count("op_refresh", 1)
	if err != nil && hits == 0 {
		c.violate("refresh-fails:registry-healthy", fmt.Sprintf("Refresh of a held layer failed although no request was being failed (held across %q): %v", h.heldAcross, err))
		return
	}
	if err != nil {
		c.count("refresh_failed_under_fault", 1)
	}
	c.markAcross(h.li, "refresh", nil)
}

// opRefreshRefused: a connectivity refresh against a source that resolves but holds an
// object of a different size under the layer's digest (what fs.check does with a second,
// stale source). The refresh must be refused, and - clause 1, "regardless of connectivity
// refreshes" - the held layer must go on serving the right bytes from its original source:
// every holder of that layer then reads EVERY regular file in full through a fresh root node
// (files not read before need the registry).
func (c *kase) opRefreshRefused(h *holder) {
	err := h.l.Refresh(bg, c.w.Env.Hosts, c.mirror, c.w.Img.Layers[h.li])
	c.op("RefreshRefused(h%d:L%d)->%v", h.id, h.li, err != nil)
	c.count("op_refresh_refused", 1)
	if err == nil {
		c.violate("refresh-against-different-size-object:accepted", "Refresh against a source whose object under the layer's digest has a different size returned nil")
		return
	}
	c.distinct("refused_refresh_errors", errClass(err))
	c.markAcross(h.li, "refused-refresh", nil)
	for _, hh := range c.holdersOf(h.li) {
		if !c.opVerify(hh) {
			continue
		}
		root, rerr := lx.Root(hh.l)
		if rerr != nil {
			c.readViolation(hh, rerr)
			continue
		}
		hh.root = root
		ls := c.w.Layers[hh.li]
		ok := true
		for _, p := range ls.Files {
			if rerr := lx.ReadFull(root, ls, p); rerr != nil {
				c.readViolation(hh, rerr)
				ok = false
				break
			}
		}
		c.count("op_read", len(ls.Files))
		if ok {
			c.verifiedAcross++
			c.count("reads_ok_after_refused-refresh", 1)
		}
	}
}

func (c *kase) opCheck(h *holder) {
	err := h.l.Check()
	c.op("Check(h%d:L%d)->%v", h.id, h.li, err == nil)
	c.count("op_check", 1)
	if err != nil {
		c.violate("check-fails:registry-healthy", fmt.Sprintf("Check of a held layer failed although no request was being failed (held across %q): %v", h.heldAcross, err))
	}
}

func (c *kase) opBackground(h *holder) {
	if !c.opVerify(h) {
		return
	}
	l := h.l
	kind := c.rng.Intn(3)
	size := int64(c.rng.Pick(0, 1000, 1<<20))
	c.bgWG.Add(1)
	c.bgMaybe = true
	go func() {
		defer c.bgWG.Done()
		// errors are expected here (layer released meanwhile, db store + "./" entry, ...)
		if kind != 1 {
			_ = l.Prefetch(size)
		}
		if kind != 0 {
			_ = l.BackgroundFetch()
		}
	}()
	c.op("Background(h%d:L%d,kind=%d)", h.id, h.li, kind)
	c.count("op_background", 1)
}

// opMountUnmount: what fs.Mount / fs.Unmount do to a layer nobody else holds: Resolve,
// Verify, start Prefetch and BackgroundFetch in goroutines, and Close (the evicting release
// that closes the layer at once) while they are still running. Nothing is read; the point
// is the release racing with fetch bodies that are inside the caches (clause 3).
func (c *kase) opMountUnmount() {
	var free []int
	for li := 0; li < c.cfg.NLayers; li++ {
		if len(c.holdersOf(li)) == 0 {
			free = append(free, li)
		}
	}
	if len(free) == 0 || len(c.hs) >= c.cfg.MaxHolders {
		return
	}
	li := free[c.rng.Intn(len(free))]
	l, err := c.w.Env.Resolve(bg, c.w.Img, li)
	if err != nil {
		c.violate("resolve-fails:registry-healthy", fmt.Sprintf("Resolve of layer %d failed although no request was being failed: %v", li, err))
		return
	}
	h := c.addHolder(li, l)
	if !c.opVerify(h) {
		return
	}
	c.bgWG.Add(2)
	c.bgMaybe = true
	go func() { defer c.bgWG.Done(); _ = l.Prefetch(1 << 20) }()
	go func() { defer c.bgWG.Done(); _ = l.BackgroundFetch() }()
	pause(c.rng.Pick(0, 50, 300, 1000, 3000))
	c.op("MountUnmount(L%d)", li)
	c.count("op_mount_unmount", 1)
	c.opRelease(h, true)
}

func (c *kase) opPrio() {
	if c.prioOpen > 0 && c.rng.Bool() {
		c.w.Env.TM.DonePrioritizedTask()
		c.prioOpen--
		c.op("PrioEnd")
	} else if c.prioOpen < 3 {
		c.w.Env.TM.DoPrioritizedTask()
		c.prioOpen++
		c.op("PrioBegin")
	}
	c.count("op_prio", 1)
}

// opBurst: N concurrent Resolves of one layer, nothing else running.
func (c *kase) opBurst(li, n int) {
	lc, bc := c.cached(li)
	before := c.snapshot()
	mark := lx.Mark(c.w.Reg)
	type res struct {
		l   layer.Layer
		err error
	}
	out := make([]res, n)
	var wg sync.WaitGroup
	start := make(chan struct{})
	for i := 0; i < n; i++ {
		wg.Add(1)
		go func(i int) {
			defer wg.Done()
			<-start
			l, err := c.w.Env.Resolve(bg, c.w.Img, li)
			out[i] = res{l, err}
		}(i)
	}
	close(start)
	wg.Wait()
	log := lx.Since(c.w.Reg, mark)
	after := c.snapshot()
	c.op("Burst(L%d,n=%d,cached=%v/%v)", li, n, lc, bc)
	c.count("op_burst", 1)
	c.count("burst_resolves", n)
	okAll := true
	for _, o := range out {
		if o.err != nil {
			okAll = false
			c.violate("burst:resolve-fails:registry-healthy", fmt.Sprintf("one of %d concurrent Resolves of layer %d failed although no request was being failed: %v", n, li, o.err))
		} else {
			c.addHolder(li, o.l)
		}
	}
	if !okAll {
		return
	}
	heads := lx.Heads(log, c.digest(li))
	size := int64(len(c.w.Layers[li].Built.Blob))
	footers := lx.Covering(log, c.digest(li), size-1)
	wantHeads, wantF, wantH := 0, 0, 0
	class := "cached"
	switch {
	case lc:
	case bc:
		wantF, class = 1, "blob-cached"
	default:
		wantHeads, wantF, wantH, class = 1, 1, 1, "first"
	}
	if c.cfg.FSMem {
		wantF = 0
	}
	if c.cfg.HTTPMem {
		wantH = 0
	}
	c.count("burst_"+class, 1)
	if heads != wantHeads {
		c.violate("burst:blob-resolved-more-than-once:"+class, fmt.Sprintf("%d concurrent Resolves of layer %d (%s): the registry saw %d blob resolutions (HEAD) instead of %d: %s", n, li, class, heads, wantHeads, lx.DescribeReqs(log, 12)))
	}
	if d := after.f - before.f; d != wantF {
		c.violate("burst:fscache-dirs:"+class, fmt.Sprintf("%d concurrent Resolves of layer %d (%s) created %d fscache directories instead of %d (more than one resolved instance)", n, li, class, d, wantF))
	}
	if d := after.h - before.h; d != wantH {
		c.violate("burst:httpcache-dirs:"+class, fmt.Sprintf("%d concurrent Resolves of layer %d (%s) created %d httpcache directories instead of %d", n, li, class, d, wantH))
	}
	if c.cfg.Store == "db" {
		wantB := 0
		if !lc {
			wantB = 1
		}
		if d := after.b - before.b; d != wantB {
			c.violate("burst:db-buckets:"+class, fmt.Sprintf("%d concurrent Resolves of layer %d (%s) created %d metadata buckets instead of %d", n, li, class, d, wantB))
		}
	}
	// The footer is fetched once per metadata load. Slack: with SyncAdd=false a chunk that
	// left the small in-memory LRU before its write-behind finished is legitimately fetched
	// again, so this clause is only judged when the http cache keeps what it was given.
	// Not judged either while a background fetch of an older, still held instance of the
	// same layer may be running (it fetches the end of the blob on its own).
	if class == "first" && (c.cfg.SyncAdd || c.cfg.HTTPMem) && !c.bgMaybe && footers != 1 {
		c.violate("burst:footer-fetched-more-than-once", fmt.Sprintf("%d concurrent first Resolves of layer %d: the last byte of the blob (footer) was fetched %d times instead of once: %s", n, li, footers, lx.DescribeReqs(log, 12)))
	}
	ls, _ := c.w.Env.Resolver.VerifCachedNames()
	if !contains(ls, c.name(li)) {
		c.violate("burst:not-cached-afterwards", fmt.Sprintf("after %d successful concurrent Resolves layer %d is not in the layer cache", n, li))
	}
}

// quiesce: release everything, expire everything, then clause (3).
func (c *kase) quiesce(tag string) {
	for c.prioOpen > 0 {
		c.w.Env.TM.DonePrioritizedTask()
		c.prioOpen--
	}
	for len(c.hs) > 0 {
		h := c.hs[c.rng.Intn(len(c.hs))]
		c.opRelease(h, c.rng.Bool())
	}
	if !c.waitBG() {
		return
	}
	order := c.rng.Perm(c.cfg.NLayers * 2)
	for _, x := range order {
		li, blobToo := x/2, x%2 == 1
		if blobToo {
			c.w.Env.Resolver.VerifExpireBlob(c.name(li))
		} else {
			c.w.Env.Resolver.VerifExpireLayer(c.name(li))
		}
	}
	c.op("Quiesce(%s)", tag)
	c.checkQuiescent(tag)
}

func (c *kase) waitBG() bool {
	done := make(chan struct{})
	go func() { c.bgWG.Wait(); close(done) }()
	select {
	case <-done:
		c.bgMaybe = false
		return true
	case <-time.After(4 * time.Minute):
		c.r.Inconclusive("watchdog: background Prefetch/BackgroundFetch goroutines did not return")
		return false
	}
}

func (c *kase) checkQuiescent(tag string) {
	c.quiesced++
	c.count("quiescence_checks", 1)
	ls, bs := c.w.Env.Resolver.VerifCachedNames()
	if len(ls) > 0 || len(bs) > 0 {
		c.violate("quiescence:cache-entry-left", fmt.Sprintf("after expiry of every name the caches still hold %d layer and %d blob entries", len(ls), len(bs)))
	}
	s := c.snapshot()
	if s.f > c.leakF {
		class, what := lx.DescribeLeft(c.root, "fscache")
		c.violate("quiescence:fscache-left:"+class, fmt.Sprintf("no holder, everything expired, but fscache/ still has %d director(ies) (%s)", s.f, what))
		c.leakF = s.f
	}
	if s.h > c.leakH {
		class, what := lx.DescribeLeft(c.root, "httpcache")
		c.violate("quiescence:httpcache-left:"+class, fmt.Sprintf("no holder, everything expired, but httpcache/ still has %d director(ies) (%s)", s.h, what))
		c.leakH = s.h
	}
	if s.b > c.leakB {
		c.violate("quiescence:db-bucket-left", fmt.Sprintf("no holder, everything expired, but the bolt `filesystems` bucket still has %d entr(ies) (%d of them attributed to failed resolves)", s.b, c.leakB))
		c.leakB = s.b
	}
	left, ok := lx.LeakedFds(c.root, 10, filepath.Join(c.root, "metadata.db"))
	if !ok {
		c.r.Inconclusive("watchdog: fd scan (sentinel finalizer did not run, or a directory-cache goroutine still owns a descriptor after 90 s)")
	} else if len(left) > 0 {
		show := left
		if len(show) > 6 {
			show = show[:6]
		}
		kind := "other"
		switch {
		case strings.Contains(left[0], "/fscache/"):
			kind = "fscache"
		case strings.Contains(left[0], "/httpcache/"):
			kind = "httpcache"
		}
		c.violate("quiescence:open-fd-left:"+kind, fmt.Sprintf("no holder, everything expired, %d descriptor(s) below the resolver root survive 2+10 forced GC cycles although no goroutine is inside the directory cache any more: %v", len(left), show))
	}
	c.count("fd_scans", 1)
}

// reResolve: clause (4).
func (c *kase) reResolve() {
	var lis []int
	for li := range c.everResolved {
		lis = append(lis, li)
	}
	sort.Ints(lis)
	if len(lis) > 3 {
		p := c.rng.Perm(len(lis))[:3]
		lis = []int{lis[p[0]], lis[p[1]], lis[p[2]]}
	}
	for _, li := range lis {
		mark := lx.Mark(c.w.Reg)
		l, err := c.w.Env.Resolve(bg, c.w.Img, li)
		c.op("ReResolve(L%d)->%v", li, err == nil)
		c.count("op_reresolve", 1)
		if err != nil {
			c.violate("re-resolve:fails", fmt.Sprintf("after release and expiry of everything a new Resolve of layer %d fails: %v", li, err))
			continue
		}
		log := lx.Since(c.w.Reg, mark)
		size := int64(len(c.w.Layers[li].Built.Blob))
		if lx.Heads(log, c.digest(li)) < 1 || lx.Covering(log, c.digest(li), size-1) < 1 {
			c.violate("re-resolve:not-fresh", fmt.Sprintf("after release and expiry of everything a new Resolve of layer %d did not resolve afresh (HEAD=%d, footer fetches=%d): %s", li, lx.Heads(log, c.digest(li)), lx.Covering(log, c.digest(li), size-1), lx.DescribeReqs(log, 10)))
		}
		h := c.addHolder(li, l)
		var verr error
		if c.skipVerify {
			l.SkipVerify()
		} else {
			verr = l.Verify(c.w.Layers[li].Built.TOCDigest)
		}
		if verr != nil {
			c.violate("re-resolve:verify-fails", fmt.Sprintf("layer %d resolved afresh does not verify: %v", li, verr))
		} else {
			h.verified = true
			ls := c.w.Layers[li]
			root, rerr := lx.Root(l)
			if rerr == nil {
				h.root = root
				rerr = lx.ReadFull(root, ls, ls.Files[c.rng.Intn(len(ls.Files))])
			}
			if rerr != nil {
				c.violate("re-resolve:read:"+rerr.Class, fmt.Sprintf("layer %d resolved afresh cannot be read: %v", li, rerr))
			}
		}
	}
	c.quiesce("after-re-resolve")
}

func (c *kase) runSeq() {
	c.skipVerify = c.rng.Chance(1, 10)
	if c.skipVerify {
		c.op("Mode(SkipVerify)")
	}
	steps := c.rng.Range(25, 60)
	for s := 0; s < steps; s++ {
		x := c.rng.Intn(100)
		var h *holder
		if len(c.hs) > 0 {
			h = c.hs[c.rng.Intn(len(c.hs))]
		}
		switch {
		case x < 22 || h == nil:
			if len(c.hs) >= c.cfg.MaxHolders {
				continue
			}
			li := c.rng.Intn(c.cfg.NLayers)
			var f *fault
			if c.rng.Chance(3, 10) {
				f = c.drawFault(li, false)
			}
			c.opResolve(li, f)
		case x < 42:
			c.opRead(h, c.rng.Chance(1, 4))
			c.op("Read(h%d:L%d)", h.id, h.li)
		case x < 50:
			for _, hh := range append([]*holder(nil), c.hs...) {
				c.opRead(hh, false)
			}
			c.op("ReadAll(%d)", len(c.hs))
		case x < 58:
			c.opRelease(h, false)
		case x < 66:
			c.opRelease(h, true)
		case x < 74:
			c.opExpire(c.rng.Intn(c.cfg.NLayers), false)
		case x < 79:
			c.opExpire(c.rng.Intn(c.cfg.NLayers), true)
		case x < 83:
			var f *fault
			if c.rng.Chance(1, 3) {
				f = c.drawFault(h.li, true)
			}
			c.opRefresh(h, f)
		case x < 85:
			c.opCheck(h)
		case x < 86:
			c.opRefreshRefused(h)
		case x < 89:
			c.opPrio()
		case x < 91:
			c.opBackground(h)
		case x < 93:
			c.opMountUnmount()
		case x < 98:
			slots := c.cfg.MaxHolders - len(c.hs)
			if slots < 2 {
				continue
			}
			n := c.rng.Range(2, slots)
			c.opBurst(c.rng.Intn(c.cfg.NLayers), n)
		default:
			c.quiesce("mid")
		}
		if c.r.Violations() > 30 {
			break
		}
	}
	c.opMountUnmount()
	if len(c.hs) == 0 {
		c.opResolve(c.rng.Intn(c.cfg.NLayers), nil)
	}
	if len(c.hs) > 0 {
		c.opRefreshRefused(c.hs[c.rng.Intn(len(c.hs))])
	}
	// every current holder reads once more before the end (oracle 1)
	for _, hh := range append([]*holder(nil), c.hs...) {
		c.opRead(hh, false)
	}
	c.quiesce("final")
	c.reResolve()
}

// ---------------------------------------------------------------------------
// concurrent stage

type ivl struct {
	t0, t1 int64
	what   string
	err    string
}

type holdRec struct {
	li           int
	t0, lastRead int64
	t1           int64
	closed       bool
}

type hscriptIter struct {
	li               int
	reads1, reads2   int
	refresh, check   bool
	bgKind           int // 0 none, 1 prefetch, 2 bgfetch, 3 both
	closeIt          bool
	pause            [4]int // microseconds
}

type hlog struct {
	bg          sync.WaitGroup
	resolveErrs []ivl
	opErrs      []ivl // refresh / check errors
	readErrs    []string
	verifyErrs  []string
	holds       []holdRec
	resolves    int
	reads       int
}

type chaosAct struct {
	kind  string // expire-layer | expire-blob | fault | prio
	li    int
	f     *fault
	durUS int
	gapUS int
}

type chaosLog struct {
	events  []ivl // expiries (t0 = t1 = time of call return), what = "L<i>"
	windows []ivl // fault windows
}

func pause(us int) {
	if us <= 0 {
		runtime.Gosched()
		return
	}
	time.Sleep(time.Duration(us) * time.Microsecond)
}

func (c *kase) runConc() {
	nh := c.cfg.MaxHolders
	scripts := make([][]hscriptIter, nh)
	var sb strings.Builder
	for g := 0; g < nh; g++ {
		grng := c.rng.Derive(5000 + uint64(g))
		for it, n := 0, grng.Range(3, 7); it < n; it++ {
			s := hscriptIter{li: grng.Intn(c.cfg.NLayers), reads1: grng.Range(1, 3), reads2: grng.Range(0, 3),
				refresh: grng.Chance(1, 6), check: grng.Chance(1, 6), closeIt: grng.Bool()}
			if grng.Chance(1, 5) {
				s.bgKind = grng.Range(1, 3)
			}
			for k := range s.pause {
				s.pause[k] = grng.Pick(0, 0, 20, 100, 400)
			}
			scripts[g] = append(scripts[g], s)
			fmt.Fprintf(&sb, "g%d:L%d r%d/%d rf=%v ck=%v bg=%d close=%v; ", g, s.li, s.reads1, s.reads2, s.refresh, s.check, s.bgKind, s.closeIt)
		}
	}
	crng := c.rng.Derive(7777)
	var acts []chaosAct
	for i, n := 0, crng.Range(10, 40); i < n; i++ {
		a := chaosAct{li: crng.Intn(c.cfg.NLayers), gapUS: crng.Pick(0, 50, 200, 800)}
		switch x := crng.Intn(10); {
		case x < 4:
			a.kind = "expire-layer"
		case x < 6:
			a.kind = "expire-blob"
		case x < 9:
			a.kind = "fault"
			a.f = &fault{mode: crng.PickS("err", "500")}
			if crng.Chance(2, 3) {
				a.f.kind, a.f.k = "probe", int64(crng.Range(1, 4))
			} else {
				a.f.kind, a.f.k = "head", int64(crng.Range(1, 2))
			}
			if crng.Bool() {
				a.f.dgst = c.digest(a.li)
			}
			a.durUS = crng.Pick(100, 500, 2000)
		default:
			a.kind = "prio"
			a.durUS = crng.Pick(50, 500)
		}
		acts = append(acts, a)
		fmt.Fprintf(&sb, "chaos:%s(L%d) ", a.kind, a.li)
	}
	c.concDesc = sb.String()

	logs := make([]hlog, nh)
	var cl chaosLog
	start := make(chan struct{})
	var wg sync.WaitGroup
	for g := 0; g < nh; g++ {
		wg.Add(1)
		go func(g int) {
			defer wg.Done()
			grng := c.rng.Derive(9000 + uint64(g))
			<-start
			c.holderLoop(&logs[g], scripts[g], grng)
		}(g)
	}
	wg.Add(1)
	go func() {
		defer wg.Done()
		<-start
		for _, a := range acts {
			pause(a.gapUS)
			switch a.kind {
			case "expire-layer":
				c.w.Env.Resolver.VerifExpireLayer(c.name(a.li))
				t := now()
				cl.events = append(cl.events, ivl{t0: t, t1: t, what: fmt.Sprintf("L%d", a.li)})
			case "expire-blob":
				c.w.Env.Resolver.VerifExpireBlob(c.name(a.li))
				t := now()
				cl.events = append(cl.events, ivl{t0: t, t1: t, what: fmt.Sprintf("L%d", a.li)})
			case "fault":
				w := ivl{t0: now(), what: a.f.String()}
				c.w.Reg.SetScript(a.f.script)
				pause(a.durUS)
				c.w.Reg.SetScript(nil)
				w.t1 = now()
				cl.windows = append(cl.windows, w)
			case "prio":
				c.w.Env.TM.DoPrioritizedTask()
				pause(a.durUS)
				c.w.Env.TM.DonePrioritizedTask()
			}
		}
	}()
	close(start)
	wg.Wait()
	for g := range logs {
		lg := &logs[g]
		c.bgWG.Add(1)
		go func() { defer c.bgWG.Done(); lg.bg.Wait() }()
	}

	// ---- judge ----
	overlaps := func(t0, t1 int64) bool {
		for _, w := range cl.windows {
			if t0 <= w.t1 && w.t0 <= t1 {
				return true
			}
		}
		return false
	}
	hits := 0
	for _, a := range acts {
		if a.f != nil {
			hits += int(a.f.hits.Load())
		}
	}
	c.count("conc_fault_hits", hits)
	c.count("conc_fault_windows", len(cl.windows))
	c.count("conc_expiries", len(cl.events))
	for g := range logs {
		lg := &logs[g]
		c.count("op_resolve", lg.resolves)
		c.count("op_read", lg.reads)
		for _, e := range lg.readErrs {
			parts := strings.SplitN(e, "|", 2)
			c.violate("conc-read:"+parts[0], "a holder that still holds its layer cannot read although no data request is ever failed in this stage: "+parts[1])
		}
		for _, e := range lg.verifyErrs {
			c.violate("conc-verify-fails:held-layer", "Verify with the genuine TOC digest failed on a held layer: "+e)
		}
		for _, e := range lg.resolveErrs {
			if overlaps(e.t0, e.t1) {
				c.count("resolve_failed_under_fault", 1)
				c.distinct("resolve_errors_under_fault", errClass(errors.New(e.err)))
			} else {
				c.violate("conc-resolve-fails:registry-healthy", fmt.Sprintf("a Resolve failed although no fault window overlapped its call interval: %s", e.err))
			}
		}
		for _, e := range lg.opErrs {
			if overlaps(e.t0, e.t1) {
				c.count(e.what+"_failed_under_fault", 1)
			} else {
				c.violate("conc-"+e.what+"-fails:registry-healthy", fmt.Sprintf("%s of a held layer failed although no fault window overlapped its call interval: %s", e.what, e.err))
			}
		}
	}
	// non-triviality: a hold that saw an expiry/eviction of its layer and read correctly afterwards,
	// while another holder held the same layer at the same time
	for g := range logs {
		for _, h := range logs[g].holds {
			across := false
			for _, e := range cl.events {
				if e.what == fmt.Sprintf("L%d", h.li) && e.t0 > h.t0 && e.t0 < h.lastRead {
					across = true
				}
			}
			shared := false
			for g2 := range logs {
				if g2 == g {
					continue
				}
				for _, h2 := range logs[g2].holds {
					if h2.li == h.li && h2.t0 < h.t1 && h.t0 < h2.t1 {
						shared = true
						if h2.closed && h2.t1 > h.t0 && h2.t1 < h.lastRead {
							across = true
						}
					}
				}
			}
			if shared {
				c.count("conc_holds_shared", 1)
			}
			if across {
				c.count("conc_holds_read_after_expiry_or_evict", 1)
			}
			if across && shared {
				c.verifiedAcross++
			}
			c.everResolved[h.li] = true
		}
	}
	c.quiesce("final")
	c.reResolve()
}

func (c *kase) holderLoop(lg *hlog, script []hscriptIter, rng *prng.R) {
	for _, s := range script {
		pause(s.pause[0])
		ls := c.w.Layers[s.li]
		t0 := now()
		l, err := c.w.Env.Resolve(bg, c.w.Img, s.li)
		t1 := now()
		lg.resolves++
		if err != nil {
			lg.resolveErrs = append(lg.resolveErrs, ivl{t0: t0, t1: t1, err: err.Error()})
			continue
		}
		hold := holdRec{li: s.li, t0: t1}
		if err := l.Verify(ls.Built.TOCDigest); err != nil {
			lg.verifyErrs = append(lg.verifyErrs, err.Error())
			l.Done()
			continue
		}
		var root *nodefs.N
		read := func(n int) {
			for i := 0; i < n; i++ {
				if root == nil || rng.Chance(1, 3) {
					r2, rerr := lx.Root(l)
					if rerr != nil {
						lg.readErrs = append(lg.readErrs, rerr.Class+"|"+rerr.Detail)
						return
					}
					root = r2
				}
				p := ls.Files[rng.Intn(len(ls.Files))]
				sz := ls.FS.Nodes[p].Size
				var rerr *lx.ReadErr
				if sz == 0 {
					rerr = lx.ReadFull(root, ls, p)
				} else {
					off := rng.Int63n(sz)
					rerr = lx.ReadRange(root, ls, p, off, 1+rng.Intn(int(sz-off)))
				}
				lg.reads++
				if rerr != nil {
					lg.readErrs = append(lg.readErrs, rerr.Class+"|"+rerr.Detail)
				} else {
					hold.lastRead = now()
				}
				pause(s.pause[1])
			}
		}
		read(s.reads1)
		if s.bgKind != 0 {
			lg.bg.Add(1)
			kind := s.bgKind
			go func() {
				defer lg.bg.Done()
				if kind&1 != 0 {
					_ = l.Prefetch(1 << 20)
				}
				if kind&2 != 0 {
					_ = l.BackgroundFetch()
				}
			}()
		}
		if s.refresh {
			a := now()
			if err := l.Refresh(bg, c.w.Env.Hosts, c.w.Img.Ref, c.w.Img.Layers[s.li]); err != nil {
				lg.opErrs = append(lg.opErrs, ivl{t0: a, t1: now(), what: "refresh", err: err.Error()})
			}
		}
		if s.check {
			a := now()
			if err := l.Check(); err != nil {
				lg.opErrs = append(lg.opErrs, ivl{t0: a, t1: now(), what: "check", err: err.Error()})
			}
		}
		pause(s.pause[2])
		read(s.reads2)
		hold.t1 = now()
		hold.closed = s.closeIt
		if s.closeIt {
			_ = l.Close()
		} else {
			l.Done()
		}
		lg.holds = append(lg.holds, hold)
		pause(s.pause[3])
	}
}
