package main

// In-memory scripted registry (an http.RoundTripper) with a request log, the
// goroutine-local bookkeeping the log needs, and the taint oracle of part (b).
//
// Rule 4 (do not hide races): nothing on the request path takes a shared lock or does a
// shared read-modify-write. Every harness goroutine that may issue requests registers a
// gstate before it starts (under a mutex, off the operation path); RoundTrip and the hook
// handler find it by goroutine id in a map that nobody writes while workers run, and
// append to that goroutine's private buffer. Server behaviour that changes during a case
// is held in per-object atomics that only the driver stores to (handlers only load).

import (
	"bytes"
	"encoding/base64"
	"encoding/json"
	"fmt"
	"io"
	"mime/multipart"
	"net/http"
	"net/textproto"
	"net/url"
	"regexp"
	"runtime"
	"sort"
	"strconv"
	"strings"
	"sync"
	"sync/atomic"
	"time"

	"verifharness/internal/prng"
)

var t0 = time.Now()

func now() int64 { return int64(time.Since(t0)) }

// ---------------------------------------------------------------------------
// goroutine-local state

type reqRec struct {
	T      int64       `json:"t"`
	G      string      `json:"goroutine"`
	Op     string      `json:"op"`   // harness operation in progress (Resolve, ReadAt, Check, ...)
	Path   string      `json:"path"` // request path class: resolve | size-probe | fetch | check | url-refresh | token
	Method string      `json:"method"`
	Host   string      `json:"host"`
	URL    string      `json:"url"`
	Header http.Header `json:"header"`
	Body   string      `json:"body,omitempty"`
	Status int         `json:"status"`
	Loc    string      `json:"location,omitempty"`
	// Followed: this request was not issued by fs/remote but by the net/http client
	// underneath it, following the 3xx answer to the previous request of this goroutine.
	Followed bool `json:"followed_by_http_client,omitempty"`
}

type gstate struct {
	name string
	op   string
	// set by the hook handler: the next blob request of this goroutine is a fetch / a check
	pending string
	// for labelling the retry after a 401 and the GET fallback of the size probe
	lastLabel, lastURL, lastMethod, lastLoc string
	lastStatus                              int

	log    []*reqRec
	offers []offer        // answers of the CRI credential function to calls made on this goroutine
	hits   map[string]int // hook point -> hits on this goroutine

	// gate / jitter
	parker     bool // this goroutine parks at gate.parkPoint
	parkedOnce bool
	gateResult string // "", "released", "timeout"
	jitter     *prng.R
	jitterUS   int
}

// offer is one call of the keychain's credential function by the resolver stack.
type offer struct {
	Host, Ref, User, Secret string
}

type gregistry struct {
	mu      sync.Mutex // registration only, never on the operation path
	m       map[int64]*gstate
	otherMu sync.Mutex // requests from goroutines nobody registered (should not happen; counted)
	other   gstate
}

var greg = &gregistry{m: map[int64]*gstate{}, other: gstate{name: "unregistered", hits: map[string]int{}}}

func goid() int64 {
	var b [64]byte
	n := runtime.Stack(b[:], false)
	s := b[len("goroutine "):n]
	i := bytes.IndexByte(s, ' ')
	if i < 0 {
		return -1
	}
	v, _ := strconv.ParseInt(string(s[:i]), 10, 64)
	return v
}

// register must be called by the goroutine itself before the case's start barrier.
func (g *gregistry) register(name string) *gstate {
	st := &gstate{name: name, hits: map[string]int{}}
	id := goid()
	g.mu.Lock()
	// copy-on-write: goroutines that are already running read the old map
	nm := make(map[int64]*gstate, len(g.m)+1)
	for k, v := range g.m {
		nm[k] = v
	}
	nm[id] = st
	g.m = nm
	g.mu.Unlock()
	return st
}

func (g *gregistry) unregisterAll(keep *gstate) {
	g.mu.Lock()
	nm := map[int64]*gstate{}
	for k, v := range g.m {
		if v == keep {
			nm[k] = v
		}
	}
	g.m = nm
	g.mu.Unlock()
}

// cur returns the calling goroutine's state (nil when it never registered).
// The map header read is unsynchronised on purpose: registration happens before the
// start barrier of a case and after the join, never while workers run.
func (g *gregistry) cur() *gstate { return g.m[goid()] }

// ---------------------------------------------------------------------------
// the scripted world

const (
	kRegistry = iota // origin or mirror: /v2/<repo>/blobs/<digest>
	kCDN             // redirect target: /blob/...?tok=N
	kAuth            // token service: /token
)

const (
	authNone = iota
	authBasic
	authBearer
)

const (
	mDirect   int32 = iota // serve the blob
	m302                   // 302 to the CDN host with the current token
	m307                   // 307 ...
	m404                   // blob unknown here (next host is tried)
	mToMirror              // 302 to another configured registry host
)

var modeNames = map[int32]string{mDirect: "direct", m302: "redirect302", m307: "redirect307", m404: "notfound", mToMirror: "redirect-to-other-registry-host"}

type hostSrv struct {
	name string
	kind int
	role string // "origin", "mirror", "cdn", "auth", "cdn-auth"

	// registry
	auth      int
	realmHost string
	mode      atomic.Int32
	cdn       string // CDN host this registry redirects to
	// chain: the hosts a redirected blob request travels through after this registry host
	// (nested redirection, followed only by an http client that follows redirects itself).
	// nil = just cdn. Consecutive equal entries are hops that stay on the same foreign host
	// (…/entry -> …/object); the registry host's own name as last entry is a chain that
	// returns to a path on the ORIGINAL host, which may legitimately get its headers again.
	chain    []string
	toMirror string // target of mToMirror

	// cdn
	headForbidden bool        // HEAD -> 403 (forces the GET fallback of the size probe)
	evil401       atomic.Bool // CDN answers 401 with its own token realm
	singleOnly    bool        // multi-range -> 400 (forces single range mode)

	// auth
	noPost bool // POST /token -> 404 (forces the GET form with basic auth)
}

type world struct {
	// level "inner": the world replaces the innermost transport of the rhttp client that
	// RegistryHostsFromConfig builds (as in production, a net/http client sits between
	// fs/remote and the network and follows redirects by itself). level "outer": the world
	// is RegistryHost.Client.Transport itself (hosts whose client transport does not follow
	// redirects, e.g. a plain *http.Transport): fs/remote sees the 3xx and stores the URL.
	level    string
	hosts    map[string]*hostSrv
	blob     []byte
	blobPath string       // /v2/<repo>/blobs/<digest>
	gen      atomic.Int64 // CDN tokens other than the current generation answer 403
	scope    string
}

func (w *world) host(n string) *hostSrv { return w.hosts[n] }

func resp(req *http.Request, code int, hdr http.Header, body []byte) *http.Response {
	if hdr == nil {
		hdr = http.Header{}
	}
	r := &http.Response{
		StatusCode: code, Status: fmt.Sprintf("%d %s", code, http.StatusText(code)),
		Proto: "HTTP/1.1", ProtoMajor: 1, ProtoMinor: 1,
		Header: hdr, Request: req, ContentLength: int64(len(body)),
	}
	if req.Method == "HEAD" {
		r.Body = io.NopCloser(bytes.NewReader(nil))
	} else {
		r.Body = io.NopCloser(bytes.NewReader(body))
	}
	return r
}

type rng struct{ b, e int64 }

func parseRanges(h string, size int64) ([]rng, bool) {
	if !strings.HasPrefix(h, "bytes=") {
		return nil, false
	}
	var res []rng
	for _, p := range strings.Split(strings.TrimPrefix(h, "bytes="), ",") {
		p = strings.TrimSpace(p)
		i := strings.IndexByte(p, '-')
		if i <= 0 {
			return nil, false
		}
		b, err1 := strconv.ParseInt(p[:i], 10, 64)
		e, err2 := strconv.ParseInt(p[i+1:], 10, 64)
		if err1 != nil || err2 != nil || b > e || b >= size {
			return nil, false
		}
		if e >= size {
			e = size - 1
		}
		res = append(res, rng{b, e})
	}
	return res, len(res) > 0
}

func (w *world) serveBlob(req *http.Request, singleOnly bool) *http.Response {
	size := int64(len(w.blob))
	if req.Method == "HEAD" {
		return resp(req, 200, http.Header{"Content-Length": {strconv.FormatInt(size, 10)}}, nil)
	}
	rh := req.Header.Get("Range")
	if rh == "" {
		return resp(req, 200, http.Header{"Content-Length": {strconv.FormatInt(size, 10)}}, w.blob)
	}
	rs, ok := parseRanges(rh, size)
	if !ok {
		return resp(req, 416, nil, nil)
	}
	if len(rs) == 1 {
		r := rs[0]
		return resp(req, 206, http.Header{
			"Content-Type":  {"application/octet-stream"},
			"Content-Range": {fmt.Sprintf("bytes %d-%d/%d", r.b, r.e, size)},
		}, w.blob[r.b:r.e+1])
	}
	if singleOnly {
		return resp(req, 400, nil, []byte("multi-range not supported"))
	}
	var buf bytes.Buffer
	mw := multipart.NewWriter(&buf)
	for _, r := range rs {
		pw, _ := mw.CreatePart(textproto.MIMEHeader{
			"Content-Type":  {"application/octet-stream"},
			"Content-Range": {fmt.Sprintf("bytes %d-%d/%d", r.b, r.e, size)},
		})
		_, _ = pw.Write(w.blob[r.b : r.e+1])
	}
	_ = mw.Close()
	return resp(req, 206, http.Header{"Content-Type": {"multipart/byteranges; boundary=" + mw.Boundary()}}, buf.Bytes())
}

func tokenFor(service, user, secret string) string {
	return fmt.Sprintf("bt~%s~%x", service, prng.Hash64(strHash(user), strHash(secret))&0xffffffff)
}

func strHash(s string) uint64 {
	var h uint64 = 1469598103934665603
	for i := 0; i < len(s); i++ {
		h ^= uint64(s[i])
		h *= 1099511628211
	}
	return h
}

func (w *world) handle(req *http.Request, body string) *http.Response {
	h := w.hosts[req.URL.Host]
	if h == nil {
		return resp(req, 404, nil, []byte("unknown host"))
	}
	switch h.kind {
	case kAuth:
		service := req.URL.Query().Get("service")
		user, secret := "", ""
		if req.Method == "POST" {
			if h.noPost {
				return resp(req, 404, nil, nil)
			}
			f, _ := url.ParseQuery(body)
			service = f.Get("service")
			user, secret = f.Get("username"), f.Get("password")
			if f.Get("grant_type") == "refresh_token" {
				secret = f.Get("refresh_token")
			}
			b, _ := json.Marshal(map[string]any{"access_token": tokenFor(service, user, secret), "expires_in": 3600})
			return resp(req, 200, http.Header{"Content-Type": {"application/json"}}, b)
		}
		if u, p, ok := req.BasicAuth(); ok {
			user, secret = u, p
		}
		b, _ := json.Marshal(map[string]any{"token": tokenFor(service, user, secret), "expires_in": 3600})
		return resp(req, 200, http.Header{"Content-Type": {"application/json"}}, b)

	case kCDN:
		if h.evil401.Load() && !strings.HasPrefix(req.Header.Get("Authorization"), "Bearer bt~"+h.name+"~") {
			return resp(req, 401, http.Header{"Www-Authenticate": {fmt.Sprintf(`Bearer realm="https://%s/token",service="%s"`, h.realmHost, h.name)}}, nil)
		}
		if req.URL.Query().Get("tok") != strconv.FormatInt(w.gen.Load(), 10) {
			return resp(req, 403, nil, []byte("expired"))
		}
		if loc := w.nextHop(req); loc != "" {
			return resp(req, 302, http.Header{"Location": {loc}}, nil)
		}
		if req.Method == "HEAD" && h.headForbidden {
			return resp(req, 403, nil, nil)
		}
		return w.serveBlob(req, h.singleOnly)

	default: // registry
		if req.URL.Path == "/final"+w.blobPath { // last hop of a chain that returns to the original host (a signed URL: no auth)
			if req.URL.Query().Get("tok") != strconv.FormatInt(w.gen.Load(), 10) {
				return resp(req, 403, nil, []byte("expired"))
			}
			return w.serveBlob(req, false)
		}
		if req.URL.Path != w.blobPath {
			return resp(req, 404, nil, []byte("no such blob"))
		}
		switch h.auth {
		case authBasic:
			if u, p, ok := req.BasicAuth(); !ok || u == "" || p == "" {
				return resp(req, 401, http.Header{"Www-Authenticate": {`Basic realm="` + h.name + `"`}}, nil)
			}
		case authBearer:
			if !strings.HasPrefix(req.Header.Get("Authorization"), "Bearer bt~"+h.name+"~") {
				return resp(req, 401, http.Header{"Www-Authenticate": {fmt.Sprintf(`Bearer realm="https://%s/token",service="%s",scope="%s"`, h.realmHost, h.name, w.scope)}}, nil)
			}
		}
		switch h.mode.Load() {
		case m404:
			return resp(req, 404, nil, nil)
		case m302, m307:
			code := 302
			if h.mode.Load() == m307 {
				code = 307
			}
			return resp(req, code, http.Header{"Location": {w.firstHop(h)}}, nil)
		case mToMirror:
			return resp(req, 302, http.Header{"Location": {"https://" + h.toMirror + w.blobPath}}, nil)
		case m403Redir:
			// range fetches are refused; only the re-resolution probe is redirected
			if req.Method == "GET" && req.Header.Get("Range") == "bytes=0-1" {
				return resp(req, 302, http.Header{"Location": {w.firstHop(h)}}, nil)
			}
			return resp(req, 403, nil, nil)
		}
		return w.serveBlob(req, false)
	}
}

// hopURL is the URL of hop i of the chain that starts at registry host reg.
func (w *world) hopURL(reg *hostSrv, i int, tok, prev string) string {
	chain := reg.chain
	if len(chain) == 0 {
		chain = []string{reg.cdn}
	}
	path := "/blob" + w.blobPath
	if chain[i] == reg.name {
		path = "/final" + w.blobPath
	}
	return fmt.Sprintf("https://%s%s?tok=%s&via=%s&hop=%d&prev=%s", chain[i], path, tok, url.QueryEscape(reg.name), i, url.QueryEscape(prev))
}

func (w *world) firstHop(reg *hostSrv) string {
	return w.hopURL(reg, 0, strconv.FormatInt(w.gen.Load(), 10), reg.name)
}

// nextHop: the Location a CDN answers with when the chain of this request goes on ("" = serve here).
func (w *world) nextHop(req *http.Request) string {
	q := req.URL.Query()
	reg := w.hosts[q.Get("via")]
	i, err := strconv.Atoi(q.Get("hop"))
	if reg == nil || err != nil || i+1 >= len(reg.chain) {
		return ""
	}
	return w.hopURL(reg, i+1, q.Get("tok"), req.URL.Host)
}

// RoundTrip logs the request (host, method, URL, every header, body) in the calling
// goroutine's private buffer, then answers according to the script.
func (w *world) RoundTrip(req *http.Request) (*http.Response, error) {
	var body string
	if req.Body != nil {
		b, _ := io.ReadAll(req.Body)
		req.Body.Close()
		body = string(b)
	}
	rec := &reqRec{T: now(), Method: req.Method, Host: req.URL.Host, URL: req.URL.String(), Header: req.Header.Clone(), Body: body}
	g := greg.cur()
	if g == nil {
		greg.otherMu.Lock()
		defer greg.otherMu.Unlock()
		g = &greg.other
	}
	rec.G, rec.Op = g.name, g.op
	// net/http's client sets Referer on the requests it generates while following a
	// redirect; fs/remote never does.
	if req.Header.Get("Referer") != "" && g.lastStatus/100 == 3 && g.lastLoc == rec.URL {
		rec.Followed, rec.Path = true, g.lastLabel
	} else {
		rec.Path = w.classify(g, req)
	}
	res := w.handle(req, body)
	rec.Status = res.StatusCode
	rec.Loc = res.Header.Get("Location")
	if rec.Path != "token" { // token fetches happen between a 401 and its authorised retry
		g.lastLabel, g.lastURL, g.lastMethod, g.lastStatus, g.lastLoc = rec.Path, rec.URL, req.Method, res.StatusCode, rec.Loc
	}
	g.log = append(g.log, rec)
	return res, nil
}

// classify names the request path. It is used for violation keys and coverage counters
// only; the oracle's decision never depends on it.
func (w *world) classify(g *gstate, req *http.Request) string {
	if h := w.hosts[req.URL.Host]; h != nil && h.kind == kAuth {
		return "token"
	}
	u := req.URL.String()
	if g.lastStatus == 401 && g.lastURL == u && g.lastMethod == req.Method {
		return g.lastLabel // the authorised retry of the same request
	}
	if g.pending != "" {
		l := g.pending
		g.pending = ""
		return l
	}
	switch g.op {
	case "Resolve", "BlobRefresh":
		if req.Method == "HEAD" {
			return "size-probe"
		}
		if g.lastMethod == "HEAD" && g.lastURL == u {
			return "size-probe" // GET fallback after a refused HEAD
		}
		return "resolve"
	}
	return "url-refresh"
}

// ---------------------------------------------------------------------------
// taint oracle
//
// Every secret the harness configures is self-describing:  <kind>~<owner>~<nonce>
//   hs  value of a header configured for registry host <owner>
//   su/sp  user / password the static credential function returns for host <owner>
//   cu/cp/ct/cbu/cbp  user / password / identity token / decoded base64 user+password of a CRI pull;
//          <owner> is the host named by the pull's server address, "any" when the pull
//          named no server address (then the statement puts no host restriction on it),
//          or "decoy" for credentials of another reference, an earlier pull or a removed
//          image (must never be on the wire at all)
//   bt  bearer token the token service issued for service host <owner>
// A request to host X may contain a secret only if X is the owner (docker.io,
// registry-1.docker.io and index.docker.io are one host), or, for credentials and
// bearer tokens (not for configured headers), if X is the token realm that the owner's
// own 401 challenge designated.

var secretRe = regexp.MustCompile(`(hs|su|sp|cu|cp|ct|cbu|cbp|bt)~([A-Za-z0-9.:\-]+)~([a-z0-9]+)`)

func hostClass(h string) string {
	switch h {
	case "docker.io", "registry-1.docker.io", "index.docker.io":
		return "dockerhub"
	}
	return h
}

type leak struct {
	key, what string
	rec       *reqRec
}

func secretKindName(k string) string {
	switch k {
	case "hs":
		return "registry-header"
	case "su", "sp":
		return "static-credential"
	case "bt":
		return "bearer-token"
	}
	return "cri-credential"
}

// requestText is everything of a request a secret could travel in.
func requestText(r *reqRec) string {
	var sb strings.Builder
	sb.WriteString(r.URL)
	sb.WriteByte('\n')
	if u, err := url.Parse(r.URL); err == nil {
		if q, err := url.QueryUnescape(u.RawQuery); err == nil {
			sb.WriteString(q)
			sb.WriteByte('\n')
		}
	}
	keys := make([]string, 0, len(r.Header))
	for k := range r.Header {
		keys = append(keys, k)
	}
	sort.Strings(keys)
	for _, k := range keys {
		for _, v := range r.Header[k] {
			sb.WriteString(k + ": " + v + "\n")
			if f := strings.Fields(v); len(f) == 2 && strings.EqualFold(f[0], "Basic") {
				if d, err := base64.StdEncoding.DecodeString(f[1]); err == nil {
					sb.WriteString("basic-decoded: " + string(d) + "\n")
				}
			}
		}
	}
	if r.Body != "" {
		sb.WriteString(r.Body + "\n")
		if q, err := url.QueryUnescape(r.Body); err == nil {
			sb.WriteString(q + "\n")
		}
	}
	return sb.String()
}

// laterHop names, for violation keys, a request that is the 2nd or later hop of a redirect chain.
func laterHop(r *reqRec) string {
	u, err := url.Parse(r.URL)
	if err != nil || u.Query().Get("hop") == "" || u.Query().Get("hop") == "0" {
		return ""
	}
	if u.Query().Get("prev") == r.Host {
		return ":on-a-later-hop-that-stays-on-the-same-foreign-host"
	}
	return ":on-a-later-hop"
}

// realmOfClass: the token realm designated by the 401 challenge of the registry host(s) of a class.
func (w *world) realmOfClass(class string) string {
	for n, h := range w.hosts {
		if h.kind == kRegistry && hostClass(n) == class {
			return h.realmHost
		}
	}
	return "-"
}

// scan applies the oracle to one request.
func (w *world) scan(r *reqRec) (leaks []leak, ownSecrets int, unjudged []string) {
	txt := requestText(r)
	target := w.hosts[r.Host]
	seen := map[string]bool{}
	for _, m := range secretRe.FindAllStringSubmatch(txt, -1) {
		if seen[m[0]] {
			continue
		}
		seen[m[0]] = true
		kind, owner := m[1], m[2]
		if owner == "any" {
			continue // CRI credentials of a pull that named no server address: no host restriction in the statement
		}
		if owner != "decoy" {
			if hostClass(owner) == hostClass(r.Host) {
				ownSecrets++
				continue
			}
			if kind != "hs" && w.realmOfClass(hostClass(owner)) == r.Host {
				ownSecrets++
				continue
			}
		}
		role := "unknown-host"
		if target != nil {
			switch target.role {
			case "cdn":
				role = "redirect-host"
			case "origin", "mirror":
				role = "other-registry-host"
			case "auth", "cdn-auth":
				role = "foreign-token-realm"
			}
		}
		sk := secretKindName(kind)
		via := "sent"
		if r.Followed {
			via = "forwarded-by-http-client"
		}
		switch {
		case kind == "hs":
			// Sentence 2 of the statement: a header configured for a registry host is sent to
			// that host only and never forwarded to the redirect location, on any path —
			// whoever generates the request (fs/remote or the http client it uses).
			if r.Followed {
				leaks = append(leaks, leak{
					key: fmt.Sprintf("header-leak:registry-header-forwarded-when-http-client-follows-redirect:to-%s%s", role, laterHop(r)),
					what: fmt.Sprintf("the net/http client underneath fs/remote followed the redirect of a %s request and forwarded %q (configured for host %s only) to %s (%s %s)",
						r.Path, m[0], owner, r.Host, r.Method, r.URL),
					rec: r,
				})
			} else {
				leaks = append(leaks, leak{
					key:  fmt.Sprintf("header-leak:registry-header-sent-to-%s@%s", role, r.Path),
					what: fmt.Sprintf("%s request (%s %s) to host %s carries %q, which is configured for host %s only", r.Path, r.Method, r.URL, r.Host, m[0], owner),
					rec:  r,
				})
			}
		case sk == "cri-credential" && owner == "decoy":
			// Sentence 1: the keychain is the only source of these strings in the harness, so
			// their presence in ANY request proves they were offered for the target reference
			// although they belong to another reference, an earlier pull or a removed image.
			leaks = append(leaks, leak{
				key:  fmt.Sprintf("credential-leak:credential-of-other-reference-or-stale-or-removed-sent@%s", r.Path),
				what: fmt.Sprintf("%s request to %s carries %q, a CRI credential that belongs to another image reference, an earlier pull or a removed image", r.Path, r.Host, m[0]),
				rec:  r,
			})
		case sk == "cri-credential" && !r.Followed:
			// Sentence 1, "never when the request named a server address different from the
			// host being contacted": this request was addressed by fs/remote / its authorizer
			// itself to host X (or to the token realm X's challenge named), and carries the
			// credentials of a pull request whose server address names another host.
			leaks = append(leaks, leak{
				key:  fmt.Sprintf("credential-leak:cri-credential-sent-to-%s@%s", role, r.Path),
				what: fmt.Sprintf("%s request (%s %s) to host %s carries %q, captured from a pull request whose server address names host %s", r.Path, r.Method, r.URL, r.Host, m[0], owner),
				rec:  r,
			})
		default:
			// Not derivable from the statement, recorded only: static (non-CRI) credentials,
			// bearer tokens, and any credential that net/http itself forwards while following
			// a redirect (e.g. Authorization to a sub-domain of the registry host).
			unjudged = append(unjudged, fmt.Sprintf("%s %s to %s @%s", sk, via, role, r.Path))
		}
	}
	return
}
