package main

// Part (b): configured headers and credentials on every request path of fs/remote.
//
// Real code driven: cri.NewCRIKeychain (credential function) + a static per-host
// credential function -> resolver.RegistryHostsFromConfig (per-mirror secret headers)
// -> remote.NewResolver(...).Resolve -> Blob.ReadAt / Cache / Check / Refresh, with the
// innermost http.RoundTripper of every registry host replaced by the scripted world of
// memreg.go. The oracle is the taint scan of memreg.go over the WHOLE request log.

import (
	"context"
	"fmt"
	"net/url"
	"sort"
	"strings"
	"sync"
	"sync/atomic"
	"time"

	"github.com/containerd/containerd/v2/core/remotes/docker"
	"github.com/containerd/containerd/v2/pkg/reference"
	"github.com/containerd/stargz-snapshotter/cache"
	"github.com/containerd/stargz-snapshotter/fs/config"
	"github.com/containerd/stargz-snapshotter/fs/remote"
	"github.com/containerd/stargz-snapshotter/fs/source"
	"github.com/containerd/stargz-snapshotter/service/resolver"
	"github.com/containerd/stargz-snapshotter/util/verifhook"
	rhttp "github.com/hashicorp/go-retryablehttp"
	digest "github.com/opencontainers/go-digest"
	ocispec "github.com/opencontainers/image-spec/specs-go/v1"
	runtime "k8s.io/cri-api/pkg/apis/runtime/v1"

	"verifharness/internal/prng"
	"verifharness/internal/vf"
)

const (
	chunkSize = 1024
	nChunks   = 64
)

const m403Redir int32 = 10 // registry that refuses range fetches (403) and redirects the re-resolution probe

func init() { modeNames[m403Redir] = "fetch403-probe-redirect" }

// ---------------------------------------------------------------------------
// gate: imposes  parked-goroutine read the old URL -> refresh completes -> parked goroutine reads header

type gate struct {
	parkPoint string
	parked    chan struct{}
	release   chan struct{}
	timeout   time.Duration
}

var curGate atomic.Pointer[gate]

func hookHandler(name string, args ...interface{}) {
	g := greg.cur()
	if g == nil {
		return
	}
	g.hits[name]++
	switch name {
	case "remote.fetch.afterURL":
		g.pending = "fetch"
	case "remote.check.afterURL":
		g.pending = "check"
	default:
		return
	}
	if gt := curGate.Load(); gt != nil && g.parker && !g.parkedOnce && name == gt.parkPoint {
		g.parkedOnce = true
		close(gt.parked)
		select {
		case <-gt.release:
			g.gateResult = "released"
		case <-time.After(gt.timeout):
			g.gateResult = "timeout"
		}
		return
	}
	if g.jitterUS > 0 {
		// a plain sleep: widens the window between reading the URL and reading the header
		// without adding any happens-before edge
		time.Sleep(time.Duration(g.jitter.Intn(g.jitterUS)) * time.Microsecond)
	}
}

// ---------------------------------------------------------------------------
// scenario

type mirrorCfg struct {
	Host     string         `json:"host"`
	Header   map[string]any `json:"header,omitempty"`
	Insecure bool           `json:"insecure,omitempty"`
}

type hostDesc struct {
	Host  string `json:"host"`
	Role  string `json:"role"`
	Auth  string `json:"auth,omitempty"`
	Mode  string `json:"initial_mode,omitempty"`
	CDN   string `json:"cdn,omitempty"`
	Realm string `json:"realm,omitempty"`
	Extra string `json:"extra,omitempty"`
}

type criStep struct {
	Kind  string `json:"kind"` // pull | remove
	Image string `json:"image"`
	Form  string `json:"form,omitempty"`
	Addr  string `json:"server_address,omitempty"`
	Owner string `json:"owner,omitempty"`
}

type hop struct {
	Kind string `json:"op"`
	A    int    `json:"a,omitempty"`
	B    int    `json:"b,omitempty"`
}

func (h hop) String() string {
	switch h.Kind {
	case "ReadAt", "Cache":
		return fmt.Sprintf("%s(chunks=%d)", h.Kind, h.A)
	case "SwitchMode":
		return fmt.Sprintf("SwitchMode(host#%d,%s)", h.A, modeNames[int32(h.B)])
	case "EvilCDN":
		return fmt.Sprintf("EvilCDN(%d)", h.A)
	}
	return h.Kind
}

type scen struct {
	Idx        int               `json:"case"`
	Kind       string            `json:"kind"` // seq | gate-fetch | gate-check | storm
	Level      string            `json:"transport_level"`
	Image      string            `json:"image"`
	Ref        string            `json:"ref"`
	Mirrors    []mirrorCfg       `json:"mirrors"`
	Hosts      []hostDesc        `json:"hosts"`
	Static     map[string]string `json:"static_credentials_for"`
	CRI        []criStep         `json:"cri_requests"`
	Script     []string          `json:"script"`
	Transition string            `json:"transition,omitempty"`
	Refresher  string            `json:"refresher,omitempty"`

	nested   bool
	refspec  reference.Spec
	regHosts []string // contacted registry hosts in order: mirrors..., origin
	w        *world
	static   map[string][2]string
	hops     []hop
	desc     ocispec.Descriptor
}

// header keys go into the request exactly as configured (RegistryHostsFromConfig does not
// canonicalise them), so non-canonical spellings are part of the input space
var headerNames = []string{"X-Verif-Secret", "X-Api-Key", "Cookie", "Authorization", "Proxy-Authorization", "X-Registry-Auth", "x-verif-lower", "X-verif-MiXed"}

func genScenario(rng *prng.R, idx int, kind string) *scen {
	sc := &scen{Idx: idx, Kind: kind, Static: map[string]string{}, static: map[string][2]string{}}
	type img struct{ name, origin string }
	imgs := []img{
		{"reg-a.example/ns/app:v1", "reg-a.example"},
		{"alpine", "registry-1.docker.io"},
		{"localhost:5000/ns/app:v2", "localhost:5000"},
		{"reg-b.example:5000/ns/app@" + dg1, "reg-b.example:5000"},
		{"index.docker.io/ns/app:v1", "registry-1.docker.io"},
	}
	im := imgs[rng.Intn(len(imgs))]
	sc.Image = im.name
	sc.Ref, _ = normalise(im.name)
	sc.refspec, _ = reference.Parse(sc.Ref)
	nm := rng.Pick(0, 1, 1, 1, 2, 2)
	if kind != "seq" && nm == 0 {
		nm = 1
	}
	mhosts := []string{"mirror-a.example", "mirror-b.example:8443"}
	if rng.Bool() {
		mhosts[0], mhosts[1] = mhosts[1], mhosts[0]
	}
	nonce := 0
	for i := 0; i < nm; i++ {
		m := mirrorCfg{Host: mhosts[i], Header: map[string]any{}}
		nh := rng.Range(1, 3)
		if kind == "seq" && rng.Chance(1, 8) {
			nh = 0
			m.Header = nil
		}
		for _, j := range rng.Perm(len(headerNames))[:nh] {
			nonce++
			v := fmt.Sprintf("hs~%s~h%d", m.Host, nonce)
			if headerNames[j] == "Authorization" {
				v = "Token " + v
			}
			if rng.Chance(1, 4) {
				nonce++
				m.Header[headerNames[j]] = []any{v, fmt.Sprintf("hs~%s~h%d", m.Host, nonce)}
			} else {
				m.Header[headerNames[j]] = v
			}
		}
		sc.Mirrors = append(sc.Mirrors, m)
		sc.regHosts = append(sc.regHosts, m.Host)
	}
	sc.regHosts = append(sc.regHosts, im.origin)

	// world
	sc.Level = "outer"
	if kind == "seq" && rng.Bool() {
		sc.Level = "inner"
	}
	w := &world{hosts: map[string]*hostSrv{}, level: sc.Level}
	sc.w = w
	w.blob = make([]byte, chunkSize*nChunks-137)
	for i := range w.blob {
		w.blob[i] = byte(prng.Hash64(uint64(idx), uint64(i/8)) >> (8 * (i % 8)))
	}
	sc.desc = ocispec.Descriptor{Digest: digest.FromBytes(w.blob), Size: int64(len(w.blob)), MediaType: ocispec.MediaTypeImageLayerGzip}
	repoPath := strings.TrimPrefix(sc.refspec.Locator, sc.refspec.Hostname()+"/")
	w.blobPath = "/v2/" + repoPath + "/blobs/" + sc.desc.Digest.String()
	w.scope = "repository:" + repoPath + ":pull"
	w.gen.Store(1)
	sharedCDN := rng.Chance(1, 3)
	for i, h := range sc.regHosts {
		s := &hostSrv{name: h, kind: kRegistry, role: "mirror"}
		if i == len(sc.regHosts)-1 {
			s.role = "origin"
		}
		s.auth = rng.Pick(authNone, authNone, authNone, authBasic, authBearer, authBearer)
		s.realmHost = fmt.Sprintf("auth-%d.example", i)
		s.cdn = fmt.Sprintf("cdn-%d.example", i)
		if sharedCDN {
			s.cdn = "cdn-0.example"
		} else if rng.Chance(1, 5) {
			s.cdn = "cdn." + strings.SplitN(h, ":", 2)[0] // a subdomain of the registry host is still another host
		}
		mode := int32(rng.Pick(int(mDirect), int(mDirect), int(m302), int(m302), int(m307), int(m404)))
		if len(sc.regHosts) > 1 && rng.Chance(1, 14) {
			mode = mToMirror
		}
		s.toMirror = sc.regHosts[(i+1)%len(sc.regHosts)]
		s.mode.Store(mode)
		w.hosts[h] = s
		w.hosts[s.realmHost] = &hostSrv{name: s.realmHost, kind: kAuth, role: "auth", noPost: rng.Bool()}
		if w.hosts[s.cdn] == nil {
			w.hosts[s.cdn] = &hostSrv{name: s.cdn, kind: kCDN, role: "cdn", headForbidden: rng.Chance(1, 3), singleOnly: rng.Chance(1, 5), realmHost: "auth-cdn.example"}
		}
		if rng.Chance(3, 5) {
			nonce++
			sc.static[h] = [2]string{fmt.Sprintf("su~%s~s%d", h, nonce), fmt.Sprintf("sp~%s~s%d", h, nonce)}
			sc.Static[h] = sc.static[h][0]
		}
	}
	// nested redirection, only meaningful where an http client follows redirects by itself
	// (level inner; fs/remote refuses a redirect that answers with another redirect)
	if kind == "seq" && sc.Level == "inner" && rng.Chance(3, 5) {
		w.hosts["cdn-hop.example"] = &hostSrv{name: "cdn-hop.example", kind: kCDN, role: "cdn", realmHost: "auth-cdn.example"}
		sc.nested = true
		for i, hn := range sc.regHosts {
			h := w.hosts[hn]
			b, c, a := h.cdn, "cdn-hop.example", h.name
			shapes := [][]string{
				{b, b},    // A -> B/entry -> B/object
				{b, b, c}, // A -> B -> B -> C
				{b, b, b},
				{b, c}, // every hop changes host
				{b, c, c},
				{b, a}, // returns to a path on the ORIGINAL host last
				{b, b, a},
				{b, c, b}, // comes back to an earlier foreign host
			}
			h.chain = shapes[rng.Intn(len(shapes))]
			if i == 0 { // the first host must actually redirect
				h.mode.Store(int32(rng.Pick(int(m302), int(m307))))
			}
		}
		for _, h := range w.hosts {
			if h.kind == kCDN {
				h.evil401.Store(false)
			}
		}
	}
	w.hosts["auth-cdn.example"] = &hostSrv{name: "auth-cdn.example", kind: kAuth, role: "cdn-auth", noPost: rng.Bool()}

	// gate / storm scenarios: host #0 must serve, in the mode the transition starts from
	if kind != "seq" {
		trs := []string{"redirect->direct", "redirect->direct", "redirect->direct", "redirect->redirect", "direct->redirect", "redirect->other-registry-host", "direct->direct"}
		sc.Transition = trs[rng.Intn(len(trs))]
		if len(sc.regHosts) < 2 && sc.Transition == "redirect->other-registry-host" {
			sc.Transition = "redirect->direct"
		}
		if kind == "storm" {
			sc.Transition = "redirect<->direct"
		}
		h0 := w.hosts[sc.regHosts[0]]
		if strings.HasPrefix(sc.Transition, "redirect") {
			h0.mode.Store(int32(rng.Pick(int(m302), int(m307))))
		} else {
			h0.mode.Store(mDirect)
		}
		if _, ok := sc.static[h0.name]; !ok && h0.auth == authBasic {
			sc.static[h0.name] = [2]string{fmt.Sprintf("su~%s~s0", h0.name), fmt.Sprintf("sp~%s~s0", h0.name)}
			sc.Static[h0.name] = sc.static[h0.name][0]
		}
		w.hosts[h0.cdn].headForbidden = rng.Chance(1, 4)
		w.hosts[h0.cdn].singleOnly = false
		sc.Refresher = rng.PickS("Check", "ReadAt")
		if kind == "gate-check" || strings.HasPrefix(sc.Transition, "direct") {
			sc.Refresher = "ReadAt" // a check of a direct URL never sees 403; only a fetch can trigger the refresh
		}
	}
	for _, h := range sc.regHosts {
		s := w.hosts[h]
		sc.Hosts = append(sc.Hosts, hostDesc{Host: h, Role: s.role, Auth: [...]string{"none", "basic", "bearer"}[s.auth], Mode: modeNames[s.mode.Load()], CDN: s.cdn, Realm: s.realmHost,
			Extra: fmt.Sprintf("cdn.headForbidden=%v cdn.singleRangeOnly=%v redirect_chain=%v", w.hosts[s.cdn].headForbidden, w.hosts[s.cdn].singleOnly, s.chain)})
	}

	// CRI requests seen by the keychain before the blob is resolved
	otherTag := repositoryOf(sc.Ref) + ":other"
	otherRepo := sc.refspec.Hostname() + "/ns/elsewhere:v1"
	forms := []string{"userpass", "idtoken", "b64auth"}
	decoy := func(image string) {
		sc.CRI = append(sc.CRI, criStep{Kind: "pull", Image: image, Form: forms[rng.Intn(3)], Addr: rng.PickS("", "https://"+sc.refspec.Hostname()), Owner: "decoy"})
	}
	if rng.Chance(2, 3) {
		decoy(otherTag)
	}
	if rng.Chance(1, 2) {
		decoy(otherRepo)
	}
	switch x := rng.Intn(100); {
	case x < 62:
		if rng.Chance(1, 2) {
			decoy(sc.Image) // an earlier pull of the same reference: superseded below
		}
		st := criStep{Kind: "pull", Image: sc.Image, Form: forms[rng.Intn(3)]}
		addrRef := "https://" + sc.refspec.Hostname()
		if sc.refspec.Hostname() == "docker.io" {
			addrRef = "https://index.docker.io/v1/"
		}
		switch y := rng.Intn(100); {
		case y < 30:
			st.Addr, st.Owner = "", "any"
		case y < 70:
			st.Addr, st.Owner = addrRef, addrHost(addrRef)
		case y < 85 && len(sc.Mirrors) > 0:
			st.Addr, st.Owner = "https://"+sc.Mirrors[0].Host, sc.Mirrors[0].Host
		default:
			st.Addr, st.Owner = "https://elsewhere.example/v1/", "elsewhere.example"
		}
		sc.CRI = append(sc.CRI, st)
	case x < 80:
		decoy(sc.Image)
		sc.CRI = append(sc.CRI, criStep{Kind: "remove", Image: sc.Image})
	}

	// operation script
	switch kind {
	case "seq":
		n := rng.Range(6, 14)
		for i := 0; i < n; i++ {
			switch x := rng.Intn(100); {
			case x < 30:
				sc.hops = append(sc.hops, hop{Kind: "ReadAt", A: rng.Range(1, 3)})
			case x < 40:
				sc.hops = append(sc.hops, hop{Kind: "Cache", A: rng.Range(1, 4)})
			case x < 55:
				sc.hops = append(sc.hops, hop{Kind: "Check"})
			case x < 70:
				sc.hops = append(sc.hops, hop{Kind: "Expire"})
			case x < 84:
				hi := rng.Intn(len(sc.regHosts))
				mode := rng.Pick(int(mDirect), int(m302), int(m307), int(m404), int(m403Redir))
				if len(sc.regHosts) > 1 && rng.Chance(1, 8) {
					mode = int(mToMirror)
				}
				sc.hops = append(sc.hops, hop{Kind: "SwitchMode", A: hi, B: mode})
			case x < 93:
				sc.hops = append(sc.hops, hop{Kind: "BlobRefresh"})
			default:
				sc.hops = append(sc.hops, hop{Kind: "EvilCDN", A: rng.Intn(2)})
			}
		}
	default:
		for i, n := 0, rng.Range(0, 2); i < n; i++ {
			sc.hops = append(sc.hops, hop{Kind: "ReadAt", A: 1})
		}
	}
	if sc.nested {
		// make sure every request path travels the chain: fetch, check, then a refused range
		// fetch whose URL refresh is redirected, then a full re-resolution (resolve + size probe)
		sc.hops = append(sc.hops, hop{Kind: "ReadAt", A: 1}, hop{Kind: "Check"},
			hop{Kind: "SwitchMode", A: 0, B: int(m403Redir)}, hop{Kind: "ReadAt", A: 1},
			hop{Kind: "SwitchMode", A: 0, B: int(m302)}, hop{Kind: "BlobRefresh"}, hop{Kind: "ReadAt", A: 1})
	}
	for _, h := range sc.hops {
		sc.Script = append(sc.Script, h.String())
	}
	return sc
}

// ---------------------------------------------------------------------------
// building the real objects

func (sc *scen) build(r *vf.Run) (source.RegistryHosts, bool) {
	creds, srv, ok := newKeychain(r, &fakeCRI{})
	if !ok {
		return nil, false
	}
	ctx := context.Background()
	for i, st := range sc.CRI {
		switch st.Kind {
		case "pull":
			_, _ = srv.PullImage(ctx, &runtime.PullImageRequest{Image: &runtime.ImageSpec{Image: st.Image}, Auth: makeAuth(st.Form, st.Owner, sc.Idx*100+i, st.Addr)})
		case "remove":
			_, _ = srv.RemoveImage(ctx, &runtime.RemoveImageRequest{Image: &runtime.ImageSpec{Image: st.Image}})
		}
	}
	static := func(host string, _ reference.Spec) (string, string, error) {
		c := sc.static[host]
		return c[0], c[1], nil
	}
	cfg := resolver.Config{Host: map[string]resolver.HostConfig{}}
	var ms []resolver.MirrorConfig
	for _, m := range sc.Mirrors {
		ms = append(ms, resolver.MirrorConfig{Host: m.Host, Header: m.Header, Insecure: m.Insecure})
	}
	cfg.Host[sc.refspec.Hostname()] = resolver.HostConfig{Mirrors: ms}
	// observe the keychain at its own boundary too: what it OFFERS to the resolver stack
	recCreds := func(host string, ref reference.Spec) (string, string, error) {
		u, s, err := creds(host, ref)
		o := offer{Host: host, Ref: ref.String(), User: u, Secret: s}
		if g := greg.cur(); g != nil {
			g.offers = append(g.offers, o)
		} else {
			greg.otherMu.Lock()
			greg.other.offers = append(greg.other.offers, o)
			greg.otherMu.Unlock()
		}
		return u, s, err
	}
	inner := resolver.RegistryHostsFromConfig(cfg, recCreds, static)
	w := sc.w
	return func(ref reference.Spec) ([]docker.RegistryHost, error) {
		hs, err := inner(ref)
		for i := range hs {
			rt, ok := hs[i].Client.Transport.(*rhttp.RoundTripper)
			if !ok {
				return nil, fmt.Errorf("harness: unexpected transport %T", hs[i].Client.Transport)
			}
			// every request, including the authorizer's token fetches (same *http.Client), lands in the world
			if sc.Level == "inner" {
				rt.Client.HTTPClient.Transport = w
			} else {
				hs[i].Client.Transport = w
			}
		}
		return hs, err
	}, true
}

var blobCfg = config.BlobConfig{ChunkSize: chunkSize, CheckAlways: true, MaxRetries: 1, MinWaitMSec: 1, MaxWaitMSec: 2, FetchTimeoutSec: 120}

type driver struct {
	r      *vf.Run
	g      *gstate // the driver goroutine's state
	sc     *scen
	hosts  source.RegistryHosts
	blob   remote.Blob
	cursor int // next unread chunk (driver's own range: chunks 0..23)
	errs   map[string]int
}

func (d *driver) note(op string, err error) {
	if err != nil {
		d.errs[op+": "+trimNum(err.Error())]++
		d.r.Distinct("operation_errors", op+": "+trimNum(err.Error()))
	}
}

func (d *driver) readAt(g *gstate, first, n int) error {
	g.op = "ReadAt"
	p := make([]byte, n*chunkSize-7)
	off := int64(first*chunkSize + 3)
	got, err := d.blob.ReadAt(p, off)
	if err == nil {
		want := d.sc.w.blob
		for i := 0; i < got; i++ {
			if int(off)+i < len(want) && p[i] != want[int(off)+i] {
				d.r.Count("readat_byte_mismatch(not judged here, see C06)", 1)
				break
			}
		}
	}
	return err
}

func (d *driver) step(h hop) {
	g, w, sc := d.g, d.sc.w, d.sc
	switch h.Kind {
	case "ReadAt":
		if d.blob == nil || d.cursor+h.A > 24 {
			return
		}
		err := d.readAt(g, d.cursor, h.A)
		d.cursor += h.A + 1 // leave holes: later reads produce multi-range requests
		d.note("ReadAt", err)
	case "Cache":
		if d.blob == nil || d.cursor+h.A > 24 {
			return
		}
		g.op = "Cache"
		err := d.blob.Cache(int64(d.cursor*chunkSize), int64(h.A*chunkSize))
		d.cursor += h.A
		d.note("Cache", err)
	case "Check":
		if d.blob == nil {
			return
		}
		g.op = "Check"
		d.note("Check", d.blob.Check())
	case "Expire":
		w.gen.Add(1) // only the driver writes; handlers load
	case "SwitchMode":
		w.hosts[sc.regHosts[h.A]].mode.Store(int32(h.B))
	case "EvilCDN":
		for _, hs := range w.hosts {
			if hs.kind == kCDN {
				hs.evil401.Store(h.A == 1)
			}
		}
	case "BlobRefresh":
		if d.blob == nil {
			return
		}
		g.op = "BlobRefresh"
		d.note("BlobRefresh", d.blob.Refresh(context.Background(), d.hosts, sc.refspec, sc.desc))
	}
	g.op = "idle"
}

func (d *driver) resolve() {
	d.g.op = "Resolve"
	b, err := remote.NewResolver(blobCfg, nil).Resolve(context.Background(), d.hosts, d.sc.refspec, d.sc.desc, cache.NewMemoryCache())
	d.g.op = "idle"
	d.note("Resolve", err)
	if err == nil {
		d.blob = b
	}
}

// servedVia reports how host #0 answered the resolution in the driver's log: "redirect",
// "direct" or "" (host #0 did not end up serving).
func servedVia(log []*reqRec, host0 string) string {
	via := ""
	for _, q := range log {
		if q.Path == "resolve" && q.Host == host0 {
			switch {
			case q.Status/100 == 3:
				via = "redirect"
			case q.Status/100 == 2:
				via = "direct"
			}
		}
		if q.Path == "resolve" && q.Host != host0 && q.Status/100 != 4 {
			via = ""
		}
	}
	return via
}

// ---------------------------------------------------------------------------
// running one scenario

func runScenario(r *vf.Run, drv *gstate, sc *scen, rng *prng.R) {
	r.Eval(1)
	hosts, ok := sc.build(r)
	if !ok {
		return
	}
	drv.log, drv.offers = nil, nil
	drv.lastLabel, drv.lastURL, drv.lastMethod, drv.lastStatus, drv.pending = "", "", "", 0, ""
	for k := range drv.hits {
		delete(drv.hits, k)
	}
	d := &driver{r: r, g: drv, sc: sc, hosts: hosts, errs: map[string]int{}}
	var workers []*gstate
	order := ""

	d.resolve()
	for _, h := range sc.hops {
		d.step(h)
	}
	if sc.Kind != "seq" && d.blob != nil {
		host0 := sc.w.hosts[sc.regHosts[0]]
		from := "direct"
		if strings.HasPrefix(sc.Transition, "redirect") {
			from = "redirect"
		}
		if via := servedVia(drv.log, host0.name); via != from {
			r.Count("concurrent_scenarios_not_applicable(host#0 did not serve as planned)", 1)
		} else if sc.Kind == "storm" {
			workers = d.storm(rng)
		} else {
			workers, order = d.gated(rng)
		}
		// a few more operations after the concurrent phase
		d.step(hop{Kind: "ReadAt", A: 2})
		d.step(hop{Kind: "Check"})
	}
	if d.blob != nil {
		_ = d.blob.Close()
	}
	greg.unregisterAll(drv)

	// ---- oracle over the whole request log of the scenario
	var all []*reqRec
	all = append(all, drv.log...)
	hits := map[string]int{}
	for k, v := range drv.hits {
		hits[k] += v
	}
	offers := append([]offer(nil), drv.offers...)
	for _, wk := range workers {
		offers = append(offers, wk.offers...)
		all = append(all, wk.log...)
		for k, v := range wk.hits {
			hits[k] += v
		}
	}
	greg.otherMu.Lock()
	if n := len(greg.other.log); n > 0 {
		r.Count("requests_from_unregistered_goroutines", n)
		all = append(all, greg.other.log...)
		greg.other.log = nil
	}
	offers = append(offers, greg.other.offers...)
	greg.other.offers = nil
	greg.otherMu.Unlock()
	// sentence 1 at the credential-function boundary: a non-empty offer for (host, ref) must
	// be the latest, not removed pull of ref, and name no other server address than host
	for _, o := range offers {
		r.Count("keychain_offers_in_part_b", 1)
		for _, str := range []string{o.User, o.Secret} {
			m := secretRe.FindStringSubmatch(str)
			if m == nil {
				continue
			}
			r.Count("keychain_nonempty_offers_in_part_b", 1)
			switch owner := m[2]; {
			case owner == "decoy" || o.Ref != sc.refspec.String():
				r.Violate("keychain-offer:credentials-of-other-reference-or-stale-or-removed",
					fmt.Sprintf("the credential function answered (host %q, ref %q) with %q, which belongs to another reference, an earlier pull or a removed image", o.Host, o.Ref, str),
					map[string]any{"stage": "headers", "scenario": sc, "offer": o})
			case owner != "any" && hostClass(owner) != hostClass(o.Host):
				r.Violate("keychain-offer:server-address-names-other-host",
					fmt.Sprintf("the credential function answered (host %q, ref %q) with %q, captured from a pull request whose server address names %s", o.Host, o.Ref, str, owner),
					map[string]any{"stage": "headers", "scenario": sc, "offer": o})
			}
		}
	}
	sort.SliceStable(all, func(i, j int) bool { return all[i].T < all[j].T })
	for k, v := range hits {
		r.Count("hook:"+k, v)
	}
	ownDelivered, foreignReq := 0, 0
	paths := map[string]bool{}
	secretOwners := map[string]bool{}
	for i, q := range all {
		leaks, own, unj := sc.w.scan(q)
		for _, u := range unj {
			r.Count("unjudged_observations(outside the statement)", 1)
			r.Distinct("unjudged_observations", u)
		}
		role := "unknown"
		if h := sc.w.hosts[q.Host]; h != nil {
			role = h.role
		}
		r.Count("requests", 1)
		if u, err := url.Parse(q.URL); err == nil && q.Followed && u.Query().Get("hop") != "" && u.Query().Get("hop") != "0" {
			kind := "to-another-foreign-host"
			switch {
			case u.Query().Get("via") == q.Host:
				kind = "back-to-the-original-host"
			case u.Query().Get("prev") == q.Host:
				kind = "stays-on-the-same-foreign-host"
			}
			r.Count(fmt.Sprintf("nested_redirect_hops[%s,hop=%s,%s,own-secrets=%v]", q.Path, u.Query().Get("hop"), kind, own > 0), 1)
			r.Distinct("nested_redirect_hops", fmt.Sprintf("%s hop=%s %s status=%d", q.Path, u.Query().Get("hop"), kind, q.Status))
		}
		r.Count(fmt.Sprintf("requests[%s->%s]", q.Path, role), 1)
		r.Distinct("request_shapes", fmt.Sprintf("%s %s->%s status=%d secrets=%d", q.Method, q.Path, role, q.Status, own))
		if own > 0 {
			ownDelivered++
			secretOwners[hostClass(q.Host)] = true
			paths[q.Path] = true
			r.Count("requests_carrying_a_secret_to_its_owner["+q.Path+"]", 1)
		}
		if miss := sc.missingOwnHeaders(q); miss != "" {
			leaks = append(leaks, leak{
				key:  "header-missing:configured-header-not-sent-to-its-own-host@" + q.Path,
				what: fmt.Sprintf("%s request (%s %s) that fs/remote addressed to registry host %s lacks the header configured for that host: %s", q.Path, q.Method, q.URL, q.Host, miss),
			})
		}
		for _, l := range leaks {
			ctx := []string{}
			for j := max(0, i-6); j <= i; j++ {
				ctx = append(ctx, all[j].line())
			}
			r.Violate(l.key, l.what, map[string]any{"stage": "headers", "scenario": sc, "imposed_order": order, "request": q, "log_tail": ctx})
		}
	}
	for _, q := range all {
		if len(secretOwners) > 0 && !secretOwners[hostClass(q.Host)] {
			foreignReq++
			r.Count("requests_to_a_host_that_owns_no_delivered_secret["+q.Path+"]", 1)
		}
	}
	r.Count("scenarios_"+sc.Kind, 1)
	// non-trivial: something to confine was delivered to its owner AND some request went to another host
	if ownDelivered > 0 && foreignReq > 0 && (sc.Kind == "seq" || order != "" || len(workers) > 0) {
		part := map[string]string{"seq": "headers-sequential", "gate-fetch": "headers-gated", "gate-check": "headers-gated", "storm": "headers-storm"}[sc.Kind]
		nt.add(part, fmt.Sprintf("hdr:%d:%s:%v:%v:%v:%s", sc.Idx, sc.Kind, sc.Hosts, sc.CRI, sc.Script, order))
		r.Count("scenarios_nontrivial_"+sc.Kind, 1)
		for p := range paths {
			r.Distinct("paths_on_which_a_secret_was_delivered_in_nontrivial_scenarios", p)
		}
	}
	if sc.Idx%97 < 2 || (order != "" && sc.Idx%5 == 0) {
		var lines []string
		for i, q := range all {
			if i >= 40 {
				lines = append(lines, "…")
				break
			}
			lines = append(lines, q.line())
		}
		r.Sample(map[string]any{"stage": "headers", "scenario": sc, "imposed_order": order, "request_log": lines, "operation_errors": d.errs})
	}
}

// missingOwnHeaders: "are sent to that host" — a request that fs/remote itself addresses
// to a mirror's blob URL (…?ns=<origin>, so not a redirect location and not a request
// generated by an http client following a redirect) must carry the mirror's configured
// headers. Slack: a configured "Authorization" may legitimately be replaced by the docker
// authorizer after a 401 challenge, so that name is not judged.
func (sc *scen) missingOwnHeaders(q *reqRec) string {
	if q.Followed || q.Path == "token" {
		return ""
	}
	for _, m := range sc.Mirrors {
		if m.Host != q.Host || !strings.Contains(q.URL, sc.w.blobPath+"?ns=") {
			continue
		}
		for name, v := range m.Header {
			if name == "Authorization" {
				continue
			}
			var want []string
			switch x := v.(type) {
			case string:
				want = []string{x}
			case []any:
				for _, e := range x {
					want = append(want, e.(string))
				}
			}
			got := q.Header[name] // raw key: configured keys are not canonicalised
			if strings.Join(got, "\x00") != strings.Join(want, "\x00") {
				return fmt.Sprintf("%s (want %q, got %q)", name, want, got)
			}
		}
	}
	return ""
}

func (q *reqRec) line() string {
	var hs []string
	for k, v := range q.Header {
		hs = append(hs, k+"="+strings.Join(v, ","))
	}
	sort.Strings(hs)
	return fmt.Sprintf("%s[%s] %s/%s %s %s -> %d %s {%s}", q.G, q.Op, q.Path, q.Method, q.Host, q.URL, q.Status, q.Loc, strings.Join(hs, "; "))
}

// applyTransition switches host #0 to the target behaviour of the scenario and expires the CDN token.
func (d *driver) applyTransition(tr string) {
	sc, w := d.sc, d.sc.w
	h0 := w.hosts[sc.regHosts[0]]
	switch tr {
	case "redirect->direct":
		h0.mode.Store(mDirect)
	case "redirect->redirect":
		// stays redirecting; only the token changes
	case "direct->redirect":
		h0.mode.Store(m403Redir)
	case "redirect->other-registry-host":
		h0.mode.Store(mToMirror)
		w.hosts[h0.toMirror].mode.Store(mDirect)
	case "direct->direct":
	}
	w.gen.Add(1)
}

// gated imposes: parked goroutine read the old URL -> another goroutine's refreshURL completes -> parked goroutine reads the header.
func (d *driver) gated(rng *prng.R) ([]*gstate, string) {
	r, sc := d.r, d.sc
	parkPoint := "remote.fetch.afterURL"
	if sc.Kind == "gate-check" {
		parkPoint = "remote.check.afterURL"
	}
	d.applyTransition(sc.Transition)
	gt := &gate{parkPoint: parkPoint, parked: make(chan struct{}), release: make(chan struct{}), timeout: 20 * time.Second}
	curGate.Store(gt)
	defer curGate.Store(nil)
	var wk *gstate
	reg := make(chan struct{})
	done := make(chan struct{})
	go func() {
		defer close(done)
		wk = greg.register("parked-" + strings.TrimPrefix(parkPoint, "remote."))
		wk.parker = true
		close(reg)
		if sc.Kind == "gate-check" {
			wk.op = "Check"
			err := d.blob.Check()
			_ = err
		} else {
			_ = d.readAt(wk, 30, 1)
		}
		wk.op = "idle"
	}()
	<-reg
	select {
	case <-gt.parked:
	case <-done:
		r.Inconclusive("gate: the operation finished without reaching " + parkPoint)
		return []*gstate{wk}, ""
	case <-time.After(60 * time.Second):
		r.Inconclusive("gate: hook " + parkPoint + " never reached (watchdog)")
		close(gt.release)
		<-done
		return []*gstate{wk}, ""
	}
	// the parked goroutine has read the old URL under urlMu and released the lock
	before := d.g.hits["remote.refresh.done"]
	if sc.Refresher == "Check" {
		d.step(hop{Kind: "Check"})
	} else {
		err := d.readAt(d.g, 40, 1)
		d.g.op = "idle"
		d.note("ReadAt", err)
	}
	refreshed := d.g.hits["remote.refresh.done"] > before
	close(gt.release)
	<-done
	order := ""
	switch {
	case wk.gateResult == "timeout":
		// the refresher could not finish while the other goroutine was parked: the code's
		// own locking excludes this order
		r.Inconclusive("gate: order infeasible (parked goroutine timed out before the refresh completed)")
		r.Distinct("gate_orders_infeasible", parkPoint+" | "+sc.Transition)
	case !refreshed:
		r.Count("gate_cases_without_refresh", 1)
	default:
		order = fmt.Sprintf("%s(old URL) -> %s: remote.refresh.done -> parked goroutine continues and reads the header", parkPoint, sc.Refresher)
		r.Distinct("gate_orders_realised", parkPoint+" | "+sc.Transition+" | refresher="+sc.Refresher)
		r.Count("gate_orders_realised", 1)
	}
	return []*gstate{wk}, order
}

// storm: unsynchronised concurrent fetches and checks while the driver keeps switching
// host #0 between redirect and direct and expiring the token. No gate, no shared state on
// the path: this is what the race detector looks at.
func (d *driver) storm(rng *prng.R) []*gstate {
	sc, w := d.sc, d.sc.w
	h0 := w.hosts[sc.regHosts[0]]
	nw := rng.Range(3, 6)
	workers := make([]*gstate, nw+1)
	var wg, regd sync.WaitGroup
	start := make(chan struct{})
	for i := 0; i <= nw; i++ {
		wg.Add(1)
		regd.Add(1)
		wr := rng.Derive(uint64(i))
		go func(i int) {
			defer wg.Done()
			g := greg.register(fmt.Sprintf("storm-%d", i))
			g.jitter, g.jitterUS = wr.Derive(7), wr.Pick(0, 200, 1000, 3000)
			workers[i] = g
			regd.Done()
			<-start
			if i == nw { // the checker
				for k, n := 0, wr.Range(3, 6); k < n; k++ {
					g.op = "Check"
					_ = d.blob.Check()
					time.Sleep(time.Duration(wr.Intn(400)) * time.Microsecond)
				}
				return
			}
			first := 24 + i*6
			for k, n := 0, wr.Range(2, 4); k < n && first+k < nChunks; k++ {
				_ = d.readAt(g, first+k, 1)
			}
			g.op = "idle"
		}(i)
	}
	regd.Wait()
	w.gen.Add(1)
	h0.mode.Store(mDirect)
	close(start)
	for k, n := 0, rng.Range(2, 4); k < n; k++ {
		time.Sleep(time.Duration(rng.Range(200, 2500)) * time.Microsecond)
		if h0.mode.Load() == mDirect {
			h0.mode.Store(m302)
		} else {
			h0.mode.Store(mDirect)
		}
		w.gen.Add(1)
	}
	done := make(chan struct{})
	go func() { wg.Wait(); close(done) }()
	select {
	case <-done:
	case <-time.After(120 * time.Second):
		d.r.Inconclusive("watchdog: storm workers did not finish")
	}
	d.r.Count("storm_workers", nw+1)
	return workers
}

func installHooks() { verifhook.SetHandler(hookHandler) }
