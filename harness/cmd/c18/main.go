// C18 — registry credentials and custom headers reach only their own image and host.
//
// Part (a) keychain.go: the real cri.NewCRIKeychain over a fake CRI image service, driven by
// generated Pull/Remove sequences (auth forms, server addresses, docker.io aliases, several
// spellings of one reference, removal by name and by image id) with a full sweep of
// credential queries (host, ref) after every request; a 60-line reference model derived
// from the statement judges every non-empty answer. Concurrent histories are checked with
// porcupine against one register per exact reference.
//
// Part (b) headers.go + memreg.go: keychain + static credentials -> RegistryHostsFromConfig
// (per-mirror secret headers) -> remote.Resolver.Resolve -> Blob ReadAt/Cache/Check/Refresh
// against an in-memory scripted registry (direct, 302/307 to a CDN, expiring CDN tokens,
// 401 basic/bearer challenges, mode switches between refreshes) that logs EVERY request.
// Oracle: a taint scan of the whole log — every secret names its owner host and may only
// be seen by that host (credentials/tokens also by the realm that host's challenge names).
// Concurrent scenarios: "gate" imposes, through the verif hook points of fs/remote,
//
//	fetch/check read the old URL -> refreshURL completes -> fetch/check reads f.header,
//
// "storm" runs unsynchronised fetches/checks during mode switches for the race detector.
//
// The binary is the race build at top level (BUILDS: top=race); races are attributed to
// fs/remote.(*httpFetcher), service/keychain/cri and service/resolver.
package main

import (
	"fmt"
	"time"

	"github.com/containerd/log"
	"github.com/sirupsen/logrus"

	"verifharness/internal/vf"
)

// non-trivial cases are collected per part: the run only counts them when EACH part
// reached its own floor, so that a run in which one part observed nothing cannot pass on
// the strength of the other.
type ntCollector struct {
	r     *vf.Run
	parts map[string][]string
}

var nt *ntCollector

func (n *ntCollector) add(part, desc string) { n.parts[part] = append(n.parts[part], desc) }

func (n *ntCollector) flush(floors map[string]int) {
	ok := true
	for part, fl := range floors {
		d := map[string]bool{}
		for _, x := range n.parts[part] {
			d[x] = true
		}
		n.r.Set("distinct_nontrivial_"+part, len(d))
		n.r.Set("floor_"+part, fl)
		if len(d) < fl {
			ok = false
			n.r.Inconclusive(fmt.Sprintf("part %s observed %d distinct non-trivial cases, fewer than its floor %d: no non-trivial case of any part is counted", part, len(d), fl))
		}
	}
	if !ok {
		return
	}
	for _, ds := range n.parts {
		for _, d := range ds {
			n.r.NonTrivial(d)
		}
	}
}

func main() {
	vf.Main("C18", "exploration",
		"part (a): one case = one generated history of CRI PullImage/RemoveImage requests (auth forms, server addresses, docker.io aliases, spellings; removal by name or image id) with a sweep of credential queries after every request, or one concurrent history checked by porcupine; "+
			"non-trivial = some query was answered with credentials AND some query for which related credentials existed (other tag of the repository, removed image, other server address) was answered empty. "+
			"part (b): one case = one scripted registry world (mirrors with secret headers, auth kinds, redirect/direct/expiring CDN, CRI + static credentials) with an operation script (Resolve, ReadAt, Cache, Check, Refresh, expiry, mode switches), sequential, hook-gated or concurrent storm; "+
			"non-trivial = a configured secret was delivered to its owner host AND at least one request went to a host that owns none of the delivered secrets (redirect target, other registry host, token realm); gated cases additionally require the imposed order to have been realised. Distinct by generated case descriptor.",
		150, 3000, body)
}

func body(r *vf.Run) {
	logrus.SetLevel(logrus.PanicLevel)
	log.L.Logger.SetLevel(logrus.PanicLevel)
	installHooks()
	drv := greg.register("driver")
	nt = &ntCollector{r: r, parts: map[string][]string{}}

	// ---- part (a)
	nSeq, nConc := r.N(400, 6000), r.N(150, 3000)
	t := time.Now()
	for i := 0; i < nSeq; i++ {
		runSeqHistory(r, i, r.RNG(1, uint64(i)))
	}
	r.Set("wall_s_keychain_sequential", time.Since(t).Seconds())
	t = time.Now()
	for i := 0; i < nConc; i++ {
		runConcHistory(r, i, r.RNG(2, uint64(i)))
	}
	r.Set("wall_s_keychain_concurrent", time.Since(t).Seconds())

	// ---- part (b)
	kinds := []struct {
		kind string
		n    int
	}{
		{"seq", r.N(100, 1500)},
		{"gate-fetch", r.N(30, 800)},
		{"gate-check", r.N(20, 500)},
		{"storm", r.N(30, 800)},
	}
	idx := 0
	for ki, k := range kinds {
		t = time.Now()
		for i := 0; i < k.n; i++ {
			rng := r.RNG(3, uint64(ki), uint64(i))
			sc := genScenario(rng, idx, k.kind)
			runScenario(r, drv, sc, rng.Derive(99))
			idx++
			if r.Violations() > 40 {
				break
			}
		}
		r.Set("wall_s_headers_"+k.kind, time.Since(t).Seconds())
	}

	nt.flush(map[string]int{
		"keychain-sequential": r.N(100, 1800),
		"keychain-concurrent": r.N(25, 500),
		"headers-sequential":  r.N(12, 300),
		"headers-gated":       r.N(12, 300),
		"headers-storm":       r.N(8, 200),
	})

	r.AccountOwnRaces([]string{"fs/remote.(*httpFetcher)", "service/keychain/cri.", "service/resolver."}, nil)

	r.Assume("github.com/distribution/reference (ParseDockerRef) is the definition of 'the exact image reference' of a CRI image name; docker.io, registry-1.docker.io and index.docker.io are one host")
	r.Assume("porcupine v1.3.0 and the per-reference register model in keychain.go are correct")
	r.Assume("every request of the code under test goes through the innermost http.RoundTripper of the rhttp client that RegistryHostsFromConfig builds (replaced by the in-memory world); the docker authorizer uses the same client")
	r.Assume("a goroutine id parsed from runtime.Stack identifies the calling goroutine (request log and hook bookkeeping are goroutine-local so that the monitor adds no happens-before edge)")
	r.Assume("the Go race detector reports only real unsynchronised conflicting accesses")
}
