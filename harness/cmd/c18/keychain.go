package main

// Part (a): the CRI keychain (service/keychain/cri) behind a fake CRI image service.
//
// Oracle (universal negative, from the statement only): a credential query (host, ref)
// may return non-empty credentials only if they are the credentials of the MOST RECENT
// pull request for exactly that reference, that request named no server address or one
// equal to the host being contacted (docker.io = registry-1.docker.io = index.docker.io),
// and the image has not been removed since. Returning nothing is always acceptable
// (the statement never obliges the keychain to offer credentials), so an error, or an
// empty answer where the model would allow credentials, is not judged.

import (
	"context"
	"encoding/base64"
	"errors"
	"fmt"
	"sort"
	"strings"
	"sync"
	"time"

	"github.com/anishathalye/porcupine"
	"github.com/containerd/containerd/v2/pkg/reference"
	"github.com/containerd/stargz-snapshotter/service/keychain/cri"
	"github.com/containerd/stargz-snapshotter/service/resolver"
	distribution "github.com/distribution/reference"
	"google.golang.org/grpc"
	runtime "k8s.io/cri-api/pkg/apis/runtime/v1"

	"verifharness/internal/prng"
	"verifharness/internal/vf"
)

// normalise is the only piece of naming logic the model shares with the code, and it is
// third-party (github.com/distribution/reference), as DESIGN.md fixes.
func normalise(name string) (string, bool) {
	n, err := distribution.ParseDockerRef(name)
	if err != nil {
		return "", false
	}
	return n.String(), true
}

var repoMemo = map[string]string{} // driver goroutine only

func repositoryOf(norm string) string {
	if v, ok := repoMemo[norm]; ok {
		return v
	}
	v := norm
	if n, err := distribution.ParseNormalizedNamed(norm); err == nil {
		v = n.Name()
	}
	if len(repoMemo) > 4096 {
		repoMemo = map[string]string{}
	}
	repoMemo[norm] = v
	return v
}

// ---------------------------------------------------------------------------
// fake CRI backend

type fakeCRI struct {
	stateful bool              // sequential histories: keeps an image table (single goroutine)
	refs     map[string]string // normalised ref -> image id
	idOf     func(norm string) string
	failNext bool
	// result of the last RemoveImage (sequential only)
	lastRemoved []string
	lastByID    bool
}

func (f *fakeCRI) ListImages(ctx context.Context, in *runtime.ListImagesRequest, _ ...grpc.CallOption) (*runtime.ListImagesResponse, error) {
	return &runtime.ListImagesResponse{}, nil
}
func (f *fakeCRI) ImageStatus(ctx context.Context, in *runtime.ImageStatusRequest, _ ...grpc.CallOption) (*runtime.ImageStatusResponse, error) {
	if !f.stateful {
		return &runtime.ImageStatusResponse{}, nil
	}
	x := in.GetImage().GetImage()
	img := &runtime.Image{}
	if strings.HasPrefix(x, "sha256:") {
		for _, id := range f.refs {
			if id == x {
				img.Id = id
			}
		}
	} else if norm, ok := normalise(x); ok {
		img.Id = f.refs[norm]
	}
	if img.Id == "" {
		return &runtime.ImageStatusResponse{}, nil
	}
	for ref, id := range f.refs {
		if id == img.Id {
			if strings.Contains(ref, "@") {
				img.RepoDigests = append(img.RepoDigests, ref)
			} else {
				img.RepoTags = append(img.RepoTags, ref)
			}
		}
	}
	sort.Strings(img.RepoTags)
	sort.Strings(img.RepoDigests)
	return &runtime.ImageStatusResponse{Image: img}, nil
}
func (f *fakeCRI) PullImage(ctx context.Context, in *runtime.PullImageRequest, _ ...grpc.CallOption) (*runtime.PullImageResponse, error) {
	if !f.stateful {
		return &runtime.PullImageResponse{ImageRef: "sha256:0"}, nil
	}
	if f.failNext {
		f.failNext = false
		return nil, errors.New("fake backend: pull failed")
	}
	norm, ok := normalise(in.GetImage().GetImage())
	if !ok {
		return nil, errors.New("fake backend: bad name")
	}
	f.refs[norm] = f.idOf(norm)
	return &runtime.PullImageResponse{ImageRef: f.refs[norm]}, nil
}
func (f *fakeCRI) RemoveImage(ctx context.Context, in *runtime.RemoveImageRequest, _ ...grpc.CallOption) (*runtime.RemoveImageResponse, error) {
	if !f.stateful {
		return &runtime.RemoveImageResponse{}, nil
	}
	f.lastRemoved, f.lastByID = nil, false
	if f.failNext {
		f.failNext = false
		return nil, errors.New("fake backend: remove failed")
	}
	x := in.GetImage().GetImage()
	if strings.HasPrefix(x, "sha256:") { // an image id: the image goes away with every name it has
		f.lastByID = true
		for ref, id := range f.refs {
			if id == x {
				f.lastRemoved = append(f.lastRemoved, ref)
				delete(f.refs, ref)
			}
		}
		sort.Strings(f.lastRemoved)
		return &runtime.RemoveImageResponse{}, nil
	}
	if norm, ok := normalise(x); ok {
		if _, ok := f.refs[norm]; ok {
			f.lastRemoved = append(f.lastRemoved, norm)
			delete(f.refs, norm)
		}
	}
	return &runtime.RemoveImageResponse{}, nil
}
func (f *fakeCRI) ImageFsInfo(ctx context.Context, in *runtime.ImageFsInfoRequest, _ ...grpc.CallOption) (*runtime.ImageFsInfoResponse, error) {
	return &runtime.ImageFsInfoResponse{}, nil
}

// newKeychain builds the real keychain over the fake backend and waits (bounded) until
// its connector goroutine has attached the backend.
func newKeychain(r *vf.Run, backend runtime.ImageServiceClient) (resolver.Credential, runtime.ImageServiceServer, bool) {
	creds, srv := cri.NewCRIKeychain(context.Background(), func() (runtime.ImageServiceClient, error) { return backend, nil })
	deadline := time.Now().Add(60 * time.Second) // watchdog only
	for {
		if _, err := srv.ListImages(context.Background(), &runtime.ListImagesRequest{}); err == nil {
			return creds, srv, true
		}
		if time.Now().After(deadline) {
			r.Inconclusive("watchdog: CRI keychain never attached its backend")
			return nil, nil, false
		}
		time.Sleep(50 * time.Microsecond)
	}
}

// ---------------------------------------------------------------------------
// pulls and auth forms

type pull struct {
	id         int
	name       string // spelling used in the request
	norm       string
	form       string
	serverAddr string
	cfg        *runtime.AuthConfig
}

func sec(kind, owner string, id int) string { return fmt.Sprintf("%s~%s~p%d", kind, owner, id) }

var authForms = []string{"userpass", "idtoken", "b64auth", "all-fields", "nil", "empty", "b64-no-colon", "user-only", "userpass", "b64auth", "idtoken"}

// makeAuth builds the AuthConfig of pull id in the given form; every secret string in it
// is unique to the pull and names owner (used by part (b); part (a) passes "kc").
func makeAuth(form, owner string, id int, serverAddr string) *runtime.AuthConfig {
	a := &runtime.AuthConfig{ServerAddress: serverAddr}
	b64 := base64.StdEncoding.EncodeToString([]byte(sec("cbu", owner, id) + ":" + sec("cbp", owner, id)))
	switch form {
	case "userpass":
		a.Username, a.Password = sec("cu", owner, id), sec("cp", owner, id)
	case "idtoken":
		a.IdentityToken = sec("ct", owner, id)
	case "b64auth":
		a.Auth = b64
	case "all-fields":
		a.Username, a.Password, a.IdentityToken, a.Auth = sec("cu", owner, id), sec("cp", owner, id), sec("ct", owner, id), b64
	case "nil":
		return nil
	case "empty":
	case "b64-no-colon":
		a.Auth = base64.StdEncoding.EncodeToString([]byte(sec("cbu", owner, id)))
	case "user-only":
		a.Username = sec("cu", owner, id)
	}
	return a
}

// addrHost extracts the host a server address names: scheme stripped, up to the first '/'.
func addrHost(addr string) string {
	if i := strings.Index(addr, "://"); i >= 0 {
		addr = addr[i+3:]
	}
	if i := strings.IndexByte(addr, '/'); i >= 0 {
		addr = addr[:i]
	}
	return addr
}

func addrMatches(serverAddr, host string) bool {
	return serverAddr == "" || hostClass(addrHost(serverAddr)) == hostClass(host)
}

func pullIDOf(s string) int {
	m := secretRe.FindStringSubmatch(s)
	if m == nil || m[0] != s || !strings.HasPrefix(m[3], "p") {
		return -1
	}
	var id int
	if _, err := fmt.Sscanf(m[3], "p%d", &id); err != nil {
		return -1
	}
	return id
}

// ---------------------------------------------------------------------------
// the reference model (sequential)

type kcModel struct {
	pulls   map[int]*pull
	latest  map[string]*pull  // exact reference -> most recent pull request
	removed map[string]string // exact reference -> how the image was removed since ("" = not)
}

func newKCModel() *kcModel {
	return &kcModel{pulls: map[int]*pull{}, latest: map[string]*pull{}, removed: map[string]string{}}
}
func (m *kcModel) onPull(p *pull) {
	m.pulls[p.id] = p
	if p.norm != "" {
		m.latest[p.norm] = p
		delete(m.removed, p.norm)
	}
}
func (m *kcModel) onRemoved(norm, how string) { m.removed[norm] = how }

// judge returns "" when the answer is allowed, else the oracle clause it breaks.
func (m *kcModel) judge(host, ref, user, secret string) string {
	for _, s := range []string{user, secret} {
		if s == "" {
			continue
		}
		p := m.pulls[pullIDOf(s)]
		switch {
		case p == nil:
			return "credentials-of-no-pull-request"
		case p.norm != ref && repositoryOf(p.norm) == repositoryOf(ref):
			return "credentials-of-other-reference-in-same-repository"
		case p.norm != ref:
			return "credentials-of-other-reference"
		case m.latest[ref] != p:
			return "credentials-of-earlier-pull-request"
		case m.removed[ref] != "":
			return "credentials-offered-after-image-removed@" + m.removed[ref]
		case !addrMatches(p.serverAddr, host):
			return "server-address-names-other-host"
		}
	}
	return ""
}

// tempting: the model denies (or would deny) although credentials related to the query exist.
func (m *kcModel) tempting(host, ref string) bool {
	if p := m.latest[ref]; p != nil && p.cfg != nil {
		return m.removed[ref] != "" || !addrMatches(p.serverAddr, host)
	}
	for k, p := range m.latest {
		if k != ref && p.cfg != nil && m.removed[k] == "" && repositoryOf(k) == repositoryOf(ref) {
			return true
		}
	}
	return false
}

// ---------------------------------------------------------------------------
// generators

type refPool struct {
	host      string   // host of the normalised references
	norms     []string // normalised references (the model's keys)
	spellings map[string][]string
	qhosts    []string // hosts to query for
	addrs     []string // server addresses to draw from ("" = none)
}

const dg1 = "sha256:1111111111111111111111111111111111111111111111111111111111111111"
const dg2 = "sha256:2222222222222222222222222222222222222222222222222222222222222222"

func genPool(rng *prng.R) refPool {
	var p refPool
	p.spellings = map[string][]string{}
	type hostSpell struct {
		norm     string
		prefixes []string
	}
	choices := []hostSpell{
		{"docker.io", []string{"", "docker.io/", "index.docker.io/"}},
		{"registry-1.docker.io", []string{"registry-1.docker.io/"}},
		{"reg-a.example", []string{"reg-a.example/"}},
		{"reg-b.example:5000", []string{"reg-b.example:5000/"}},
		{"localhost:5000", []string{"localhost:5000/"}},
	}
	hs := choices[rng.Intn(len(choices))]
	p.host = hs.norm
	repos := []string{"library/alpine", "ns/app"}
	if rng.Bool() {
		repos = append(repos, "ns/app2")
	}
	add := func(repo, suffix string, alts ...string) {
		norm := hs.norm + "/" + repo + suffix
		n2, ok := normalise(norm)
		if !ok {
			return
		}
		if _, dup := p.spellings[n2]; !dup {
			p.norms = append(p.norms, n2)
		}
		for _, pre := range hs.prefixes {
			for _, a := range append([]string{suffix}, alts...) {
				rp := repo
				if hs.norm == "docker.io" && strings.HasPrefix(repo, "library/") && pre == "" {
					rp = strings.TrimPrefix(repo, "library/")
				}
				sp := pre + rp + a
				if n3, ok := normalise(sp); ok && n3 == n2 {
					p.spellings[n2] = append(p.spellings[n2], sp)
				}
			}
		}
	}
	for _, repo := range repos {
		add(repo, ":latest", "")
		if rng.Chance(3, 4) {
			add(repo, ":v1")
		}
		if rng.Chance(1, 2) {
			add(repo, "@"+dg1, ":v1@"+dg1, ":latest@"+dg1)
		}
		if rng.Chance(1, 4) {
			add(repo, "@"+dg2)
		}
	}
	p.qhosts = []string{hs.norm, "mirror.example", "reg-z.example"}
	p.addrs = []string{"", "", "https://" + hs.norm, "https://" + hs.norm + "/v1/", "http://" + hs.norm, hs.norm, "https://reg-z.example", "https://mirror.example/v1/", "://bad"}
	if hostClass(hs.norm) == "dockerhub" {
		p.qhosts = append(p.qhosts, "docker.io", "registry-1.docker.io", "index.docker.io")
		p.addrs = append(p.addrs, "https://index.docker.io/v1/", "https://index.docker.io/v1/", "https://docker.io", "https://registry-1.docker.io")
	} else {
		p.qhosts = append(p.qhosts, "docker.io", hs.norm+"0")
		p.addrs = append(p.addrs, "https://index.docker.io/v1/", "https://"+hs.norm+"0")
	}
	return p
}

type kcOp struct {
	Kind    string // pull | remove | remove-by-id
	Name    string
	Norm    string
	Form    string
	Addr    string
	Backend string // ok | fail
}

func (o kcOp) String() string {
	switch o.Kind {
	case "pull":
		return fmt.Sprintf("Pull(%q,%s,addr=%q,backend=%s)", o.Name, o.Form, o.Addr, o.Backend)
	}
	return fmt.Sprintf("%s(%q,backend=%s)", o.Kind, o.Name, o.Backend)
}

func genSeqHistory(rng *prng.R, p refPool) []kcOp {
	n := rng.Range(4, 14)
	var ops []kcOp
	for i := 0; i < n; i++ {
		norm := p.norms[rng.Intn(len(p.norms))]
		sp := p.spellings[norm][rng.Intn(len(p.spellings[norm]))]
		o := kcOp{Name: sp, Norm: norm, Backend: "ok"}
		if rng.Chance(1, 10) {
			o.Backend = "fail"
		}
		switch x := rng.Intn(100); {
		case x < 62:
			o.Kind = "pull"
			o.Form = authForms[rng.Intn(len(authForms))]
			o.Addr = p.addrs[rng.Intn(len(p.addrs))]
		case x < 90:
			o.Kind = "remove"
		default:
			o.Kind = "remove-by-id"
		}
		ops = append(ops, o)
	}
	return ops
}

// ---------------------------------------------------------------------------
// sequential histories

type kcStats struct {
	nonEmpty, denied, errors, queries int
}

func runSeqHistory(r *vf.Run, idx int, rng *prng.R) {
	r.Eval(1)
	pool := genPool(rng)
	ops := genSeqHistory(rng, pool)
	// two references may be the same image (one id): removing the image by id removes both
	nIDs := rng.Range(1, 2)
	backend := &fakeCRI{stateful: true, refs: map[string]string{}}
	backend.idOf = func(norm string) string {
		return fmt.Sprintf("sha256:%064x", strHash(repositoryOf(norm))%uint64(nIDs)+1)
	}
	creds, srv, ok := newKeychain(r, backend)
	if !ok {
		return
	}
	model := newKCModel()
	var desc []string
	var st kcStats
	ctx := context.Background()
	specs := map[string]reference.Spec{}
	var qrefs []string
	for _, n := range pool.norms {
		s, err := reference.Parse(n)
		if err != nil {
			continue
		}
		specs[s.String()] = s
		qrefs = append(qrefs, s.String())
	}
	// also query a reference that is never pulled (other tag of a pulled repository) and a
	// tag+digest spelling, which is not the exact reference of any pull request
	if s, err := reference.Parse(repositoryOf(pool.norms[0]) + ":neverpulled"); err == nil {
		specs[s.String()] = s
		qrefs = append(qrefs, s.String())
	}
	if s, err := reference.Parse(repositoryOf(pool.norms[0]) + ":v1@" + dg1); err == nil {
		specs[s.String()] = s
		qrefs = append(qrefs, s.String())
	}
	// observation only (not an oracle clause): which (host, ref) had credentials before a step
	had, has := map[string]bool{}, map[string]bool{}
	sweep := func(step int) {
		had, has = has, map[string]bool{}
		for _, ref := range qrefs {
			for _, host := range pool.qhosts {
				st.queries++
				u, s, err := creds(host, specs[ref])
				has[host+" "+ref] = u != "" || s != ""
				if err != nil {
					st.errors++
					r.Distinct("keychain_query_errors", trimNum(err.Error()))
					if u == "" && s == "" {
						continue
					}
				}
				if u != "" || s != "" {
					st.nonEmpty++
				} else if model.tempting(host, ref) {
					st.denied++
				}
				if why := model.judge(host, ref, u, s); why != "" {
					r.Violate("keychain:"+why,
						fmt.Sprintf("credential query (host %q, ref %q) returned (%q,%q): %s", host, ref, u, s, why),
						map[string]any{"stage": "keychain-sequential", "case": idx, "history": desc, "after_step": step, "query": []string{host, ref}})
				}
			}
		}
	}
	for i, o := range ops {
		desc = append(desc, o.String())
		backend.failNext = o.Backend == "fail"
		switch o.Kind {
		case "pull":
			p := &pull{id: idx*100 + i + 1, name: o.Name, norm: o.Norm, form: o.Form, serverAddr: o.Addr}
			p.cfg = makeAuth(o.Form, "kc", p.id, o.Addr)
			_, err := srv.PullImage(ctx, &runtime.PullImageRequest{Image: &runtime.ImageSpec{Image: o.Name}, Auth: p.cfg})
			r.Count("keychain_pulls", 1)
			if err != nil {
				r.Count("keychain_pulls_backend_failed", 1)
			}
			// a pull REQUEST is what the statement talks about, whatever the backend answered
			model.onPull(p)
			r.Distinct("auth_forms", o.Form+"/addr="+addrKind(o.Addr, pool.host))
		case "remove", "remove-by-id":
			name := o.Name
			if o.Kind == "remove-by-id" {
				id, ok := backend.refs[o.Norm]
				if !ok {
					id = backend.idOf(o.Norm)
				}
				name = id
			}
			_, err := srv.RemoveImage(ctx, &runtime.RemoveImageRequest{Image: &runtime.ImageSpec{Image: name}})
			r.Count("keychain_removes", 1)
			if err == nil {
				how := "by-name"
				if backend.lastByID {
					how = "by-image-id"
				}
				// the image is removed when the runtime says so; slack: a remove the
				// backend refused leaves the model's permission in place
				if o.Kind == "remove" {
					model.onRemoved(o.Norm, how)
				}
				for _, ref := range backend.lastRemoved {
					model.onRemoved(ref, how)
				}
				r.Count("keychain_removes_"+how, 1)
				desc[len(desc)-1] += fmt.Sprintf(" => runtime removed image %q with names %v", name, backend.lastRemoved)
			} else {
				r.Count("keychain_removes_backend_failed", 1)
			}
		}
		sweep(i)
		if o.Kind == "remove" {
			// removing an image by one of its names untags that name only: the credentials of
			// its other names should survive (over-deletion is not a violation of C18, it is counted)
			for k, v := range had {
				if v && !has[k] && !strings.HasSuffix(k, " "+o.Norm) {
					r.Count("keychain_credentials_of_other_names_lost_on_remove_by_name", 1)
				}
			}
		}
	}
	r.Count("keychain_queries", st.queries)
	r.Count("keychain_nonempty_answers", st.nonEmpty)
	r.Count("keychain_tempting_empty_answers", st.denied)
	d := strings.Join(desc, "; ")
	if st.nonEmpty > 0 && st.denied > 0 {
		nt.add("keychain-sequential", "kc-seq:"+d)
		r.Count("keychain_seq_nontrivial", 1)
	}
	r.Count("keychain_seq_histories", 1)
	if idx < 2 {
		r.Sample(map[string]any{"stage": "keychain-sequential", "case": idx, "history": desc, "queries": st.queries, "nonempty_answers": st.nonEmpty, "tempting_but_empty": st.denied})
	}
}

func addrKind(addr, host string) string {
	switch {
	case addr == "":
		return "none"
	case addrMatches(addr, host):
		return "same-host"
	}
	return "other-host"
}

func trimNum(s string) string {
	if len(s) > 80 {
		s = s[:80]
	}
	var sb strings.Builder
	for _, c := range s {
		if c >= '0' && c <= '9' {
			c = '#'
		}
		sb.WriteRune(c)
	}
	return sb.String()
}

// ---------------------------------------------------------------------------
// concurrent histories (porcupine, one register per exact reference)

type kcIn struct {
	Kind string // pull | remove | query
	Ref  string // exact reference (model key)
	Pull int    // pull id
	Host string
}
type kcOut struct{ User, Secret string }

func runConcHistory(r *vf.Run, idx int, rng *prng.R) {
	r.Eval(1)
	pool := genPool(rng)
	if len(pool.norms) > 2 {
		pool.norms = pool.norms[:2]
	}
	backend := &fakeCRI{}
	creds, srv, ok := newKeychain(r, backend)
	if !ok {
		return
	}
	clients := rng.Range(2, 4)
	pulls := map[int]*pull{}
	type step struct {
		in   kcIn
		name string
		p    *pull
		spec reference.Spec
	}
	scripts := make([][]step, clients)
	var desc []string
	nextID := idx * 100
	for c := 0; c < clients; c++ {
		n := rng.Range(3, 8)
		for j := 0; j < n; j++ {
			norm := pool.norms[rng.Intn(len(pool.norms))]
			spec, err := reference.Parse(norm)
			if err != nil {
				continue
			}
			s := step{spec: spec}
			switch x := rng.Intn(100); {
			case x < 35:
				nextID++
				p := &pull{id: nextID, norm: norm, form: authForms[rng.Intn(3)], serverAddr: pool.addrs[rng.Intn(len(pool.addrs))]}
				p.name = pool.spellings[norm][rng.Intn(len(pool.spellings[norm]))]
				p.cfg = makeAuth(p.form, "kc", p.id, p.serverAddr)
				pulls[p.id] = p
				s.in, s.p, s.name = kcIn{Kind: "pull", Ref: spec.String(), Pull: p.id}, p, p.name
			case x < 50:
				s.in, s.name = kcIn{Kind: "remove", Ref: spec.String()}, pool.spellings[norm][rng.Intn(len(pool.spellings[norm]))]
			default:
				s.in = kcIn{Kind: "query", Ref: spec.String(), Host: pool.qhosts[rng.Intn(len(pool.qhosts))]}
			}
			scripts[c] = append(scripts[c], s)
			desc = append(desc, fmt.Sprintf("c%d:%s(%s,%d,%s)", c, s.in.Kind, s.in.Ref, s.in.Pull, s.in.Host))
		}
	}
	logs := make([][]porcupine.Operation, clients) // per-goroutine buffers, no shared state on the path
	var wg sync.WaitGroup
	start := make(chan struct{})
	ctx := context.Background()
	for c := 0; c < clients; c++ {
		wg.Add(1)
		go func(c int) {
			defer wg.Done()
			<-start
			for _, s := range scripts[c] {
				var o kcOut
				call := now()
				switch s.in.Kind {
				case "pull":
					_, _ = srv.PullImage(ctx, &runtime.PullImageRequest{Image: &runtime.ImageSpec{Image: s.name}, Auth: s.p.cfg})
				case "remove":
					_, _ = srv.RemoveImage(ctx, &runtime.RemoveImageRequest{Image: &runtime.ImageSpec{Image: s.name}})
				case "query":
					u, sc, err := creds(s.in.Host, s.spec)
					if err == nil || u != "" || sc != "" {
						o = kcOut{u, sc}
					}
				}
				ret := now()
				if ret <= call {
					ret = call + 1
				}
				logs[c] = append(logs[c], porcupine.Operation{ClientId: c, Input: s.in, Call: call, Output: o, Return: ret})
			}
		}(c)
	}
	close(start)
	wg.Wait()
	var all []porcupine.Operation
	nonEmpty, queries := 0, 0
	for c := range logs {
		for _, o := range logs[c] {
			if o.Input.(kcIn).Kind == "query" {
				queries++
				if out := o.Output.(kcOut); out.User != "" || out.Secret != "" {
					nonEmpty++
				}
			}
		}
		all = append(all, logs[c]...)
	}
	model := porcupine.Model{
		Partition: func(h []porcupine.Operation) [][]porcupine.Operation {
			m := map[string][]porcupine.Operation{}
			for _, o := range h {
				k := o.Input.(kcIn).Ref
				m[k] = append(m[k], o)
			}
			var res [][]porcupine.Operation
			for _, v := range m {
				res = append(res, v)
			}
			return res
		},
		Init: func() any { return 0 },
		Step: func(st, input, output any) (bool, any) {
			cur := st.(int)
			in := input.(kcIn)
			switch in.Kind {
			case "pull":
				return true, in.Pull
			case "remove":
				return true, 0
			}
			out := output.(kcOut)
			for _, s := range []string{out.User, out.Secret} {
				if s == "" {
					continue // offering nothing is always allowed
				}
				id := pullIDOf(s)
				if cur == 0 || id != cur {
					return false, cur
				}
				if !addrMatches(pulls[cur].serverAddr, in.Host) {
					return false, cur
				}
			}
			return true, cur
		},
		Equal: func(a, b any) bool { return a.(int) == b.(int) },
	}
	switch porcupine.CheckOperationsTimeout(model, all, 20*time.Second) {
	case porcupine.Illegal:
		r.Violate("keychain:concurrent-history-not-explained-by-per-reference-register",
			"no sequential order of the recorded Pull/Remove/query calls explains a non-empty credential answer (it is not the latest pull of that exact reference, or removed, or for another host): "+kcHist(all),
			map[string]any{"stage": "keychain-concurrent", "case": idx, "script": desc})
	case porcupine.Unknown:
		r.Inconclusive("porcupine timeout (keychain)")
		return
	}
	r.Count("keychain_conc_histories", 1)
	r.Count("keychain_conc_ops", len(all))
	if nonEmpty > 0 && queries > nonEmpty {
		nt.add("keychain-concurrent", "kc-conc:"+strings.Join(desc, ";"))
		r.Count("keychain_conc_nontrivial", 1)
	}
	if idx < 1 {
		r.Sample(map[string]any{"stage": "keychain-concurrent", "case": idx, "script": desc, "recorded": kcHist(all)})
	}
}

func kcHist(ops []porcupine.Operation) string {
	sort.Slice(ops, func(i, j int) bool { return ops[i].Call < ops[j].Call })
	var sb strings.Builder
	for _, o := range ops {
		i := o.Input.(kcIn)
		u := o.Output.(kcOut)
		fmt.Fprintf(&sb, "[c%d %s %s p%d host=%s -> (%q,%q)] ", o.ClientId, i.Kind, i.Ref, i.Pull, i.Host, u.User, u.Secret)
		if sb.Len() > 2500 {
			sb.WriteString("…")
			break
		}
	}
	return sb.String()
}
