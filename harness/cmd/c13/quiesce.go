package main

// Group driver and the state-based decision of clauses 5 (cancellation is delivered) and
// 6 (bounded completion). Nothing here uses elapsed time as a verdict: a group that has
// not finished is examined through an atomic snapshot of all goroutine states
// (runtime.Stack(all) stops the world). The group is *quiescent* iff every goroutine of
// the workload (a frame in the task package, a body, an invoker, a prioritized client) is
// parked on a channel / select / cond / semaphore / mutex and none is runnable, running,
// sleeping or in a syscall: then no event can ever happen again (the only timers left are
// the 1h context deadlines), and whatever is still pending is pending for ever.
// Wall-clock is only the watchdog (inconclusive).

import (
	"fmt"
	"regexp"
	"runtime"
	"sort"
	"strings"
	"sync"
	"time"

	"verifharness/internal/vf"
)

type gor struct {
	id       string
	state    string
	relevant bool
	top      string
}

var gorHeader = regexp.MustCompile(`^goroutine (\d+) \[([^\],]+)`)

var parked = map[string]bool{
	"chan receive": true, "chan send": true, "select": true, "sync.Cond.Wait": true,
	"semacquire": true, "sync.Mutex.Lock": true, "sync.RWMutex.Lock": true, "sync.RWMutex.RLock": true,
	"sync.WaitGroup.Wait": true, "chan receive (nil chan)": true, "chan send (nil chan)": true, "select (no cases)": true,
}

func snapshot() []gor {
	buf := make([]byte, 1<<20)
	for {
		n := runtime.Stack(buf, true)
		if n < len(buf) {
			buf = buf[:n]
			break
		}
		if len(buf) >= 256<<20 {
			break
		}
		buf = make([]byte, 2*len(buf))
	}
	var res []gor
	for _, blk := range strings.Split(string(buf), "\n\n") {
		m := gorHeader.FindStringSubmatch(blk)
		if m == nil {
			continue
		}
		g := gor{id: m[1], state: m[2]}
		lines := strings.Split(blk, "\n")
		if len(lines) > 1 {
			g.top = lines[1]
		}
		// workload goroutines: anything inside the task package or the scenario's own actors.
		// (*scenario).run / drain and the group driver are pollers of the harness, not workload.
		if strings.Contains(blk, "stargz-snapshotter/task.") || strings.Contains(blk, "main.(*invocation).readAt") ||
			strings.Contains(blk, "main.(*scenario).invoker") || strings.Contains(blk, "main.(*scenario).prioClient") {
			g.relevant = true
		}
		res = append(res, g)
	}
	return res
}

// quiescent reports whether all workload goroutines are parked, and a signature of them.
func quiescent(gs []gor) (bool, string, int) {
	var sig []string
	all := true
	n := 0
	for _, g := range gs {
		if !g.relevant {
			continue
		}
		n++
		sig = append(sig, g.id+":"+g.state+":"+g.top)
		if !parked[g.state] {
			all = false
		}
	}
	sort.Strings(sig)
	return all, strings.Join(sig, "\n"), n
}

// runGroup runs the scenarios concurrently, joins them and analyses them. It returns false
// when the group never finished (stuck or watchdog): the run stops there.
func runGroup(r *vf.Run, scs []*scenario) bool {
	var wg sync.WaitGroup
	for _, sc := range scs {
		wg.Add(1)
		go func(sc *scenario) { defer wg.Done(); sc.run() }(sc)
	}
	done := make(chan struct{})
	go func() { wg.Wait(); close(done) }()
	began := time.Now()
	finished := false
wait:
	for {
		select {
		case <-done:
			finished = true
			break wait
		case <-time.After(500 * time.Millisecond):
		}
		if time.Since(began) < 2*time.Second {
			continue
		}
		q1, sig1, n1 := quiescent(snapshot())
		if q1 {
			// a second snapshot must show the very same parked goroutines (belt and braces:
			// one stop-the-world snapshot with nothing runnable is already conclusive)
			time.Sleep(200 * time.Millisecond)
			q2, sig2, _ := quiescent(snapshot())
			if q2 && sig1 == sig2 {
				select {
				case <-done:
					finished = true
				default:
					decideStuck(r, scs, sig1, n1)
				}
				break wait
			}
		}
		if time.Since(began) > 180*time.Second {
			r.Inconclusive("watchdog: scenario group neither finished nor became quiescent within 180s")
			break wait
		}
	}
	for _, sc := range scs {
		r.Eval(1)
		if sc.drained.Load() {
			analyze(r, sc)
		}
		mons.Delete(sc.mgr)
	}
	if !finished {
		for _, sc := range scs {
			close(sc.release) // let parked probes go (clean-up only; the verdict is already taken)
		}
		r.Count("groups_aborted", 1)
	}
	return finished
}

// decideStuck is called when the whole group is quiescent (nothing can ever run again)
// but at least one scenario has not completed.
func decideStuck(r *vf.Run, scs []*scenario, sig string, nparked int) {
	for _, sc := range scs {
		if sc.drained.Load() {
			continue
		}
		replay := map[string]any{"case": sc.idx, "scenario": sc.desc, "parked_workload_goroutines": nparked, "goroutines": clip(sig, 4000)}
		pendingInv, waitingProbe, running := 0, 0, 0
		for _, inv := range sc.allInvocations() {
			owed := false // a body of this invocation is a probe that waits for a cancellation it is owed
			for k := 0; k < inv.nslots(); k++ {
				if inv.slots[k].state.Load() == 2 {
					owed = true
				}
			}
			if inv.called.Load() && !inv.returned.Load() && !owed {
				pendingInv++ // (an invocation blocked behind its own uncancelled probe is reported by clause 5 only)
			}
			for k := 0; k < inv.nslots(); k++ {
				switch inv.slots[k].state.Load() {
				case 2:
					waitingProbe++
				case 3:
				default:
					running++
				}
			}
		}
		pb, pe, dc := sc.mon.pbeginA.Load(), sc.mon.pendEmitted.Load(), sc.doneCalls.Load()
		replay["pbegin"], replay["pend"], replay["done_calls"] = pb, pe, dc
		replay["pending_invocations"], replay["probes_waiting_for_cancel"], replay["bodies_running"] = pendingInv, waitingProbe, running
		decided := false
		if waitingProbe > 0 {
			// clause 5: the body saw a prioritized begin after its own start, is still
			// running, and at quiescence its ctx is still not done
			r.Violate("cancel:never-delivered-to-running-body",
				fmt.Sprintf("%d bodies that were running while a prioritized task was in progress (they saw a task.pbegin after their start, or DoPrioritizedTask had returned and DonePrioritizedTask had not been called yet) are still waiting for ctx.Done() at quiescence: no goroutine is left that could cancel them, no further prioritized task was begun", waitingProbe), replay)
			decided = true
		}
		if pendingInv > 0 && pb == dc && pe == dc {
			// clause 6: prioritized work has stopped (every begin was ended and every delayed
			// decrement announced), nothing is runnable, an invocation is still blocked
			r.Violate("completion:invocation-pending-at-quiescence",
				fmt.Sprintf("prioritized work has stopped (%d begins, %d ends, all decrements done) but %d invocations are blocked for ever", pb, dc, pendingInv), replay)
			decided = true
		}
		if pe < dc {
			r.Violate("completion:prioritized-count-never-returns-to-zero",
				fmt.Sprintf("%d DonePrioritizedTask calls but only %d decrements were ever announced and no goroutine is left to do the rest", dc, pe), replay)
			decided = true
		}
		if !decided {
			r.Inconclusive("scenario quiescent but incomplete for a reason the oracle does not name")
		}
	}
}

func clip(s string, n int) string {
	if len(s) > n {
		return s[:n] + "…"
	}
	return s
}
