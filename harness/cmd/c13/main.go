// C13 — background tasks yield to prioritized work, stay bounded, never self-overlap.
//
// Real code under test: task.BackgroundTaskManager (task/task.go), driven exactly the way
// its only caller layer.backgroundFetch drives it: a readAt-like function with named
// results (retN, retErr) and a caller buffer p, all three written by the body closure
// handed to InvokeBackgroundTask and read by the caller right after it returns.
//
// Each case is one generated scenario: one manager (concurrency 1–4, silence 0–30 ms),
// 1–16 invokers issuing 1–2 invocations each, 0–8 prioritized clients issuing begin/end
// bursts, bodies with scripted duration that look at ctx immediately / late / only at the
// end, and probe bodies that, once they notice a prioritized begin, wait for ctx.Done().
// Scenarios run in groups of several at a time; a group is joined before the next starts.
// Child stage "plain" (plain build): family 2 (genLastDone) aims many invokers at the instant of
// the last prioritized task's decrement+broadcast (lost wake-ups); family 3 (genBegin) begins
// prioritized tasks back to back while many bodies (re)start (missed cancellations).
// Child stage "callers" (callers.go): the real callers of the manager (fs Mount/Check/Unmount over
// FUSE, layer.Resolver, store.LayerManager) and the begin/end balance invariant.
//
// Monitors (files: monitor.go = hook handler + decision, quiesce.go = state-based
// quiescence): see NOTES.md. Which monitor state sits where with respect to AUTHORING
// rule 4 is explained at the top of monitor.go.
package main

import (
	"context"
	"fmt"
	"os"
	"path/filepath"
	"runtime/pprof"
	"strings"
	"sync"
	"sync/atomic"
	"time"

	"github.com/containerd/stargz-snapshotter/task"
	"github.com/containerd/stargz-snapshotter/util/verifhook"

	"verifharness/internal/prng"
	"verifharness/internal/vf"
)

var t0 = time.Now()

// now is the monotonic clock in ns since process start (+1 so that 0 means "unset").
func now() int64 { return int64(time.Since(t0)) + 1 }

const (
	maxExec  = 48                     // execution slots per invocation
	bodyStep = 200 * time.Microsecond // granularity of body work
	longTO   = time.Hour              // "no timeout" for InvokeBackgroundTask
)

type bodyKind int

const (
	kImmediate bodyKind = iota // returns at the first step (<=200us) at which ctx is done
	kLate                      // notices ctx, keeps working for Lag, then returns
	kAtEnd                     // ignores ctx for its whole duration, looks at it at the end
	kProbe                     // once it sees a prioritized begin it waits for ctx.Done(), then lags
)

func (k bodyKind) String() string { return [...]string{"imm", "late", "atend", "probe"}[k] }

type execScript struct {
	Kind bodyKind
	Dur  time.Duration
	Lag  time.Duration
}

// slot is the record of ONE execution of a body. It is written only by that body's
// goroutine (atomics on the slot itself = "per-object atomics"), read by the analysis.
type slot struct {
	start   atomic.Int64 // stamped after the body began
	wstamp  atomic.Int64 // stamped just BEFORE the plain writes to retN/retErr
	end     atomic.Int64 // stamped after the writes, before the body returns
	state   atomic.Int32 // 1 running, 2 probe saw pbegin and waits for ctx, 3 ended
	ctxErr  atomic.Int32 // at the end: 0 nil, 1 Canceled, 2 DeadlineExceeded
	noticed atomic.Bool  // probe: saw a prioritized begin after its own start
	relby   atomic.Bool  // probe: released by the harness at quiescence, not by ctx
	kind    atomic.Int32
	// ctx was already Canceled when the body began (a cancelled attempt whose goroutine got
	// scheduled late). The body of the LAST attempt of an invocation never has this set.
	lateStart atomic.Bool
}

type invocation struct {
	sc      *scenario
	id      int
	timeout time.Duration
	scripts []execScript
	gap     time.Duration // pause after this invocation

	nexec    atomic.Int32 // slot allocator: touched once, at the very beginning of each body
	overflow atomic.Int32
	slots    []slot // maxExec in the mixed family, 4 in the lastdone family (allocation is costly under tsan)
	pre      time.Duration // famLastDone: precise wait between the round barrier and the call

	// written by the invoker goroutine (the task.start / task.cancel handlers run on that very
	// goroutine and find the invocation through its goroutine id); read after the join
	startTs   []int64 // one stamp per start decision of this invocation
	cancelTs  []int64 // one stamp per task.cancel of this invocation (j-th cancel ends the j-th attempt)
	call, ret int64
	gotN      int64
	gotErr    error
	called    atomic.Bool
	returned  atomic.Bool
}

type burst struct {
	Before time.Duration
	N      int
	Hold   time.Duration
	Spin   time.Duration // famLastDone: precise wait between opening the round barrier and the Done calls
}

type prioClient struct {
	bursts []burst
	// goroutine-local log, read after the join
	after []int64 // stamp taken after DoPrioritizedTask returned
	doneT []int64 // stamp taken BEFORE calling DonePrioritizedTask
}

type invokerScript struct {
	delay time.Duration
	invs  []*invocation
	cur   *invocation // goroutine-local: the invocation this invoker is inside
}

const (
	famMixed    = 0 // the general family (genScenario)
	famLastDone = 1 // the last prioritized task ends while many invokers arrive (genLastDone)
	famBegin    = 2 // prioritized tasks begin back to back while many bodies (re)start (genBegin)
)

type scenario struct {
	family   int
	// famLastDone: the scenario is a sequence of rounds; round r is opened by the prioritized
	// client (barrier[r]) after its begins and after every invocation of round r-1 has returned
	// (roundWG[r-1]), so a later round can never rescue an invoker that got stuck in an earlier one.
	barrier []chan struct{}
	roundWG []sync.WaitGroup

	// Boundary knowledge of the harness: number of prioritized tasks whose DoPrioritizedTask has
	// RETURNED and whose DonePrioritizedTask has not been CALLED yet. Bumped by the prioritized
	// clients only; bodies only load it (edges into the body, never out of it).
	active atomic.Int64
	// famBegin: bodies that are owed a cancellation register here and the prioritized clients
	// begin no further task while one exists (nothing but the begin that already happened may be
	// the reason for a cancellation). Plain-build stage only: a lock on the body's path.
	gate        *sync.Cond
	suspects    int
	clientsLeft atomic.Int32
	idx      int
	conc     int
	silence  time.Duration
	invokers []*invokerScript
	clients  []*prioClient
	desc     string

	mgr       *task.BackgroundTaskManager
	mon       *mgrMon
	release   chan struct{} // closed only when the harness has decided the scenario is stuck
	doneCalls atomic.Int64  // DonePrioritizedTask calls issued
	drained   atomic.Bool
}

func main() {
	vf.Main("C13", "exploration",
		"each case is one scenario drawn from the seed: one BackgroundTaskManager (concurrency 1-4, silence 0-30ms), 1-16 invokers x 1-2 invocations "+
			"(readAt-style closure writing named results and a buffer, like layer.backgroundFetch), 0-8 prioritized clients issuing begin/end bursts, "+
			"per-execution body scripts immediate/late/at-end/probe; non-trivial = at least one body was cancelled by a prioritized begin and its invocation "+
			"was executed again (>=2 executions of one invocation) and every invocation completed; distinct by the scenario script. "+
			"Second family (lastdone): silence 0-1ms, one prioritized burst whose Done lands while 8-32 invokers enter InvokeBackgroundTask within microseconds, nothing later; "+
			"non-trivial = invocations were entered on both sides of the announcement of the last decrement. "+
			"Third family (beginrace): 16-64 invokers restart probe bodies while 30-60 prioritized tasks run back to back; non-trivial = a body running while a task was in progress (harness boundary events) was judged. "+
			"Stage callers: fs.NewFilesystem Mount/Check/Unmount over FUSE, layer.Resolver, store.LayerManager, succeeding and failing; non-trivial = an operation that went through a prioritized section was judged for begin/end balance. Every family/stage must reach its own floor",
		635, 13805, body)
}

// floors of the two families (quick, thorough)
func floors(r *vf.Run) (int, int, int) { return r.N(200, 5000), r.N(400, 8000), r.N(30, 800) }

func body(r *vf.Run) {
	verifhook.SetHandler(hookHandler)
	defer verifhook.SetHandler(nil)
	if pf := os.Getenv("VERIF_C13_PROF"); pf != "" && r.Child == "" { // debugging aid
		f, _ := os.Create(pf)
		pprof.StartCPUProfile(f)
		defer pprof.StopCPUProfile()
	}
	if r.Child == "plain" {
		plainStage(r)
		return
	}
	if r.Child == "callers" {
		callersStage(r)
		return
	}
	f1, f2, f3 := floors(r)
	f4 := 5
	// Stage "callers" (real callers of the manager, balance invariant) mostly waits for the
	// callers' 5 s silence periods: it runs next to the mixed family.
	only0 := os.Getenv("VERIF_C13_FAMILY")
	n4 := -1
	var cwg sync.WaitGroup
	if only0 == "" || only0 == "callers" {
		cwg.Add(1)
		go func() {
			defer cwg.Done()
			cf := filepath.Join(r.Scratch, "callers.count")
			ex := r.RunChild(vf.ChildSpec{Stage: "callers", Race: false, Timeout: time.Duration(r.N(8, 30)) * time.Minute, Env: []string{"C13_COUNT_FILE=" + cf}})
			if b, err := os.ReadFile(cf); err == nil && ex.Partial {
				fmt.Sscanf(string(b), "%d", &n4)
			} else {
				r.Inconclusive("callers child stage did not deliver a result (exit " + fmt.Sprint(ex.ExitCode) + " " + ex.Signal + ")")
				r.Logf("callers child failed: %s", ex.Tail)
			}
		}()
	}
	n := r.N(1200, 30000)
	group := r.N(6, 8)
	stuck := false
	// debugging aid only (measuring one family's detection power): VERIF_C13_FAMILY=lastdone|mixed
	only := os.Getenv("VERIF_C13_FAMILY")
	if only == "lastdone" || only == "beginrace" || only == "callers" {
		n = 0
	}
	for base := 0; base < n; base += group {
		var scs []*scenario
		for i := base; i < base+group && i < n; i++ {
			scs = append(scs, genScenario(r.RNG(uint64(i)), i))
		}
		if !runGroup(r, scs) {
			stuck = true
			break // a stuck group leaves goroutines behind: later dumps would be polluted
		}
	}
	// Families 2 (lastdone) and 3 (beginrace) run as a child stage in the PLAIN build: they look
	// for a lost wake-up / a missed cancellation, not for a race, and under tsan every goroutine
	// start costs ~100us (history_size=5), which would allow only a few thousand trials per
	// minute instead of tens of thousands.
	n2, n3 := -1, -1
	if !stuck && only != "mixed" && only != "callers" {
		cf := filepath.Join(r.Scratch, "plain.count")
		ex := r.RunChild(vf.ChildSpec{Stage: "plain", Race: false, Timeout: time.Duration(r.N(8, 40)) * time.Minute, Env: []string{"C13_COUNT_FILE=" + cf}})
		if b, err := os.ReadFile(cf); err == nil && ex.Partial {
			fmt.Sscanf(string(b), "%d %d", &n2, &n3)
		} else {
			r.Inconclusive("plain child stage did not deliver a result (exit " + fmt.Sprint(ex.ExitCode) + " " + ex.Signal + ")")
			r.Logf("plain child failed: %s", ex.Tail)
		}
	}
	// Each family has its own floor but vf knows only one number (f1+f2+f3). The child hands over
	// at most f2 resp. f3 of its non-trivial cases, the parent hands over its own only if ALL
	// families reached their floor: so the sum reaches the vf floor iff all did (real numbers:
	// see the keys below).
	cwg.Wait()
	r.Set("nontrivial_callers_stage", n4)
	r.Set("nontrivial_mixed_family", len(ntMixed))
	r.Set("nontrivial_lastdone_family", n2)
	r.Set("nontrivial_beginrace_family", n3)
	r.Set("family_floors", map[string]int{"mixed": f1, "lastdone": f2, "beginrace": f3, "callers": f4})
	if only != "" {
		r.Inconclusive("VERIF_C13_FAMILY is set: not every family was run")
	} else if len(ntMixed) >= f1 && n2 >= f2 && n3 >= f3 && n4 >= f4 {
		for _, d := range ntMixed {
			r.NonTrivial(d)
		}
	} else if !stuck && r.Violations() == 0 {
		r.Inconclusive(fmt.Sprintf("a scenario family stayed below its floor (mixed %d/%d, lastdone %d/%d, beginrace %d/%d, callers %d/%d)", len(ntMixed), f1, n2, f2, n3, f3, n4, f4))
	}
	r.AccountOwnRaces([]string{"task."}, nil)
	r.Assume("CLOCK_MONOTONIC (time.Since) is consistent across CPUs: stamps taken inside an interval on different goroutines order real events")
	r.Assume("time.Sleep(d) pauses for at least d (Go documentation); the silence comparison allows 20us on top")
	r.Assume("runtime.Stack(all) is an atomic snapshot of goroutine states (stop-the-world); goroutines blocked on chan/select/cond/semaphore without a runnable, sleeping or syscall goroutine of the workload cannot be woken except by a context timer of 1h")
	r.Assume("hook points of task/task.go are where MANIFEST.hooks says: pbegin/start inside prioritizedTaskStartNotifyMu, pend before the atomic decrement")
}

// plainStage (child, plain build).
//
// lastdone: thousands of tiny rounds around ONE instant — the decrement+broadcast of the last
// prioritized task of a round while 8-32 invokers enter InvokeBackgroundTask, nothing afterwards
// that could rescue an invoker whose wake-up got lost (completion:invocation-pending-at-quiescence).
// beginrace: prioritized tasks begin back to back while 16-64 invokers (re)start bodies; a body
// running while a task is in progress must get cancelled (cancel:never-delivered-to-running-body).
// Both are judged by the state-based quiescence decision; all other clauses are evaluated as well.
func plainStage(r *vf.Run) {
	_, f2, f3 := floors(r)
	only := os.Getenv("VERIF_C13_FAMILY")
	stuck := false
	n2 := r.N(1500, 30000)
	if only == "beginrace" {
		n2 = 0
	}
	for base := 0; base < n2 && !stuck; base += 4 {
		var scs []*scenario
		for i := base; i < base+4 && i < n2; i++ {
			scs = append(scs, genLastDone(r.RNG(7, uint64(i)), lastDoneBase+i))
		}
		stuck = !runGroup(r, scs)
	}
	n3 := r.N(100, 3000)
	if only == "lastdone" {
		n3 = 0
	}
	for base := 0; base < n3 && !stuck; base += 2 {
		var scs []*scenario
		for i := base; i < base+2 && i < n3; i++ {
			scs = append(scs, genBegin(r.RNG(8, uint64(i)), beginBase+i))
		}
		stuck = !runGroup(r, scs)
	}
	for i, d := range ntLastDone {
		if i >= f2 {
			break // see body(): at most f2 are handed over
		}
		r.NonTrivial(d)
	}
	for i, d := range ntBegin {
		if i >= f3 {
			break
		}
		r.NonTrivial(d)
	}
	if cf := os.Getenv("C13_COUNT_FILE"); cf != "" {
		_ = os.WriteFile(cf, []byte(fmt.Sprintf("%d %d", len(ntLastDone), len(ntBegin))), 0o644)
	}
}

const lastDoneBase = 10000000 // case numbers of the second family
const beginBase = 20000000    // case numbers of the third family

// genBegin: 16-64 invokers invoke short probe bodies all the time (concurrency = number of
// invokers, silence 0-50us) while one prioritized client runs 30-60 tasks of 100-400us back to
// back (gap 0-300us). A body that finds itself running while a task is in progress (by the
// harness's boundary events) waits for its ctx to be cancelled; while such a body exists no
// further task is begun. Decided at quiescence on state (cancel:never-delivered-to-running-body).
func genBegin(rng *prng.R, idx int) *scenario {
	sc := &scenario{family: famBegin, idx: idx, release: make(chan struct{}), gate: sync.NewCond(&sync.Mutex{})}
	w := rng.Pick(16, 32, 64)
	sc.conc = rng.Pick(w, w, w/2)
	sc.silence = time.Duration(rng.Pick(0, 0, 0, 20, 50)) * time.Microsecond
	ntask := rng.Range(30, 60)
	pc := &prioClient{}
	for t := 0; t < ntask; t++ {
		pc.bursts = append(pc.bursts, burst{Before: time.Duration(rng.Range(0, 300)) * time.Microsecond, N: 1, Hold: time.Duration(rng.Range(100, 400)) * time.Microsecond})
	}
	sc.clients = []*prioClient{pc}
	linger := time.Duration(rng.Range(50, 300)) * time.Microsecond
	id := 0
	for i := 0; i < w; i++ {
		is := &invokerScript{}
		for j := 0; j < 80; j++ {
			is.invs = append(is.invs, &invocation{sc: sc, id: id, timeout: longTO, scripts: []execScript{{Kind: kProbe, Dur: linger}}, slots: make([]slot, 6)})
			id++
		}
		sc.invokers = append(sc.invokers, is)
	}
	sc.desc = fmt.Sprintf("beginrace invokers=%d conc=%d silence=%s tasks=%d linger=%s first-gaps=%s,%s,%s holds=%s,%s,%s", w, sc.conc, sc.silence, ntask, linger,
		pc.bursts[0].Before, pc.bursts[1].Before, pc.bursts[2].Before, pc.bursts[0].Hold, pc.bursts[1].Hold, pc.bursts[2].Hold)
	return sc
}

// non-trivial scenario descriptors per family (appended by analyze on the driver goroutine only)
var ntMixed, ntLastDone, ntBegin []string

// genLastDone: silence 0-1ms; 4-8 rounds, each: one prioritized burst (1-3 nested begins) whose
// Done calls land while 8-32 invokers call InvokeBackgroundTask within a few (hundred)
// microseconds around the moment of the last decrement; trivial bodies; nothing else. The next
// round starts only after every invocation of the round has returned.
func genLastDone(rng *prng.R, idx int) *scenario {
	sc := &scenario{family: famLastDone, idx: idx, release: make(chan struct{})}
	sc.conc = rng.Range(1, 4)
	sc.silence = time.Duration(rng.Pick(0, 0, 0, 0, 50, 100, 300, 1000)) * time.Microsecond
	rounds := rng.Range(4, 8)
	ninv := rng.Range(8, 32)
	sc.barrier = make([]chan struct{}, rounds)
	sc.roundWG = make([]sync.WaitGroup, rounds)
	pc := &prioClient{}
	sc.clients = []*prioClient{pc}
	for i := 0; i < ninv; i++ {
		sc.invokers = append(sc.invokers, &invokerScript{})
	}
	var sb strings.Builder
	fmt.Fprintf(&sb, "lastdone conc=%d silence=%s invokers=%d", sc.conc, sc.silence, ninv)
	for r := 0; r < rounds; r++ {
		sc.barrier[r] = make(chan struct{})
		sc.roundWG[r].Add(ninv)
		b := burst{N: rng.Pick(1, 1, 1, 2, 3), Spin: time.Duration(rng.Range(0, 200)) * time.Microsecond}
		pc.bursts = append(pc.bursts, b)
		// the last decrement happens about Spin+silence (+ goroutine start) after the barrier;
		// arrivals uniformly in [centre-1.5*spread, centre+0.5*spread]: most invokers test the
		// counter shortly BEFORE the decrement, a few after
		centre := b.Spin + sc.silence
		su := rng.Pick(0, 20, 50, 100, 250)
		fmt.Fprintf(&sb, " | round%d x%d done+%s arrivals~%s±%dus", r, b.N, b.Spin, centre, su)
		for i, is := range sc.invokers {
			d := centre + time.Duration(rng.Range(0, 2*su)-su*3/2)*time.Microsecond
			if d < 0 || su == 0 {
				d = 0 // su==0: everybody calls right at the barrier
			}
			inv := &invocation{sc: sc, id: r*100 + i, timeout: longTO, scripts: []execScript{{Kind: kImmediate}}, slots: make([]slot, 4), pre: d}
			is.invs = append(is.invs, inv)
		}
	}
	sc.desc = sb.String()
	return sc
}

// spinFor waits for d with microsecond precision: the coarse part with time.Sleep, the last
// 60us (time.Sleep alone is far too coarse for a window of microseconds) by busy-waiting.
func spinFor(d time.Duration) {
	end := now() + int64(d)
	if d > 120*time.Microsecond {
		time.Sleep(d - 60*time.Microsecond)
	}
	for now() < end {
	}
}

func ms(rng *prng.R, lo, hi int) time.Duration {
	// lo..hi in units of 100us
	return time.Duration(rng.Range(lo, hi)) * 100 * time.Microsecond
}

func genScenario(rng *prng.R, idx int) *scenario {
	sc := &scenario{idx: idx, release: make(chan struct{})}
	sc.conc = rng.Range(1, 4)
	sc.silence = time.Duration(rng.Pick(0, 0, 1, 2, 3, 5, 10, 20, 30)) * time.Millisecond
	ninv := rng.Pick(1, 2, 2, 3, 4, 4, 6, 8, 8, 12, 16)
	ncl := rng.Pick(0, 1, 1, 2, 2, 3, 4, 6, 8)
	id := 0
	for i := 0; i < ninv; i++ {
		is := &invokerScript{delay: ms(rng, 0, 40)}
		for j, k := 0, rng.Range(1, 2); j < k; j++ {
			inv := &invocation{sc: sc, id: id, timeout: longTO, gap: ms(rng, 0, 10), slots: make([]slot, maxExec)}
			id++
			probeInv := false
			for e, l := 0, rng.Range(1, 4); e < l; e++ {
				es := execScript{Kind: bodyKind(rng.Intn(4)), Dur: ms(rng, 0, 40), Lag: ms(rng, 0, 30)}
				if es.Kind == kProbe {
					es.Dur = ms(rng, 10, 80) // how long it looks for a prioritized begin
					probeInv = true
				}
				inv.scripts = append(inv.scripts, es)
			}
			// the last script is used for every further execution: keep it short so the
			// invocation is not cancelled for ever while prioritized bursts go on
			last := &inv.scripts[len(inv.scripts)-1]
			if last.Dur > 2*time.Millisecond && last.Kind != kProbe {
				last.Dur = ms(rng, 0, 20)
			}
			if !probeInv && rng.Chance(1, 8) {
				inv.timeout = ms(rng, 10, 60) // exercise the WithTimeout path (1-6 ms)
			}
			is.invs = append(is.invs, inv)
		}
		sc.invokers = append(sc.invokers, is)
	}
	for c := 0; c < ncl; c++ {
		pc := &prioClient{}
		for b, k := 0, rng.Range(1, 4); b < k; b++ {
			pc.bursts = append(pc.bursts, burst{Before: ms(rng, 0, 60), N: rng.Pick(1, 1, 2, 3), Hold: ms(rng, 0, 30)})
		}
		sc.clients = append(sc.clients, pc)
	}
	sc.desc = sc.describe()
	return sc
}

func (sc *scenario) describe() string {
	var sb strings.Builder
	fmt.Fprintf(&sb, "conc=%d silence=%s", sc.conc, sc.silence)
	for i, is := range sc.invokers {
		fmt.Fprintf(&sb, " | inv%d +%s:", i, is.delay)
		for _, inv := range is.invs {
			sb.WriteString(" [")
			if inv.timeout != longTO {
				fmt.Fprintf(&sb, "to=%s ", inv.timeout)
			}
			for e, es := range inv.scripts {
				if e > 0 {
					sb.WriteString(",")
				}
				fmt.Fprintf(&sb, "%s/%s/%s", es.Kind, es.Dur, es.Lag)
			}
			fmt.Fprintf(&sb, "]+%s", inv.gap)
		}
	}
	for i, pc := range sc.clients {
		fmt.Fprintf(&sb, " | prio%d:", i)
		for _, b := range pc.bursts {
			fmt.Fprintf(&sb, " +%s x%d hold %s", b.Before, b.N, b.Hold)
		}
	}
	return sb.String()
}

func (inv *invocation) tag(k int) int64 { return int64(inv.id)*1000 + int64(k) + 1 }

func (inv *invocation) script(k int) execScript {
	if k >= len(inv.scripts) {
		k = len(inv.scripts) - 1
	}
	return inv.scripts[k]
}

// readAt has the shape of the closure in layer.backgroundFetch: the body handed to
// InvokeBackgroundTask writes the caller's buffer p while it works and the named results
// retN/retErr when it is done; the caller reads them right after the invocation returns.
//
// Rule 4: everything the body does besides those plain writes is either a store to its
// OWN slot, an atomic *load* of manager-wide monitor state (edges into the body only), or
// the single nexec.Add at its very beginning (nothing of this execution precedes it, so
// it cannot order this execution's writes before anybody). The body never takes a monitor
// lock and never touches a shared atomic after its writes; the task.bodydone hook, which
// runs on the body's goroutine after the writes, is ignored by the handler for that reason.
func (inv *invocation) readAt(p []int64) (retN int64, retErr error) {
	sc := inv.sc
	sc.mgr.InvokeBackgroundTask(func(ctx context.Context) {
		k := int(inv.nexec.Add(1)) - 1
		if k >= len(inv.slots) {
			inv.overflow.Add(1)
			return
		}
		sl := &inv.slots[k]
		es := inv.script(k)
		sl.kind.Store(int32(es.Kind))
		sl.start.Store(now()) // stamp first, look at ctx afterwards (see finalEnd in monitor.go)
		if ctx.Err() == context.Canceled {
			sl.lateStart.Store(true)
		}
		sl.state.Store(1)
		tag := inv.tag(k)
		p0 := sc.mon.pbeginA.Load()
		deadline := now() + int64(es.Dur)
		lagged := false
		i := 0
	loop:
		for {
			p[i%len(p)] = tag // the caller's buffer, as blob.ReadAt(p, ...) fills it
			i++
			t := now()
			switch es.Kind {
			case kProbe:
				if sc.mon.pbeginA.Load() != p0 || sc.active.Load() > 0 {
					// a prioritized task began after this body started (task.pbegin seen), or one is
					// in progress right now by the harness's own boundary events (Do returned, Done
					// not called): this body is running while a prioritized task is in progress, so
					// its ctx must get cancelled — whenever its start was decided.
					sl.noticed.Store(true)
					if sc.gate != nil {
						sc.gate.L.Lock()
						sc.suspects++
						sc.gate.L.Unlock()
					}
					sl.state.Store(2)
					select {
					case <-ctx.Done():
					case <-sc.release:
						sl.relby.Store(true)
					}
					sl.state.Store(1)
					if sc.gate != nil {
						sc.gate.L.Lock()
						sc.suspects--
						sc.gate.Broadcast()
						sc.gate.L.Unlock()
					}
					if es.Lag > 0 {
						time.Sleep(es.Lag)
					}
					break loop
				}
			case kImmediate:
				if ctx.Err() != nil {
					break loop
				}
			case kLate:
				if !lagged && ctx.Err() != nil {
					lagged = true
					deadline = t + int64(es.Lag) // keeps working for Lag after it saw the cancellation
				}
			}
			if t >= deadline {
				break
			}
			d := time.Duration(deadline - t)
			if d > bodyStep {
				d = bodyStep
			}
			// Always time.Sleep, never a timer select: a goroutine in state "sleep" is visibly not
			// parked for the quiescence snapshot, whereas "select" on a timer would look parked.
			time.Sleep(d)
		}
		err := ctx.Err()
		switch err {
		case nil:
		case context.Canceled:
			sl.ctxErr.Store(1)
		default:
			sl.ctxErr.Store(2)
		}
		sl.wstamp.Store(now())
		retN, retErr = tag, err // plain writes to the caller's result variables
		sl.end.Store(now())
		sl.state.Store(3)
	}, inv.timeout)
	return
}

func (sc *scenario) invoker(is *invokerScript) {
	id := goid()
	invokers.Store(id, is)
	defer invokers.Delete(id)
	time.Sleep(is.delay)
	for r, inv := range is.invs {
		if sc.family == famBegin && sc.clientsLeft.Load() == 0 {
			break // the prioritized clients are through: further invocations would observe nothing
		}
		if sc.barrier != nil {
			<-sc.barrier[r]
			spinFor(inv.pre)
		}
		p := make([]int64, 4)
		is.cur = inv
		inv.call = now()
		inv.called.Store(true)
		n, err := inv.readAt(p)
		inv.ret = now()
		var sum int64
		for _, v := range p { // the caller consumes the buffer, as io.SectionReader's user does
			sum += v
		}
		inv.gotN, inv.gotErr = n+0*sum, err
		inv.returned.Store(true)
		if sc.barrier != nil {
			sc.roundWG[r].Done()
		}
		time.Sleep(inv.gap)
	}
}

func (sc *scenario) prioClient(pc *prioClient) {
	defer sc.clientsLeft.Add(-1)
	for r, b := range pc.bursts {
		if sc.barrier != nil && r > 0 {
			sc.roundWG[r-1].Wait() // every invocation of the previous round has returned
		}
		time.Sleep(b.Before)
		if sc.gate != nil {
			sc.gate.L.Lock()
			for sc.suspects > 0 {
				sc.gate.Wait() // parked: a body is owed a cancellation for a begin that already happened
			}
			sc.gate.L.Unlock()
		}
		for i := 0; i < b.N; i++ {
			sc.mgr.DoPrioritizedTask()
			pc.after = append(pc.after, now())
			sc.active.Add(1) // boundary: from here on this task is in progress
		}
		if sc.barrier != nil {
			// the client itself (a workload goroutine for the quiescence snapshot) opens the
			// barrier the invokers are parked on, then ends its tasks a moment later
			close(sc.barrier[r])
			spinFor(b.Spin)
		}
		time.Sleep(b.Hold)
		for i := 0; i < b.N; i++ {
			sc.active.Add(-1)                  // boundary: before the Done call
			pc.doneT = append(pc.doneT, now()) // BEFORE the call: load can only lengthen the gap to a start
			sc.doneCalls.Add(1)
			sc.mgr.DonePrioritizedTask()
		}
	}
}

// run executes the scenario and returns when everything it started has ended
// (or never, if the code under test is stuck: runGroup decides that on state).
func (sc *scenario) run() {
	sc.mgr = task.NewBackgroundTaskManager(int64(sc.conc), sc.silence)
	sc.mon = &mgrMon{sc: sc}
	sc.clientsLeft.Store(int32(len(sc.clients)))
	mons.Store(sc.mgr, sc.mon)
	var wg sync.WaitGroup
	for _, is := range sc.invokers {
		wg.Add(1)
		go func(is *invokerScript) { defer wg.Done(); sc.invoker(is) }(is)
	}
	for _, pc := range sc.clients {
		wg.Add(1)
		go func(pc *prioClient) { defer wg.Done(); sc.prioClient(pc) }(pc)
	}
	wg.Wait()
	sc.drain()
	sc.drained.Store(true)
}

// drain waits until the delayed decrements have all been announced and every body that
// started has ended (on the unchanged tree bodies outlive their invocation).
func (sc *scenario) drain() {
	for {
		if sc.mon.pendEmitted.Load() == sc.doneCalls.Load() && sc.bodiesRunning() == 0 {
			return
		}
		time.Sleep(300 * time.Microsecond)
	}
}

func (sc *scenario) allInvocations() []*invocation {
	var res []*invocation
	for _, is := range sc.invokers {
		res = append(res, is.invs...)
	}
	return res
}

func (inv *invocation) nslots() int {
	n := int(inv.nexec.Load())
	if n > len(inv.slots) {
		n = len(inv.slots)
	}
	return n
}

func (sc *scenario) bodiesRunning() int {
	n := 0
	for _, inv := range sc.allInvocations() {
		for k := 0; k < inv.nslots(); k++ {
			if inv.slots[k].state.Load() != 3 {
				n++
			}
		}
	}
	return n
}
