// C13 — background tasks yield to prioritized work, stay bounded, never self-overlap.
//
// Real code under test: task.BackgroundTaskManager (task/task.go), driven exactly the way
// its only caller layer.backgroundFetch drives it: a readAt-like function with named
// results (retN, retErr) and a caller buffer p, all three written by the body closure
// handed to InvokeBackgroundTask and read by the caller right after it returns.
//
// Each case is one generated scenario: one manager (concurrency 1–4, silence 0–30 ms),
// 1–16 invokers issuing 1–2 invocations each, 0–8 prioritized clients issuing begin/end
// bursts, bodies with scripted duration that look at ctx immediately / late / only at the
// end, and probe bodies that, once they notice a prioritized begin, wait for ctx.Done().
// Scenarios run in groups of several at a time; a group is joined before the next starts.
//
// Monitors (files: monitor.go = hook handler + decision, quiesce.go = state-based
// quiescence): see NOTES.md. Which monitor state sits where with respect to AUTHORING
// rule 4 is explained at the top of monitor.go.
package main

import (
	"context"
	"fmt"
	"strings"
	"sync"
	"sync/atomic"
	"time"

	"github.com/containerd/stargz-snapshotter/task"
	"github.com/containerd/stargz-snapshotter/util/verifhook"

	"verifharness/internal/prng"
	"verifharness/internal/vf"
)

var t0 = time.Now()

// now is the monotonic clock in ns since process start (+1 so that 0 means "unset").
func now() int64 { return int64(time.Since(t0)) + 1 }

const (
	maxExec  = 48                     // execution slots per invocation
	bodyStep = 200 * time.Microsecond // granularity of body work
	longTO   = time.Hour              // "no timeout" for InvokeBackgroundTask
)

type bodyKind int

const (
	kImmediate bodyKind = iota // returns at the first step (<=200us) at which ctx is done
	kLate                      // notices ctx, keeps working for Lag, then returns
	kAtEnd                     // ignores ctx for its whole duration, looks at it at the end
	kProbe                     // once it sees a prioritized begin it waits for ctx.Done(), then lags
)

func (k bodyKind) String() string { return [...]string{"imm", "late", "atend", "probe"}[k] }

type execScript struct {
	Kind bodyKind
	Dur  time.Duration
	Lag  time.Duration
}

// slot is the record of ONE execution of a body. It is written only by that body's
// goroutine (atomics on the slot itself = "per-object atomics"), read by the analysis.
type slot struct {
	start   atomic.Int64 // stamped after the body began
	wstamp  atomic.Int64 // stamped just BEFORE the plain writes to retN/retErr
	end     atomic.Int64 // stamped after the writes, before the body returns
	state   atomic.Int32 // 1 running, 2 probe saw pbegin and waits for ctx, 3 ended
	ctxErr  atomic.Int32 // at the end: 0 nil, 1 Canceled, 2 DeadlineExceeded
	noticed atomic.Bool  // probe: saw a prioritized begin after its own start
	relby   atomic.Bool  // probe: released by the harness at quiescence, not by ctx
	kind    atomic.Int32
	// ctx was already Canceled when the body began (a cancelled attempt whose goroutine got
	// scheduled late). The body of the LAST attempt of an invocation never has this set.
	lateStart atomic.Bool
}

type invocation struct {
	sc      *scenario
	id      int
	timeout time.Duration
	scripts []execScript
	gap     time.Duration // pause after this invocation

	nexec    atomic.Int32 // slot allocator: touched once, at the very beginning of each body
	overflow atomic.Int32
	slots    [maxExec]slot

	// written by the invoker goroutine (the task.start / task.cancel handlers run on that very
	// goroutine and find the invocation through its goroutine id); read after the join
	startTs   []int64 // one stamp per start decision of this invocation
	cancelTs  []int64 // one stamp per task.cancel of this invocation (j-th cancel ends the j-th attempt)
	call, ret int64
	gotN      int64
	gotErr    error
	called    atomic.Bool
	returned  atomic.Bool
}

type burst struct {
	Before time.Duration
	N      int
	Hold   time.Duration
}

type prioClient struct {
	bursts []burst
	// goroutine-local log, read after the join
	after []int64 // stamp taken after DoPrioritizedTask returned
	doneT []int64 // stamp taken BEFORE calling DonePrioritizedTask
}

type invokerScript struct {
	delay time.Duration
	invs  []*invocation
	cur   *invocation // goroutine-local: the invocation this invoker is inside
}

type scenario struct {
	idx      int
	conc     int
	silence  time.Duration
	invokers []*invokerScript
	clients  []*prioClient
	desc     string

	mgr       *task.BackgroundTaskManager
	mon       *mgrMon
	release   chan struct{} // closed only when the harness has decided the scenario is stuck
	doneCalls atomic.Int64  // DonePrioritizedTask calls issued
	drained   atomic.Bool
}

func main() {
	vf.Main("C13", "exploration",
		"each case is one scenario drawn from the seed: one BackgroundTaskManager (concurrency 1-4, silence 0-30ms), 1-16 invokers x 1-2 invocations "+
			"(readAt-style closure writing named results and a buffer, like layer.backgroundFetch), 0-8 prioritized clients issuing begin/end bursts, "+
			"per-execution body scripts immediate/late/at-end/probe; non-trivial = at least one body was cancelled by a prioritized begin and its invocation "+
			"was executed again (>=2 executions of one invocation) and every invocation completed; distinct by the scenario script",
		200, 6000, body)
}

func body(r *vf.Run) {
	verifhook.SetHandler(hookHandler)
	defer verifhook.SetHandler(nil)
	n := r.N(1200, 40000)
	group := r.N(6, 8)
	for base := 0; base < n; base += group {
		var scs []*scenario
		for i := base; i < base+group && i < n; i++ {
			scs = append(scs, genScenario(r.RNG(uint64(i)), i))
		}
		if !runGroup(r, scs) {
			break // a stuck group leaves goroutines behind: later dumps would be polluted
		}
	}
	r.AccountOwnRaces([]string{"task."}, nil)
	r.Assume("CLOCK_MONOTONIC (time.Since) is consistent across CPUs: stamps taken inside an interval on different goroutines order real events")
	r.Assume("time.Sleep(d) pauses for at least d (Go documentation); the silence comparison allows 20us on top")
	r.Assume("runtime.Stack(all) is an atomic snapshot of goroutine states (stop-the-world); goroutines blocked on chan/select/cond/semaphore without a runnable, sleeping or syscall goroutine of the workload cannot be woken except by a context timer of 1h")
	r.Assume("hook points of task/task.go are where MANIFEST.hooks says: pbegin/start inside prioritizedTaskStartNotifyMu, pend before the atomic decrement")
}

func ms(rng *prng.R, lo, hi int) time.Duration {
	// lo..hi in units of 100us
	return time.Duration(rng.Range(lo, hi)) * 100 * time.Microsecond
}

func genScenario(rng *prng.R, idx int) *scenario {
	sc := &scenario{idx: idx, release: make(chan struct{})}
	sc.conc = rng.Range(1, 4)
	sc.silence = time.Duration(rng.Pick(0, 0, 1, 2, 3, 5, 10, 20, 30)) * time.Millisecond
	ninv := rng.Pick(1, 2, 2, 3, 4, 4, 6, 8, 8, 12, 16)
	ncl := rng.Pick(0, 1, 1, 2, 2, 3, 4, 6, 8)
	id := 0
	for i := 0; i < ninv; i++ {
		is := &invokerScript{delay: ms(rng, 0, 40)}
		for j, k := 0, rng.Range(1, 2); j < k; j++ {
			inv := &invocation{sc: sc, id: id, timeout: longTO, gap: ms(rng, 0, 10)}
			id++
			probeInv := false
			for e, l := 0, rng.Range(1, 4); e < l; e++ {
				es := execScript{Kind: bodyKind(rng.Intn(4)), Dur: ms(rng, 0, 40), Lag: ms(rng, 0, 30)}
				if es.Kind == kProbe {
					es.Dur = ms(rng, 10, 80) // how long it looks for a prioritized begin
					probeInv = true
				}
				inv.scripts = append(inv.scripts, es)
			}
			// the last script is used for every further execution: keep it short so the
			// invocation is not cancelled for ever while prioritized bursts go on
			last := &inv.scripts[len(inv.scripts)-1]
			if last.Dur > 2*time.Millisecond && last.Kind != kProbe {
				last.Dur = ms(rng, 0, 20)
			}
			if !probeInv && rng.Chance(1, 8) {
				inv.timeout = ms(rng, 10, 60) // exercise the WithTimeout path (1-6 ms)
			}
			is.invs = append(is.invs, inv)
		}
		sc.invokers = append(sc.invokers, is)
	}
	for c := 0; c < ncl; c++ {
		pc := &prioClient{}
		for b, k := 0, rng.Range(1, 4); b < k; b++ {
			pc.bursts = append(pc.bursts, burst{Before: ms(rng, 0, 60), N: rng.Pick(1, 1, 2, 3), Hold: ms(rng, 0, 30)})
		}
		sc.clients = append(sc.clients, pc)
	}
	sc.desc = sc.describe()
	return sc
}

func (sc *scenario) describe() string {
	var sb strings.Builder
	fmt.Fprintf(&sb, "conc=%d silence=%s", sc.conc, sc.silence)
	for i, is := range sc.invokers {
		fmt.Fprintf(&sb, " | inv%d +%s:", i, is.delay)
		for _, inv := range is.invs {
			sb.WriteString(" [")
			if inv.timeout != longTO {
				fmt.Fprintf(&sb, "to=%s ", inv.timeout)
			}
			for e, es := range inv.scripts {
				if e > 0 {
					sb.WriteString(",")
				}
				fmt.Fprintf(&sb, "%s/%s/%s", es.Kind, es.Dur, es.Lag)
			}
			fmt.Fprintf(&sb, "]+%s", inv.gap)
		}
	}
	for i, pc := range sc.clients {
		fmt.Fprintf(&sb, " | prio%d:", i)
		for _, b := range pc.bursts {
			fmt.Fprintf(&sb, " +%s x%d hold %s", b.Before, b.N, b.Hold)
		}
	}
	return sb.String()
}

func (inv *invocation) tag(k int) int64 { return int64(inv.id)*1000 + int64(k) + 1 }

func (inv *invocation) script(k int) execScript {
	if k >= len(inv.scripts) {
		k = len(inv.scripts) - 1
	}
	return inv.scripts[k]
}

// readAt has the shape of the closure in layer.backgroundFetch: the body handed to
// InvokeBackgroundTask writes the caller's buffer p while it works and the named results
// retN/retErr when it is done; the caller reads them right after the invocation returns.
//
// Rule 4: everything the body does besides those plain writes is either a store to its
// OWN slot, an atomic *load* of manager-wide monitor state (edges into the body only), or
// the single nexec.Add at its very beginning (nothing of this execution precedes it, so
// it cannot order this execution's writes before anybody). The body never takes a monitor
// lock and never touches a shared atomic after its writes; the task.bodydone hook, which
// runs on the body's goroutine after the writes, is ignored by the handler for that reason.
func (inv *invocation) readAt(p []int64) (retN int64, retErr error) {
	sc := inv.sc
	sc.mgr.InvokeBackgroundTask(func(ctx context.Context) {
		k := int(inv.nexec.Add(1)) - 1
		if k >= maxExec {
			inv.overflow.Add(1)
			return
		}
		sl := &inv.slots[k]
		es := inv.script(k)
		sl.kind.Store(int32(es.Kind))
		sl.start.Store(now()) // stamp first, look at ctx afterwards (see finalEnd in monitor.go)
		if ctx.Err() == context.Canceled {
			sl.lateStart.Store(true)
		}
		sl.state.Store(1)
		tag := inv.tag(k)
		p0 := sc.mon.pbeginA.Load()
		deadline := now() + int64(es.Dur)
		lagged := false
		i := 0
	loop:
		for {
			p[i%len(p)] = tag // the caller's buffer, as blob.ReadAt(p, ...) fills it
			i++
			t := now()
			switch es.Kind {
			case kProbe:
				if sc.mon.pbeginA.Load() != p0 {
					// a prioritized task began after this body started: its ctx must get cancelled
					sl.noticed.Store(true)
					sl.state.Store(2)
					select {
					case <-ctx.Done():
					case <-sc.release:
						sl.relby.Store(true)
					}
					sl.state.Store(1)
					if es.Lag > 0 {
						time.Sleep(es.Lag)
					}
					break loop
				}
			case kImmediate:
				if ctx.Err() != nil {
					break loop
				}
			case kLate:
				if !lagged && ctx.Err() != nil {
					lagged = true
					deadline = t + int64(es.Lag) // keeps working for Lag after it saw the cancellation
				}
			}
			if t >= deadline {
				break
			}
			d := time.Duration(deadline - t)
			if d > bodyStep {
				d = bodyStep
			}
			// Always time.Sleep, never a timer select: a goroutine in state "sleep" is visibly not
			// parked for the quiescence snapshot, whereas "select" on a timer would look parked.
			time.Sleep(d)
		}
		err := ctx.Err()
		switch err {
		case nil:
		case context.Canceled:
			sl.ctxErr.Store(1)
		default:
			sl.ctxErr.Store(2)
		}
		sl.wstamp.Store(now())
		retN, retErr = tag, err // plain writes to the caller's result variables
		sl.end.Store(now())
		sl.state.Store(3)
	}, inv.timeout)
	return
}

func (sc *scenario) invoker(is *invokerScript) {
	id := goid()
	invokers.Store(id, is)
	defer invokers.Delete(id)
	time.Sleep(is.delay)
	for _, inv := range is.invs {
		p := make([]int64, 4)
		is.cur = inv
		inv.call = now()
		inv.called.Store(true)
		n, err := inv.readAt(p)
		inv.ret = now()
		var sum int64
		for _, v := range p { // the caller consumes the buffer, as io.SectionReader's user does
			sum += v
		}
		inv.gotN, inv.gotErr = n+0*sum, err
		inv.returned.Store(true)
		time.Sleep(inv.gap)
	}
}

func (sc *scenario) prioClient(pc *prioClient) {
	for _, b := range pc.bursts {
		time.Sleep(b.Before)
		for i := 0; i < b.N; i++ {
			sc.mgr.DoPrioritizedTask()
			pc.after = append(pc.after, now())
		}
		time.Sleep(b.Hold)
		for i := 0; i < b.N; i++ {
			pc.doneT = append(pc.doneT, now()) // BEFORE the call: load can only lengthen the gap to a start
			sc.doneCalls.Add(1)
			sc.mgr.DonePrioritizedTask()
		}
	}
}

// run executes the scenario and returns when everything it started has ended
// (or never, if the code under test is stuck: runGroup decides that on state).
func (sc *scenario) run() {
	sc.mgr = task.NewBackgroundTaskManager(int64(sc.conc), sc.silence)
	sc.mon = &mgrMon{sc: sc}
	mons.Store(sc.mgr, sc.mon)
	var wg sync.WaitGroup
	for _, is := range sc.invokers {
		wg.Add(1)
		go func(is *invokerScript) { defer wg.Done(); sc.invoker(is) }(is)
	}
	for _, pc := range sc.clients {
		wg.Add(1)
		go func(pc *prioClient) { defer wg.Done(); sc.prioClient(pc) }(pc)
	}
	wg.Wait()
	sc.drain()
	sc.drained.Store(true)
}

// drain waits until the delayed decrements have all been announced and every body that
// started has ended (on the unchanged tree bodies outlive their invocation).
func (sc *scenario) drain() {
	for {
		if sc.mon.pendEmitted.Load() == sc.doneCalls.Load() && sc.bodiesRunning() == 0 {
			return
		}
		time.Sleep(300 * time.Microsecond)
	}
}

func (sc *scenario) allInvocations() []*invocation {
	var res []*invocation
	for _, is := range sc.invokers {
		res = append(res, is.invs...)
	}
	return res
}

func (inv *invocation) nslots() int {
	n := int(inv.nexec.Load())
	if n > maxExec {
		n = maxExec
	}
	return n
}

func (sc *scenario) bodiesRunning() int {
	n := 0
	for _, inv := range sc.allInvocations() {
		for k := 0; k < inv.nslots(); k++ {
			if inv.slots[k].state.Load() != 3 {
				n++
			}
		}
	}
	return n
}
