package main

// Hook handler and the decision procedure.
//
// Which monitor state may synchronise, and which must not (AUTHORING rule 4)
// --------------------------------------------------------------------------
// The race we are after is between the plain writes of a cancelled body (retN, retErr, p)
// and (a) the writes of the next execution of the same invocation, (b) the caller's reads
// after InvokeBackgroundTask returned. In the code there is no happens-before edge from a
// cancelled body to anybody (nobody waits for `done`). A monitor hides that race iff it
// creates a path  body-write -> release X ... acquire X -> later execution / caller.
// Therefore:
//
//   - Events that run on the BODY goroutine (body start/end, the write stamp, task.bodydone)
//     use nothing but stores to the execution's own slot; task.bodydone is ignored. No
//     monitor lock, no manager-wide or invocation-wide atomic after the writes.
//   - Events that run on the INVOKER or PRIORITIZED-CLIENT goroutines (task.pbegin,
//     task.start, task.cancel, task.pend on the delayed-decrement goroutine) may take the
//     per-manager monitor mutex / atomics: pbegin and start already sit inside the code's
//     own prioritizedTaskStartNotifyMu critical section, so the monitor mutex only mirrors
//     an order the code itself establishes; pend/cancel add edges between invokers and
//     prioritized clients, none of which starts at a body's write. A body goroutine never
//     releases any of these, so no path from a body write runs through them.
//   - The caller's reads after return and the stamps of call/return are goroutine-local.
//
// The trace is sound for clause 1 because pend is announced BEFORE the atomic decrement
// and is read (pendEmitted.Load) in the start handler AFTER the code's own load of
// prioritizedTasks, while the number of begins is exact (same critical section):
//   monitor count = #pbegin - #pendEmitted(at hook) <= #pbegin - #decrements(at the code's load) = real count.

import (
	"fmt"
	"runtime"
	"sort"
	"strings"
	"sync"
	"sync/atomic"
	"time"

	"verifharness/internal/vf"
)

var invokers sync.Map // goroutine id -> *invokerScript (each key is written and read by its own goroutine only)

// goid returns the id of the calling goroutine (ids are never reused by the runtime).
func goid() uint64 {
	var buf [40]byte
	n := runtime.Stack(buf[:], false)
	var id uint64
	for _, c := range buf[len("goroutine "):n] {
		if c < '0' || c > '9' {
			break
		}
		id = id*10 + uint64(c-'0')
	}
	return id
}

// curInvocation: task.start and task.cancel run on the goroutine that called
// InvokeBackgroundTask, i.e. on one of our invokers.
func curInvocation() *invocation {
	if v, ok := invokers.Load(goid()); ok {
		return v.(*invokerScript).cur
	}
	return nil
}

var mons sync.Map // *task.BackgroundTaskManager -> *mgrMon (read-mostly: Load adds no edge between workload goroutines)

type startEv struct {
	ts     int64
	pbegin int64
	pend   int64
}

type mgrMon struct {
	sc          *scenario
	pbeginA     atomic.Int64 // bumped inside the code's notify critical section
	pendEmitted atomic.Int64 // bumped before the code's atomic decrement
	cancels     atomic.Int64

	mu     sync.Mutex
	starts []startEv
	pendTs []int64 // stamps of task.pend (taken on the delayed-decrement goroutines, never on a body's path)
}

const silenceTol = int64(20 * time.Microsecond)

func hookHandler(name string, args ...interface{}) {
	if name == "task.bodydone" || len(args) == 0 || !strings.HasPrefix(name, "task.") {
		return // bodydone runs on the body's goroutine after its writes: stay off that path
	}
	v, ok := mons.Load(args[0])
	if !ok {
		if balanceOn.Load() {
			balanceHook(name, args[0]) // a manager built by a real caller (stage "callers")
		}
		return
	}
	m := v.(*mgrMon)
	switch name {
	case "task.pbegin":
		m.pbeginA.Add(1)
	case "task.pend":
		t := now()
		m.mu.Lock()
		m.pendTs = append(m.pendTs, t)
		m.mu.Unlock()
		m.pendEmitted.Add(1)
	case "task.cancel":
		m.cancels.Add(1)
		if inv := curInvocation(); inv != nil {
			inv.cancelTs = append(inv.cancelTs, now())
		}
	case "task.start":
		pe := m.pendEmitted.Load() // first: a later value could only be larger (= smaller count)
		t := now()
		pb := m.pbeginA.Load() // exact: pbegin cannot run while the code holds the notify mutex
		m.mu.Lock()
		m.starts = append(m.starts, startEv{ts: t, pbegin: pb, pend: pe})
		m.mu.Unlock()
		if inv := curInvocation(); inv != nil {
			inv.startTs = append(inv.startTs, t)
		}
	}
}

type interval struct {
	inv  *invocation
	k    int
	s, e int64
	late bool
}

// analyze decides clauses 1–4 for a scenario that ran to completion (drained).
func analyze(r *vf.Run, sc *scenario) {
	m := sc.mon
	m.mu.Lock()
	starts := append([]startEv(nil), m.starts...)
	m.mu.Unlock()
	replay := func(extra map[string]any) map[string]any {
		res := map[string]any{"case": sc.idx, "scenario": sc.desc}
		for k, v := range extra {
			res[k] = v
		}
		return res
	}

	// ---- clause 1: no start while a prioritized task is in progress
	var after, doneT []int64
	type task struct{ a, d int64 }
	var tasks []task
	for _, pc := range sc.clients {
		after = append(after, pc.after...)
		doneT = append(doneT, pc.doneT...)
		for i := range pc.after { // i-th begin of a client is ended by its i-th done: [after_i, doneT_i] lies inside "in progress"
			if i < len(pc.doneT) {
				tasks = append(tasks, task{pc.after[i], pc.doneT[i]})
			}
		}
	}
	positiveHistory := 0
	for _, ev := range starts {
		if ev.pbegin > 0 {
			positiveHistory++
		}
		if ev.pbegin-ev.pend > 0 {
			r.Violate("start:while-prioritized-in-progress",
				fmt.Sprintf("a body start was decided (task.start, inside the notify lock) while #pbegin-#pend = %d > 0; pend is announced before the decrement, so the real counter was positive at the code's own test", ev.pbegin-ev.pend),
				replay(map[string]any{"pbegin": ev.pbegin, "pend_announced": ev.pend}))
		}
		for _, tk := range tasks {
			// stamp form, independent of the pbegin/pend hooks: the start decision was stamped
			// after DoPrioritizedTask had returned and before DonePrioritizedTask was called
			if tk.a < ev.ts && ev.ts < tk.d {
				r.Violate("start:while-prioritized-in-progress",
					"a body start was decided between the return of DoPrioritizedTask and the call of DonePrioritizedTask of one prioritized task (stamps)",
					replay(map[string]any{"begin_returned": tk.a, "start": ev.ts, "done_called": tk.d}))
			}
		}
		// ---- clause 2: silence period. D is stamped before the Done call, S inside the start
		// decision: slowness can only enlarge S-D, so S-D < period is never an artefact of load.
		if sc.silence > 0 {
			for _, d := range doneT {
				if d <= ev.ts && ev.ts-d < int64(sc.silence)-silenceTol {
					r.Violate("silence:start-within-period-after-done",
						fmt.Sprintf("a body start was decided %s after DonePrioritizedTask was called; the silence period is %s", time.Duration(ev.ts-d), sc.silence),
						replay(map[string]any{"done_called": d, "start": ev.ts}))
				}
			}
		}
	}
	r.Count("hook_task.start", len(starts))
	r.Count("hook_task.pbegin", int(m.pbeginA.Load()))
	r.Count("hook_task.pend", int(m.pendEmitted.Load()))
	r.Count("hook_task.cancel", int(m.cancels.Load()))
	r.Count("starts_decided_after_some_prioritized_task", positiveHistory)
	r.Count("silence_pairs_compared", len(starts)*len(doneT))

	// ---- bodies
	var ivs []interval
	invs := sc.allInvocations()
	bodies, cancelled, retried, timedout, probesJudged := 0, 0, 0, 0, 0
	for _, inv := range invs {
		n := inv.nslots()
		bodies += n + int(inv.overflow.Load())
		if inv.overflow.Load() > 0 {
			r.Count("invocations_with_more_executions_than_slots", 1)
		}
		var pat []string
		for k := 0; k < n; k++ {
			sl := &inv.slots[k]
			ivs = append(ivs, interval{inv, k, sl.start.Load(), sl.end.Load(), sl.lateStart.Load()})
			out := "ok"
			switch sl.ctxErr.Load() {
			case 1:
				cancelled++
				out = "C"
			case 2:
				timedout++
				out = "T"
			}
			if sl.noticed.Load() {
				probesJudged++
				out += "!"
			}
			pat = append(pat, bodyKind(sl.kind.Load()).String()+":"+out)
		}
		if n >= 2 {
			retried++
		}
		if n+int(inv.overflow.Load()) > len(inv.startTs) {
			r.Violate("start:body-without-start-decision",
				fmt.Sprintf("an invocation ran %d bodies but passed the start decision only %d times", n+int(inv.overflow.Load()), len(inv.startTs)), replay(map[string]any{"invocation": inv.id}))
		}
		if len(pat) <= 6 {
			r.Distinct("execution_patterns_of_one_invocation", strings.Join(pat, ","))
		}
	}
	r.Count("bodies_started", bodies)
	r.Count("bodies_ended_with_ctx_cancelled", cancelled)
	r.Count("bodies_ended_with_ctx_deadline", timedout)
	r.Count("invocations", len(invs))
	r.Count("invocations_executed_more_than_once", retried)
	r.Count("probe_bodies_that_saw_a_begin_and_got_their_ctx_done", probesJudged)

	// every body is preceded by its own start decision
	if bodies > len(starts) {
		r.Violate("start:body-without-start-decision",
			fmt.Sprintf("%d bodies ran but only %d start decisions passed the `no prioritized task` test under the notify lock", bodies, len(starts)),
			replay(nil))
	}

	// ---- clause 3: at most `concurrency` bodies between body-start and body-end.
	// [s,e] is stamped inside the body, so intervals that share an instant were really running together.
	// Key classification only (the verdict is `run > concurrency`): an attempt of an invocation is
	// LIVE from its start decision (stamped inside the hook, after the semaphore was acquired)
	// until its task.cancel (stamped before the release) or, for the last attempt, until the end
	// stamp of the invocation's last-started body. More than `concurrency` live attempts = the
	// semaphore does not bound the attempts; otherwise the excess consists of cancelled bodies
	// that nobody waited for.
	sort.Slice(ivs, func(i, j int) bool { return ivs[i].s < ivs[j].s })
	finalEnd := map[*invocation]int64{}
	{
		lastS := map[*invocation]int64{}
		// The body of the last attempt is the last-begun body whose ctx was not yet Canceled when it
		// began: a body that found its ctx Canceled belongs to an earlier, cancelled attempt; a body
		// of an earlier attempt that found it not Canceled stamped its start before that attempt's
		// cancel, hence before the last attempt's start decision.
		for _, x := range ivs {
			if !x.late && x.s >= lastS[x.inv] {
				lastS[x.inv], finalEnd[x.inv] = x.s, x.e
			}
		}
	}
	// sweep: #running(T) = #(s<=T) - #(e<=T); the live attempts of one invocation are disjoint
	// intervals [start decision, cancel) / [last start decision, end of the last attempt's body)
	var sS, sE, lS, lE []int64
	for _, x := range ivs {
		sS, sE = append(sS, x.s), append(sE, x.e)
	}
	type liveIv struct {
		inv  *invocation
		j    int
		a, b int64
	}
	var lives []liveIv
	for _, inv := range invs {
		for j, st := range inv.startTs {
			end := int64(0)
			if j < len(inv.cancelTs) {
				end = inv.cancelTs[j]
			} else if j == len(inv.startTs)-1 {
				end = finalEnd[inv]
			}
			if end > st {
				lives = append(lives, liveIv{inv, j, st, end})
				lS, lE = append(lS, st), append(lE, end)
			}
		}
	}
	for _, a := range [][]int64{sS, sE, lS, lE} {
		sort.Slice(a, func(i, j int) bool { return a[i] < a[j] })
	}
	countLE := func(a []int64, T int64) int { return sort.Search(len(a), func(i int) bool { return a[i] > T }) }
	var instants []int64
	instants = append(instants, sS...)
	for _, ev := range starts {
		instants = append(instants, ev.ts)
	}
	maxRun, maxLive := 0, 0
	for _, T := range instants {
		run := countLE(sS, T) - countLE(sE, T)
		lv := countLE(lS, T) - countLE(lE, T)
		if run > maxRun {
			maxRun = run
		}
		if lv > maxLive {
			maxLive = lv
		}
		if lv > sc.conc {
			var who []string
			for _, l := range lives {
				if l.a <= T && T < l.b && len(who) < 70 {
					who = append(who, fmt.Sprintf("inv%d attempt%d of %d [%d,%d) cancels=%d", l.inv.id, l.j, len(l.inv.startTs), l.a, l.b, len(l.inv.cancelTs)))
				}
			}
			r.Violate("concurrency-exceeded",
				fmt.Sprintf("%d attempts were between their start decision and their cancel/body end at one instant with concurrency %d (%d bodies running)", lv, sc.conc, run),
				replay(map[string]any{"instant": T, "running_bodies": run, "live_attempts": lv, "live": who}))
		} else if run > sc.conc {
			r.Violate("concurrency-exceeded-by-cancelled-body",
				fmt.Sprintf("%d bodies were running at one instant with concurrency %d, only %d of them in an attempt that had not been cancelled yet: the others are cancelled bodies that outlive their semaphore slot (the slot is released without waiting for the cancelled body)", run, sc.conc, lv),
				replay(map[string]any{"instant": T, "running_bodies": run, "live_attempts": lv}))
		}
	}
	r.Distinct("max_bodies_running_together", fmt.Sprintf("concurrency=%d max=%d", sc.conc, maxRun))
	if maxRun == sc.conc {
		r.Count("scenarios_that_reached_the_concurrency_bound", 1)
	}

	// ---- clause 4: executions of one invocation never overlap; none runs when it returns
	pairs := 0
	for _, inv := range invs {
		n := inv.nslots()
		for a := 0; a < n; a++ {
			sa := &inv.slots[a]
			as, ae, aw := sa.start.Load(), sa.end.Load(), sa.wstamp.Load()
			for b := a + 1; b < n; b++ {
				sb := &inv.slots[b]
				bs, be := sb.start.Load(), sb.end.Load()
				pairs++
				if as < be && bs < ae {
					r.Violate("overlap:two-bodies-of-one-invocation",
						fmt.Sprintf("two executions of one invocation ran at the same time for %s (kinds %s and %s): the retry was started while the cancelled body was still running", time.Duration(min64(ae, be)-max64(as, bs)), bodyKind(sa.kind.Load()), bodyKind(sb.kind.Load())),
						replay(map[string]any{"invocation": inv.id, "exec_a": []int64{as, ae}, "exec_b": []int64{bs, be}}))
				}
			}
			if ae > inv.ret {
				r.Violate("return-before-body-end",
					fmt.Sprintf("InvokeBackgroundTask returned while a body of this invocation kept running for another %s (kind %s)", time.Duration(ae-inv.ret), bodyKind(sa.kind.Load())),
					replay(map[string]any{"invocation": inv.id, "returned": inv.ret, "body_end": ae}))
			}
			if aw > inv.ret {
				r.Violate("result-written-after-return",
					"a body wrote the caller's result variables (retN, retErr) after InvokeBackgroundTask had returned and the caller had read them",
					replay(map[string]any{"invocation": inv.id, "returned": inv.ret, "write": aw, "caller_read_tag": inv.gotN}))
			}
		}
	}
	r.Count("execution_pairs_of_one_invocation_compared", pairs)

	if sc.family == famMixed && retried > 0 && cancelled > 0 {
		ntMixed = append(ntMixed, sc.desc)
		r.Count("scenarios_with_cancel_and_retry", 1)
	}
	if sc.family == famBegin {
		r.Count("beginrace_scenarios", 1)
		r.Count("beginrace_prioritized_tasks", len(doneT))
		r.Count("beginrace_bodies", bodies)
		r.Count("beginrace_bodies_running_while_a_task_was_in_progress_and_then_cancelled", probesJudged)
		if probesJudged > 0 {
			ntBegin = append(ntBegin, sc.desc)
		}
	}
	if sc.family == famLastDone {
		// non-trivial: in some round invocations were entered on both sides of the announcement
		// of that round's last decrement, i.e. some invoker had to be woken by that very broadcast
		m.mu.Lock()
		pendTs := append([]int64(nil), m.pendTs...)
		m.mu.Unlock()
		sort.Slice(pendTs, func(i, j int) bool { return pendTs[i] < pendTs[j] })
		cum, straddling := 0, 0
		for rd, b := range sc.clients[0].bursts {
			cum += b.N
			if cum > len(pendTs) {
				break
			}
			lp := pendTs[cum-1]
			before, after := 0, 0
			for _, is := range sc.invokers {
				if is.invs[rd].call < lp {
					before++
				} else {
					after++
				}
			}
			r.Count("lastdone_rounds", 1)
			r.Count("lastdone_invocations_entered_before_last_decrement", before)
			r.Count("lastdone_invocations_entered_after_last_decrement", after)
			if before > 0 && after > 0 {
				straddling++
			}
		}
		r.Count("lastdone_scenarios", 1)
		r.Count("lastdone_rounds_straddling_the_last_decrement", straddling)
		if straddling > 0 {
			ntLastDone = append(ntLastDone, sc.desc)
		}
	}
	if sc.idx < 3 || sc.idx == lastDoneBase || sc.idx == beginBase {
		r.Sample(map[string]any{"case": sc.idx, "scenario": sc.desc, "start_decisions": len(starts), "bodies": bodies,
			"cancelled_bodies": cancelled, "invocations_retried": retried, "max_running_together": maxRun,
			"pbegin": m.pbeginA.Load(), "pend": m.pendEmitted.Load(), "cancel_hooks": m.cancels.Load()})
	}
}

func min64(a, b int64) int64 {
	if a < b {
		return a
	}
	return b
}
func max64(a, b int64) int64 {
	if a > b {
		return a
	}
	return b
}
