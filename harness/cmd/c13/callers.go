package main

// Stage "callers" (child, plain build): the REAL callers of the task manager.
//
// The statement ends with "once prioritized work stops, every invoked task completes". The
// manager only knows that prioritized work stopped through its callers: every
// DoPrioritizedTask must be paired with a DonePrioritizedTask on every path of the caller
// (fs.Mount, fs.Check, the resolver's section reader, layer.Prefetch, the store's prefetch
// goroutine). This stage drives those callers — succeeding and failing — and checks the
// balance invariant with the hooks, after every operation, ON STATE:
//
//	P = #task.pbegin (read first)   S = #goroutines inside DonePrioritizedTask's delayed
//	decrement (one stop-the-world snapshot)   E = #task.pend (read last)
//	and no goroutine has a frame of any function that ever called DoPrioritizedTask
//	(the set is learned from the hook's own call stack, so a new caller is covered too).
//	Then every open section is closed and every Done call is either a live delayed decrement
//	(counted in S) or has announced its pend (counted in E; a goroutine counted in both only
//	makes E+S larger):  P > E + S  <=>  some begin has no end and never will.
//
// No waiting for the 5 s silence period is needed for the verdict. At the end the stage waits
// until S == 0 and issues a background invocation on the caller's own manager (the pointer
// comes from the hook): it must complete; "blocked in Cond.Wait with S == 0 and no open
// section" is decided on the same kind of snapshot.

import (
	"context"
	"fmt"
	"os"
	"path/filepath"
	"runtime"
	"strings"
	"sync"
	"sync/atomic"
	"time"

	"github.com/containerd/stargz-snapshotter/estargz"
	stargzfs "github.com/containerd/stargz-snapshotter/fs"
	"github.com/containerd/stargz-snapshotter/fs/config"
	"github.com/containerd/stargz-snapshotter/fs/layer"
	"github.com/containerd/stargz-snapshotter/fs/source"
	memorymetadata "github.com/containerd/stargz-snapshotter/metadata/memory"
	"github.com/containerd/stargz-snapshotter/store"
	"github.com/containerd/stargz-snapshotter/task"

	"verifharness/internal/blob"
	"verifharness/internal/l2"
	"verifharness/internal/lx"
	"verifharness/internal/memreg"
	"verifharness/internal/prng"
	"verifharness/internal/vf"
)

// ---- balance monitor (fed by hookHandler for managers that are not scenario managers)

type balMon struct {
	pbegin, pend atomic.Int64
}

var (
	balanceOn atomic.Bool
	bals      sync.Map // *task.BackgroundTaskManager -> *balMon
	callerMu  sync.Mutex
	callerSet = map[string]int{} // function (closure suffix stripped) that called DoPrioritizedTask -> hits
)

const repoPrefix = "github.com/containerd/stargz-snapshotter/"

func balanceHook(name string, mgr interface{}) {
	v, ok := bals.Load(mgr)
	if !ok {
		v, _ = bals.LoadOrStore(mgr, &balMon{})
	}
	b := v.(*balMon)
	switch name {
	case "task.pend":
		b.pend.Add(1)
	case "task.pbegin":
		b.pbegin.Add(1)
		// who called DoPrioritizedTask? first frame above the task package
		var pcs [16]uintptr
		n := runtime.Callers(2, pcs[:])
		fr := runtime.CallersFrames(pcs[:n])
		for {
			f, more := fr.Next()
			fn := f.Function
			if fn != "" && !strings.Contains(fn, "/task.") && !strings.Contains(fn, "/util/verifhook.") && !strings.HasPrefix(fn, "main.") {
				callerMu.Lock()
				callerSet[stripClosure(fn)]++
				callerMu.Unlock()
				break
			}
			if !more {
				break
			}
		}
	}
}

// stripClosure: "pkg.(*T).M.func1.2" -> "pkg.(*T).M" (the section lives as long as any frame of M's closures does)
func stripClosure(fn string) string {
	for {
		i := strings.LastIndex(fn, ".")
		if i < 0 {
			return fn
		}
		last := fn[i+1:]
		if strings.HasPrefix(last, "func") || (len(last) > 0 && last[0] >= '0' && last[0] <= '9') || last == "gowrap1" {
			fn = fn[:i]
			continue
		}
		return fn
	}
}

func totals() (p, e int64) {
	bals.Range(func(_, v any) bool {
		p += v.(*balMon).pbegin.Load()
		e += v.(*balMon).pend.Load()
		return true
	})
	return
}

type balSnap struct {
	sleepers int
	open     []string // caller functions with a live frame
	waiting  int      // goroutines parked in InvokeBackgroundTask's Cond.Wait
}

func balanceSnapshot() balSnap {
	buf := make([]byte, 4<<20)
	for {
		n := runtime.Stack(buf, true)
		if n < len(buf) || len(buf) >= 256<<20 {
			buf = buf[:n]
			break
		}
		buf = make([]byte, 2*len(buf))
	}
	callerMu.Lock()
	var names []string
	for fn := range callerSet {
		names = append(names, fn)
	}
	callerMu.Unlock()
	var bs balSnap
	for _, blk := range strings.Split(string(buf), "\n\n") {
		if i := strings.Index(blk, "\ncreated by "); i >= 0 {
			blk = blk[:i] // the creator is not on this goroutine's stack
		}
		if strings.Contains(blk, "task.(*BackgroundTaskManager).DonePrioritizedTask.func1") {
			bs.sleepers++
		}
		if strings.Contains(blk, "task.(*BackgroundTaskManager).InvokeBackgroundTask(") && strings.Contains(blk, "sync.(*Cond).Wait") {
			bs.waiting++
		}
		for _, fn := range names {
			if strings.Contains(blk, fn+"(") || strings.Contains(blk, fn+".func") {
				bs.open = append(bs.open, strings.TrimPrefix(fn, repoPrefix))
			}
		}
	}
	return bs
}

type callersRun struct {
	r       *vf.Run
	kind    string
	judged  map[string]bool
	deficit int64 // begins without end already reported (the deficit never shrinks)
}

// checkBalance judges the invariant after operation op (see the file comment). It waits
// (bounded, inconclusive on expiry) only for asynchronous callers to leave their section.
func (c *callersRun) checkBalance(op string, p0 int64) {
	r := c.r
	deadline := time.Now().Add(60 * time.Second)
	for {
		p, _ := totals()
		bs := balanceSnapshot()
		_, e := totals()
		if len(bs.open) > 0 {
			if time.Now().After(deadline) {
				r.Inconclusive("callers: a caller of DoPrioritizedTask is still inside its section 60s after " + c.kind + ":" + op + " (" + strings.Join(bs.open, ",") + ")")
				return
			}
			time.Sleep(2 * time.Millisecond)
			continue
		}
		r.Count("callers_balance_checks", 1)
		if d := p - e - int64(bs.sleepers); d > c.deficit {
			c.deficit = d
			r.Violate("balance:begin-without-end@"+c.kind+":"+op,
				fmt.Sprintf("after %s %s returned: %d task.pbegin, %d task.pend, %d delayed decrements still pending, and no caller of DoPrioritizedTask is inside its section any more: %d prioritized task(s) were begun and will never be ended, so the manager's counter never returns to zero and every later background task waits for ever",
					c.kind, op, p, e, bs.sleepers, p-e-int64(bs.sleepers)),
				map[string]any{"stage": "callers", "kind": c.kind, "op": op, "pbegin": p, "pend": e, "pending_delayed_decrements": bs.sleepers, "seed": r.Seed})
		}
		if p > p0 {
			// non-trivial: the operation really went through a prioritized section
			c.judged[c.kind+":"+op] = true
			r.Count("callers_ops_with_a_prioritized_section", 1)
			r.Distinct("callers_ops_judged", c.kind+":"+op)
		}
		return
	}
}

func (c *callersRun) step(op string, f func()) {
	p0, _ := totals()
	c.r.Eval(1)
	if !c.r.Watchdog(3*time.Minute, "callers "+c.kind+":"+op, f) {
		return
	}
	c.checkBalance(op, p0)
}

// finalInvocation: wait (on state) until no delayed decrement is pending, then a background
// task invoked on each of the callers' managers must complete.
func (c *callersRun) finalInvocation(mgrs []*task.BackgroundTaskManager) {
	r := c.r
	deadline := time.Now().Add(90 * time.Second)
	for {
		bs := balanceSnapshot()
		if bs.sleepers == 0 && len(bs.open) == 0 {
			break
		}
		if time.Now().After(deadline) {
			r.Inconclusive("callers: delayed decrements / open sections still present 90s after the last operation of " + c.kind)
			return
		}
		time.Sleep(100 * time.Millisecond)
	}
	for _, m := range mgrs {
		done := make(chan struct{})
		ran := false
		go func() {
			m.InvokeBackgroundTask(func(ctx context.Context) { ran = true }, time.Hour)
			close(done)
		}()
		began := time.Now()
	wait:
		for {
			select {
			case <-done:
				r.Count("callers_final_invocations_completed", 1)
				_ = ran
				break wait
			case <-time.After(200 * time.Millisecond):
			}
			bs := balanceSnapshot()
			if bs.waiting > 0 && bs.sleepers == 0 && len(bs.open) == 0 {
				p, e := totals()
				r.Violate("completion:invocation-pending-at-quiescence",
					fmt.Sprintf("real callers (%s): every caller has returned, no delayed decrement is pending (%d task.pbegin, %d task.pend), yet a background task invoked now is parked in InvokeBackgroundTask's Cond.Wait for ever", c.kind, p, e),
					map[string]any{"stage": "callers", "kind": c.kind, "pbegin": p, "pend": e, "seed": r.Seed})
				return // the goroutine is leaked; the stage ends after this kind
			}
			if time.Since(began) > 90*time.Second {
				r.Inconclusive("callers: final invocation neither completed nor provably stuck within 90s (" + c.kind + ")")
				return
			}
		}
	}
}

func managersSeen(before map[any]bool) []*task.BackgroundTaskManager {
	var res []*task.BackgroundTaskManager
	bals.Range(func(k, _ any) bool {
		if !before[k] {
			if m, ok := k.(*task.BackgroundTaskManager); ok {
				res = append(res, m)
			}
		}
		return true
	})
	return res
}

func managerKeys() map[any]bool {
	res := map[any]bool{}
	bals.Range(func(k, _ any) bool { res[k] = true; return true })
	return res
}

// ---- the stage

func callersStage(r *vf.Run) {
	lx.Quiet(r.Scratch)
	balanceOn.Store(true)
	judged := map[string]bool{}
	n := r.N(1, 4)
	for i := 0; i < n; i++ {
		rng := r.RNG(9, uint64(i))
		layers, err := buildLayers(rng, 3)
		if err != nil {
			r.Inconclusive("callers: cannot build layers: " + err.Error())
			return
		}
		if r.Violations() == 0 {
			fsKind(&callersRun{r: r, kind: "fs", judged: judged}, i, layers)
		}
		if r.Violations() == 0 {
			layerKind(&callersRun{r: r, kind: "layer", judged: judged}, i, layers)
		}
		if r.Violations() == 0 {
			storeKind(&callersRun{r: r, kind: "store", judged: judged}, i, layers)
		}
	}
	callerMu.Lock()
	for fn, hits := range callerSet {
		r.Distinct("callers_of_DoPrioritizedTask_exercised", strings.TrimPrefix(fn, repoPrefix))
		r.Count("callers_pbegin_hits", hits)
	}
	callerMu.Unlock()
	handed := 0
	for k := range judged {
		if handed < 5 { // the stage's floor: see body() for how the per-stage floors add up
			r.NonTrivial("callers " + k)
			handed++
		}
	}
	if cf := os.Getenv("C13_COUNT_FILE"); cf != "" {
		_ = os.WriteFile(cf, []byte(fmt.Sprint(len(judged))), 0o644)
	}
}

func buildLayers(rng *prng.R, n int) ([]*lx.LayerSpec, error) {
	var res []*lx.LayerSpec
	for i := 0; i < n; i++ {
		lrng := rng.Derive(uint64(i))
		chunk := 1024
		to := lx.TarOpts(int64(chunk), false, 8)
		to.MaxFileSize = 3 * int64(chunk)
		ls, err := lx.BuildLayer(lrng, to, blob.Opts{ChunkSize: chunk, Compression: "gzip", Level: 1, Workers: 1}, lx.LmPrefetch, false)
		if err != nil {
			return nil, err
		}
		res = append(res, ls)
	}
	return res, nil
}

func baseCfg() config.Config {
	cfg := config.Config{NoBackgroundFetch: true, NoPrometheus: true, PrefetchTimeoutSec: 20, BlobConfig: config.BlobConfig{ChunkSize: 256}}
	cfg.BlobConfig.MaxRetries = 1
	cfg.BlobConfig.MinWaitMSec = 1
	cfg.BlobConfig.MaxWaitMSec = 2
	cfg.BlobConfig.FetchTimeoutSec = 20
	cfg.BlobConfig.CheckAlways = true // every Check really probes the registry (default: at most once a minute)
	cfg.DirectoryCacheConfig.SyncAdd = true
	return cfg
}

// failHead makes every data request that starts at offset 0 of the blob fail (the prefetch
// reads the head; resolution reads footer and TOC at the tail).
func failHead(reg *memreg.Registry, dg string) {
	reg.SetScript(func(q *memreg.Request) memreg.Behaviour {
		if q.Digest == dg && lx.IsData(q) && len(q.Ranges) > 0 && q.Ranges[0][0] == 0 {
			return memreg.Behaviour{Status: 500, Label: "fail-head"}
		}
		return memreg.Behaviour{}
	})
}

// fsKind: the daemon's own entry point with a real FUSE mount.
func fsKind(c *callersRun, idx int, layers []*lx.LayerSpec) {
	r := c.r
	if f, err := os.OpenFile("/dev/fuse", os.O_RDWR, 0); err != nil {
		r.Set("callers_fs", "skipped(capability): /dev/fuse unusable: "+err.Error())
		r.Count("callers_fs_skipped_capability", 1)
		return
	} else {
		f.Close()
	}
	before := managerKeys()
	ls := layers[0]
	reg := memreg.New()
	im, err := l2.Publish(reg, "reg.test", "img", "v1", []*blob.Built{ls.Built})
	if err != nil {
		r.Inconclusive("callers fs: publish: " + err.Error())
		return
	}
	dg := im.Layers[0].Digest.String()
	root := filepath.Join(r.Scratch, fmt.Sprintf("cfs-%d", idx))
	mp := filepath.Join(r.Scratch, fmt.Sprintf("cmnt-%d", idx))
	mp2 := filepath.Join(r.Scratch, fmt.Sprintf("cmnt2-%d", idx))
	for _, d := range []string{root, mp, mp2} {
		_ = os.MkdirAll(d, 0o755)
	}
	defer os.RemoveAll(root)
	ms, closeMS, _, err := l2.MetadataStore("memory", root)
	if err != nil {
		r.Inconclusive("callers fs: metadata store: " + err.Error())
		return
	}
	defer closeMS()
	cfg := baseCfg()
	fsys, err := stargzfs.NewFilesystem(root, cfg, stargzfs.WithGetSources(source.FromDefaultLabels(reg.Hosts(nil))), stargzfs.WithMetadataStore(ms))
	if err != nil {
		r.Inconclusive("callers fs: NewFilesystem: " + err.Error())
		return
	}
	labels := map[string]string{
		"containerd.io/snapshot/remote/stargz.reference": im.Ref.String(),
		"containerd.io/snapshot/remote/stargz.digest":    dg,
		"containerd.io/snapshot/remote/stargz.layers":    dg,
		estargz.TOCJSONDigestAnnotation:                  ls.Built.TOCDigest.String(),
	}
	ctx := context.Background()
	var merr error
	c.step("Mount", func() { merr = fsys.Mount(ctx, mp, labels) })
	if merr != nil {
		r.Inconclusive("callers fs: Mount failed: " + merr.Error())
		return
	}
	mounted := true
	defer func() {
		if mounted {
			_ = fsys.Unmount(ctx, mp)
		}
	}()
	c.step("Mount-without-source-labels", func() {
		if err := fsys.Mount(ctx, mp2, map[string]string{}); err == nil {
			r.Count("callers_unexpected_success", 1)
			_ = fsys.Unmount(ctx, mp2)
		}
	})
	var cerr error
	c.step("Check", func() { cerr = fsys.Check(ctx, mp, labels) })
	if cerr != nil {
		r.Distinct("callers_fs_check_errors", "first Check: "+cerr.Error())
	}
	c.step("read-through-the-mount", func() {
		for i, p := range ls.Files {
			if i >= 1 { // leave most of the layer unfetched: Check must still probe the registry
				break
			}
			if _, err := os.ReadFile(filepath.Join(mp, p)); err != nil {
				r.Count("callers_fs_read_errors", 1)
			}
		}
	})
	c.step("Check-of-unknown-mountpoint", func() { _ = fsys.Check(ctx, filepath.Join(r.Scratch, "nowhere"), labels) })
	reg.SetDown(true)
	c.step("Check-with-registry-down", func() {
		if err := fsys.Check(ctx, mp, labels); err == nil {
			r.Count("callers_fs_check_with_registry_down_did_not_fail", 1)
		} else {
			r.Count("callers_fs_check_failed_as_intended", 1)
		}
	})
	reg.SetDown(false)
	c.step("Check-after-recovery", func() { _ = fsys.Check(ctx, mp, labels) })
	c.step("Unmount", func() { _ = fsys.Unmount(ctx, mp); mounted = false })
	c.finalInvocation(managersSeen(before)) // also after a balance violation: shows its consequence
}

// layerKind: layer.Resolver as fs.NewFilesystem builds it (l2.Env): the resolver's
// prioritized section reader (TOC/footer reads) and layer.Prefetch, succeeding and failing.
func layerKind(c *callersRun, idx int, layers []*lx.LayerSpec) {
	r := c.r
	before := managerKeys()
	root := filepath.Join(r.Scratch, fmt.Sprintf("clayer-%d", idx))
	_ = os.MkdirAll(root, 0o755)
	defer os.RemoveAll(root)
	w, err := lx.NewWorld(root, layers, baseCfg(), "memory")
	if err != nil {
		r.Inconclusive("callers layer: world: " + err.Error())
		return
	}
	defer w.Close()
	ctx := context.Background()
	var l0, l1 layer.Layer
	c.step("Resolve", func() { l0, err = w.Env.Resolve(ctx, w.Img, 0) })
	if err != nil || l0 == nil {
		r.Inconclusive("callers layer: Resolve failed")
		return
	}
	c.step("Prefetch", func() { _ = l0.Prefetch(0) })
	c.step("Verify-and-read", func() {
		if err := l0.Verify(layers[0].Built.TOCDigest); err != nil {
			return
		}
		if root, rerr := lx.Root(l0); rerr == nil && len(layers[0].Files) > 0 {
			_ = lx.ReadFull(root, layers[0], layers[0].Files[0])
		}
	})
	failHead(w.Reg, w.Digest(1))
	c.step("Resolve-then-Prefetch-failing", func() {
		l1, err = w.Env.Resolve(ctx, w.Img, 1)
		if err == nil && l1 != nil {
			if perr := l1.Prefetch(0); perr != nil {
				r.Count("callers_layer_prefetch_failed_as_intended", 1)
			}
		}
	})
	w.Reg.SetScript(nil)
	w.Reg.SetDown(true)
	c.step("Resolve-with-registry-down", func() {
		if _, err := w.Env.Resolve(ctx, w.Img, 2); err != nil {
			r.Count("callers_layer_resolve_failed_as_intended", 1)
		}
	})
	w.Reg.SetDown(false)
	if l0 != nil {
		l0.Done()
	}
	if l1 != nil {
		l1.Done()
	}
	c.finalInvocation(managersSeen(before))
}

// storeKind: store.LayerManager — resolveLayer starts the prefetch in a goroutine of its own.
func storeKind(c *callersRun, idx int, layers []*lx.LayerSpec) {
	r := c.r
	before := managerKeys()
	reg := memreg.New()
	var bs []*blob.Built
	for _, l := range layers {
		bs = append(bs, l.Built)
	}
	im, err := l2.Publish(reg, "reg.test", "simg", "v1", bs[:2])
	if err != nil {
		r.Inconclusive("callers store: publish: " + err.Error())
		return
	}
	im2, err := l2.Publish(reg, "reg.test", "simg2", "v1", bs[2:])
	if err != nil {
		r.Inconclusive("callers store: publish: " + err.Error())
		return
	}
	root := filepath.Join(r.Scratch, fmt.Sprintf("cstore-%d", idx))
	_ = os.MkdirAll(root, 0o700)
	defer os.RemoveAll(root)
	cfg := baseCfg()
	cfg.HTTPCacheType, cfg.FSCacheType = "memory", "memory"
	ctx := context.Background()
	lm, err := store.NewLayerManager(ctx, root, reg.Hosts(nil), memorymetadata.NewReader, cfg)
	if err != nil {
		r.Inconclusive("callers store: NewLayerManager: " + err.Error())
		return
	}
	failHead(reg, im.Layers[1].Digest.String()) // the prefetch goroutine of layer 1 fails, that of layer 0 succeeds
	c.step("getLayer(resolveLayer+prefetch-goroutines)", func() {
		if _, err := lm.VerifGetLayer(ctx, im.Ref, layers[0].Built.TOCDigest); err != nil {
			r.Count("callers_store_getlayer_errors", 1)
		}
	})
	reg.SetScript(nil)
	reg.SetDown(true)
	c.step("getLayer-with-registry-down", func() {
		if _, err := lm.VerifGetLayer(ctx, im2.Ref, layers[2].Built.TOCDigest); err != nil {
			r.Count("callers_store_getlayer_failed_as_intended", 1)
		}
	})
	reg.SetDown(false)
	c.step("getLayer-after-recovery", func() { _, _ = lm.VerifGetLayer(ctx, im2.Ref, layers[2].Built.TOCDigest) })
	c.finalInvocation(managersSeen(before))
}
