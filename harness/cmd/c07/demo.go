package main

import (
	"archive/tar"
	"fmt"
	"os"
	"path/filepath"
	"time"

	"github.com/containerd/stargz-snapshotter/fs/config"
	"github.com/containerd/stargz-snapshotter/fs/layer"

	"verifharness/internal/blob"
	"verifharness/internal/gen"
	"verifharness/internal/l2"
	"verifharness/internal/memreg"
	"verifharness/internal/vf"
)

// demoStage (VERIF_STAGE=demo bin/c07) serves three minimal one-entry layers and prints
// what Readdir and Lookup answer: the demonstration of the finding
// list-lookup-disagree:whiteout-of-hidden-name, independent of the generator.
func demoStage(r *vf.Run) {
	cases := []struct {
		what string
		ents []gen.Entry
		dir  string
		name string
	}{
		{"whiteout of a '.wh.' name in a subdirectory", []gen.Entry{
			{Name: "d/", Type: tar.TypeDir, Mode: 0o755},
			{Name: "d/.wh..wh.foo", Type: tar.TypeReg, Mode: 0o644}}, "d", ".wh.foo"},
		{"whiteout of the prefetch landmark name in the root", []gen.Entry{
			{Name: ".wh..prefetch.landmark", Type: tar.TypeReg, Mode: 0o644}}, "", ".prefetch.landmark"},
		{"whiteout of the no-prefetch landmark name in the root", []gen.Entry{
			{Name: ".wh..no.prefetch.landmark", Type: tar.TypeReg, Mode: 0o644}}, "", ".no.prefetch.landmark"},
		{"outside the statement (no target name): a file named exactly '.wh.'", []gen.Entry{
			{Name: ".wh.", Type: tar.TypeReg, Mode: 0o644}}, "", ""},
		{"control: ordinary whiteout", []gen.Entry{
			{Name: ".wh.foo", Type: tar.TypeReg, Mode: 0o644}}, "", "foo"},
	}
	for ci, c := range cases {
		for _, store := range stores {
			reg := memreg.New()
			b, err := blob.Build(gen.TarBytes(c.ents), blob.Opts{ChunkSize: 4096, Compression: "gzip", Level: 1})
			if err != nil {
				fmt.Println("build:", err)
				continue
			}
			im, _ := l2.Publish(reg, "reg.test", fmt.Sprintf("demo/c%d", ci), "v1", []*blob.Built{b})
			env, err := l2.NewEnv(reg, filepath.Join(r.Scratch, fmt.Sprintf("demo-%d-%s", ci, store)), config.Config{}, store, layer.OverlayOpaqueAll, 0)
			if err != nil {
				fmt.Println("env:", err)
				continue
			}
			bs := &builtStack{blobs: []*blob.Built{b}, im: im}
			l, err := serveLayer(env, bs, 0)
			if err != nil {
				fmt.Println("serve:", err)
				env.Close()
				continue
			}
			rn, _ := l.RootNode(0)
			for _, order := range []string{"Readdir then Lookup", "Lookup then Readdir"} {
				drv, root := newDriver(rn, false)
				dirV := root
				if c.dir != "" {
					dirV, _, _ = drv.lookup(root, c.dir)
				}
				var errno1 string
				if order == "Lookup then Readdir" {
					_, _, e := drv.lookup(dirV, c.name)
					errno1 = errnoName(e)
				}
				ents, _ := dirV.n().Readdir()
				if order == "Readdir then Lookup" {
					_, _, e := drv.lookup(dirV, c.name)
					errno1 = errnoName(e)
				}
				fmt.Printf("%-55s store=%-6s tar=[%s] %s: Readdir(%q) = %s  Lookup(%q) = %s\n", c.what, store, gen.Describe(c.ents), order, c.dir, fmtListing(ents), c.name, errno1)
				rn, _ = l.RootNode(0) // fresh nodes (nothing memoised) for the other order
			}
			// the same through the kernel (FUSE mount), when available
			if rn2, err := l.RootNode(0); err == nil {
				mp := filepath.Join(r.Scratch, fmt.Sprintf("demo-mp-%d-%s", ci, store))
				_ = os.MkdirAll(mp, 0o755)
				if srv, err := mountLayer(mp, rn2, time.Second); err == nil {
					d := filepath.Join(mp, c.dir)
					ents, rerr := os.ReadDir(d)
					var names []string
					for _, e := range ents {
						names = append(names, fmt.Sprintf("%s:%q", e.Type().String()[:1], e.Name()))
					}
					res := "n/a"
					if c.name != "" {
						_, lerr := os.Lstat(filepath.Join(d, c.name))
						res = "OK"
						if lerr != nil {
							res = errText(lerr)
						}
					}
					rres := "OK"
					if rerr != nil {
						rres = errText(rerr)
					}
					fmt.Printf("%-55s store=%-6s through the kernel: getdents(%q) = %v (%s)  lstat(%q) = %s\n", c.what, store, c.dir, names, rres, c.name, res)
					if err := srv.Unmount(); err != nil {
						forceUnmount(mp)
					}
				} else {
					fmt.Println("FUSE mount unavailable:", err)
				}
			}
			l.Done()
			env.Close()
		}
	}
}
