package main

import (
	"archive/tar"
	"context"
	"encoding/json"
	"fmt"
	"runtime"
	"sort"
	"strings"
	"sync"
	"sync/atomic"
	"syscall"

	"github.com/containerd/stargz-snapshotter/fs/layer"
	fusefs "github.com/hanwen/go-fuse/v2/fs"
	"github.com/hanwen/go-fuse/v2/fuse"
	"golang.org/x/sys/unix"

	"verifharness/internal/gen"
	"verifharness/internal/nodefs"
	oc "verifharness/internal/ocistack"
	"verifharness/internal/prng"
	"verifharness/internal/vf"
)

var bg = context.Background()

const (
	xattrTrusted = "trusted.overlay.opaque"
	xattrUser    = "user.overlay.opaque"
)

// configuredXattrs: what the chosen mode must announce on an opaque directory. This table
// is the statement's ("the configured overlay opaque xattr"), written down independently
// of fs/layer/node.go.
func configuredXattrs(mode layer.OverlayOpaqueType) map[string]bool {
	switch mode {
	case layer.OverlayOpaqueTrusted:
		return map[string]bool{xattrTrusted: true}
	case layer.OverlayOpaqueUser:
		return map[string]bool{xattrUser: true}
	}
	return map[string]bool{xattrTrusted: true, xattrUser: true}
}

func modeName(mode layer.OverlayOpaqueType) string {
	switch mode {
	case layer.OverlayOpaqueTrusted:
		return "trusted"
	case layer.OverlayOpaqueUser:
		return "user"
	}
	return "all"
}

// vnode is a node of the served tree as the driver reached it.
type vnode struct {
	ops    fusefs.InodeEmbedder
	ino    *fusefs.Inode
	nodeID uint64 // bridge driver only
}

func (v *vnode) n() *nodefs.N { return &nodefs.N{Ops: v.ops, Inode: v.ino} }

// driver performs Lookup either by calling the node's method directly (nothing is ever
// added to go-fuse's in-memory child table, as after the kernel forgot the inode: every
// Lookup takes the metadata path / the memoised-listing shortcut) or through go-fuse's
// own raw bridge (rawBridge.Lookup registers the child exactly as it does for the kernel:
// repeated Lookups take the "lookup on memory nodes" path of node.Lookup).
type driver struct {
	raw    fuse.RawFileSystem
	bridge bool
}

func newDriver(root fusefs.InodeEmbedder, bridge bool) (*driver, *vnode) {
	raw := fusefs.NewNodeFS(root, &fusefs.Options{})
	return &driver{raw: raw, bridge: bridge}, &vnode{ops: root, ino: root.EmbeddedInode(), nodeID: fuse.FUSE_ROOT_ID}
}

func (d *driver) lookup(p *vnode, name string) (*vnode, fuse.EntryOut, syscall.Errno) {
	var eo fuse.EntryOut
	if d.bridge {
		st := d.raw.Lookup(nil, &fuse.InHeader{NodeId: p.nodeID}, name, &eo)
		if st != fuse.OK {
			return nil, eo, syscall.Errno(st)
		}
		ch := p.ino.GetChild(name)
		if ch == nil {
			return nil, eo, syscall.ENOTRECOVERABLE // harness-level: reported as inconclusive by the caller
		}
		return &vnode{ops: ch.Operations(), ino: ch, nodeID: eo.NodeId}, eo, 0
	}
	l, ok := p.ops.(fusefs.NodeLookuper)
	if !ok {
		return nil, eo, syscall.ENOTDIR
	}
	in, errno := l.Lookup(bg, name, &eo)
	if errno != 0 {
		return nil, eo, errno
	}
	return &vnode{ops: in.Operations(), ino: in}, eo, 0
}

// lookupRec is one observed Lookup.
type lookupRec struct {
	Name   string
	Phase  string // "before-listing" | "after-listing"
	Errno  syscall.Errno
	Ino    uint64
	Mode   uint32
	Repeat bool
}

// capture walks one served layer and judges clauses 1, 2, 3 and 5 on the way.
type capture struct {
	r         *vf.Run
	rng       *prng.R
	drv       *driver
	base      uint32
	mode      layer.OverlayOpaqueType
	exp       *oc.Node          // expected lower view of this layer (clause 1 is judged by the caller with Diff)
	rawFS     *gen.FS           // the layer tar as a plain tar model: raw child names per directory
	groups    map[string]string // clean path -> hardlink group id
	ctx       map[string]any    // replay context
	inoPaths  map[uint64][]string
	nodes     int
	truncated bool
	// observations
	nLookups, nReaddirs, nPre, nPost int
	orders                           map[string]bool
}

func (c *capture) violate(key, what string, extra map[string]any) {
	rp := map[string]any{}
	for k, v := range c.ctx {
		rp[k] = v
	}
	for k, v := range extra {
		rp[k] = v
	}
	c.r.Violate(key, what, rp)
}

func errnoName(e syscall.Errno) string {
	if e == 0 {
		return "OK"
	}
	return unix.ErrnoName(e)
}

func typeOfMode(m uint32) byte {
	switch m & syscall.S_IFMT {
	case syscall.S_IFDIR:
		return tar.TypeDir
	case syscall.S_IFREG:
		return tar.TypeReg
	case syscall.S_IFLNK:
		return tar.TypeSymlink
	case syscall.S_IFCHR:
		return tar.TypeChar
	case syscall.S_IFBLK:
		return tar.TypeBlock
	case syscall.S_IFIFO:
		return tar.TypeFifo
	}
	return 0
}

func nodeFromAttr(a *fuse.Attr) *oc.Node {
	n := &oc.Node{Type: typeOfMode(a.Mode), Mode: a.Mode & 0o7777, UID: a.Uid, GID: a.Gid, MTime: int64(a.Mtime), Ino: a.Ino}
	switch n.Type {
	case tar.TypeReg:
		n.Size = int64(a.Size)
	case tar.TypeChar, tar.TypeBlock:
		n.Major, n.Minor = unix.Major(uint64(a.Rdev)), unix.Minor(uint64(a.Rdev))
	case tar.TypeDir:
		n.Kids = map[string]*oc.Node{}
	}
	return n
}

func (c *capture) rawNames(dir string) []string {
	n := c.rawFS.Nodes[dir]
	if n == nil || n.Children == nil {
		return nil
	}
	var ns []string
	for k := range n.Children {
		ns = append(ns, k)
	}
	sort.Strings(ns)
	return ns
}

// classify names the divergence class of one listing/lookup disagreement.
func (c *capture) classify(dir, name string, listed bool, listedMode uint32, rec lookupRec) string {
	const p = "list-lookup-disagree:"
	if listed {
		if oc.HiddenName(dir, name) {
			return p + "whiteout-of-hidden-name"
		}
		kind := "entry"
		if listedMode&syscall.S_IFMT == syscall.S_IFCHR {
			if _, ok := c.rawFS.Nodes[joinp(dir, oc.WhPrefix+name)]; ok {
				kind = "whiteout"
			}
		}
		return p + "listed-" + kind + "-lookup-fails:" + rec.Phase
	}
	switch {
	case name == oc.OpaqueMarker:
		return p + "opaque-marker-lookup-succeeds"
	case strings.HasPrefix(name, oc.WhPrefix):
		return p + "whiteout-file-lookup-succeeds"
	case dir == "" && (name == oc.LandmarkPrefetch || name == oc.LandmarkNo):
		return p + "landmark-lookup-succeeds"
	case dir == "" && name == oc.TOCName:
		return p + "toc-entry-lookup-succeeds"
	}
	if _, ok := c.rawFS.Nodes[joinp(dir, oc.WhPrefix+name)]; ok {
		return p + "unlisted-whiteout-lookup-succeeds:" + rec.Phase
	}
	return p + "unlisted-name-lookup-succeeds:" + rec.Phase
}

func joinp(dir, name string) string {
	if dir == "" {
		return name
	}
	return dir + "/" + name
}

// visitDir runs the permuted operation sequence on one directory, then probes every
// name of interest, judges clauses 2 and 3 for the directory and returns its view.
func (c *capture) visitDir(v *vnode, dir string, out *oc.Node, depth int) {
	rng := c.rng.DeriveS(dir)
	raw := c.rawNames(dir)
	rawSet := map[string]bool{}
	var rawNormal, rawWh []string
	for _, n := range raw {
		rawSet[n] = true
		if strings.HasPrefix(n, oc.WhPrefix) {
			rawWh = append(rawWh, n)
		} else {
			rawNormal = append(rawNormal, n)
		}
	}
	var listing []fuse.DirEntry
	listed := map[string]fuse.DirEntry{}
	haveListing := false
	var recs []lookupRec
	kids := map[string]*vnode{}
	kidAttr := map[string]fuse.Attr{}

	doLookup := func(name string, repeat bool) {
		if name == "" || name == "." || name == ".." || strings.Contains(name, "/") {
			return
		}
		if dir == "" && name == oc.StateDir {
			return // the deliberately hidden state directory is judged by clause 5
		}
		phase := "before-listing"
		if haveListing {
			phase = "after-listing"
			c.nPost++
		} else {
			c.nPre++
		}
		ch, eo, errno := c.drv.lookup(v, name)
		c.nLookups++
		if errno == syscall.ENOTRECOVERABLE {
			c.r.Inconclusive("bridge lookup succeeded but the child is not in the parent's table")
			return
		}
		recs = append(recs, lookupRec{Name: name, Phase: phase, Errno: errno, Ino: eo.Attr.Ino, Mode: eo.Attr.Mode, Repeat: repeat})
		if errno == 0 {
			kids[name] = ch
			kidAttr[name] = eo.Attr
		}
	}
	doReaddir := func() {
		ents, errno := v.n().Readdir()
		c.nReaddirs++
		if errno != 0 {
			c.violate("readdir:error", fmt.Sprintf("Readdir(%q) = %s", dir, errnoName(errno)), map[string]any{"dir": dir})
			return
		}
		if haveListing {
			if !sameListing(listing, ents) {
				c.violate("readdir:unstable", fmt.Sprintf("two Readdir(%q) differ: %s vs %s", dir, fmtListing(listing), fmtListing(ents)), map[string]any{"dir": dir})
			}
			return
		}
		listing, haveListing = ents, true
		for _, e := range ents {
			if e.Name == "." || e.Name == ".." {
				continue
			}
			if e.Name == "" {
				// (through the kernel such a dirent makes the whole getdents fail with EIO)
				c.violate("lower-view:empty-name-in-listing",
					fmt.Sprintf("Readdir(%q) lists an entry with the EMPTY name (mode %o): %s; tar names of this directory = %q", dir, e.Mode, fmtListing(ents), raw),
					map[string]any{"dir": dir})
				continue
			}
			if _, dup := listed[e.Name]; dup {
				c.violate("lower-view:duplicate-name-in-listing",
					fmt.Sprintf("Readdir(%q) lists %q twice: %s", dir, e.Name, fmtListing(ents)), map[string]any{"dir": dir, "name": e.Name})
			}
			listed[e.Name] = e
		}
	}
	pick := func(s []string) string {
		if len(s) == 0 {
			return ""
		}
		return s[rng.Intn(len(s))]
	}
	listedNames := func() []string {
		var ns []string
		for n := range listed {
			ns = append(ns, n)
		}
		sort.Strings(ns)
		return ns
	}

	// --- the permuted sequence -------------------------------------------------------
	perm := rng.Perm(5)
	order := ""
	for _, op := range perm {
		order += string("RLAWH"[op])
		switch op {
		case 0:
			doReaddir()
		case 1: // a name that is (expected to be) listed
			if haveListing {
				doLookup(pick(listedNames()), false)
			} else {
				doLookup(pick(rawNormal), false)
			}
		case 2: // an absent name
			doLookup(fmt.Sprintf("absent%d", rng.Intn(4)), false)
		case 3: // the target of a whiteout
			if w := pick(rawWh); w != "" && w != oc.OpaqueMarker {
				doLookup(w[len(oc.WhPrefix):], false)
			}
		case 4: // a ".wh." name
			switch rng.Intn(3) {
			case 0:
				doLookup(oc.OpaqueMarker, false)
			case 1:
				if w := pick(rawWh); w != "" {
					doLookup(w, false)
					break
				}
				fallthrough
			default:
				doLookup(oc.WhPrefix+pick(append(rawNormal, "nothing")), false)
			}
		}
	}
	c.orders[order] = true
	if !haveListing {
		return
	}

	// --- full probe ------------------------------------------------------------------
	probe := map[string]bool{}
	for n := range listed {
		probe[n] = true
		probe[oc.WhPrefix+n] = true
	}
	for _, n := range raw {
		probe[n] = true
		if strings.HasPrefix(n, oc.WhPrefix) {
			probe[n[len(oc.WhPrefix):]] = true
		}
	}
	for _, n := range []string{oc.OpaqueMarker, oc.LandmarkPrefetch, oc.LandmarkNo, oc.TOCName, oc.WhPrefix + oc.LandmarkPrefetch, oc.WhPrefix,
		fmt.Sprintf("rnd%x", rng.U64()&0xffff), fmt.Sprintf(".wh.rnd%x", rng.U64()&0xff), fmt.Sprintf(".wh..wh.rnd%x", rng.U64()&0xff)} {
		probe[n] = true
	}
	var probes []string
	for n := range probe {
		probes = append(probes, n)
	}
	sort.Strings(probes)
	for _, i := range rng.Perm(len(probes)) {
		doLookup(probes[i], false)
	}
	// identical on repetition (bridge driver: now through the in-memory child table)
	for _, n := range listedNames() {
		doLookup(n, true)
	}
	doReaddir()

	// --- clause 2: listed <=> Lookup succeeds ----------------------------------------
	for _, rec := range recs {
		e, isListed := listed[rec.Name]
		if isListed == (rec.Errno == 0) {
			continue
		}
		key := c.classify(dir, rec.Name, isListed, e.Mode, rec)
		what := fmt.Sprintf("directory %q, name %q: Readdir lists it = %v, Lookup (%s, driver %s) = %s; listing = %s; tar names of this directory = %q",
			dir, rec.Name, isListed, rec.Phase, c.ctx["driver"], errnoName(rec.Errno), fmtListing(listing), raw)
		c.violate(key, what, map[string]any{"dir": dir, "name": rec.Name, "listed": isListed, "lookup": errnoName(rec.Errno), "phase": rec.Phase, "order": order})
	}

	// --- clause 3 (per name) + view --------------------------------------------------
	firstIno := map[string]uint64{}
	for _, rec := range recs {
		if rec.Errno != 0 {
			continue
		}
		if prev, ok := firstIno[rec.Name]; ok && prev != rec.Ino {
			c.violate("ino:unstable-on-repetition", fmt.Sprintf("%q in %q: Lookup returned ino %#x, later %#x", rec.Name, dir, prev, rec.Ino),
				map[string]any{"dir": dir, "name": rec.Name})
		}
		firstIno[rec.Name] = rec.Ino
	}
	for _, name := range listedNames() {
		e := listed[name]
		p := joinp(dir, name)
		ch, ok := kids[name]
		if !ok {
			// listed but never looked up successfully (already reported by clause 2): keep
			// what the listing says so that clause 1 and the merge see the name.
			out.Kids[name] = &oc.Node{Type: typeOfMode(e.Mode), Ino: e.Ino}
			if out.Kids[name].IsDir() {
				out.Kids[name].Kids = map[string]*oc.Node{}
			}
			continue
		}
		la := kidAttr[name]
		ga, errno := ch.n().Getattr()
		if errno != 0 {
			c.violate("getattr:error", fmt.Sprintf("Getattr(%q) = %s", p, errnoName(errno)), map[string]any{"path": p})
			ga = la
		}
		if e.Ino != la.Ino {
			c.violate("ino:readdir-vs-lookup", fmt.Sprintf("%q: Readdir says ino %#x, Lookup %#x", p, e.Ino, la.Ino), map[string]any{"path": p})
		}
		if la.Ino != ga.Ino {
			c.violate("ino:lookup-vs-getattr", fmt.Sprintf("%q: Lookup says ino %#x, Getattr %#x", p, la.Ino, ga.Ino), map[string]any{"path": p})
		}
		// Only the file type is judged: the statement fixes type and device number of what
		// is served, not that Lookup and Getattr repeat the same permission bits (observed on
		// the unchanged tree: a whiteout found through go-fuse's child table is answered by
		// entryToAttr with the permission bits/owner of the ".wh." file, by Getattr with 0/0).
		if e.Mode&syscall.S_IFMT != la.Mode&syscall.S_IFMT || la.Mode&syscall.S_IFMT != ga.Mode&syscall.S_IFMT {
			c.violate("type:readdir-lookup-getattr-differ", fmt.Sprintf("%q: Readdir mode %o, Lookup %o, Getattr %o", p, e.Mode, la.Mode, ga.Mode), map[string]any{"path": p})
		} else if la.Mode != ga.Mode || la.Owner != ga.Owner {
			c.r.Count("observed_lookup_vs_getattr_permission_or_owner_differ(not judged)", 1)
		}
		if la.Rdev != ga.Rdev {
			c.violate("type:lookup-vs-getattr-rdev", fmt.Sprintf("%q: Lookup rdev %#x, Getattr rdev %#x", p, la.Rdev, ga.Rdev), map[string]any{"path": p})
		}
		c.inoPaths[ga.Ino] = append(c.inoPaths[ga.Ino], p)
		n := nodeFromAttr(&ga)
		out.Kids[name] = n
		c.nodes++
		switch n.Type {
		case tar.TypeSymlink:
			n.Link, _ = ch.n().Readlink()
		case tar.TypeReg:
			n.Content = c.readAll(ch, p, n.Size)
		case tar.TypeDir:
			c.opaqueOf(ch, p, n)
			if depth < 24 && c.nodes < 4000 {
				c.visitDir(ch, p, n, depth+1)
			} else {
				c.truncated = true
			}
		}
	}
}

func (c *capture) readAll(v *vnode, p string, size int64) string {
	fh, _, errno := v.n().Open()
	if errno != 0 {
		c.violate("read:open-error", fmt.Sprintf("Open(%q) = %s", p, errnoName(errno)), map[string]any{"path": p})
		return "open-error"
	}
	defer nodefs.Release(fh)
	b, errno := nodefs.Read(fh, 0, int(size)+16)
	if errno != 0 {
		c.violate("read:error", fmt.Sprintf("Read(%q) = %s", p, errnoName(errno)), map[string]any{"path": p})
		return "read-error"
	}
	return oc.ContentHash(b)
}

// opaqueOf judges the xattr half of clause 1 on one directory and sets n.Opaque to what
// overlayfs would conclude in this mode.
func (c *capture) opaqueOf(v *vnode, p string, n *oc.Node) {
	names, errno := v.n().Listxattr()
	if errno != 0 {
		c.violate("opaque-xattr:listxattr-error", fmt.Sprintf("Listxattr(%q) = %s", p, errnoName(errno)), map[string]any{"path": p})
	}
	inList := map[string]bool{}
	for _, x := range names {
		inList[x] = true
	}
	conf := configuredXattrs(c.mode)
	want := false
	if e := lookupNode(c.exp, p); e != nil {
		want = e.Opaque
	}
	got := map[string]bool{}
	for _, x := range []string{xattrTrusted, xattrUser} {
		val, errno := v.n().Getxattr(x)
		present := errno == 0
		got[x] = present
		rp := map[string]any{"path": p, "xattr": x, "opaque_mode": modeName(c.mode), "getxattr": errnoName(errno), "value": string(val), "listed": inList[x]}
		switch {
		case errno != 0 && errno != syscall.ENODATA:
			c.violate("opaque-xattr:getxattr-error", fmt.Sprintf("Getxattr(%q, %s) = %s", p, x, errnoName(errno)), rp)
		case present != inList[x]:
			c.violate("opaque-xattr:get-list-disagree", fmt.Sprintf("%q %s: Getxattr=%s but Listxattr lists it = %v", p, x, errnoName(errno), inList[x]), rp)
		case present && string(val) != "y":
			c.violate("opaque-xattr:value", fmt.Sprintf("%q %s = %q, want \"y\"", p, x, val), rp)
		case want && conf[x] && !present:
			c.violate("opaque-xattr:configured-name-missing", fmt.Sprintf("opaque directory %q in mode %s: %s is not set", p, modeName(c.mode), x), rp)
		case want && !conf[x] && present:
			c.violate("opaque-xattr:unconfigured-name-answered", fmt.Sprintf("opaque directory %q in mode %s answers %s, which this mode does not configure", p, modeName(c.mode), x), rp)
		case !want && present:
			c.violate("opaque-xattr:set-on-non-opaque-dir", fmt.Sprintf("directory %q has no opaque marker but %s is set", p, x), rp)
		}
	}
	// what overlayfs would read in this mode: trusted.* without the userxattr mount option,
	// user.* with it; in mode "all" both must agree (judged above), take trusted.
	switch c.mode {
	case layer.OverlayOpaqueUser:
		n.Opaque = got[xattrUser]
	default:
		n.Opaque = got[xattrTrusted]
	}
}

func lookupNode(root *oc.Node, p string) *oc.Node {
	cur := root
	if p == "" {
		return cur
	}
	for _, comp := range strings.Split(p, "/") {
		if cur == nil || cur.Kids == nil {
			return nil
		}
		cur = cur.Kids[comp]
	}
	return cur
}

func sameListing(a, b []fuse.DirEntry) bool {
	if len(a) != len(b) {
		return false
	}
	for i := range a {
		if a[i].Name != b[i].Name || a[i].Ino != b[i].Ino || a[i].Mode != b[i].Mode {
			return false
		}
	}
	return true
}

func fmtListing(es []fuse.DirEntry) string {
	var sb strings.Builder
	sb.WriteString("[")
	for i, e := range es {
		if e.Name == "." || e.Name == ".." {
			continue
		}
		if i > 0 && sb.Len() > 1 {
			sb.WriteString(" ")
		}
		t := "?"
		switch e.Mode & syscall.S_IFMT {
		case syscall.S_IFDIR:
			t = "d"
		case syscall.S_IFREG:
			t = "-"
		case syscall.S_IFLNK:
			t = "l"
		case syscall.S_IFCHR:
			t = "c"
		case syscall.S_IFBLK:
			t = "b"
		case syscall.S_IFIFO:
			t = "p"
		}
		fmt.Fprintf(&sb, "%s:%q", t, e.Name)
		if sb.Len() > 600 {
			sb.WriteString(" …")
			break
		}
	}
	sb.WriteString("]")
	return sb.String()
}

// hardlinkGroups maps every clean path of a regular file / hardlink of the layer to the
// path of its final target.
func hardlinkGroups(ents []gen.Entry) map[string]string {
	target := map[string]string{}
	res := map[string]string{}
	for _, e := range ents {
		c := gen.Clean(e.Name)
		switch e.Type {
		case tar.TypeLink:
			target[c] = gen.Clean(e.Linkname)
			res[c] = c
		case tar.TypeDir:
		default:
			res[c] = c
		}
	}
	for p := range res {
		t := p
		for i := 0; i < 100; i++ {
			nt, ok := target[t]
			if !ok {
				break
			}
			t = nt
		}
		res[p] = t
	}
	return res
}

// judgeInodes is the global half of clause 3: unique within the layer, shared exactly by
// hardlinked names, never 0, never the state directory's or the state file's number, and
// inside the number space the caller of RootNode(baseInode) asked for.
func (c *capture) judgeInodes(stateIno, statFileIno uint64) {
	byGroup := map[string]map[uint64]bool{}
	for ino, paths := range c.inoPaths {
		sort.Strings(paths)
		grp := map[string]bool{}
		for _, p := range paths {
			g, ok := c.groups[p]
			if !ok {
				g = "own:" + p // directories, synthesised whiteouts
			}
			grp[g] = true
			if byGroup[g] == nil {
				byGroup[g] = map[uint64]bool{}
			}
			byGroup[g][ino] = true
		}
		rp := map[string]any{"ino": fmt.Sprintf("%#x", ino), "paths": paths, "base_inode": c.base}
		if len(grp) > 1 {
			c.violate("ino:collision", fmt.Sprintf("inode %#x is shared by names that are not hardlinks of each other: %q", ino, paths), rp)
		}
		if ino == 0 {
			c.violate("ino:zero", fmt.Sprintf("inode 0 served for %q", paths), rp)
		}
		if ino == stateIno || ino == statFileIno {
			c.violate("ino:collision-with-state-dir", fmt.Sprintf("inode %#x of %q is also the inode of the state directory/file (%#x/%#x)", ino, paths, stateIno, statFileIno), rp)
		}
		if uint32(ino>>32) != c.base {
			c.violate("ino:base-inode-not-applied", fmt.Sprintf("RootNode(baseInode=%#x) served inode %#x for %q (upper 32 bits are not the base)", c.base, ino, paths), rp)
		}
	}
	for g, inos := range byGroup {
		if len(inos) > 1 {
			c.violate("ino:hardlink-names-differ", fmt.Sprintf("the names of hardlink group %q are served with %d different inode numbers", g, len(inos)),
				map[string]any{"group": g})
		}
	}
}

// stateReport is what the state file said.
type stateReport struct {
	sf          *vnode
	ok          bool
	stateIno    uint64
	statFileIno uint64
	fetched     int64
}

// judgeState is clause 5: <root>/.stargz-snapshotter/<digest>.json parses as JSON and
// reports the layer digest, the blob size and a fetched size equal to Layer.Info() at
// that moment (bracketed by two Info() calls: fetched size only grows).
func (c *capture) judgeState(root *vnode, l layer.Layer, wantDigest string, wantSize int64) stateReport {
	var rep stateReport
	sd, eo, errno := c.drv.lookup(root, oc.StateDir)
	if errno != 0 {
		c.violate("state:dir-lookup-failed", fmt.Sprintf("Lookup(%q) in the root = %s", oc.StateDir, errnoName(errno)), nil)
		return rep
	}
	rep.stateIno = eo.Attr.Ino
	if eo.Attr.Mode&syscall.S_IFMT != syscall.S_IFDIR {
		c.violate("state:dir-not-a-directory", fmt.Sprintf("state directory has mode %o", eo.Attr.Mode), nil)
	}
	if ga, errno := sd.n().Getattr(); errno != 0 || ga.Ino != eo.Attr.Ino {
		c.violate("ino:lookup-vs-getattr", fmt.Sprintf("state directory: Lookup ino %#x, Getattr %#x (%s)", eo.Attr.Ino, ga.Ino, errnoName(errno)), nil)
	}
	ents, errno := sd.n().Readdir()
	if errno != 0 || len(ents) != 1 {
		c.violate("state:dir-listing", fmt.Sprintf("Readdir(state dir) = %s %s, want exactly the state file", errnoName(errno), fmtListing(ents)), nil)
		return rep
	}
	name := ents[0].Name
	if name != wantDigest+".json" {
		c.violate("state:file-name", fmt.Sprintf("state file is named %q, want %q", name, wantDigest+".json"), nil)
	}
	// listing and lookup agree inside the state directory as well
	if _, _, errno := c.drv.lookup(sd, "absent.json"); errno == 0 {
		c.violate("list-lookup-disagree:unlisted-name-lookup-succeeds:state-dir", "Lookup(\"absent.json\") in the state directory succeeds", nil)
	}
	sf, feo, errno := c.drv.lookup(sd, name)
	if errno != 0 {
		c.violate("list-lookup-disagree:listed-entry-lookup-fails:state-dir", fmt.Sprintf("state file %q is listed but Lookup = %s", name, errnoName(errno)), nil)
		return rep
	}
	rep.statFileIno = feo.Attr.Ino
	if ents[0].Ino != feo.Attr.Ino {
		c.violate("ino:readdir-vs-lookup", fmt.Sprintf("state file: Readdir ino %#x, Lookup %#x", ents[0].Ino, feo.Attr.Ino), nil)
	}
	before := l.Info()
	rr, dest, errno := c.readState(sf)
	after := l.Info()
	if errno != 0 {
		c.violate("state:file-unreadable", fmt.Sprintf("Read(state file) = %s", errnoName(errno)), nil)
		return rep
	}
	data, st := rr.Bytes(dest)
	if st != fuse.OK {
		c.violate("state:file-unreadable", fmt.Sprintf("Read(state file) status %v", st), nil)
		return rep
	}
	data = append([]byte(nil), data...)
	rr.Done()
	fetched, ok := c.judgeStateData(data, &before, &after, wantDigest, wantSize, "extracted at once")
	if !ok {
		return rep
	}
	rep.sf = sf
	rep.ok, rep.fetched = true, fetched
	switch {
	case fetched == wantSize:
		c.r.Count("state_fetched_equals_size", 1)
	case fetched > 0:
		c.r.Count("state_fetched_partial", 1)
	default:
		c.r.Count("state_fetched_zero", 1)
	}
	return rep
}

// readState calls the Read handler of the state file (through go-fuse's raw bridge when the
// bridge driver is in use) and returns the ReadResult WITHOUT extracting its bytes: that is
// the state in which the FUSE server holds a reply between the handler's return and the
// write to /dev/fuse.
func (c *capture) readState(sf *vnode) (fuse.ReadResult, []byte, syscall.Errno) {
	dest := make([]byte, 1<<16)
	if c.drv.bridge && sf.nodeID != 0 {
		var oo fuse.OpenOut
		in := fuse.OpenIn{InHeader: fuse.InHeader{NodeId: sf.nodeID}}
		if st := c.drv.raw.Open(nil, &in, &oo); st != fuse.OK {
			return nil, nil, syscall.Errno(st)
		}
		defer c.drv.raw.Release(nil, &fuse.ReleaseIn{InHeader: fuse.InHeader{NodeId: sf.nodeID}, Fh: oo.Fh})
		rr, st := c.drv.raw.Read(nil, &fuse.ReadIn{InHeader: fuse.InHeader{NodeId: sf.nodeID}, Fh: oo.Fh, Offset: 0, Size: uint32(len(dest))}, dest)
		if st != fuse.OK {
			return nil, nil, syscall.Errno(st)
		}
		return rr, dest, 0
	}
	rd, ok := sf.ops.(fusefs.NodeReader)
	if !ok {
		return nil, nil, syscall.ENOSYS
	}
	rr, errno := rd.Read(bg, nil, dest, 0)
	return rr, dest, errno
}

// judgeStateData judges one reply of the state file: valid JSON, layer digest, blob size,
// 0 <= fetchedSize <= size and, when before/after are given, inside the bracket of the two
// Layer.Info() calls around the Read handler.
func (c *capture) judgeStateData(data []byte, before, after *layer.Info, wantDigest string, wantSize int64, how string) (int64, bool) {
	rp := map[string]any{"state_file": string(data), "reply": how}
	if before != nil {
		rp["info_before"], rp["info_after"] = before.FetchedSize, after.FetchedSize
	}
	var doc map[string]any
	if err := json.Unmarshal(data, &doc); err != nil {
		c.violate("state:not-json", fmt.Sprintf("state file (%s) does not parse: %v: %q", how, err, data), rp)
		return 0, false
	}
	if d, _ := doc["digest"].(string); d != wantDigest {
		c.violate("state:digest", fmt.Sprintf("state file (%s) digest %q, layer digest %q", how, d, wantDigest), rp)
	}
	if before != nil && (before.Digest.String() != wantDigest || before.Size != wantSize) {
		c.violate("state:layer-info", fmt.Sprintf("Layer.Info() = %s/%d, published %s/%d", before.Digest, before.Size, wantDigest, wantSize), rp)
	}
	sz, ok1 := doc["size"].(float64)
	if !ok1 || int64(sz) != wantSize {
		c.violate("state:size", fmt.Sprintf("state file (%s) size %v, blob size %d", how, doc["size"], wantSize), rp)
	}
	f, ok2 := doc["fetchedSize"].(float64)
	fetched := int64(f)
	switch {
	case !ok2:
		c.violate("state:fetched-size-missing", fmt.Sprintf("state file (%s) has no numeric fetchedSize: %q", how, data), rp)
	case fetched < 0 || fetched > wantSize:
		c.violate("state:fetched-size-out-of-range", fmt.Sprintf("fetchedSize %d not in [0,%d] (%s)", fetched, wantSize, how), rp)
	case before != nil && (fetched < before.FetchedSize || fetched > after.FetchedSize):
		c.violate("state:fetched-size-differs-from-info", fmt.Sprintf("fetchedSize %d (%s), Layer.Info().FetchedSize was %d just before and %d just after the Read", fetched, how, before.FetchedSize, after.FetchedSize), rp)
	}
	if e, _ := doc["error"].(string); e != "" {
		c.r.Distinct("state_file_errors", e)
	}
	return fetched, true
}

// heldRead is a reply of the state file whose bytes have not been extracted yet.
type heldRead struct {
	rr            fuse.ReadResult
	dest          []byte
	before, after layer.Info
	sf            *vnode
}

// holdStateRead performs the Read handler now and leaves the reply un-extracted (clause 5a).
func (c *capture) holdStateRead(sf *vnode, l layer.Layer) *heldRead {
	h := &heldRead{sf: sf}
	h.before = l.Info()
	rr, dest, errno := c.readState(sf)
	h.after = l.Info()
	if errno != 0 {
		return nil
	}
	h.rr, h.dest = rr, dest
	return h
}

// judgeHeld: after other requests were served (file data was read, so the fetched size may
// have grown), the state file is stat'ed and read again, and only then the bytes of the
// FIRST reply are extracted, as the FUSE server does after the handler returned. They must
// still be the valid JSON of that first read.
func (c *capture) judgeHeld(h *heldRead, l layer.Layer, wantDigest string, wantSize int64) {
	if h == nil {
		return
	}
	_, _ = h.sf.n().Getattr()
	now := l.Info()
	if rr2, dest2, errno := c.readState(h.sf); errno == 0 {
		if b, st := rr2.Bytes(dest2); st == fuse.OK {
			c.judgeStateData(append([]byte(nil), b...), nil, nil, wantDigest, wantSize, "later read")
		}
		rr2.Done()
	}
	data, st := h.rr.Bytes(h.dest)
	if st != fuse.OK {
		c.violate("state:file-unreadable", fmt.Sprintf("held Read(state file) status %v", st), nil)
		return
	}
	data = append([]byte(nil), data...)
	h.rr.Done()
	c.judgeStateData(data, &h.before, &h.after, wantDigest, wantSize, "reply extracted after later requests on the state file")
	c.r.Count("state_replies_extracted_late", 1)
	if now.FetchedSize != h.after.FetchedSize {
		c.r.Count("state_replies_extracted_late_after_fetched_size_changed", 1)
	}
}

// concurrentState (clause 5b): readers of the state file hold each reply for a moment
// before extracting it while another goroutine stats the state file and the walker (the
// caller) reads file data. Every reply must be valid JSON with the right digest and size.
func (c *capture) concurrentState(sf *vnode, wantDigest string, wantSize int64) (stop func()) {
	var wg sync.WaitGroup
	var done atomic.Bool
	var replies atomic.Int64
	for g := 0; g < 3; g++ {
		wg.Add(1)
		go func() {
			defer wg.Done()
			defer func() {
				if x := recover(); x != nil {
					c.violate("panic:concurrent-state-file-read", fmt.Sprint(x), nil)
				}
			}()
			for i := 0; i < 400 && !done.Load(); i++ {
				rr, dest, errno := c.readState(sf)
				if errno != 0 {
					c.violate("state:file-unreadable", "concurrent Read(state file) = "+errnoName(errno), nil)
					return
				}
				runtime.Gosched()
				b, st := rr.Bytes(dest)
				if st == fuse.OK {
					c.judgeStateData(append([]byte(nil), b...), nil, nil, wantDigest, wantSize, "concurrent readers, reply extracted after a yield")
				}
				rr.Done()
				replies.Add(1)
			}
		}()
	}
	wg.Add(1)
	go func() {
		defer wg.Done()
		for i := 0; i < 2000 && !done.Load(); i++ {
			_, _ = sf.n().Getattr()
			runtime.Gosched()
		}
	}()
	return func() {
		done.Store(true)
		wg.Wait()
		c.r.Count("state_concurrent_replies_judged", int(replies.Load()))
	}
}
