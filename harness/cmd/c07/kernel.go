package main

import (
	"archive/tar"
	"context"
	"encoding/json"
	"fmt"
	"os"
	"path/filepath"
	"sort"
	"strings"
	"sync"
	"sync/atomic"
	"syscall"
	"time"

	"github.com/containerd/containerd/v2/plugins/snapshots/overlay/overlayutils"
	"github.com/containerd/stargz-snapshotter/estargz"
	stargzfs "github.com/containerd/stargz-snapshotter/fs"
	"github.com/containerd/stargz-snapshotter/fs/config"
	"github.com/containerd/stargz-snapshotter/fs/layer"
	"github.com/containerd/stargz-snapshotter/service"
	"github.com/containerd/stargz-snapshotter/snapshot"
	fusefs "github.com/hanwen/go-fuse/v2/fs"
	"github.com/hanwen/go-fuse/v2/fuse"
	"golang.org/x/sys/unix"

	"verifharness/internal/gen"
	"verifharness/internal/l2"
	"verifharness/internal/memreg"
	oc "verifharness/internal/ocistack"
	"verifharness/internal/prng"
	"verifharness/internal/vf"
)

// probeCaps checks FUSE and overlayfs in the (private) mount namespace.
func probeCaps(r *vf.Run) map[string]bool {
	caps := map[string]bool{}
	if f, err := os.OpenFile("/dev/fuse", os.O_RDWR, 0); err == nil {
		f.Close()
		caps["fuse"] = true
	}
	d := filepath.Join(r.Scratch, "probe")
	for _, s := range []string{"l1", "l2", "m"} {
		_ = os.MkdirAll(filepath.Join(d, s), 0o755)
	}
	if err := unix.Mount("overlay", filepath.Join(d, "m"), "overlay", unix.MS_RDONLY,
		"lowerdir="+filepath.Join(d, "l1")+":"+filepath.Join(d, "l2")); err == nil {
		caps["overlay"] = true
		_ = unix.Unmount(filepath.Join(d, "m"), 0)
	}
	return caps
}

// cleanup is a LIFO of undo actions, run on every path out of a case.
type cleanup []func()

func (c *cleanup) add(f func()) { *c = append(*c, f) }
func (c *cleanup) run() {
	for i := len(*c) - 1; i >= 0; i-- {
		(*c)[i]()
	}
	*c = nil
}

func forceUnmount(p string) {
	for i := 0; i < 5; i++ {
		err := unix.Unmount(p, 0)
		if err == nil || err == unix.EINVAL || err == unix.ENOENT {
			return
		}
		time.Sleep(50 * time.Millisecond)
	}
	_ = unix.Unmount(p, unix.MNT_DETACH)
}

func mountLayer(dir string, rn fusefs.InodeEmbedder, to time.Duration) (*fuse.Server, error) {
	// the options of fs.Mount
	return fusefs.Mount(dir, rn, &fusefs.Options{AttrTimeout: &to, EntryTimeout: &to, NullPermissions: true,
		MountOptions: fuse.MountOptions{AllowOther: true, FsName: "stargz", DirectMount: true}})
}

func nodeFromStat(st *unix.Stat_t) *oc.Node {
	n := &oc.Node{Type: typeOfMode(st.Mode), Mode: st.Mode & 0o7777, UID: st.Uid, GID: st.Gid, MTime: st.Mtim.Sec, Ino: st.Ino}
	switch n.Type {
	case tar.TypeReg:
		n.Size = st.Size
	case tar.TypeChar, tar.TypeBlock:
		n.Major, n.Minor = unix.Major(uint64(st.Rdev)), unix.Minor(uint64(st.Rdev))
	case tar.TypeDir:
		n.Kids = map[string]*oc.Node{}
	}
	return n
}

func sysGetxattr(p, name string) (string, syscall.Errno) {
	buf := make([]byte, 64)
	n, err := unix.Lgetxattr(p, name, buf)
	if err != nil {
		if e, ok := err.(syscall.Errno); ok {
			return "", e
		}
		return "", syscall.EIO
	}
	return string(buf[:n]), 0
}

func sysListxattr(p string) (map[string]bool, error) {
	buf := make([]byte, 4096)
	n, err := unix.Llistxattr(p, buf)
	if err != nil {
		return nil, err
	}
	res := map[string]bool{}
	for _, s := range strings.Split(string(buf[:n]), "\x00") {
		if s != "" {
			res[s] = true
		}
	}
	return res, nil
}

// sysWalker walks a mounted tree with system calls.
type sysWalker struct {
	r        *vf.Run
	prefix   string // key prefix: "kernel-lower" | "kernel-merge" | "l3"
	ctx      map[string]any
	lower    bool // a single FUSE layer (judge xattrs, listing vs lstat) rather than the overlay
	mode     layer.OverlayOpaqueType
	exp      *oc.Node
	rawFS    *gen.FS
	nodes    int
	bareWh   map[string]bool // directories in which a layer has a file named exactly ".wh."
	aborted  bool            // a known defect class made the rest of this walk meaningless
	whPassed int             // overlay: whiteouts of a non-merged lower directory shown by readdir, ENOENT on lstat (kernel behaviour)
	trunc    bool
}

func (w *sysWalker) violate(key, what string, extra map[string]any) {
	rp := map[string]any{}
	for k, v := range w.ctx {
		rp[k] = v
	}
	for k, v := range extra {
		rp[k] = v
	}
	w.r.Violate(key, what, rp)
}

func (w *sysWalker) walk(abs, rel string, out *oc.Node, depth int) {
	if depth > 24 || w.nodes > 4000 {
		w.trunc = true
		return
	}
	f, err := os.Open(abs)
	if err != nil {
		w.violate(w.prefix+":opendir-error", fmt.Sprintf("open %q: %v", rel, errText(err)), map[string]any{"path": rel})
		return
	}
	ents, err := f.ReadDir(-1)
	f.Close()
	if err != nil && w.bareWh[rel] {
		// the kernel rejects a dirent with an empty name: same defect, same key as in L2
		w.violate("lower-view:empty-name-in-listing", fmt.Sprintf("getdents(%q) = %v: a layer of the stack has a file named \".wh.\" here, which is listed with the empty name", rel, errText(err)),
			map[string]any{"dir": rel, "stage": w.prefix})
		w.aborted = true
		return
	}
	if err != nil {
		w.violate(w.prefix+":readdir-error", fmt.Sprintf("readdir %q: %v", rel, errText(err)), map[string]any{"path": rel})
		return
	}
	listed := map[string]bool{}
	var names []string
	for _, e := range ents {
		if listed[e.Name()] {
			w.violate(w.prefix+":duplicate-name-in-listing", fmt.Sprintf("getdents(%q) returns %q twice", rel, e.Name()), map[string]any{"path": rel})
			continue
		}
		listed[e.Name()] = true
		names = append(names, e.Name())
	}
	sort.Strings(names)
	dtype := map[string]os.FileMode{}
	for _, e := range ents {
		dtype[e.Name()] = e.Type()
	}
	for _, name := range names {
		p := filepath.Join(abs, name)
		cr := joinp(rel, name)
		var st unix.Stat_t
		if err := unix.Lstat(p, &st); err != nil {
			isChr := dtype[name]&os.ModeCharDevice != 0
			if !w.lower && err == unix.ENOENT && isChr {
				// overlayfs passes the raw listing of a non-merged lower directory through,
				// whiteouts included, and answers ENOENT on lookup: kernel behaviour with
				// any lower filesystem, not judged.
				w.whPassed++
				continue
			}
			if w.lower {
				// same keys as the L2 stage: one defect, one identity
				key := "list-lookup-disagree:listed-entry-lookup-fails:kernel"
				if oc.HiddenName(rel, name) {
					key = "list-lookup-disagree:whiteout-of-hidden-name"
				}
				w.violate(key, fmt.Sprintf("getdents(%q) lists %q (d_type %v) but lstat = %v", rel, name, dtype[name], errText(err)), map[string]any{"dir": rel, "name": name})
				out.Kids[name] = &oc.Node{Type: tar.TypeChar}
				continue
			}
			w.violate(w.prefix+":listed-lstat-fails", fmt.Sprintf("merged %q lists %q but lstat = %v", rel, name, errText(err)), map[string]any{"dir": rel, "name": name})
			continue
		}
		n := nodeFromStat(&st)
		out.Kids[name] = n
		w.nodes++
		switch n.Type {
		case tar.TypeSymlink:
			n.Link, _ = os.Readlink(p)
		case tar.TypeReg:
			b, err := os.ReadFile(p)
			if err != nil {
				w.violate(w.prefix+":read-error", fmt.Sprintf("read %q: %v", cr, errText(err)), map[string]any{"path": cr})
			}
			n.Content = oc.ContentHash(b)
		case tar.TypeDir:
			if w.lower {
				w.opaque(p, cr, n)
			}
			w.walk(p, cr, n, depth+1)
		}
	}
	if !w.lower {
		return
	}
	// hidden and absent names must not be reachable through the kernel either
	var probes []string
	if rn := w.rawFS.Nodes[rel]; rn != nil {
		for name := range rn.Children {
			if strings.HasPrefix(name, oc.WhPrefix) {
				probes = append(probes, name)
			}
		}
	}
	probes = append(probes, oc.OpaqueMarker, "absent-name")
	if rel == "" {
		probes = append(probes, oc.LandmarkPrefetch, oc.LandmarkNo, oc.TOCName)
	}
	sort.Strings(probes)
	for _, name := range probes {
		if listed[name] {
			continue
		}
		var st unix.Stat_t
		if err := unix.Lstat(filepath.Join(abs, name), &st); err == nil {
			w.violate("list-lookup-disagree:unlisted-name-lookup-succeeds:kernel", fmt.Sprintf("%q is not listed in %q but lstat succeeds (mode %o)", name, rel, st.Mode),
				map[string]any{"dir": rel, "name": name})
		}
	}
}

func errText(err error) string {
	if pe, ok := err.(*os.PathError); ok {
		err = pe.Err
	}
	if e, ok := err.(syscall.Errno); ok {
		return unix.ErrnoName(e)
	}
	return err.Error()
}

// opaque judges which opaque xattr the kernel sees on a directory of a FUSE layer.
func (w *sysWalker) opaque(abs, rel string, n *oc.Node) {
	conf := configuredXattrs(w.mode)
	want := false
	if e := lookupNode(w.exp, rel); e != nil {
		want = e.Opaque
	}
	lst, lerr := sysListxattr(abs)
	got := map[string]bool{}
	for _, x := range []string{xattrTrusted, xattrUser} {
		v, errno := sysGetxattr(abs, x)
		present := errno == 0
		got[x] = present
		rp := map[string]any{"path": rel, "xattr": x, "opaque_mode": modeName(w.mode), "getxattr": errnoName(errno), "value": v}
		switch {
		case errno != 0 && errno != syscall.ENODATA:
			w.violate(w.prefix+":opaque-xattr:getxattr-error", fmt.Sprintf("lgetxattr(%q, %s) = %s", rel, x, errnoName(errno)), rp)
		case present && v != "y":
			w.violate(w.prefix+":opaque-xattr:value", fmt.Sprintf("%q %s = %q", rel, x, v), rp)
		case lerr == nil && present != lst[x]:
			w.violate(w.prefix+":opaque-xattr:get-list-disagree", fmt.Sprintf("%q %s: lgetxattr=%s, llistxattr lists it = %v", rel, x, errnoName(errno), lst[x]), rp)
		case want && conf[x] && !present:
			w.violate(w.prefix+":opaque-xattr:configured-name-missing", fmt.Sprintf("opaque directory %q, mode %s: the kernel does not see %s", rel, modeName(w.mode), x), rp)
		case want && !conf[x] && present:
			w.violate(w.prefix+":opaque-xattr:unconfigured-name-answered", fmt.Sprintf("opaque directory %q, mode %s: the kernel sees %s", rel, modeName(w.mode), x), rp)
		case !want && present:
			w.violate(w.prefix+":opaque-xattr:set-on-non-opaque-dir", fmt.Sprintf("directory %q is not opaque but the kernel sees %s", rel, x), rp)
		}
	}
	if w.mode == layer.OverlayOpaqueUser {
		n.Opaque = got[xattrUser]
	} else {
		n.Opaque = got[xattrTrusted]
	}
}

func diffKey(prefix string, d oc.Difference) string {
	key := prefix + ":" + d.Class
	switch d.Class {
	case "missing":
		key += ":" + d.Want
	case "extra":
		key += ":" + d.Got
	case "type":
		key += ":" + d.Want + "->" + d.Got
	}
	return key
}

// walkLower walks one mounted FUSE layer and judges it against the expected lower view.
func walkLower(r *vf.Run, prefix, mp string, mode layer.OverlayOpaqueType, exp *oc.Node, raw *gen.FS, ctx map[string]any) (*oc.Node, bool) {
	w := &sysWalker{r: r, prefix: prefix, ctx: ctx, lower: true, mode: mode, exp: exp, rawFS: raw, bareWh: bareWhDirs(raw)}
	var st unix.Stat_t
	if err := unix.Lstat(mp, &st); err != nil {
		w.violate(prefix+":root-lstat", errText(err), nil)
		return nil, false
	}
	root := nodeFromStat(&st)
	root.AttrUnknown = true
	if root.Kids == nil {
		w.violate(prefix+":root-not-a-directory", fmt.Sprintf("mode %o", st.Mode), nil)
		return nil, false
	}
	w.opaque(mp, "", root)
	w.walk(mp, "", root, 0)
	if w.aborted {
		return nil, false
	}
	if w.trunc {
		r.Inconclusive("walker bound reached (" + prefix + ")")
		return nil, false
	}
	for _, d := range oc.Diff(exp, root, oc.DiffOpts{Opaque: true}) {
		ctx["diff"] = d.String()
		r.Violate(diffKey(prefix+":lower-view", d), fmt.Sprintf("through the kernel, layer %v is not the overlayfs translation of its tar: %s", ctx["layer"], d), ctx)
	}
	r.Count(prefix+"_nodes_walked", w.nodes)
	return root, true
}

// checkStateFileSys reads the state file through the kernel (clause 5 without Info()).
func checkStateFileSys(r *vf.Run, prefix, mp, wantDigest string, wantSize int64, ctx map[string]any) {
	p := filepath.Join(mp, oc.StateDir, wantDigest+".json")
	b, err := readStateSys(p)
	if err == nil && !json.Valid(b) {
		// The kernel clamps / zero-pads a read to the file size it cached from an earlier
		// GETATTR (attr timeout up to 1 s); the state file's length changes whenever the
		// fetched size gains or loses a digit. Nothing fetches any more at this point, so
		// one re-read after the timeout sees the server's reply as it is.
		r.Count(prefix+"_state_file_reread_after_attr_timeout", 1)
		time.Sleep(1200 * time.Millisecond)
		b, err = readStateSys(p)
	}
	if err != nil {
		r.Violate(prefix+":state:file-unreadable", fmt.Sprintf("read %s/%s.json: %v", oc.StateDir, wantDigest, errText(err)), ctx)
		return
	}
	var doc struct {
		Digest      string `json:"digest"`
		Size        *int64 `json:"size"`
		FetchedSize *int64 `json:"fetchedSize"`
	}
	if err := json.Unmarshal(b, &doc); err != nil {
		r.Violate(prefix+":state:not-json", fmt.Sprintf("%v: %q", err, b), ctx)
		return
	}
	if doc.Digest != wantDigest || doc.Size == nil || *doc.Size != wantSize || doc.FetchedSize == nil || *doc.FetchedSize < 0 || *doc.FetchedSize > wantSize {
		r.Violate(prefix+":state:content", fmt.Sprintf("state file %q, want digest %s size %d and 0<=fetchedSize<=size", b, wantDigest, wantSize), ctx)
		return
	}
	ents, err := os.ReadDir(filepath.Join(mp, oc.StateDir))
	if err != nil || len(ents) != 1 || ents[0].Name() != wantDigest+".json" {
		r.Violate(prefix+":state:dir-listing", fmt.Sprintf("state directory listing %v (%v)", ents, err), ctx)
	}
	r.Count(prefix+"_state_files_parsed", 1)
}

// readStateSys reads the state file with O_DIRECT: one read(2) is one FUSE READ whose
// reply reaches the caller as the server wrote it. A buffered read is clamped by the kernel
// to the file size it cached from an earlier GETATTR, which legitimately lags behind a
// state file whose JSON just grew by a digit, so a buffered short read proves nothing.
func readStateSys(p string) ([]byte, error) {
	fd, err := unix.Open(p, unix.O_RDONLY|unix.O_DIRECT, 0)
	if err != nil {
		return os.ReadFile(p)
	}
	defer unix.Close(fd)
	buf := make([]byte, 1<<16)
	n, err := unix.Pread(fd, buf, 0)
	if err != nil {
		return nil, err
	}
	return buf[:n], nil
}

// concurrentStateSys: readers of the state file of a freshly mounted layer run through the
// kernel while another goroutine reads every regular file (the fetched size grows) and stats
// the state file. This is workload only (crashes, hangs, EIO): the CONTENT of these replies
// is deliberately not judged. Without FOPEN_DIRECT_IO the kernel sizes every read by the
// i_size it cached from some earlier GETATTR and completes a short O_DIRECT read through the
// page cache, so with a state file whose length changes it pads with NULs, truncates, or
// glues the tail of a later reply to an earlier one — on correct code too (observed on the
// unchanged tree: "…}\n\x00"). Clause 5b is judged where replies can be observed exactly:
// at L2 (capture.concurrentState, replies held across a yield).
func concurrentStateSys(r *vf.Run, mp, wantDigest string, wantSize int64, ctx map[string]any) {
	p := filepath.Join(mp, oc.StateDir, wantDigest+".json")
	var wg sync.WaitGroup
	var done atomic.Bool
	var replies, odd atomic.Int64
	for g := 0; g < 3; g++ {
		wg.Add(1)
		go func() {
			defer wg.Done()
			for i := 0; i < 300 && !done.Load(); i++ {
				b, err := readStateSys(p)
				if err != nil {
					r.Violate("kernel-lower:state:file-unreadable", "concurrent read of the state file: "+errText(err), ctx)
					return
				}
				if !json.Valid(b) {
					odd.Add(1)
				}
				replies.Add(1)
			}
		}()
	}
	// the fetch driver: read every regular file, stat the state file in between
	n := 0
	_ = filepath.WalkDir(mp, func(fp string, d os.DirEntry, err error) error {
		if err != nil || n > 2000 {
			return filepath.SkipDir
		}
		n++
		if d.Type().IsRegular() {
			_, _ = os.ReadFile(fp)
			var st unix.Stat_t
			_ = unix.Lstat(p, &st)
		}
		return nil
	})
	done.Store(true)
	wg.Wait()
	r.Count("kernel_concurrent_state_reads", int(replies.Load()))
	r.Count("kernel_concurrent_state_reads_not_json(not judged: kernel sizes reads by a cached i_size)", int(odd.Load()))
}

// ---------------------------------------------------------------------------
// kernel stage: FUSE-mount every layer, let the KERNEL's overlayfs merge them

func kernelStage(r *vf.Run) {
	n := r.N(5, 80)
	reg := memreg.New()
	envs := map[envKey]*l2.Env{}
	defer func() {
		for _, e := range envs {
			e.Close()
		}
	}()
	feats := map[string]int{}
	for ki := 0; ki < n; ki++ {
		rng := r.RNG(2, uint64(ki))
		bs, err := buildStack(rng, reg, fmt.Sprintf("k/s%d", ki), oc.Opts{})
		if err != nil {
			r.Violate("serve:build-or-publish-failed", err.Error(), map[string]any{"kernel_stack_index": ki})
			continue
		}
		for k, v := range bs.st.Features {
			feats[k] += v
		}
		store := stores[rng.Intn(2)]
		mode := modes[rng.Intn(3)]
		k := envKey{store, mode}
		env := envs[k]
		if env == nil {
			kcfg := config.Config{}
			kcfg.BlobConfig.ChunkSize = 512 // piecewise fetch: the state file changes while files are read
			env, err = l2.NewEnv(reg, filepath.Join(r.Scratch, "k-"+store+"-"+modeName(mode)), kcfg, store, mode, 0)
			if err != nil {
				r.Inconclusive("harness: l2.NewEnv: " + err.Error())
				continue
			}
			envs[k] = env
		}
		r.Eval(1)
		kernelCase(r, ki, rng.Derive(9), env, bs, store, mode)
	}
	r.Set("generator_features_kernel", feats)
}

func kernelCase(r *vf.Run, ki int, rng *prng.R, env *l2.Env, bs *builtStack, store string, mode layer.OverlayOpaqueType) {
	var cl cleanup
	defer cl.run()
	ctx := bs.replay(store, mode, "kernel")
	dir := filepath.Join(r.Scratch, fmt.Sprintf("kc%d", ki))
	to := []time.Duration{0, time.Second}[rng.Intn(2)]
	ctx["entry_timeout"] = to.String()
	var lowers []string
	for i := range bs.st.Layers {
		lctx := map[string]any{"layer": i}
		for k, v := range ctx {
			lctx[k] = v
		}
		l, err := serveLayer(env, bs, i)
		if err != nil {
			r.Violate("serve:resolve-or-verify-failed", fmt.Sprintf("layer %d (%s): %v", i, store, err), lctx)
			return
		}
		cl.add(l.Done)
		rn, err := l.RootNode(uint32(i + 1))
		if err != nil {
			r.Violate("serve:rootnode-failed", err.Error(), lctx)
			return
		}
		mp := filepath.Join(dir, fmt.Sprintf("l%d", i))
		if err := os.MkdirAll(mp, 0o755); err != nil {
			r.Inconclusive("harness: mkdir: " + err.Error())
			return
		}
		srv, err := mountLayer(mp, rn, to)
		if err != nil {
			r.Inconclusive("capability: FUSE mount failed: " + err.Error())
			return
		}
		cl.add(func() {
			if err := srv.Unmount(); err != nil {
				forceUnmount(mp)
			}
		})
		concurrentStateSys(r, mp, bs.im.Layers[i].Digest.String(), int64(len(bs.blobs[i].Blob)), lctx)
		if _, ok := walkLower(r, "kernel-lower", mp, mode, bs.exp[i], bs.raws[i], lctx); !ok {
			return
		}
		checkStateFileSys(r, "kernel-lower", mp, bs.im.Layers[i].Digest.String(), int64(len(bs.blobs[i].Blob)), lctx)
		lowers = append([]string{mp}, lowers...) // highest layer first
	}
	// an empty lowest directory keeps single-layer stacks mountable without an upperdir
	empty := filepath.Join(dir, "empty")
	merged := filepath.Join(dir, "merged")
	_ = os.MkdirAll(empty, 0o755)
	_ = os.MkdirAll(merged, 0o755)
	opts := "lowerdir=" + strings.Join(append(lowers, empty), ":")
	userx := mode == layer.OverlayOpaqueUser || (mode == layer.OverlayOpaqueAll && rng.Bool())
	if userx {
		opts += ",userxattr"
	}
	ctx["overlay_options"] = strings.ReplaceAll(opts, r.Scratch, "$S")
	if err := unix.Mount("overlay", merged, "overlay", unix.MS_RDONLY, opts); err != nil {
		r.Inconclusive("capability: overlay mount over FUSE lowers failed: " + errText(err))
		return
	}
	cl.add(func() { forceUnmount(merged) })
	w := &sysWalker{r: r, prefix: "kernel-merge", ctx: ctx, bareWh: bareWhDirs(bs.raws...)}
	var st unix.Stat_t
	if err := unix.Lstat(merged, &st); err != nil {
		r.Inconclusive("harness: lstat merged: " + errText(err))
		return
	}
	root := nodeFromStat(&st)
	root.AttrUnknown = true
	w.walk(merged, "", root, 0)
	if w.aborted {
		return
	}
	if w.trunc {
		r.Inconclusive("walker bound reached (kernel-merge)")
		return
	}
	for _, d := range oc.Diff(bs.oci, root, oc.DiffOpts{}) {
		ctx["diff"] = d.String()
		r.Violate(diffKey("kernel-merge", d), fmt.Sprintf("the kernel's overlayfs over the FUSE-mounted layers differs from applying the layer tars (%s/%s userxattr=%v): %s", store, modeName(mode), userx, d), ctx)
	}
	r.Count("kernel_cases", 1)
	r.Count("kernel_merged_nodes_compared", bs.oci.Count())
	r.Count("kernel_whiteouts_passed_through_by_overlayfs_readdir", w.whPassed)
	r.Distinct("kernel_configurations", fmt.Sprintf("%s/%s/userxattr=%v/timeout=%s", store, modeName(mode), userx, to))
	if bs.effect {
		r.NonTrivial("kernel|" + bs.hash + "|" + store + "|" + modeName(mode))
	}
}

// ---------------------------------------------------------------------------
// L3 stage: service.NewFileSystem + Mount; the opaque xattr name the kernel sees must be
// the one containerd's own probe (overlayutils.NeedsUserXAttr) selects.

func l3Stage(r *vf.Run) {
	n := r.N(3, 12)
	reg := memreg.New()
	bgctx := context.Background()
	type fsEnv struct {
		fs   snapshot.FileSystem
		root string
	}
	fss := map[string]*fsEnv{}
	var closers cleanup
	defer closers.run()
	for _, store := range stores {
		root := filepath.Join(r.Scratch, "l3-"+store)
		ms, closeMS, _, err := l2.MetadataStore(store, filepath.Join(root, "ms"))
		if err != nil {
			r.Inconclusive("harness: metadata store: " + err.Error())
			return
		}
		closers.add(closeMS)
		_ = os.MkdirAll(filepath.Join(root, "snapshotter"), 0o700)
		cfg := &service.Config{}
		cfg.NoPrometheus = true
		fs, err := service.NewFileSystem(bgctx, root, cfg,
			service.WithCustomRegistryHosts(reg.Hosts(nil)),
			service.WithFilesystemOptions(stargzfs.WithMetadataStore(ms)))
		if err != nil {
			r.Violate("serve:l3-newfilesystem-failed", err.Error(), nil)
			return
		}
		fss[store] = &fsEnv{fs: fs, root: root}
	}
	for ci := 0; ci < n; ci++ {
		store := stores[ci%2]
		fe := fss[store]
		userx, err := overlayutils.NeedsUserXAttr(filepath.Join(fe.root, "snapshotter"))
		if err != nil {
			r.Inconclusive("overlayutils.NeedsUserXAttr: " + err.Error())
			continue
		}
		mode := layer.OverlayOpaqueTrusted
		if userx {
			mode = layer.OverlayOpaqueUser
		}
		r.Distinct("l3_needs_userxattr", fmt.Sprint(userx))
		// find a stack with an opaque directory below the root
		var bs *builtStack
		var pick []int
		for try := 0; try < 60 && bs == nil; try++ {
			rng := r.RNG(3, uint64(ci), uint64(try))
			st := oc.Generate(rng.Derive(1), oc.Opts{})
			var with []int
			for i, l := range st.Layers {
				if hasOpaqueBelowRoot(oc.ExpectedLower(l.Entries)) {
					with = append(with, i)
				}
			}
			if len(with) == 0 {
				continue
			}
			b, err := buildStack(rng, reg, fmt.Sprintf("l3/c%d", ci), oc.Opts{})
			if err != nil {
				r.Violate("serve:build-or-publish-failed", err.Error(), map[string]any{"l3_case": ci})
				break
			}
			bs, pick = b, with
		}
		if bs == nil {
			r.Inconclusive("l3: no stack with an opaque directory found")
			continue
		}
		r.Eval(1)
		var digests []string
		for _, d := range bs.im.Layers {
			digests = append(digests, d.Digest.String())
		}
		okAll := true
		for _, i := range pick {
			lctx := bs.replay(store, mode, "l3")
			lctx["layer"] = i
			lctx["needs_userxattr"] = userx
			mp := filepath.Join(r.Scratch, fmt.Sprintf("l3mp-%d-%d", ci, i))
			_ = os.MkdirAll(mp, 0o755)
			labels := map[string]string{
				"containerd.io/snapshot/remote/stargz.reference": bs.im.Ref.String(),
				"containerd.io/snapshot/remote/stargz.digest":    digests[i],
				"containerd.io/snapshot/remote/stargz.layers":    strings.Join(digests, ","),
				estargz.TOCJSONDigestAnnotation:                  bs.blobs[i].TOCDigest.String(),
			}
			if err := fe.fs.Mount(bgctx, mp, labels); err != nil {
				if strings.Contains(err.Error(), "fusermount") || strings.Contains(err.Error(), "/dev/fuse") {
					r.Inconclusive("capability: L3 FUSE mount failed: " + err.Error())
				} else {
					r.Violate("serve:l3-mount-failed", fmt.Sprintf("Mount of a genuine layer through service.NewFileSystem: %v", err), lctx)
				}
				okAll = false
				continue
			}
			func() {
				defer func() {
					if err := fe.fs.Unmount(bgctx, mp); err != nil {
						forceUnmount(mp)
					}
				}()
				if _, ok := walkLower(r, "l3", mp, mode, bs.exp[i], bs.raws[i], lctx); !ok {
					okAll = false
				}
				checkStateFileSys(r, "l3", mp, digests[i], int64(len(bs.blobs[i].Blob)), lctx)
				r.Count("l3_mounts", 1)
			}()
		}
		if okAll {
			r.NonTrivial("l3|" + bs.hash + "|" + store)
		}
	}
}

// bareWhDirs returns the directories in which one of the tars has a file named exactly ".wh.".
func bareWhDirs(raws ...*gen.FS) map[string]bool {
	res := map[string]bool{}
	for _, fs := range raws {
		for p, n := range fs.Nodes {
			if n.Children != nil {
				if _, ok := n.Children[oc.WhPrefix]; ok {
					res[p] = true
				}
			}
		}
	}
	return res
}

func hasOpaqueBelowRoot(n *oc.Node) bool {
	for _, k := range n.Kids {
		if k.IsDir() && (k.Opaque || hasOpaqueBelowRoot(k)) {
			return true
		}
	}
	return false
}
