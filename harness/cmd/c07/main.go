// C07 — each layer is served as a correct overlayfs lower directory of the OCI layer.
//
// Real code under test: fs/layer (node.go readdir/Lookup/Getxattr/Listxattr/state dir,
// layer.go RootNode/Info) reached through layer.NewResolver(...).Resolve on an in-memory
// registry (L2), go-fuse's own raw bridge, and — behind a capability probe — real FUSE
// mounts stacked by the kernel's overlayfs and service.NewFileSystem + Mount (L3).
//
// Workload: generated stacks of 1–5 OCI layers (internal/ocistack: additions, whiteouts,
// opaque markers, replaced entries, names that merely begin with ".wh.", landmarks at the
// root and in subdirectories), × {memory, db} metadata store × {all, trusted, user} opaque
// mode × {direct, bridge} lookup driver. In every directory the order of {Readdir,
// Lookup(listed), Lookup(absent), Lookup(whiteout target), Lookup(".wh." name)} is a
// random permutation, so Lookup runs before and after the listing is memoised.
//
// Oracle (derived from the statement only; three small reference functions that share no
// code with /repo and are cross-checked against each other by internal/ocistack's test):
//
//	(1) served view of each layer == ExpectedLower(tar); opaque <=> every configured opaque
//	    xattr answers "y" and is listed, no other one appears
//	(2) for every directory and probe name: listed <=> Lookup succeeds
//	(3) ino(Readdir) = ino(Lookup) = ino(Getattr), shared exactly by hardlinked names, stable,
//	    unique in the layer, distinct from the state dir/file, inside RootNode's base
//	(4) OverlayMerge(served views) == ApplyOCI(tars)   [thorough: the KERNEL's overlayfs merges]
//	(5) state file: JSON, layer digest, blob size, 0 <= fetchedSize <= size, == Layer.Info()
package main

import (
	"archive/tar"
	"context"
	"fmt"
	"path/filepath"
	"sort"
	"strings"
	"sync"
	"time"

	"github.com/containerd/log"
	"github.com/containerd/stargz-snapshotter/fs/config"
	"github.com/containerd/stargz-snapshotter/fs/layer"
	"github.com/sirupsen/logrus"

	"verifharness/internal/blob"
	"verifharness/internal/gen"
	"verifharness/internal/l2"
	"verifharness/internal/memreg"
	oc "verifharness/internal/ocistack"
	"verifharness/internal/prng"
	"verifharness/internal/vf"
)

const ruleText = "case = (generated stack of 1-5 layer tars, metadata store memory|db, opaque mode all|trusted|user, lookup driver direct|bridge, " +
	"per-directory permutation of {Readdir, Lookup(listed), Lookup(absent), Lookup(whiteout target), Lookup(.wh. name)}); " +
	"non-trivial iff the stack removes or replaces something that exists in a lower layer (whiteout of an existing name, opaque marker on a directory " +
	"with lower content, replaced entry) AND every layer was resolved, verified, walked completely and merged; distinct by hash of (tars, store, mode, driver). " +
	"Kernel-stage cases additionally need all FUSE mounts and the overlay mount to succeed."

var stores = []string{"memory", "db"}
var modes = []layer.OverlayOpaqueType{layer.OverlayOpaqueAll, layer.OverlayOpaqueTrusted, layer.OverlayOpaqueUser}

func main() {
	vf.Main("C07", "exploration", ruleText, 35, 700, body)
}

func quiet() {
	logrus.SetLevel(logrus.PanicLevel)
	log.L.Logger.SetLevel(logrus.PanicLevel)
	logrus.SetOutput(nullWriter{})
	log.L.Logger.SetOutput(nullWriter{})
}

type nullWriter struct{}

func (nullWriter) Write(p []byte) (int, error) { return len(p), nil }

func body(r *vf.Run) {
	quiet()
	switch r.Child {
	case "kernel":
		kernelStage(r)
		return
	case "l3":
		l3Stage(r)
		return
	case "demo":
		demoStage(r)
		return
	}
	r.Assume("trusted base: archive/tar, internal/gen (tar model), internal/ocistack (ApplyOCI / ExpectedLower / OverlayMerge, cross-checked by its own test on 20000 stacks), internal/memreg, estargz.Build as blob producer, go-fuse, the Linux kernel (FUSE, overlayfs), containerd's overlayutils.NeedsUserXAttr")
	r.Assume("domain: no layer carries both a whiteout for a name and a directory of that name (excluded by the statement); no duplicate names within a layer other than an identical repeated directory entry; no explicit root entry; a real 0/0 character device entry counts as what overlayfs makes of it (a deletion) when the tars are applied; an opaque marker in the layer root only in the lowest layer (the kernel ignores the opaque xattr of a lowerdir root)")
	r.Assume("slack: a whiteout whose target name is itself hidden (.wh..wh.X, .wh.<landmark> in the root) may be listed or not (clause 1), but listing and lookup must agree (clause 2); directory mode/owner/mtime are compared only where the highest layer containing the directory describes it explicitly; attributes of synthesised whiteouts other than type and device number are not judged; '.'/'..' and the state directory name are exempt from clause 2")
	l2Stage(r)
	r.Logf("L2 stage done")

	caps := probeCaps(r)
	r.Set("capabilities", caps)
	if !caps["fuse"] {
		r.Inconclusive("capability: /dev/fuse unusable, kernel and L3 stages skipped")
		return
	}
	// L3 (service.NewFileSystem + Mount) in both tiers, kernel overlay stage in thorough
	// (a small one in quick: it is the only stage that exercises go-fuse + kernel lookups).
	ex := r.RunChild(vf.ChildSpec{Stage: "l3", Timeout: 6 * time.Minute})
	childOutcome(r, "l3", ex)
	r.Logf("L3 stage done")
	if caps["overlay"] {
		ex = r.RunChild(vf.ChildSpec{Stage: "kernel", Timeout: 12 * time.Minute})
		childOutcome(r, "kernel", ex)
		r.Logf("kernel stage done")
	} else {
		r.Inconclusive("capability: overlayfs mount failed, kernel stage skipped")
	}
}

func childOutcome(r *vf.Run, stage string, ex vf.ChildExit) {
	switch {
	case ex.TimedOut:
		r.Inconclusive("watchdog: child stage " + stage + " timed out")
	case ex.ExitCode != 0 || !ex.Partial:
		// a crash of the code under test while serving a layer
		tail := ex.Tail
		if len(tail) > 3000 {
			tail = tail[len(tail)-3000:]
		}
		r.Violate("crash:stage-"+stage, fmt.Sprintf("child stage %s died (exit %d, signal %q)", stage, ex.ExitCode, ex.Signal), map[string]any{"tail": tail})
	}
}

// ---------------------------------------------------------------------------
// shared: building and publishing a stack

type builtStack struct {
	st     *oc.Stack
	blobs  []*blob.Built
	im     *l2.Image
	oci    *oc.Node
	exp    []*oc.Node
	raws   []*gen.FS
	groups []map[string]string
	effect bool // removes or replaces something that exists below
	hash   string
}

func buildStack(rng *prng.R, reg *memreg.Registry, repo string, o oc.Opts) (*builtStack, error) {
	st := oc.Generate(rng.Derive(1), o)
	bs := &builtStack{st: st}
	brng := rng.Derive(2)
	var hs []uint64
	for i, l := range st.Layers {
		bo := blob.Opts{
			// the blob layout is not what this check is about (C02/C03): few chunks per file,
			// zstd only now and then (its decoder allocates a large window per chunk read)
			ChunkSize:   brng.Pick(1024, 8192),
			Compression: brng.PickS("gzip", "gzip", "gzip", "gzip", "zstdchunked", "externaltoc"),
			Level:       1,
			Prioritized: l.Prioritized,
			Workers:     brng.Pick(1, 2),
		}
		tb := gen.TarBytes(l.Entries)
		b, err := blob.Build(tb, bo)
		if err != nil {
			return nil, fmt.Errorf("estargz.Build layer %d (%s): %w", i, bo, err)
		}
		bs.blobs = append(bs.blobs, b)
		bs.exp = append(bs.exp, oc.ExpectedLower(l.Entries))
		bs.raws = append(bs.raws, gen.Model(l.Entries))
		bs.groups = append(bs.groups, hardlinkGroups(l.Entries))
		hs = append(hs, prng.Hash64(uint64(len(tb))), hashBytes(tb))
	}
	im, err := l2.Publish(reg, "reg.test", repo, "v1", bs.blobs)
	if err != nil {
		return nil, err
	}
	bs.im = im
	bs.oci = oc.ApplyOCI(st.Tars())
	f := st.Features
	bs.effect = f["whiteout-existing"]+f["real-0/0-chardev-hides-lower"]+f["opaque-existing"]+f["replace-file-file"]+f["replace-dir-file"]+f["replace-file-dir"] > 0
	bs.hash = fmt.Sprintf("%016x", prng.Hash64(hs...))
	return bs, nil
}

func hashBytes(b []byte) uint64 {
	var h uint64 = 1469598103934665603
	for _, c := range b {
		h ^= uint64(c)
		h *= 1099511628211
	}
	return h
}

func (bs *builtStack) replay(store string, mode layer.OverlayOpaqueType, driver string) map[string]any {
	return map[string]any{"stack": bs.st.Describe(), "store": store, "opaque_mode": modeName(mode), "driver": driver, "features": bs.st.Features}
}

// served is one resolved layer.
type served struct {
	l    layer.Layer
	view *oc.Node
}

// serveLayer resolves and verifies layer i and returns its root node.
func serveLayer(env *l2.Env, bs *builtStack, i int) (layer.Layer, error) {
	l, err := env.Resolve(context.Background(), bs.im, i)
	if err != nil {
		return nil, fmt.Errorf("Resolve: %w", err)
	}
	if err := l.Verify(bs.blobs[i].TOCDigest); err != nil {
		l.Done()
		return nil, fmt.Errorf("Verify: %w", err)
	}
	return l, nil
}

// ---------------------------------------------------------------------------
// L2 stage

type envKey struct {
	store string
	mode  layer.OverlayOpaqueType
}

func l2Stage(r *vf.Run) {
	nStacks := r.N(25, 600)
	workers := 8
	var wg sync.WaitGroup
	next := make(chan int, nStacks)
	for i := 0; i < nStacks; i++ {
		next <- i
	}
	close(next)
	var omu sync.Mutex
	orders := map[string]bool{}
	feats := map[string]int{}
	for w := 0; w < workers; w++ {
		wg.Add(1)
		go func(w int) {
			defer wg.Done()
			reg := memreg.New()
			envs := map[envKey]*l2.Env{}
			defer func() {
				for _, e := range envs {
					e.Close()
				}
			}()
			for si := range next {
				rng := r.RNG(1, uint64(si))
				bs, err := buildStack(rng, reg, fmt.Sprintf("l2/s%d", si), oc.Opts{})
				if err != nil {
					r.Violate("serve:build-or-publish-failed", err.Error(), map[string]any{"stack_index": si})
					continue
				}
				if si < 3 {
					r.Sample(map[string]any{"stack_index": si, "layers": bs.st.Describe(), "features": bs.st.Features})
				}
				omu.Lock()
				for k, v := range bs.st.Features {
					feats[k] += v
				}
				omu.Unlock()
				for _, store := range stores {
					for _, mode := range modes {
						k := envKey{store, mode}
						env := envs[k]
						if env == nil {
							root := filepath.Join(r.Scratch, fmt.Sprintf("l2-w%d-%s-%s", w, store, modeName(mode)))
							cfg := config.Config{}
							// small registry chunks: the blob is fetched piecewise, so the
							// state file's fetchedSize really moves between 0 and size
							cfg.BlobConfig.ChunkSize = 1024
							env, err = l2.NewEnv(reg, root, cfg, store, mode, 0)
							if err != nil {
								r.Inconclusive("harness: l2.NewEnv: " + err.Error())
								continue
							}
							envs[k] = env
						}
						crng := rng.Derive(3, uint64(len(store)), uint64(mode))
						ord := runL2Case(r, crng, env, bs, store, mode)
						omu.Lock()
						for o := range ord {
							orders[o] = true
						}
						omu.Unlock()
					}
				}
			}
		}(w)
	}
	wg.Wait()
	for o := range orders {
		r.Distinct("per_directory_operation_orders", o)
	}
	r.Set("generator_features_l2", feats)
}

// runL2Case serves every layer of the stack in one configuration and judges all clauses.
func runL2Case(r *vf.Run, rng *prng.R, env *l2.Env, bs *builtStack, store string, mode layer.OverlayOpaqueType) map[string]bool {
	r.Eval(1)
	bridge := rng.Bool()
	drvName := "direct"
	if bridge {
		drvName = "bridge"
	}
	ctx := bs.replay(store, mode, drvName)
	orders := map[string]bool{}
	var views []*oc.Node
	complete := true
	for i := range bs.st.Layers {
		lctx := map[string]any{"layer": i}
		for k, v := range ctx {
			lctx[k] = v
		}
		l, err := serveLayer(env, bs, i)
		if err != nil {
			r.Violate("serve:resolve-or-verify-failed", fmt.Sprintf("honest registry, genuine blob, layer %d (%s, %s): %v", i, store, bs.blobs[i].Opts, err), lctx)
			complete = false
			break
		}
		base := uint32(rng.Pick(0, 0, 1, 7, 0xfffe))
		view, ok := captureLayer(r, rng.Derive(uint64(i)), l, bs, i, base, mode, bridge, lctx, orders)
		l.Done()
		if !ok {
			complete = false
			break
		}
		views = append(views, view)
		// clause 1
		for _, d := range oc.Diff(bs.exp[i], view, oc.DiffOpts{Opaque: true}) {
			key := "lower-view:" + d.Class
			switch d.Class {
			case "missing":
				key += ":" + d.Want
			case "extra":
				key += ":" + d.Got
			case "type":
				key += ":" + d.Want + "->" + d.Got
			}
			lctx["diff"] = d.String()
			r.Violate(key, fmt.Sprintf("layer %d (%s/%s/%s) is not the overlayfs translation of its tar: %s", i, store, modeName(mode), drvName, d), lctx)
		}
	}
	if !complete {
		return orders
	}
	// clause 4
	merged := oc.OverlayMerge(views)
	diffs := oc.Diff(bs.oci, merged, oc.DiffOpts{})
	for _, d := range diffs {
		key := "merge:" + d.Class
		switch d.Class {
		case "missing":
			key += ":" + d.Want
		case "extra":
			key += ":" + d.Got
		case "type":
			key += ":" + d.Want + "->" + d.Got
		}
		ctx["diff"] = d.String()
		r.Violate(key, fmt.Sprintf("overlay merge of the served layers differs from applying the layer tars (%s/%s/%s): %s", store, modeName(mode), drvName, d), ctx)
	}
	r.Count("l2_cases", 1)
	r.Count("l2_layers_served", len(views))
	r.Count("merged_nodes_compared", bs.oci.Count())
	if bs.effect {
		r.NonTrivial("l2|" + bs.hash + "|" + store + "|" + modeName(mode) + "|" + drvName)
	}
	r.Distinct("configurations", store+"/"+modeName(mode)+"/"+drvName)
	return orders
}

// captureLayer walks one served layer (clauses 1-xattr, 2, 3, 5) and returns its view.
func captureLayer(r *vf.Run, rng *prng.R, l layer.Layer, bs *builtStack, i int, base uint32, mode layer.OverlayOpaqueType, bridge bool, lctx map[string]any, orders map[string]bool) (view *oc.Node, ok bool) {
	rn, err := l.RootNode(base)
	if err != nil {
		r.Violate("serve:rootnode-failed", fmt.Sprintf("RootNode(%d) of a verified layer: %v", base, err), lctx)
		return nil, false
	}
	lctx["base_inode"] = base
	c := &capture{r: r, rng: rng, base: base, mode: mode, exp: bs.exp[i], rawFS: bs.raws[i], groups: bs.groups[i], ctx: lctx,
		inoPaths: map[uint64][]string{}, orders: orders}
	var rootV *vnode
	c.drv, rootV = newDriver(rn, bridge)
	wantDigest := bs.im.Layers[i].Digest.String()
	wantSize := int64(len(bs.blobs[i].Blob))
	panicked, val, stack := vf.Recover(func() {
		ga, errno := rootV.n().Getattr()
		if errno != 0 {
			c.violate("getattr:error", "Getattr(root) = "+errnoName(errno), nil)
		}
		view = nodeFromAttr(&ga)
		view.Type = tar.TypeDir
		view.Kids = map[string]*oc.Node{}
		view.AttrUnknown = true // the generator never writes a root entry
		c.inoPaths[ga.Ino] = append(c.inoPaths[ga.Ino], "")
		// clause 5: the state file is read before the walk (which reads every file and so
		// makes the fetched size grow) in two of three captures; one reply of that first
		// visit is kept un-extracted across the walk (5a); in half of those captures
		// concurrent readers and a stat loop run during the walk (5b).
		var s1 stateReport
		stateFirst := rng.Intn(3) > 0
		var held *heldRead
		stopReaders := func() {}
		if stateFirst {
			s1 = c.judgeState(rootV, l, wantDigest, wantSize)
			if s1.ok && s1.sf != nil {
				held = c.holdStateRead(s1.sf, l)
				if rng.Bool() {
					stopReaders = c.concurrentState(s1.sf, wantDigest, wantSize)
				}
			}
		}
		c.opaqueOf(rootV, "", view)
		func() {
			defer stopReaders()
			c.visitDir(rootV, "", view, 0)
		}()
		c.judgeHeld(held, l, wantDigest, wantSize)
		s2 := c.judgeState(rootV, l, wantDigest, wantSize)
		if stateFirst && s1.ok && s2.ok {
			if s1.stateIno != s2.stateIno || s1.statFileIno != s2.statFileIno {
				c.violate("ino:unstable-on-repetition", fmt.Sprintf("state dir/file inode changed: %#x/%#x then %#x/%#x", s1.stateIno, s1.statFileIno, s2.stateIno, s2.statFileIno), nil)
			}
			if s2.fetched < s1.fetched {
				c.violate("state:fetched-size-shrank", fmt.Sprintf("fetchedSize went from %d to %d", s1.fetched, s2.fetched), nil)
			}
			if s2.fetched > s1.fetched {
				r.Count("state_fetched_size_grew_during_walk", 1)
			}
		}
		if s2.ok {
			r.Count("state_files_parsed", 1)
			if s2.stateIno == s2.statFileIno {
				c.violate("ino:collision", fmt.Sprintf("state directory and state file share inode %#x", s2.stateIno), nil)
			}
			c.judgeInodes(s2.stateIno, s2.statFileIno)
		}
	})
	if panicked {
		site := panicSite(stack)
		lctx["stack"] = stack
		r.Violate("panic:"+site, fmt.Sprintf("panic while serving layer %d: %v", i, val), lctx)
		return nil, false
	}
	if c.truncated {
		r.Inconclusive("walker bound reached (layer larger than the generator can produce)")
		return nil, false
	}
	r.Count("lookups", c.nLookups)
	r.Count("lookups_before_listing_memoised", c.nPre)
	r.Count("lookups_after_listing_memoised", c.nPost)
	r.Count("readdirs", c.nReaddirs)
	r.Count("served_nodes", c.nodes)
	return view, true
}

// panicSite returns the innermost stargz-snapshotter frame of a stack trace.
func panicSite(stack string) string {
	for _, line := range strings.Split(stack, "\n") {
		line = strings.TrimSpace(line)
		if strings.HasPrefix(line, "github.com/containerd/stargz-snapshotter/") && !strings.Contains(line, "verifharness") {
			if i := strings.LastIndex(line, "("); i > 0 {
				line = line[:i]
			}
			return strings.TrimPrefix(line, "github.com/containerd/stargz-snapshotter/")
		}
	}
	return "outside-repo"
}

func sortedKeys(m map[string]bool) []string {
	var ks []string
	for k := range m {
		ks = append(ks, k)
	}
	sort.Strings(ks)
	return ks
}
