// C10 — refcounted caches finalise each value exactly once and never while it is held.
//
// Real code under test: util/cacheutil.TTLCache and LRUCache, driven by 2–8 concurrent
// clients over 1–3 keys in thousands of short histories, in the race build.
// Monitors: (1) event order: EVICTED(v) (stamped inside the callback) must not precede
// the release call of any holder that was handed v; (2) drain: exactly one callback per
// value that entered the cache, none for values that never did; (3) porcupine: the
// recorded call/return history must be explained by a sequential cache (TTL: a register
// per key; LRU: a sequential LRU of the same capacity); (4) race detector on cacheutil.
//
// The monitor deliberately uses no lock or shared atomic on the operation path (that
// would add happens-before edges and hide races): events go to per-goroutine buffers
// stamped with the monotonic clock, eviction counters are per value.
package main

import (
	"fmt"
	"runtime"
	"sort"
	"strings"
	"sync"
	"sync/atomic"
	"time"

	"github.com/anishathalye/porcupine"
	"github.com/containerd/stargz-snapshotter/util/cacheutil"

	"verifharness/internal/prng"
	"verifharness/internal/vf"
)

var t0 = time.Now()

func now() int64 { return int64(time.Since(t0)) }

type opKind int

const (
	opAdd opKind = iota
	opGet
	opRemove
	opExpire      // TTL only (H4: exactly the timer callback)
	opRelease     // done(false) / done()
	opReleaseEv   // TTL only: done(true)
	opReRelease   // call done again on an already released hold
)

func (k opKind) String() string {
	return [...]string{"Add", "Get", "Remove", "Expire", "Release", "ReleaseEvict", "ReRelease"}[k]
}

type in struct {
	Kind opKind
	Key  int
	Val  int // Add: the value offered; ReleaseEvict: the value held
}
type out struct {
	Val   int
	Ok    bool // Add: added; Get: ok
}

type hold struct {
	v        int
	key      int
	doneTTL  func(bool)
	doneLRU  func()
	relCall  int64 // 0 = not yet released
}

type history struct {
	ttl      bool
	capacity int
	clients  int
	nkeys    int
	script   [][]in // per client; Val filled at run time
}

type valState struct {
	evCount atomic.Int64
	evTime  atomic.Int64
	added   atomic.Bool
}

func key(i int) string { return fmt.Sprintf("k%d", i) }

func main() {
	vf.Main("C10", "exploration",
		"each case is one concurrent history (cache kind TTL/LRU, capacity 1-3, 2-8 clients x <=12 ops over 1-3 keys, drawn from the seed); "+
			"non-trivial = during the concurrent phase a value obtained by >=2 holders left the cache and was finalised (the callback had to wait for releases); distinct by the operation script",
		200, 2000, body)
}

func body(r *vf.Run) {
	n := r.N(4000, 150000)
	for i := 0; i < n; i++ {
		rng := r.RNG(uint64(i))
		h := genHistory(rng)
		runHistory(r, i, h)
		if r.Violations() > 20 {
			break
		}
	}
	// Stress stage: long runs on tiny caches so that narrow windows between a lookup and
	// the reference being taken (or between eviction and finalisation) are hit.
	rounds := r.N(24, 400)
	for i := 0; i < rounds && r.Violations() <= 20; i++ {
		stressRound(r, i, r.RNG(1<<40, uint64(i)))
	}
	r.AccountOwnRaces([]string{"util/cacheutil."}, nil)
	r.Assume("porcupine v1.3.0 linearizability checker and the 2 sequential models in this file are correct")
	r.Assume("CLOCK_MONOTONIC is consistent across CPUs (used to order release calls against eviction callbacks)")
}

func genHistory(rng *prng.R) history {
	h := history{ttl: rng.Bool(), capacity: rng.Range(1, 3), nkeys: rng.Range(1, 3)}
	if h.ttl {
		h.clients = rng.Range(2, 8)
	} else {
		h.clients = rng.Range(2, 4) // unpartitioned model: keep histories small
	}
	maxOps := 12
	if !h.ttl {
		maxOps = 7
	}
	for c := 0; c < h.clients; c++ {
		nops := rng.Range(2, maxOps)
		var s []in
		for j := 0; j < nops; j++ {
			var k opKind
			x := rng.Intn(100)
			switch {
			case x < 28:
				k = opAdd
			case x < 46:
				k = opGet
			case x < 56:
				k = opRemove
			case x < 64:
				k = opExpire
			case x < 82:
				k = opRelease
			case x < 92:
				k = opReleaseEv
			default:
				k = opReRelease
			}
			if !h.ttl && (k == opExpire) {
				k = opRemove
			}
			if !h.ttl && k == opReleaseEv {
				k = opRelease
			}
			s = append(s, in{Kind: k, Key: rng.Intn(h.nkeys)})
		}
		h.script = append(h.script, s)
	}
	return h
}

func runHistory(r *vf.Run, idx int, h history) {
	r.Eval(1)
	maxVals := 1
	for _, s := range h.script {
		maxVals += len(s)
	}
	vals := make([]valState, maxVals+1)
	var nextVal atomic.Int64 // only used to hand out unique ids before the run

	onEvicted := func(k string, v any) {
		id := v.(int)
		vals[id].evTime.CompareAndSwap(0, now())
		vals[id].evCount.Add(1)
	}
	var ttl *cacheutil.TTLCache
	var lru *cacheutil.LRUCache
	if h.ttl {
		ttl = cacheutil.NewTTLCache(time.Hour)
		ttl.OnEvicted = onEvicted
	} else {
		lru = cacheutil.NewLRUCache(h.capacity)
		lru.OnEvicted = onEvicted
	}
	// pre-assign unique value ids to Add operations (no sharing at run time)
	for c := range h.script {
		for j := range h.script[c] {
			if h.script[c][j].Kind == opAdd {
				h.script[c][j].Val = int(nextVal.Add(1))
			}
		}
	}
	type clientLog struct {
		ops   []porcupine.Operation
		holds []*hold
		heldWhenLeft int
	}
	logs := make([]clientLog, h.clients)
	var wg sync.WaitGroup
	start := make(chan struct{})
	for c := 0; c < h.clients; c++ {
		wg.Add(1)
		go func(c int) {
			defer wg.Done()
			lg := &logs[c]
			<-start
			for _, op := range h.script[c] {
				switch op.Kind {
				case opAdd:
					call := now()
					var got any
					var added bool
					hd := &hold{key: op.Key}
					if h.ttl {
						got, hd.doneTTL, added = ttl.Add(key(op.Key), op.Val)
					} else {
						got, hd.doneLRU, added = lru.Add(key(op.Key), op.Val)
					}
					ret := now()
					hd.v = got.(int)
					if added {
						vals[op.Val].added.Store(true)
					}
					lg.holds = append(lg.holds, hd)
					lg.ops = append(lg.ops, porcupine.Operation{ClientId: c, Input: op, Call: call, Output: out{Val: hd.v, Ok: added}, Return: ret})
				case opGet:
					call := now()
					var got any
					var ok bool
					hd := &hold{key: op.Key}
					if h.ttl {
						got, hd.doneTTL, ok = ttl.Get(key(op.Key))
					} else {
						got, hd.doneLRU, ok = lru.Get(key(op.Key))
					}
					ret := now()
					o := out{Ok: ok}
					if ok {
						hd.v = got.(int)
						o.Val = hd.v
						lg.holds = append(lg.holds, hd)
					}
					lg.ops = append(lg.ops, porcupine.Operation{ClientId: c, Input: op, Call: call, Output: o, Return: ret})
				case opRemove, opExpire:
					call := now()
					if h.ttl {
						if op.Kind == opRemove {
							ttl.Remove(key(op.Key))
						} else {
							ttl.VerifFireExpiry(key(op.Key))
						}
					} else {
						lru.Remove(key(op.Key))
					}
					ret := now()
					lg.ops = append(lg.ops, porcupine.Operation{ClientId: c, Input: op, Call: call, Output: out{}, Return: ret})
				case opRelease, opReleaseEv, opReRelease:
					// pick a hold: unreleased for Release*, released for ReRelease
					var hd *hold
					for _, x := range lg.holds {
						if (op.Kind == opReRelease) == (x.relCall != 0) {
							hd = x
							break
						}
					}
					if hd == nil {
						continue
					}
					if hd.relCall == 0 {
						hd.relCall = now()
					}
					if h.ttl {
						ev := op.Kind == opReleaseEv
						o2 := op
						o2.Val = hd.v
						o2.Key = hd.key
						call := now()
						hd.doneTTL(ev)
						ret := now()
						if ev {
							o2.Kind = opReleaseEv
							lg.ops = append(lg.ops, porcupine.Operation{ClientId: c, Input: o2, Call: call, Output: out{}, Return: ret})
						}
					} else {
						hd.doneLRU()
					}
				}
			}
		}(c)
	}
	close(start)
	wg.Wait()

	// was some value out of the cache (callback pending) while still held? -> non-trivial
	// non-trivial: during the concurrent phase (before the drain) a value obtained by
	// at least two holders was finalised, i.e. the callback had to wait for releases.
	deferred := false
	{
		nh := map[int]int{}
		for c := range logs {
			for _, hd := range logs[c].holds {
				nh[hd.v]++
			}
		}
		for v, n := range nh {
			if n >= 2 && vals[v].evCount.Load() > 0 {
				deferred = true
			}
		}
	}
	heldNow := map[int]int{}
	for c := range logs {
		for _, hd := range logs[c].holds {
			if hd.relCall == 0 {
				heldNow[hd.v]++
			}
		}
	}
	// drain: remove every key, then release every hold (twice: releasing twice is harmless)
	for k := 0; k < h.nkeys; k++ {
		if h.ttl {
			ttl.Remove(key(k))
		} else {
			lru.Remove(key(k))
		}
	}
	_ = heldNow
	for c := range logs {
		for _, hd := range logs[c].holds {
			if hd.relCall == 0 {
				hd.relCall = now()
			}
			if h.ttl {
				hd.doneTTL(false)
				hd.doneTTL(false)
			} else {
				hd.doneLRU()
				hd.doneLRU()
			}
		}
	}
	desc := describe(h)
	replay := map[string]any{"case": idx, "history": desc}

	// (1) event order and (2) exactly-once
	lastRel := map[int]int64{}
	for c := range logs {
		for _, hd := range logs[c].holds {
			if hd.relCall > lastRel[hd.v] {
				lastRel[hd.v] = hd.relCall
			}
		}
	}
	kind := "lru"
	if h.ttl {
		kind = "ttl"
	}
	for v := 1; v <= int(nextVal.Load()); v++ {
		cnt := vals[v].evCount.Load()
		if vals[v].added.Load() {
			if cnt == 0 {
				r.Violate(kind+":never-finalised", "a value that entered the cache was never handed to OnEvicted after removal and release of every holder", replay)
			} else if cnt > 1 {
				r.Violate(kind+":finalised-twice", fmt.Sprintf("OnEvicted ran %d times for one value", cnt), replay)
			}
			if cnt >= 1 && vals[v].evTime.Load() < lastRel[v] {
				// the callback ran before the release call of some holder
				// (only conclusive if that release was issued before the drain's forced releases; the drain stamps too, so this is exact)
				r.Violate(kind+":finalised-while-held", "OnEvicted ran before a holder that had obtained the value called its release function", replay)
			}
		} else if cnt != 0 {
			r.Violate(kind+":finalised-not-added", "OnEvicted ran for a value whose Add reported added=false", replay)
		}
	}

	// (3) porcupine
	var ops []porcupine.Operation
	for c := range logs {
		ops = append(ops, logs[c].ops...)
	}
	for i := range ops {
		if ops[i].Return <= ops[i].Call {
			ops[i].Return = ops[i].Call + 1
		}
	}
	var model porcupine.Model
	if h.ttl {
		model = ttlModel()
	} else {
		model = lruModel(h.capacity)
	}
	res := porcupine.CheckOperationsTimeout(model, ops, 20*time.Second)
	switch res {
	case porcupine.Illegal:
		r.Violate(kind+":not-linearizable", "recorded history of Add/Get/Remove/expiry/evicting-release is not explained by any sequential cache: "+histString(ops), replay)
	case porcupine.Unknown:
		r.Inconclusive("porcupine timeout")
	}
	r.Count("ops_recorded", len(ops))
	r.Count("histories_"+kind, 1)
	if deferred {
		r.NonTrivial(desc)
		r.Count("histories_with_deferred_finalisation", 1)
	}
	if idx < 3 {
		r.Sample(map[string]any{"case": idx, "script": desc, "recorded_ops": histString(ops)})
	}
}

func describe(h history) string {
	var sb strings.Builder
	if h.ttl {
		sb.WriteString("TTL")
	} else {
		fmt.Fprintf(&sb, "LRU(cap=%d)", h.capacity)
	}
	for c, s := range h.script {
		fmt.Fprintf(&sb, " | c%d:", c)
		for _, op := range s {
			fmt.Fprintf(&sb, " %s(k%d)", op.Kind, op.Key)
		}
	}
	return sb.String()
}

func histString(ops []porcupine.Operation) string {
	sort.Slice(ops, func(i, j int) bool { return ops[i].Call < ops[j].Call })
	var sb strings.Builder
	for _, o := range ops {
		i := o.Input.(in)
		u := o.Output.(out)
		fmt.Fprintf(&sb, "[c%d %s k%d v%d -> v%d,%v @%d-%d] ", o.ClientId, i.Kind, i.Key, i.Val, u.Val, u.Ok, o.Call, o.Return)
		if sb.Len() > 3000 {
			sb.WriteString("…")
			break
		}
	}
	return sb.String()
}

// ttlModel: per key, state = current value id (0 = absent).
func ttlModel() porcupine.Model {
	return porcupine.Model{
		Partition: func(h []porcupine.Operation) [][]porcupine.Operation {
			m := map[int][]porcupine.Operation{}
			for _, o := range h {
				k := o.Input.(in).Key
				m[k] = append(m[k], o)
			}
			var res [][]porcupine.Operation
			for _, v := range m {
				res = append(res, v)
			}
			return res
		},
		Init: func() any { return 0 },
		Step: func(st, input, output any) (bool, any) {
			cur := st.(int)
			i := input.(in)
			o := output.(out)
			switch i.Kind {
			case opAdd:
				if cur == 0 {
					return o.Ok && o.Val == i.Val, i.Val
				}
				return !o.Ok && o.Val == cur, cur
			case opGet:
				if cur == 0 {
					return !o.Ok, cur
				}
				return o.Ok && o.Val == cur, cur
			case opRemove, opExpire:
				return true, 0
			case opReleaseEv:
				if cur == i.Val {
					return true, 0
				}
				return true, cur
			}
			return true, cur
		},
		Equal: func(a, b any) bool { return a.(int) == b.(int) },
	}
}

// lruModel: state = "k:v,k:v" most recently used first.
func lruModel(capacity int) porcupine.Model {
	type ent struct{ k, v int }
	dec := func(s string) []ent {
		var res []ent
		if s == "" {
			return res
		}
		for _, p := range strings.Split(s, ",") {
			var e ent
			fmt.Sscanf(p, "%d:%d", &e.k, &e.v)
			res = append(res, e)
		}
		return res
	}
	enc := func(es []ent) string {
		ps := make([]string, len(es))
		for i, e := range es {
			ps[i] = fmt.Sprintf("%d:%d", e.k, e.v)
		}
		return strings.Join(ps, ",")
	}
	front := func(es []ent, i int) []ent {
		e := es[i]
		res := append([]ent{e}, es[:i]...)
		return append(res, es[i+1:]...)
	}
	return porcupine.Model{
		Init: func() any { return "" },
		Step: func(st, input, output any) (bool, any) {
			es := dec(st.(string))
			i := input.(in)
			o := output.(out)
			idx := -1
			for j, e := range es {
				if e.k == i.Key {
					idx = j
				}
			}
			switch i.Kind {
			case opAdd:
				if idx >= 0 {
					ok := !o.Ok && o.Val == es[idx].v
					return ok, enc(front(es, idx))
				}
				es = append([]ent{{i.Key, i.Val}}, es...)
				if len(es) > capacity {
					es = es[:capacity]
				}
				return o.Ok && o.Val == i.Val, enc(es)
			case opGet:
				if idx < 0 {
					return !o.Ok, st
				}
				return o.Ok && o.Val == es[idx].v, enc(front(es, idx))
			case opRemove:
				if idx >= 0 {
					es = append(es[:idx:idx], es[idx+1:]...)
				}
				return true, enc(es)
			}
			return true, st
		},
		Equal: func(a, b any) bool { return a.(string) == b.(string) },
	}
}


// stressRound hammers one tiny cache with writers (Add + release, occasionally Remove /
// expiry / evicting release) and readers (Get + hold + release). Monitors, all on
// per-value atomics only:
//   - a value obtained by Get or Add must not have been finalised while the caller holds it
//     (sound: correct code takes the reference under the cache lock before handing the value
//     out, and finalises only after every reference was dropped);
//   - after the drain every value that entered the cache was finalised exactly once and no
//     other value was finalised.
func stressRound(r *vf.Run, idx int, rng *prng.R) {
	r.Eval(1)
	ttl := rng.Chance(1, 3)
	capacity := rng.Range(1, 2)
	nkeys := rng.Range(1, 3)
	writers, readers := rng.Range(2, 5), rng.Range(2, 5)
	perWriter := 6000
	perReader := 12000
	vals := make([]valState, writers*perWriter+1)
	onEvicted := func(k string, v any) {
		id := v.(int)
		vals[id].evCount.Add(1)
	}
	var tc *cacheutil.TTLCache
	var lc *cacheutil.LRUCache
	kind := "lru"
	if ttl {
		kind = "ttl"
		tc = cacheutil.NewTTLCache(time.Hour)
		tc.OnEvicted = onEvicted
	} else {
		lc = cacheutil.NewLRUCache(capacity)
		lc.OnEvicted = onEvicted
	}
	desc := fmt.Sprintf("stress %s cap=%d keys=%d writers=%d readers=%d", kind, capacity, nkeys, writers, readers)
	replay := map[string]any{"stress_round": idx, "config": desc}
	var heldFinalised, getHits, deferredSeen, doubleReleases atomic.Int64
	check := func(v int) {
		if vals[v].evCount.Load() != 0 {
			heldFinalised.Add(1)
		}
	}
	var wg sync.WaitGroup
	start := make(chan struct{})
	for w := 0; w < writers; w++ {
		wg.Add(1)
		go func(w int, rg *prng.R) {
			defer wg.Done()
			<-start
			for i := 0; i < perWriter; i++ {
				id := w*perWriter + i + 1
				k := key(rg.Intn(nkeys))
				var got any
				var added bool
				var dT func(bool)
				var dL func()
				if ttl {
					got, dT, added = tc.Add(k, id)
				} else {
					got, dL, added = lc.Add(k, id)
				}
				if added {
					vals[id].added.Store(true)
				}
				check(got.(int))
				if rg.Chance(1, 4) {
					runtime.Gosched()
					check(got.(int))
				}
				x := rg.Intn(10)
				if ttl {
					switch {
					case x == 0:
						tc.Remove(k)
						dT(false)
					case x == 1:
						tc.VerifFireExpiry(k)
						dT(false)
					case x < 5:
						dT(true)
					default:
						dT(false)
					}
				} else {
					if x == 0 {
						lc.Remove(k)
					}
					dL()
				}
			}
		}(w, rng.Derive(uint64(w)))
	}
	for q := 0; q < readers; q++ {
		wg.Add(1)
		go func(rg *prng.R) {
			defer wg.Done()
			<-start
			for i := 0; i < perReader; i++ {
				k := key(rg.Intn(nkeys))
				var got any
				var ok bool
				var dT func(bool)
				var dL func()
				if ttl {
					got, dT, ok = tc.Get(k)
				} else {
					got, dL, ok = lc.Get(k)
				}
				if !ok {
					continue
				}
				getHits.Add(1)
				v := got.(int)
				check(v)
				if rg.Chance(1, 3) {
					runtime.Gosched()
				}
				check(v)
				if rg.Chance(1, 6) {
					// "releasing twice is harmless" also when the two releases of one hold
					// overlap: call the same release function from two goroutines at once.
					var w2 sync.WaitGroup
					w2.Add(1)
					go func() {
						defer w2.Done()
						if ttl {
							dT(false)
						} else {
							dL()
						}
					}()
					if ttl {
						dT(false)
					} else {
						dL()
					}
					w2.Wait()
					doubleReleases.Add(1)
				} else if ttl {
					dT(false)
				} else {
					dL()
				}
				if vals[v].evCount.Load() != 0 {
					deferredSeen.Add(1) // finalised right after (or soon after) our release
				}
			}
		}(rng.Derive(1000 + uint64(q)))
	}
	close(start)
	wg.Wait()
	for k := 0; k < nkeys; k++ {
		if ttl {
			tc.Remove(key(k))
		} else {
			lc.Remove(key(k))
		}
	}
	if heldFinalised.Load() > 0 {
		r.Violate(kind+":stress:finalised-while-held", fmt.Sprintf("a value handed out by Get/Add had already been finalised while the caller still held it (%d observations)", heldFinalised.Load()), replay)
	}
	never, twice, notAdded := 0, 0, 0
	for id := 1; id < len(vals); id++ {
		c := vals[id].evCount.Load()
		if vals[id].added.Load() {
			if c == 0 {
				never++
			} else if c > 1 {
				twice++
			}
		} else if c != 0 {
			notAdded++
		}
	}
	if never > 0 {
		r.Violate(kind+":stress:never-finalised", fmt.Sprintf("%d values that entered the cache were never finalised after removal and release", never), replay)
	}
	if twice > 0 {
		r.Violate(kind+":stress:finalised-twice", fmt.Sprintf("%d values were finalised more than once", twice), replay)
	}
	if notAdded > 0 {
		r.Violate(kind+":stress:finalised-not-added", fmt.Sprintf("%d values whose Add reported added=false were finalised", notAdded), replay)
	}
	r.Count("stress_rounds_"+kind, 1)
	r.Count("stress_get_hits", int(getHits.Load()))
	r.Count("stress_concurrent_double_releases", int(doubleReleases.Load()))
	r.Count("stress_finalised_by_readers_release", int(deferredSeen.Load()))
	if getHits.Load() > 0 && deferredSeen.Load() > 0 {
		r.NonTrivial(desc + fmt.Sprint(idx))
	}
	if idx < 2 {
		r.Sample(map[string]any{"stress_round": idx, "config": desc, "get_hits": getHits.Load()})
	}
}
