// C09 — after a crash at any point the snapshotter restarts consistent and re-mounted.
//
// Level: fault_enumeration. For every generated history (operation sequence against the
// real snapshot.NewSnapshotter over a recording backend) a crash image is taken at EVERY
// hit of the snap.* crash points of snapshot.go (and at every operation boundary): a
// copy of metadata.db + snapshots/ made from inside the hook, i.e. while the
// snapshotter is stopped at that instruction. bbolt writes the file only at commit, so
// the copy is what a power cut at that instant leaves. Every image is then restarted
// (snapshot.NewSnapshotter on a private copy, fresh recording backend) under
// {all restore mounts succeed, the k-th restore mount fails} x {AllowInvalidMountsOnRestart,
// strict, NoRestore} and judged against the reference model of what had been
// acknowledged before the crash.
//
// Process structure: one child process per history (crash isolation; a failed
// NewSnapshotter leaks the bolt file lock inside its process, so every single restart
// additionally works on its own private copy of the image and a restart that is
// expected to fail is never followed by another open of the same file).
package main

import (
	"context"
	"fmt"
	"io"
	"os"
	"path/filepath"
	"sort"
	"strconv"
	"strings"
	"sync"
	"sync/atomic"
	"syscall"
	"time"

	"github.com/containerd/containerd/v2/core/snapshots"
	"github.com/containerd/errdefs"
	"github.com/containerd/log"
	"github.com/containerd/stargz-snapshotter/snapshot"
	"github.com/containerd/stargz-snapshotter/util/verifhook"
	"github.com/sirupsen/logrus"

	"verifharness/internal/recfs"
	"verifharness/internal/recfs/snapdrv"
	"verifharness/internal/vf"
)

const rule = "each case is one restart of one crash image: (history drawn from the seed, crash point hit or operation boundary, restart mode in {allow-invalid, strict, no-restore}, restore-mount failure pattern in {none, k-th fails}); " +
	"all images of all histories are restarted (exhaustive over the crash points hit); non-trivial = the image holds >=1 committed remote snapshot that restore has to re-mount or >=1 directory (temp or orphan) that Cleanup has to reclaim; distinct by (history, image number, mode, failure pattern)"

func main() {
	logrus.SetLevel(logrus.PanicLevel)
	log.L.Logger.SetLevel(logrus.PanicLevel)
	vf.Main("C09", "fault_enumeration", rule, 400, 8000, body)
}

func body(r *vf.Run) {
	if r.Child == "hist" {
		histChild(r)
		return
	}
	n := r.N(16, 150)
	workers := 4
	if r.Thorough() {
		workers = 6
	}
	var next atomic.Int64
	var wg sync.WaitGroup
	for w := 0; w < workers; w++ {
		wg.Add(1)
		go func() {
			defer wg.Done()
			for {
				i := int(next.Add(1)) - 1
				if i >= n || r.Violations() > 20 {
					return
				}
				ex := r.RunChild(vf.ChildSpec{Stage: "hist", Args: []string{strconv.Itoa(i)}, Timeout: 15 * time.Minute})
				dir := filepath.Dir(ex.Output)
				switch {
				case ex.TimedOut:
					r.Inconclusive("history child: watchdog fired")
				case ex.ExitCode != 0 || !ex.Partial:
					// the child died: the journal names the restart it was executing
					j, _ := os.ReadFile(filepath.Join(dir, "journal.txt"))
					js := strings.TrimSpace(string(j))
					if js == "" {
						r.Inconclusive("history child died outside a restart (exit " + fmt.Sprint(ex.ExitCode) + " " + ex.Signal + ")")
						r.Set("child_tail", ex.Tail)
						break
					}
					if !strings.Contains(ex.Tail, "stargz-snapshotter/snapshot.") && !strings.Contains(ex.Tail, "go.etcd.io/bbolt") && !strings.Contains(ex.Tail, "core/snapshots/storage") {
						// no frame of the code under test in the dump: the harness itself failed
						r.Inconclusive("history child died in harness code")
						r.Set("child_tail", ex.Tail)
						break
					}
					f := strings.Fields(js)
					key := "restart:process-died"
					if len(f) >= 2 {
						key += ":" + f[0] + "@" + f[1]
					}
					r.Violate(key, "the process died (fatal error / unrecovered panic) while restarting a crash image: "+js, map[string]any{"history": i, "journal": js, "output_tail": ex.Tail})
				}
				_ = syscall.Unmount(filepath.Join(dir, "ram"), syscall.MNT_DETACH) // left by a child that died
				os.RemoveAll(dir)
			}
		}()
	}
	wg.Wait()
	r.Assume("a file copy of metadata.db taken while the snapshotter is stopped inside a hook equals the on-disk state after a power cut at that instant (bbolt writes pages only inside Tx.Commit; directory operations are durable in program order)")
	r.Assume("crash points inside containerd's storage package and inside bbolt's commit are not enumerated; torn writes are out of scope")
	r.Assume("internal/recfs and the reference model in internal/recfs/snapdrv are correct; NoRestore is modelled as a backend that outlives the process (its mount table at the crash instant is pre-loaded)")
}

// ---------------------------------------------------------------------------
// history child

type image struct {
	N       int
	Point   string
	OpIndex int // index of the in-flight operation; boundary images: the operation just completed
	Bound   bool
	Dir     string
	Derived string                     // non-empty: a torn state derived from the image taken at Point (what was removed)
	Live    map[string]recfs.MountInfo // backend mount table at the crash instant (mountpoints under the history root)
	Async   bool
}

type hist struct {
	r        *vf.Run
	idx      int
	root     string
	d        *snapdrv.Driver
	ops      []snapdrv.Op
	images   []*image
	imgDir   string
	work     string
	nops     int // number of generated operations (the final Close is pseudo-operation nops)
	diverged string
}

func histChild(r *vf.Run) {
	// every restart that is expected to fail leaks one descriptor (the bolt file of its private copy)
	var rl syscall.Rlimit
	if syscall.Getrlimit(syscall.RLIMIT_NOFILE, &rl) == nil && rl.Cur < rl.Max {
		rl.Cur = rl.Max
		_ = syscall.Setrlimit(syscall.RLIMIT_NOFILE, &rl)
	}
	idx, _ := strconv.Atoi(r.ChildArgs[0])
	rng := r.RNG(1, uint64(idx))
	work, ram, done := recfs.RamDir(r.Scratch)
	defer done()
	if ram {
		r.Count("children_on_tmpfs", 1)
	}
	h := &hist{r: r, idx: idx, work: work, root: filepath.Join(work, "h", "root"), imgDir: filepath.Join(work, "images")}
	cfg := snapdrv.Config{Root: h.root, Async: rng.Bool(), Markers: true, KeepStates: true}
	cfg.Violate = func(key, what string) {
		// clauses of C08 are judged by C08; here a divergence only makes the history unusable
		if h.diverged == "" {
			h.diverged = key
		}
	}
	d, err := snapdrv.New(cfg)
	if err != nil {
		r.Inconclusive("cannot open snapshotter for the history: " + err.Error())
		return
	}
	h.d = d
	verifhook.SetHandler(func(name string, args ...interface{}) {
		if len(args) == 0 {
			return
		}
		if root, ok := args[0].(string); !ok || root != h.root {
			return
		}
		if !strings.HasPrefix(name, "snap.") {
			return
		}
		im := h.capture(name, false, h.d.Cur)
		if im != nil && len(args) >= 2 {
			if a1, ok := args[1].(string); ok {
				h.derive(im, name, a1)
			}
		}
	})
	g := &snapdrv.Gen{Rng: rng, P: snapdrv.Profile{Names: rng.Range(3, 6), Reopen: true, RestoreFails: true, CrashHistory: true}}
	length := rng.Range(6, 16)
	if r.Thorough() {
		length = rng.Range(6, 24)
	}
	for i := 0; i < length && d.Aborted == "" && h.diverged == ""; i++ {
		var mounted []string
		for mp := range d.FS.Live() {
			mounted = append(mounted, mp)
		}
		sort.Strings(mounted)
		op := g.Next(d.M, mounted)
		h.ops = append(h.ops, op)
		d.Step(i, op)
		if d.Aborted == "" && h.diverged == "" {
			h.capture("op.boundary", true, i)
		}
	}
	bad := d.Aborted != "" || h.diverged != ""
	if bad {
		// images of the diverging operation are not judged
		last := len(h.ops) - 1
		var keep []*image
		for _, im := range h.images {
			if im.OpIndex < last {
				keep = append(keep, im)
			}
		}
		h.images = keep
		h.ops = h.ops[:last]
		r.Count("histories_cut_short", 1)
		r.Distinct("history_cut_reasons", firstWords(d.Aborted+" "+h.diverged))
	}
	h.nops = len(h.ops)
	if !bad {
		// graceful Close as the last pseudo-operation: crash points inside Close, and the
		// state after a clean shutdown (remote snapshot directories are gone then)
		d.Cur = h.nops
		d.Close()
		h.capture("op.boundary", true, h.nops)
	} else {
		verifhook.SetHandler(nil) // no images of the Close that follows a diverged history
		d.Close()
	}
	verifhook.SetHandler(nil)
	r.Count("histories", 1)
	r.Count("history_ops", len(h.ops))
	r.Count("images_taken", len(h.images))
	if idx < 3 {
		r.Sample(map[string]any{"history": idx, "async": cfg.Async, "script": snapdrv.Script(h.ops), "images": len(h.images)})
	}
	for _, im := range h.images {
		h.restartAll(im)
		os.RemoveAll(im.Dir)
	}
	_ = os.WriteFile(filepath.Join(r.Scratch, "journal.txt"), nil, 0o644)
}

func firstWords(s string) string {
	s = strings.TrimSpace(s)
	if len(s) > 60 {
		s = s[:60]
	}
	return s
}

// capture copies metadata.db and snapshots/ of the history root.
func (h *hist) capture(point string, boundary bool, op int) *image {
	if op < 0 {
		return nil // a hook outside any generated operation
	}
	n := len(h.images)
	dir := filepath.Join(h.imgDir, strconv.Itoa(n))
	if err := os.MkdirAll(dir, 0o755); err != nil {
		return nil
	}
	if err := copyFile(filepath.Join(h.root, "metadata.db"), filepath.Join(dir, "metadata.db")); err != nil && !os.IsNotExist(err) {
		h.r.Inconclusive("image copy failed")
		return nil
	}
	if err := copyTree(filepath.Join(h.root, "snapshots"), filepath.Join(dir, "snapshots")); err != nil {
		h.r.Inconclusive("image copy failed")
		return nil
	}
	im := &image{N: n, Point: point, OpIndex: op, Bound: boundary, Dir: dir, Live: h.d.FS.Live(), Async: h.d.Async}
	h.images = append(h.images, im)
	h.r.Count("hit:"+point, 1)
	return im
}

// derive adds the images a death INSIDE a directory operation leaves (torn states that
// no hook can stop at), computed from the image just taken:
//
//   - at snap.cleanupdir.afterUnmount(dir): os.RemoveAll(dir) removes the children first and
//     dir last, in no particular order -> dir without "fs", dir without "work", dir empty.
//     (The images at snap.remove.beforeDirCleanup / snap.cleanup.beforeDirCleanup of the
//     same dir are byte-identical to the afterUnmount one - the in-memory backend's Unmount
//     does not touch the disk - so deriving from afterUnmount covers them.)
//   - at snap.restore.beforeMount(name): restore made snapshots/<id> and then <id>/fs with
//     two Mkdir calls (a graceful Close had removed <id>) -> <id> present, <id>/fs missing.
func (h *hist) derive(base *image, point, arg string) {
	type variant struct {
		class, what string
		remove      []string // paths below the image's snapshots/ directory
	}
	var vs []variant
	switch point {
	case "snap.cleanupdir.afterUnmount":
		rel, ok := strings.CutPrefix(arg, filepath.Join(h.root, "snapshots")+"/")
		if !ok || rel == "" || strings.Contains(rel, "/") {
			return
		}
		es, err := os.ReadDir(filepath.Join(base.Dir, "snapshots", rel))
		if err != nil || len(es) == 0 {
			return
		}
		var all []string
		for _, e := range es {
			all = append(all, filepath.Join(rel, e.Name()))
		}
		if len(es) > 1 {
			for _, e := range es {
				vs = append(vs, variant{"torn-removeall", rel + " without " + e.Name(), []string{filepath.Join(rel, e.Name())}})
			}
		}
		vs = append(vs, variant{"torn-removeall", rel + " empty", all})
	case "snap.restore.beforeMount":
		s := h.d.M.Snaps[arg]
		if s == nil || s.ID == "" {
			return
		}
		vs = append(vs, variant{"torn-mkdir", s.ID + " without fs", []string{filepath.Join(s.ID, "fs")}})
	default:
		return
	}
	for _, v := range vs {
		n := len(h.images)
		dir := filepath.Join(h.imgDir, strconv.Itoa(n))
		if err := os.MkdirAll(dir, 0o755); err != nil {
			return
		}
		if err := copyFile(filepath.Join(base.Dir, "metadata.db"), filepath.Join(dir, "metadata.db")); err != nil && !os.IsNotExist(err) {
			return
		}
		if err := copyTree(filepath.Join(base.Dir, "snapshots"), filepath.Join(dir, "snapshots")); err != nil {
			return
		}
		for _, p := range v.remove {
			_ = os.RemoveAll(filepath.Join(dir, "snapshots", p))
		}
		im := *base
		im.N, im.Dir = n, dir
		im.Point = base.Point + "+" + v.class
		im.Derived = v.what
		h.images = append(h.images, &im)
		h.r.Count("derived_images:"+base.Point+"+"+v.class, 1)
	}
}

func copyFile(src, dst string) error {
	in, err := os.Open(src)
	if err != nil {
		return err
	}
	defer in.Close()
	st, err := in.Stat()
	if err != nil {
		return err
	}
	out, err := os.OpenFile(dst, os.O_CREATE|os.O_TRUNC|os.O_WRONLY, st.Mode().Perm())
	if err != nil {
		return err
	}
	if _, err := io.Copy(out, in); err != nil {
		out.Close()
		return err
	}
	return out.Close()
}

// copyTree copies directories and regular files (bounded depth), keeping modes and owners.
func copyTree(src, dst string) error {
	return copyTreeDepth(src, dst, 0)
}

func copyTreeDepth(src, dst string, depth int) error {
	if depth > 8 {
		return fmt.Errorf("tree too deep")
	}
	st, err := os.Lstat(src)
	if err != nil {
		return err
	}
	if err := os.Mkdir(dst, st.Mode().Perm()); err != nil && !os.IsExist(err) {
		return err
	}
	if sys, ok := st.Sys().(*syscall.Stat_t); ok {
		_ = os.Lchown(dst, int(sys.Uid), int(sys.Gid))
	}
	es, err := os.ReadDir(src)
	if err != nil {
		return err
	}
	for _, e := range es {
		s, t := filepath.Join(src, e.Name()), filepath.Join(dst, e.Name())
		switch {
		case e.IsDir():
			if err := copyTreeDepth(s, t, depth+1); err != nil {
				return err
			}
		case e.Type().IsRegular():
			if err := copyFile(s, t); err != nil {
				return err
			}
		}
	}
	return nil
}

// ---------------------------------------------------------------------------
// restarts

const (
	modeAllow  = "allow-invalid"
	modeStrict = "strict"
	modeNoRest = "no-restore"
)

func (h *hist) models(im *image) (pre, post *snapdrv.Model, op *snapdrv.Op) {
	d := h.d
	switch {
	case im.OpIndex >= h.nops: // the final Close: metadata does not change
		var m *snapdrv.Model
		if len(d.After) > 0 && h.nops > 0 {
			m = d.After[h.nops-1]
		} else {
			m = snapdrv.NewModel()
		}
		return m, m, &snapdrv.Op{Kind: "close"}
	case im.Bound:
		m := d.After[im.OpIndex]
		return m, m, nil
	default:
		o := h.ops[im.OpIndex]
		return d.Before[im.OpIndex], d.After[im.OpIndex], &o
	}
}

func (h *hist) restartAll(im *image) {
	r := h.r
	for _, m := range []string{modeAllow, modeStrict, modeNoRest} {
		r.Count("images_restarted:"+m, 1)
	}
	// all mounts succeed, three modes; the number of restore mounts is learnt there
	nm := h.restart(im, modeAllow, -1, false)
	h.restart(im, modeStrict, -1, false)
	h.restart(im, modeNoRest, -1, false)
	if nm > 0 {
		// k-th restore mount fails: every k up to 3 mounts, else first / middle / last
		ks := []int{}
		if nm <= 3 {
			for k := 0; k < nm; k++ {
				ks = append(ks, k)
			}
		} else {
			ks = []int{0, nm / 2, nm - 1}
		}
		for _, k := range ks {
			h.restart(im, modeAllow, k, false)
			h.restart(im, modeStrict, k, false)
		}
	}
	// bind variant: leftover kernel mounts of the dead process below snapshots/
	every := 9
	if r.Thorough() {
		every = 6
	}
	if im.N%every == 2 && len(im.Live) > 0 {
		h.restart(im, modeStrict, -1, true)
		h.restart(im, modeAllow, 0, true)
		h.restart(im, modeNoRest, -1, true)
	}
}

type snapState struct {
	Kind, Parent string
	Labels       map[string]string
}

func stateOf(s *snapdrv.Snap) *snapState {
	if s == nil {
		return nil
	}
	return &snapState{s.Kind, s.Parent, s.Labels}
}

func sameState(a, b *snapState) bool {
	if a == nil || b == nil {
		return a == nil && b == nil
	}
	return a.Kind == b.Kind && a.Parent == b.Parent && snapdrv.LabelsEqual(a.Labels, b.Labels)
}

// restart runs one restart of one image and returns the number of restore Mount calls.
func (h *hist) restart(im *image, mode string, failK int, bind bool) (nMounts int) {
	r := h.r
	pre, post, op := h.models(im)
	inflight := "none"
	if op != nil {
		inflight = op.Kind
	}
	pointClass := im.Point
	desc := fmt.Sprintf("%s %s fail=%d bind=%v hist=%d image=%d inflight=%s", mode, im.Point, failK, bind, h.idx, im.N, inflight)
	_ = os.WriteFile(filepath.Join(r.Scratch, "journal.txt"), []byte(desc+"\n"), 0o644)
	replay := map[string]any{"history": h.idx, "script": snapdrv.Script(h.ops), "image": im.N, "crash_point": im.Point, "in_flight_op_index": im.OpIndex,
		"in_flight_op": fmt.Sprint(op), "derived_torn_state": im.Derived, "mode": mode, "fail_kth_mount": failK, "bind": bind, "async": im.Async}
	violate := func(key, what string) {
		r.Violate(key+"@"+pointClass, fmt.Sprintf("[%s, crash at %s during %s] %s", mode, im.Point, inflight, what), replay)
	}

	W := filepath.Join(h.work, "w", fmt.Sprintf("%d-%s-%d-%v", im.N, mode, failK, bind))
	if err := os.MkdirAll(W, 0o700); err != nil {
		return 0
	}
	defer os.RemoveAll(W)
	if err := copyFile(filepath.Join(im.Dir, "metadata.db"), filepath.Join(W, "metadata.db")); err != nil && !os.IsNotExist(err) {
		r.Inconclusive("image restore copy failed")
		return 0
	}
	if err := copyTree(filepath.Join(im.Dir, "snapshots"), filepath.Join(W, "snapshots")); err != nil {
		r.Inconclusive("image restore copy failed")
		return 0
	}
	rew := func(mp string) string { return W + strings.TrimPrefix(mp, h.root) }
	planted := map[string]bool{} // bind variant: real kernel mounts in place when the new process starts
	var fs *recfs.FS
	if bind {
		var err error
		fs, err = recfs.NewBind(filepath.Join(W, "bindsrc"))
		if err != nil {
			r.Inconclusive("bind source")
			return 0
		}
		defer recfs.UnmountAllKernel(W)
		left := 0
		for mp := range im.Live {
			t := rew(mp)
			if st, err := os.Lstat(t); err == nil && st.IsDir() {
				if err := syscall.Mount(filepath.Join(W, "bindsrc"), t, "", syscall.MS_BIND, ""); err == nil {
					left++
					planted[t] = true
				}
			}
		}
		if left == 0 {
			return 0
		}
		r.Count("bind_leftover_mounts_planted", left)
	} else {
		fs = recfs.New()
	}
	if mode == modeNoRest {
		pl := map[string]recfs.MountInfo{}
		for mp, mi := range im.Live {
			pl[rew(mp)] = mi
		}
		fs.Preload(pl)
	}
	fs.SetScript(recfs.Script{FailMount: func(n int, _ string) bool { return n == failK }})
	var opts []snapshot.Opt
	if im.Async {
		opts = append(opts, snapshot.AsynchronousRemove)
	}
	switch mode {
	case modeAllow:
		opts = append(opts, snapshot.AllowInvalidMountsOnRestart)
	case modeNoRest:
		opts = append(opts, snapshot.NoRestore)
	}
	ctx := context.Background()
	var sn snapshots.Snapshotter
	var nerr error
	if panicked, val, stack := vf.Recover(func() { sn, nerr = snapshot.NewSnapshotter(ctx, W, fs, opts...) }); panicked {
		violate("restart:panic:"+mode, fmt.Sprintf("NewSnapshotter panicked: %v\n%s", val, stack))
		return 0
	}
	r.Eval(1)
	r.Count("restarts:"+mode, 1)
	if failK >= 0 {
		r.Count("restarts_with_failing_mount:"+mode, 1)
	}
	if bind {
		r.Count("restarts_bind_variant", 1)
	}
	evs := fs.Drain()
	var mcalls []recfs.Event
	injected := false
	for _, ev := range evs {
		if ev.Kind == recfs.KMount {
			mcalls = append(mcalls, ev)
			if ev.Injected {
				injected = true
			}
		}
	}
	nMounts = len(mcalls)
	r.Count("restore_mount_calls", nMounts)
	// --- what allow_invalid_mounts_on_restart / no-restore prescribe
	if nerr != nil {
		if !injected {
			// (a mount on a missing directory fails in the backend: that is the restore code's doing, not an injected fault)
			violate("restart:failed-although-every-mount-succeeds:"+mode, "NewSnapshotter returned an error although no restore mount was made to fail: "+stripPaths(nerr.Error(), W))
		} else if mode != modeStrict {
			violate("restart:mount-failure-not-tolerated:"+mode, "NewSnapshotter returned an error for a failing restore mount in a mode that must tolerate it: "+stripPaths(nerr.Error(), W))
		} else {
			r.Count("strict_restart_refused_as_prescribed", 1)
			r.NonTrivial(desc)
		}
		return nMounts
	}
	defer sn.Close()
	if injected && mode == modeStrict {
		violate("restart:strict-tolerated-failing-mount", "a restore mount failed but NewSnapshotter succeeded without allow_invalid_mounts_on_restart")
	}
	if mode == modeNoRest && nMounts != 0 {
		violate("restart:no-restore-mounted", fmt.Sprintf("NoRestore is set but %d backend mounts were made", nMounts))
	}
	// --- restored metadata against what had been acknowledged
	obs := map[string]snapshots.Info{}
	werr := sn.Walk(ctx, func(_ context.Context, info snapshots.Info) error { obs[info.Name] = info; return nil })
	if werr != nil && !errdefs.IsNotFound(werr) {
		violate("restart:walk-failed", "Walk after restart failed: "+werr.Error())
		return nMounts
	}
	byID, ierr := snapshot.VerifIDMap(ctx, sn)
	if ierr != nil {
		byID = map[string]string{}
	}
	byKey := map[string]string{}
	for id, k := range byID {
		byKey[k] = id
	}
	touched := map[string]bool{}
	if op != nil {
		for _, n := range []string{op.Key, op.Name} {
			if n != "" {
				touched[n] = true
			}
		}
		if op.HasTarget {
			touched[op.Target] = true
		}
	}
	names := map[string]bool{}
	for n := range pre.Snaps {
		names[n] = true
	}
	for n := range post.Snaps {
		names[n] = true
	}
	for n := range obs {
		names[n] = true
	}
	ack := map[string]bool{} // acknowledged and not being changed by the in-flight operation
	for n := range names {
		a, b := stateOf(pre.Snaps[n]), stateOf(post.Snaps[n])
		var got *snapState
		if info, ok := obs[n]; ok {
			got = &snapState{snapdrv.KindName(info.Kind), info.Parent, info.Labels}
		}
		allowed := []*snapState{a}
		if touched[n] || !sameState(a, b) {
			allowed = append(allowed, b)
			if op != nil && op.Kind == "prepare" && n == op.Key && a == nil {
				// between the two transactions of a Prepare with target the key is an ordinary active snapshot
				l := map[string]string{snapdrv.UserLabel: op.Val}
				if op.HasTarget && op.Target != "" {
					l[snapdrv.TargetLabel] = op.Target
				}
				allowed = append(allowed, &snapState{snapdrv.Active, op.Parent, l})
			}
		} else if a != nil {
			ack[n] = true
		}
		ok := false
		for _, s := range allowed {
			if sameState(s, got) {
				ok = true
			}
		}
		if ok {
			continue
		}
		switch {
		case got == nil:
			violate("restart:acknowledged-snapshot-missing", fmt.Sprintf("snapshot %s (%s) had been acknowledged before the crash but is gone after restart", n, a.Kind))
		case a == nil && b == nil:
			violate("restart:unexpected-snapshot", fmt.Sprintf("snapshot %s (%s) exists after restart but was never created", n, got.Kind))
		default:
			violate("restart:snapshot-state-changed", fmt.Sprintf("snapshot %s is {%s parent=%q %v} after restart; acknowledged/possible states: %s", n, got.Kind, got.Parent, got.Labels, statesString(allowed)))
		}
	}
	// --- mounts: exactly the committed remote-labelled snapshots, with their labels
	want := map[string]map[string]string{}
	for n, info := range obs {
		if _, rem := info.Labels[snapdrv.RemoteLabel]; rem && info.Kind == snapshots.KindCommitted {
			want[snapdrv.MP(W, byKey[n])] = info.Labels
		}
		if _, rem := info.Labels[snapdrv.RemoteLabel]; rem && info.Kind != snapshots.KindCommitted {
			violate("restart:uncommitted-snapshot-marked-remote", fmt.Sprintf("%s is %s and carries the remote label after restart", n, snapdrv.KindName(info.Kind)))
		}
	}
	if mode != modeNoRest {
		seen := map[string]int{}
		for _, ev := range mcalls {
			seen[ev.Mountpoint]++
			l, ok := want[ev.Mountpoint]
			switch {
			case !ok:
				violate("restart:mounted-something-else", fmt.Sprintf("restore mounted %s which is not the directory of a committed remote snapshot", stripPaths(ev.Mountpoint, W)))
			case !snapdrv.LabelsEqual(l, ev.Labels):
				violate("restart:mounted-with-other-labels", fmt.Sprintf("restore mounted %s with labels %v, the snapshot has %v", stripPaths(ev.Mountpoint, W), ev.Labels, l))
			}
			if !ev.DirExists {
				violate("restart:mount-on-missing-directory", fmt.Sprintf("restore called Mount on %s which does not exist", stripPaths(ev.Mountpoint, W)))
			}
		}
		live := fs.Live()
		for mp := range want {
			if seen[mp] != 1 {
				violate("restart:remote-snapshot-not-remounted", fmt.Sprintf("committed remote snapshot directory %s got %d Mount calls during restore", stripPaths(mp, W), seen[mp]))
				continue
			}
			failed := false
			for _, ev := range mcalls {
				if ev.Mountpoint == mp && ev.Injected {
					failed = true
				}
			}
			if _, ok := live[mp]; !ok && !failed {
				violate("restart:remote-snapshot-not-remounted", fmt.Sprintf("committed remote snapshot directory %s is not mounted after restore", stripPaths(mp, W)))
			}
		}
		for mp := range live {
			if _, ok := want[mp]; !ok {
				violate("restart:mounted-something-else", fmt.Sprintf("%s is mounted after restore but is not a committed remote snapshot", stripPaths(mp, W)))
			}
		}
		if bind {
			km, _ := recfs.KernelMounts(W)
			cnt := map[string]int{}
			for _, m := range km {
				cnt[m]++
			}
			for mp := range live {
				if cnt[mp] != 1 {
					violate("restart:kernel-mount-table-differs", fmt.Sprintf("kernel has %d mounts on %s, expected exactly the restored one", cnt[mp], stripPaths(mp, W)))
				}
			}
			for mp := range cnt {
				if _, ok := live[mp]; !ok {
					violate("restart:leftover-kernel-mount-survived", fmt.Sprintf("a mount of the dead process on %s is still in the kernel mount table after restore", stripPaths(mp, W)))
				}
			}
		}
	}
	if mode == modeNoRest && bind {
		// NoRestore is the configuration in which the filesystem (FUSE manager) outlives the
		// snapshotter process: the mounts that are in place when the new process starts are the
		// live ones, nobody will make them again. Every committed remote snapshot that was
		// mounted at the crash instant must still be mounted, exactly once, after the restart.
		km, _ := recfs.KernelMounts(W)
		cnt := map[string]int{}
		for _, m := range km {
			cnt[m]++
		}
		kept := 0
		for mp := range want {
			if !planted[mp] {
				continue
			}
			if cnt[mp] != 1 {
				violate("restart:no-restore-live-mount-gone", fmt.Sprintf("NoRestore: committed remote snapshot directory %s was mounted (by the surviving filesystem) when the new process started and has %d kernel mounts after the restart; nothing re-mounts it", stripPaths(mp, W), cnt[mp]))
			} else {
				kept++
			}
		}
		r.Count("no_restore_live_mounts_kept", kept)
		if kept > 0 {
			r.NonTrivial(desc)
		}
		return nMounts // everything else of this image was judged in the no-restore restart without real mounts
	}
	// --- markers in ordinary snapshots' upper directories
	markers := func(when string) {
		for n, s := range pre.Snaps {
			if s.Marker == "" || s.ID == "" {
				continue
			}
			if _, liveID := byID[s.ID]; !liveID {
				continue
			}
			b, err := os.ReadFile(filepath.Join(snapdrv.MP(W, s.ID), "MARKER"))
			if err != nil || string(b) != s.Marker {
				violate("restart:ordinary-snapshot-content-changed:"+when, fmt.Sprintf("marker file of %s (id %s) is %q / %v, expected %q", n, s.ID, string(b), err, s.Marker))
			}
			r.Count("markers_checked", 1)
		}
	}
	markers("after-restart")
	// --- nontrivial?
	dirs0, _ := snapdrv.ReadDirs(W)
	reclaim := 0
	for _, dn := range dirs0 {
		if _, ok := byID[dn]; !ok {
			reclaim++
		}
	}
	if len(want) > 0 || reclaim > 0 {
		r.NonTrivial(desc)
	}
	if reclaim > 0 {
		r.Count("images_with_directories_to_reclaim", 1)
	}
	// --- acknowledged active / view snapshots are usable
	notMounted := func(name string) bool { // some remote ancestor has no backend mount (injected failure / directory gone in no-restore)
		p := name
		for i := 0; p != "" && i < 1000; i++ {
			info, ok := obs[p]
			if !ok {
				return false
			}
			if _, rem := info.Labels[snapdrv.RemoteLabel]; rem && fs.LiveCount(snapdrv.MP(W, byKey[p])) == 0 {
				return true
			}
			p = info.Parent
		}
		return false
	}
	usable := map[string]bool{}
	for n := range ack {
		info := obs[n]
		if info.Kind == snapshots.KindCommitted {
			continue
		}
		_, err := sn.Mounts(ctx, n)
		switch {
		case err == nil:
			usable[n] = true
		case errdefs.IsUnavailable(err) && notMounted(n):
			usable[n] = true // refused exactly as the unavailable remote layer prescribes
			r.Count("mounts_refused_for_unmounted_remote_layer", 1)
		}
		r.Count("acknowledged_snapshots_probed", 1)
	}
	// --- one cleanup pass
	cerr := snapdrv.Cleanup(ctx, sn)
	if cerr != nil {
		if errdefs.IsNotFound(cerr) && len(obs) == 0 && len(byID) == 0 {
			// one cause, one key (no crash point in it): Cleanup cannot run at all while the
			// metadata store has never committed a transaction
			if reclaim > 0 {
				r.Violate("restart:cleanup-fails-on-empty-metadata-store", fmt.Sprintf("[%s, crash at %s during %s] the image holds %d half-made directories and no snapshot; Cleanup returns %q and reclaims nothing", mode, im.Point, inflight, reclaim, stripPaths(cerr.Error(), W)), replay)
			}
			return nMounts
		}
		violate("restart:cleanup-failed", "Cleanup after restart failed: "+stripPaths(cerr.Error(), W))
	}
	dirs, _ := snapdrv.ReadDirs(W)
	seenDir := map[string]bool{}
	for _, dn := range dirs {
		seenDir[dn] = true
		if _, ok := byID[dn]; ok {
			continue
		}
		if strings.HasPrefix(dn, "new-") {
			violate("restart:cleanup-left-temp-directory", "after one Cleanup snapshots/"+strings.Split(dn, "-")[0]+"-* still exists")
		} else {
			violate("restart:cleanup-left-orphan-directory", fmt.Sprintf("after one Cleanup snapshots/%s exists but no live snapshot has that id", dn))
		}
	}
	for id, n := range byID {
		if seenDir[id] {
			continue
		}
		if info := obs[n]; mode == modeNoRest && info.Kind == snapshots.KindCommitted {
			if _, rem := info.Labels[snapdrv.RemoteLabel]; rem {
				continue // slack: with NoRestore nobody recreates a remote snapshot's mountpoint directory
			}
		}
		violate("restart:live-snapshot-without-directory", fmt.Sprintf("live snapshot %s (id %s) has no directory after restart + Cleanup", n, id))
	}
	markers("after-cleanup")
	// --- committed acknowledged snapshots are usable as parents
	for n := range ack {
		if obs[n].Kind != snapshots.KindCommitted {
			continue
		}
		vk := "verif-probe-" + n
		_, err := sn.View(ctx, vk, n)
		switch {
		case err == nil:
			usable[n] = true
		case errdefs.IsUnavailable(err) && notMounted(n):
			usable[n] = true
		}
		if _, serr := sn.Stat(ctx, vk); serr == nil {
			if rerr := sn.Remove(ctx, vk); rerr != nil {
				r.Count("unjudged_probe_view_not_removable", 1)
			}
		}
		r.Count("acknowledged_snapshots_probed", 1)
	}
	// --- everything is removable, leaves first
	order := removalOrder(obs)
	for _, n := range order {
		err := sn.Remove(ctx, n)
		if err == nil {
			continue
		}
		if ack[n] && !usable[n] {
			violate("restart:acknowledged-snapshot-neither-usable-nor-removable", fmt.Sprintf("%s (%s): Mounts/View failed and Remove failed: %s", n, snapdrv.KindName(obs[n].Kind), stripPaths(err.Error(), W)))
		} else {
			r.Count("unjudged_remove_failed", 1)
		}
	}
	for n := range ack {
		if usable[n] {
			r.Count("acknowledged_snapshots_usable", 1)
		} else {
			r.Count("acknowledged_snapshots_only_removable", 1)
		}
	}
	if err := snapdrv.Cleanup(ctx, sn); err == nil {
		if left, _ := snapdrv.ReadDirs(W); len(left) > 0 {
			rest := map[string]snapshots.Info{}
			_ = sn.Walk(ctx, func(_ context.Context, info snapshots.Info) error { rest[info.Name] = info; return nil })
			if len(rest) == 0 {
				violate("restart:final-cleanup-left-directories", fmt.Sprintf("all snapshots removed and Cleanup run, %d directories remain", len(left)))
			}
		}
	}
	return nMounts
}

func statesString(ss []*snapState) string {
	var parts []string
	for _, s := range ss {
		if s == nil {
			parts = append(parts, "absent")
		} else {
			parts = append(parts, fmt.Sprintf("{%s parent=%q %v}", s.Kind, s.Parent, s.Labels))
		}
	}
	return strings.Join(parts, " | ")
}

func stripPaths(s, w string) string { return strings.ReplaceAll(s, w, "<root>") }

// removalOrder lists all snapshots children before parents.
func removalOrder(obs map[string]snapshots.Info) []string {
	depth := map[string]int{}
	var dep func(n string, guard int) int
	dep = func(n string, guard int) int {
		if v, ok := depth[n]; ok {
			return v
		}
		info, ok := obs[n]
		if !ok || info.Parent == "" || guard > 1000 {
			depth[n] = 0
			return 0
		}
		v := dep(info.Parent, guard+1) + 1
		depth[n] = v
		return v
	}
	var names []string
	for n := range obs {
		dep(n, 0)
		names = append(names, n)
	}
	sort.Slice(names, func(i, j int) bool {
		if depth[names[i]] != depth[names[j]] {
			return depth[names[i]] > depth[names[j]]
		}
		return names[i] < names[j]
	})
	return names
}
