// L3 stage of C15: the daemon's own entry point. fs.NewFilesystem(...).Mount starts the
// prefetch itself (a goroutine of Mount); the first Check must not return before the
// prefetch ended, failed, went async or the configured timeout passed, and must return once
// one of those holds. Two variants per case:
//
//	stalled  every request for the head of the blob (the prefetch) is stalled in memreg.
//	         Check is called while the stall is held: it must return (timeout path; 30x
//	         watchdog -> violation) and, with no async threshold, not earlier than the
//	         configured timeout. The lower bound is one-sided safe: the harness measures
//	         from before the call to after the return, load only lengthens that.
//	clean    timeout 60 s, nothing stalled. Check returns; if the measured duration is
//	         below the timeout it returned because prefetch ended, so reading every
//	         prioritized file THROUGH THE KERNEL MOUNT must cause no registry request.
package main

import (
	"context"
	"fmt"
	"os"
	"path/filepath"
	"strconv"
	"strings"
	"sync/atomic"
	"time"

	"github.com/containerd/stargz-snapshotter/estargz"
	stargzfs "github.com/containerd/stargz-snapshotter/fs"
	"github.com/containerd/stargz-snapshotter/fs/config"
	"github.com/containerd/stargz-snapshotter/fs/source"
	"github.com/containerd/stargz-snapshotter/snapshot"

	"verifharness/internal/blob"
	"verifharness/internal/gen"
	"verifharness/internal/l2"
	"verifharness/internal/lx"
	"verifharness/internal/memreg"
	"verifharness/internal/vf"
)

func stageL3(r *vf.Run) {
	from, _ := strconv.Atoi(r.ChildArgs[0])
	to, _ := strconv.Atoi(r.ChildArgs[1])
	if f, err := os.OpenFile("/dev/fuse", os.O_RDWR, 0); err != nil {
		r.Set("l3", "skipped(capability): /dev/fuse unusable: "+err.Error())
		r.Count("l3_skipped_capability", 1)
		return
	} else {
		f.Close()
	}
	if !loadPool(r) {
		return
	}
	var cands []*lx.LayerSpec
	for _, ls := range pool {
		if ls.Landmark == lx.LmPrefetch && !ls.HasRoot && len(ls.Built.Blob) > 6000 {
			cands = append(cands, ls)
		}
	}
	if len(cands) == 0 {
		r.Inconclusive("l3: no suitable pool layer")
		return
	}
	for i := from; i < to; i++ {
		_ = os.WriteFile(filepath.Join(r.Scratch, "journal"), []byte(fmt.Sprintf("BEGIN stage=l3 case=%d seed=%d", i, r.Seed)), 0o644)
		rng := r.RNG(21, uint64(i))
		ls := cands[rng.Intn(len(cands))]
		variant := []string{"stalled", "clean"}[i%2]
		store := rng.PickS("memory", "db")
		// stalled variant: threshold 0 / between the real range (landmark offset) and the
		// configured size ("below": Check must still wait) / below the real range ("above":
		// early release is legitimate)
		async, psize, fam := int64(0), int64(0), ""
		if variant == "stalled" && ls.LandmarkOffset > 1 {
			switch x := (i / 2 + 1) % 4; { // stalled cases cycle: below, below, above, threshold 0
			case x == 1 || x == 2:
				async = ls.LandmarkOffset + int64(rng.Pick(0, 100))
				psize = async + int64(rng.Pick(1, 10<<20))
				fam = "below"
			case x == 3:
				async = ls.LandmarkOffset - 1
				psize = int64(rng.Pick(0, 10<<20))
				fam = "above"
			}
		}
		ok := r.Watchdog(6*time.Minute, "case l3", func() { l3Case(r, i, ls, variant, store, async, psize, fam) })
		if !ok {
			return
		}
	}
}

func l3Case(r *vf.Run, idx int, ls *lx.LayerSpec, variant, store string, async, psize int64, fam string) {
	r.Eval(1)
	desc := fmt.Sprintf("l3 %s store=%s async=%d(%s) prefetchsize=%d layer=%s", variant, store, async, fam, psize, ls.Desc)
	replay := map[string]any{"stage": "l3", "case": idx, "seed": r.Seed, "variant": variant, "store": store, "async": async, "family": fam, "prefetch_size": psize, "layer": ls.Desc}
	reg := memreg.New()
	im, err := l2.Publish(reg, "reg.test", "img", "v1", []*blob.Built{ls.Built})
	if err != nil {
		r.Inconclusive("l3: publish: " + err.Error())
		return
	}
	dg := im.Layers[0].Digest.String()
	root := filepath.Join(r.Scratch, fmt.Sprintf("l3fs-%d", idx))
	mp := filepath.Join(r.Scratch, fmt.Sprintf("l3mnt-%d", idx))
	_ = os.MkdirAll(root, 0o755)
	_ = os.MkdirAll(mp, 0o755)
	defer os.RemoveAll(root)
	timeout := int64(1)
	if variant == "clean" {
		timeout = 60
	}
	cfg := config.Config{NoBackgroundFetch: true, NoPrometheus: true, PrefetchSize: psize, PrefetchTimeoutSec: timeout, PrefetchAsyncSize: async,
		BlobConfig: config.BlobConfig{ChunkSize: 256}}
	cfg.DirectoryCacheConfig.SyncAdd = true
	ms, closeMS, db, err := l2.MetadataStore(store, root)
	if err != nil {
		r.Inconclusive("l3: metadata store: " + err.Error())
		return
	}
	if db != nil {
		db.NoSync = true
	}
	defer closeMS()
	var fsys snapshot.FileSystem
	fsys, err = stargzfs.NewFilesystem(root, cfg, stargzfs.WithGetSources(source.FromDefaultLabels(reg.Hosts(nil))), stargzfs.WithMetadataStore(ms))
	if err != nil {
		r.Inconclusive("l3: NewFilesystem: " + err.Error())
		return
	}
	labels := map[string]string{
		"containerd.io/snapshot/remote/stargz.reference": im.Ref.String(),
		"containerd.io/snapshot/remote/stargz.digest":    dg,
		"containerd.io/snapshot/remote/stargz.layers":    dg,
		estargz.TOCJSONDigestAnnotation:                  ls.Built.TOCDigest.String(),
	}
	// stall what the prefetch asks for: requests for the head of the blob (the resolution
	// reads footer and TOC at the tail: blob > 6000 bytes, registry chunk 256)
	release := make(chan struct{})
	reached := make(chan struct{})
	var once atomic.Bool
	var stalledReqs atomic.Int64
	if variant == "stalled" {
		reg.SetScript(func(q *memreg.Request) memreg.Behaviour {
			if q.Digest != dg || !lx.IsData(q) || q.Ranges[0][0] != 0 {
				return memreg.Behaviour{}
			}
			stalledReqs.Add(1)
			if once.CompareAndSwap(false, true) {
				close(reached)
			}
			return memreg.Behaviour{Stall: release, Label: "stall-head"}
		})
	}
	released := false
	rel := func() {
		if !released {
			released = true
			close(release)
		}
	}
	defer rel()
	ctx := context.Background()
	var merr error
	if !r.Watchdog(3*time.Minute, "l3 Mount", func() { merr = fsys.Mount(ctx, mp, labels) }) {
		return
	}
	if merr != nil {
		r.Inconclusive("l3: Mount failed: " + errClass(merr))
		return
	}
	unmounted := false
	unmount := func() {
		if !unmounted {
			unmounted = true
			rel()
			if err := fsys.Unmount(ctx, mp); err != nil {
				r.Count("l3_unmount_errors", 1)
			}
		}
	}
	defer unmount()

	if variant == "stalled" {
		select {
		case <-reached:
		case <-time.After(2 * time.Minute):
			r.Inconclusive("l3: the prefetch started by Mount never asked for the head of the blob")
			return
		}
		var cerr error
		cdone := make(chan struct{})
		t0 := time.Now()
		var dur time.Duration
		go func() {
			cerr = fsys.Check(ctx, mp, labels)
			dur = time.Since(t0)
			close(cdone)
		}()
		select {
		case <-cdone:
		case <-time.After(30 * time.Second):
			r.Violate("l3-check:blocked-beyond-30x-timeout", "the first Check after Mount (prefetch timeout 1 s) has not returned after 30 s while the prefetch is stalled in the registry ["+desc+"]", replay)
			rel()
			select {
			case <-cdone:
			case <-time.After(2 * time.Minute):
				r.Inconclusive("l3: Check did not return even after the stall was released")
			}
			return
		}
		// the stall is still held here
		r.Count("l3_check_returned_while_stalled", 1)
		if cerr != nil {
			r.Distinct("l3_check_errors", errClass(cerr))
		}
		// an async early release is legitimate only when the size really prefetched (the
		// landmark offset) exceeds the threshold
		if (async == 0 || ls.LandmarkOffset <= async) && dur < time.Second {
			r.Violate("l3-check:returned-before-prefetch-ended-or-timeout", fmt.Sprintf("the first Check after Mount returned after %v although the prefetch was still stalled in the registry, the configured timeout is 1 s and the async threshold (%d) is not exceeded by the size really prefetched (landmark offset %d; configured size %d) [%s]", dur, async, ls.LandmarkOffset, psize, desc), replay)
		}
		if fam != "" {
			r.Count("strong_L3-check-stalled-async-"+fam, 1)
		}
		r.NonTrivial(desc)
		r.Count("strong_L3-check-stalled", 1)
		return
	}

	// clean
	var cerr error
	t0 := time.Now()
	if !r.Watchdog(3*time.Minute, "l3 Check", func() { cerr = fsys.Check(ctx, mp, labels) }) {
		return
	}
	dur := time.Since(t0)
	if cerr != nil {
		r.Inconclusive("l3: Check failed: " + errClass(cerr))
		return
	}
	if dur >= time.Duration(timeout)*time.Second {
		r.Inconclusive("l3: Check took as long as the prefetch timeout (loaded machine): cannot tell completion from timeout")
		return
	}
	// Check returned before the timeout could fire: the prefetch has ended. SyncAdd=true, so
	// nothing is written behind. Read the prioritized files through the kernel.
	mark := lx.Mark(reg)
	var bytes int64
	for _, p := range ls.Prioritized {
		want := ls.FS.Nodes[p]
		got, err := os.ReadFile(filepath.Join(mp, p))
		if err != nil {
			r.Violate("l3-prefetch:read-fails", fmt.Sprintf("prioritized file %q cannot be read through the mount: %v [%s]", p, err, desc), replay)
			return
		}
		if int64(len(got)) != want.Size || gen.CheckContent(want.ContentID, 0, got) >= 0 {
			r.Violate("l3-prefetch:wrong-bytes", fmt.Sprintf("prioritized file %q read through the mount differs from the model [%s]", p, desc), replay)
			return
		}
		bytes += want.Size
	}
	var after []memreg.Request
	for _, q := range lx.Since(reg, mark) {
		if q.Digest == dg {
			after = append(after, q)
		}
	}
	if len(after) > 0 {
		r.Violate("l3-prefetch:prioritized-read-hits-registry", fmt.Sprintf("Mount + first Check returned (after %v, timeout %d s => prefetch ended); reading the prioritized files %q through the kernel mount caused %d registry request(s): %s [%s]", dur, timeout, ls.Prioritized, len(after), lx.DescribeReqs(after, 8), desc), replay)
	}
	if bytes > 0 {
		r.NonTrivial(desc)
		r.Count("strong_L3-check-then-read", 1)
	}
	_ = strings.TrimSpace
}
