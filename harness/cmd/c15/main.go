// C15 — prefetch and background fetch make later reads local; waiting is bounded.
//
// Real code under test: fs/layer (*layer).Prefetch/prefetch, WaitForPrefetchCompletion,
// BackgroundFetch/backgroundFetch, the waiter; fs/reader VerifiableReader.Cache /
// cacheWithReader / readAndCache; fs/remote blob.Cache (prefetch chunk size) and ReadAt;
// the task manager underneath; both metadata stores. Level L2 (layer.Resolver in process on
// the in-memory registry); the registry's REQUEST LOG is the event trace.
//
// Each case = one layer of a seeded pool (prefetch landmark / no-prefetch landmark / no
// landmark at all) + one configuration (store, registry chunk size, prefetch chunk size,
// prefetch size, async threshold, SyncAdd, LRU sizes) + one scenario:
//
//	clean    Prefetch (1-4 concurrent callers, maybe repeated) -> Wait -> clauses A/B/C, then
//	         BackgroundFetch -> clause D
//	fault    the k-th data request during Prefetch fails -> Wait must still return nil (E1)
//	stall    all data requests of the prefetch are stalled in memreg; 1-3 Waiters must return
//	         (timeout path) while the stall is still held (E2, decided by order; 30x watchdog)
//	bgfetch  BackgroundFetch with prioritized bursts / a failing or stalled request /
//	         concurrent callers -> clause D when it reported success
//
// Clauses (violation keys start with them):
//
//	A  prefetch-landmark:   after a successful Prefetch + Wait (+ write-behind drained) reading
//	                        every prioritized file in full causes a registry request
//	A' prefetch-landmark:read-needs-registry-after-http-cache-loss   (mechanism probe, see NOTES)
//	B  no-prefetch-landmark:traffic   Prefetch on a no-prefetch layer talks to the registry
//	C  no-landmark:         [0, min(size, blob)) not covered by fetched ranges / reported size wrong
//	D  bgfetch:offline-read a regular file cannot be read in full with the registry down after
//	                        a successful BackgroundFetch
//	E1 wait:timeout-after-prefetch-ended   Wait called after Prefetch returned reports a timeout
//	E2 wait:blocked-beyond-30x-timeout / wait:returned-nil-before-prefetch-ended
//	   prefetch:fails / bgfetch:fails (registry healthy)
package main

import (
	"context"
	"errors"
	"fmt"
	"os"
	"path/filepath"
	"sort"
	"strconv"
	"strings"
	"sync"
	"sync/atomic"
	"time"

	"github.com/containerd/stargz-snapshotter/fs/config"
	"github.com/containerd/stargz-snapshotter/fs/layer"

	"verifharness/internal/lx"
	"verifharness/internal/memreg"
	"verifharness/internal/prng"
	"verifharness/internal/vf"
)

var attribution = []string{
	"fs/layer.(*layer).Prefetch", "fs/layer.(*layer).prefetch", "fs/layer.(*layer).BackgroundFetch", "fs/layer.(*layer).backgroundFetch",
	"fs/layer.(*layer).WaitForPrefetchCompletion", "fs/layer.(*waiter)", "fs/reader.(*VerifiableReader).Cache", "fs/reader.(*VerifiableReader).cacheWithReader",
	"fs/reader.(*VerifiableReader).readAndCache", "task.",
}

var bg = context.Background()

func main() {
	vf.Main("C15", "exploration",
		"each case = one pool layer (prefetch landmark / no-prefetch landmark / none) x one configuration (store, registry chunk size, prefetch chunk size, prefetch size, async threshold, SyncAdd, LRU) x one scenario (clean / fault / stall / bgfetch, 1-4 concurrent callers, prioritized bursts); "+
			"non-trivial = at least one strong clause was exercised with something at stake: A with >=1 non-empty prioritized file after a prefetch that fetched something, B on a no-prefetch layer, C with a prefetch size > 0, "+
			"D reading >=1 non-empty file offline after a background fetch that fetched something, E2 with a Waiter returning while the stall was held; distinct by layer + configuration + scenario",
		25, 400, body)
}

func body(r *vf.Run) {
	lx.Quiet(r.Scratch)
	switch r.Child {
	case "":
		top(r)
	case "l2":
		stage(r)
	case "l3":
		stageL3(r)
	default:
		r.Inconclusive("unknown stage " + r.Child)
	}
}

// ---------------------------------------------------------------------------
// top

var poolPath string

// pool layout: [0,nPlain) random tars without an explicit root entry, [nPlain,nPlain+nRoot)
// with one, then nPacked MinChunkSize layers
const (
	nPlain  = 18
	nRoot   = 6
	nPacked = 12
)

func buildPools(r *vf.Run) ([]*lx.LayerSpec, error) {
	// 18 layers without an explicit root entry + 6 with one (DESIGN.md section 6: with the db
	// store such tars make VerifiableReader.Cache fail; they would mask every other clause, so
	// they get their own share of the cases)
	a, err := lx.Pool(prng.New(r.Seed).DeriveS("C15-pool"), nPlain, false)
	if err != nil {
		return nil, err
	}
	rootPool, err := lx.RootPool(prng.New(r.Seed).DeriveS("C15-rootpool"), 6)
	if err != nil {
		return nil, err
	}
	// 12 layers built with MinChunkSize (files share compressed streams)
	packed, err := lx.PackedPool(prng.New(r.Seed).DeriveS("C15-packedpool"), nPacked)
	if err != nil {
		return nil, err
	}
	return append(append(a, rootPool...), packed...), nil
}

type batch struct {
	stage    string
	race     bool
	from, to int
}

func top(r *vf.Run) {
	poolPath = filepath.Join(r.Scratch, "pool.gob")
	if p, err := buildPools(r); err != nil || lx.SavePool(poolPath, p) != nil {
		poolPath = ""
	}
	var bs []batch
	add := func(stage string, race bool, n, per int) {
		for f := 0; f < n; f += per {
			t := f + per
			if t > n {
				t = n
			}
			bs = append(bs, batch{stage, race, f, t})
		}
	}
	add("l2", false, r.N(60, 1400), r.N(30, 200))
	add("l2", true, r.N(24, 400), r.N(12, 100))
	add("l3", false, r.N(8, 60), r.N(8, 30))
	par := 3
	if r.Thorough() {
		par = 4
	}
	sem := make(chan struct{}, par)
	var wg sync.WaitGroup
	for _, b := range bs {
		wg.Add(1)
		sem <- struct{}{}
		go func(b batch) {
			defer wg.Done()
			defer func() { <-sem }()
			runBatch(r, b)
		}(b)
	}
	wg.Wait()
	r.Assume("internal/gen model + self-describing content, internal/memreg (Range semantics, request log with call-time stamps, Stall, SetDown), internal/nodefs")
	r.Assume("a request whose call-time stamp is later than a marker request's stamp was issued after the marker (one monotonic clock inside memreg)")
	r.Assume("SyncAdd=false: 'completed' includes the write-behind queue being drained (every wip/ directory empty), DESIGN.md C15 slack")
	r.Assume("E2: a Waiter that has not returned 30 s after it was called with a configured timeout of 1 s is blocked (the property itself is a time bound; one-sided)")
	r.Assume("A' (mechanism probe): prefetch keeps the prioritized files DECOMPRESSED in the layer's fs cache (anchor 'decompress-and-cache every file whose first chunk lies in the range'), so losing the on-disk http cache must not make them need the registry")
}

func runBatch(r *vf.Run, b batch) {
	label := fmt.Sprintf("%s/%s[%d,%d)", b.stage, map[bool]string{false: "plain", true: "race"}[b.race], b.from, b.to)
	to := 15 * time.Minute
	if r.Thorough() {
		to = 40 * time.Minute
	}
	args := []string{strconv.Itoa(b.from), strconv.Itoa(b.to), strconv.FormatBool(b.race)}
	if poolPath != "" {
		args = append(args, poolPath)
	}
	// attribution is done in accountRaces (one stable key for the many faces of one defect)
	ex := r.RunChild(vf.ChildSpec{Stage: b.stage, Args: args, Race: b.race, Timeout: to})
	r.Count("children", 1)
	accountRaces(r, ex.Races)
	if ex.ExitCode == 66 && ex.Partial && len(ex.Races) > 0 {
		ex.ExitCode = 0 // race runtime: "races were reported"; the body completed
	}
	switch {
	case ex.TimedOut:
		r.Inconclusive("child watchdog: " + b.stage)
		r.Logf("child %s timed out; output %s", label, ex.Output)
	case ex.ExitCode != 0 || ex.Signal != "" || !ex.Partial:
		out, _ := os.ReadFile(ex.Output)
		sig := lx.CrashSignature(string(out))
		site := lx.CrashSite(string(out))
		jr, _ := os.ReadFile(filepath.Join(filepath.Dir(ex.Output), "journal"))
		tail := ex.Tail
		if i := strings.Index(string(out), sig[:min(len(sig), 6)]); i >= 0 {
			end := min(i+3000, len(out))
			tail = string(out[i:end])
		}
		r.Violate("crash:"+b.stage+":"+sig+"@"+site,
			fmt.Sprintf("child %s died (exit=%d signal=%q) while running %s", label, ex.ExitCode, ex.Signal, strings.TrimSpace(string(jr))),
			map[string]any{"stage": b.stage, "race": b.race, "journal": strings.TrimSpace(string(jr)), "output": tail})
	}
}

// accountRaces: a report counts iff a stargz-snapshotter frame of either access stack
// matches the attribution set. Reports with one side inside the body closure of
// layer.backgroundFetch (backgroundFetch.func1.1) are all the same defect seen through
// different innermost frames (bytesWriter.Write, cache.reader.ReadAt, the gzip/zstd
// readers, the result variables): a background-task body that is still running after
// InvokeBackgroundTask retried it or returned (task.InvokeBackgroundTask does not wait for
// the body it cancelled). They get ONE stable key so that the defect can be listed once.
func accountRaces(r *vf.Run, reps []vf.RaceReport) {
	const mod = "github.com/containerd/stargz-snapshotter/"
	for _, rep := range reps {
		hit, inBody := false, false
		for _, st := range rep.Access {
			for _, fn := range st {
				if !strings.HasPrefix(fn, mod) {
					continue
				}
				short := strings.TrimPrefix(fn, mod)
				if strings.Contains(short, "fs/layer.(*layer).backgroundFetch.func1.1") {
					inBody = true
				}
				for _, a := range attribution {
					if strings.Contains(short, a) {
						hit = true
					}
				}
			}
		}
		a, b := rep.InnermostRepoFrames()
		fr := []string{a, b}
		sort.Strings(fr)
		switch {
		case inBody:
			r.Violate("race:background-task-body-overlaps-or-outlives-its-invocation@layer.backgroundFetch",
				"data race: a body of layer.backgroundFetch's background task runs concurrently with another body of the same invocation or with the code that consumes its buffer/result after InvokeBackgroundTask returned (prioritized task arrived during background fetch); innermost frames "+fr[0]+" | "+fr[1],
				map[string]any{"report": rep.Text})
			r.Distinct("attributed_races", "race:"+fr[0]+"|"+fr[1])
			r.Count("race_reports_background_body", 1)
		case hit:
			key := "race:" + fr[0] + "|" + fr[1]
			r.Violate(key, "data race between "+fr[0]+" and "+fr[1], map[string]any{"report": rep.Text})
			r.Distinct("attributed_races", key)
		}
	}
}

// ---------------------------------------------------------------------------
// L2 stage

var pool []*lx.LayerSpec

func loadPool(r *vf.Run) bool {
	if pool != nil {
		return true
	}
	var err error
	if len(r.ChildArgs) > 3 {
		pool, err = lx.LoadPool(r.ChildArgs[3])
	}
	if pool == nil {
		pool, err = buildPools(r)
	}
	if err != nil {
		r.Inconclusive("harness: layer build failed: " + err.Error())
		return false
	}
	return true
}

func stage(r *vf.Run) {
	from, _ := strconv.Atoi(r.ChildArgs[0])
	to, _ := strconv.Atoi(r.ChildArgs[1])
	race := r.ChildArgs[2] == "true"
	if !loadPool(r) {
		return
	}
	lbl := uint64(1)
	if race {
		lbl = 11
	}
	for i := from; i < to; i++ {
		_ = os.WriteFile(filepath.Join(r.Scratch, "journal"), []byte(fmt.Sprintf("BEGIN stage=l2 race=%v case=%d seed=%d", race, i, r.Seed)), 0o644)
		rng := r.RNG(lbl, uint64(i))
		ok := r.Watchdog(6*time.Minute, "case l2", func() {
			c := newCase(r, i, race, rng)
			if c == nil {
				return
			}
			tc := time.Now()
			defer func() {
				cls := c.cfg.Scenario
				if c.cfg.Store == "db" && c.ls.HasRoot {
					cls = "db-root-entry"
				}
				r.Count(fmt.Sprintf("wall_ms_%s_race=%v", cls, race), int(time.Since(tc).Milliseconds()))
				r.Count(fmt.Sprintf("cases_%s_race=%v", cls, race), 1)
			}()
			c.run()
			c.finish()
		})
		if !ok {
			return
		}
		if i%8 == 7 {
			r.FlushPartial()
		}
	}
}

type caseCfg struct {
	Store         string
	BlobChunk     int64
	PrefetchChunk int64
	PrefetchSize  int64
	AsyncSize     int64
	AsyncFamily   string // stall scenario: threshold "below" / "above" the real prefetch range, or ""
	SyncAdd       bool
	FSMem, HTTPMem bool
	LRU, Fds      int
	MaxConc       int64
	Scenario      string
	Callers       int
	VerifyFirst   bool
	Repeat        bool
	PrioBursts    int
	FaultK        int64
	FaultMode     string
	ThenBG        bool
	Probe         bool
}

func (c caseCfg) String() string {
	return fmt.Sprintf("store=%s blobchunk=%d prefetchchunk=%d prefetchsize=%d async=%d(%s) syncadd=%v fsmem=%v httpmem=%v lru=%d fds=%d maxconc=%d scenario=%s callers=%d verifyfirst=%v repeat=%v priobursts=%d fault=%d/%s thenbg=%v probe=%v",
		c.Store, c.BlobChunk, c.PrefetchChunk, c.PrefetchSize, c.AsyncSize, c.AsyncFamily, c.SyncAdd, c.FSMem, c.HTTPMem, c.LRU, c.Fds, c.MaxConc, c.Scenario, c.Callers, c.VerifyFirst, c.Repeat, c.PrioBursts, c.FaultK, c.FaultMode, c.ThenBG, c.Probe)
}

type kase struct {
	r    *vf.Run
	idx  int
	race bool
	rng  *prng.R
	cfg  caseCfg
	li   int // pool index
	ls   *lx.LayerSpec
	w    *lx.World
	root string
	l    layer.Layer
	dg   string
	size int64

	verified   bool
	steps      []string
	cnt        map[string]int
	strong     []string // strong clauses exercised
	faultArmed bool     // a fault or stall was injected in this case
	phase2Hit  bool     // the prefetch failed because its decompress phase was failed by the registry
}

func newCase(r *vf.Run, idx int, race bool, rng *prng.R) *kase {
	c := &kase{r: r, idx: idx, race: race, rng: rng, cnt: map[string]int{}}
	// 1 case in 3 uses a MinChunkSize layer (streams shared between files: a file's chunks
	// are spread over the stream of its small predecessors and streams of their own), 1 in
	// 12 a tar with an explicit root entry, the rest the plain random tars
	switch x := rng.Intn(12); {
	case x < 4 && len(pool) >= nPlain+nRoot+nPacked:
		c.li = nPlain + nRoot + rng.Intn(nPacked)
	case x == 4 && len(pool) >= nPlain+nRoot:
		c.li = nPlain + rng.Intn(nRoot)
	default:
		c.li = rng.Intn(min(nPlain, len(pool)))
	}
	c.ls = pool[c.li]
	size := int64(len(c.ls.Built.Blob))
	cfg := caseCfg{
		Store:         rng.PickS("memory", "db"),
		BlobChunk:     int64(rng.Pick(256, 1000, 4096, 50000)),
		PrefetchChunk: int64(rng.Pick(0, 0, 300, 1000, 5000)),
		AsyncSize:     int64(rng.Pick(0, 0, 0, 1, 1000, 1<<30)),
		SyncAdd:       rng.Bool(),
		FSMem:         rng.Chance(1, 10),
		HTTPMem:       rng.Chance(1, 10),
		LRU:           rng.Pick(1, 2, 10),
		Fds:           rng.Pick(1, 2, 10),
		MaxConc:       int64(rng.Pick(1, 2, 4)),
		Scenario:      rng.PickS("clean", "clean", "clean", "fault", "stall", "stall", "bgfetch", "bgfetch", "bgfetch"),
		Callers:       rng.Pick(1, 1, 2, 4),
		VerifyFirst:   rng.Bool(),
		Repeat:        rng.Chance(1, 3),
		ThenBG:        rng.Chance(1, 2),
		Probe:         rng.Chance(1, 2),
	}
	cfg.PrefetchSize = []int64{0, 0, 1, cfg.BlobChunk - 1, cfg.BlobChunk, cfg.BlobChunk + 1, size / 2, size - 1, size, size + 1, 2 * size, 10 << 20}[rng.Intn(12)]
	if cfg.PrefetchSize < 0 {
		cfg.PrefetchSize = 0
	}
	if cfg.Scenario == "fault" || (cfg.Scenario == "bgfetch" && rng.Chance(1, 3)) {
		cfg.FaultK = int64(rng.Range(1, 3))
		cfg.FaultMode = rng.PickS("err", "500", "stall-release")
	}
	if cfg.Scenario == "bgfetch" && rng.Chance(1, 2) {
		cfg.PrioBursts = rng.Pick(3, 20, 200) // upper bound; the bursts stop when BackgroundFetch returns
	}
	if c.ls.Landmark == lx.LmNone && (cfg.Scenario == "clean" || cfg.Scenario == "fault") && rng.Chance(2, 3) && size > 4000 {
		// "phase2": the registry fails exactly in the second (decompress) phase of a prefetch
		// whose configured size ends inside a file, then recovers; BackgroundFetch follows
		cfg.Scenario, cfg.FaultMode = "fault", "phase2"
		cfg.BlobChunk = int64(rng.Pick(256, 1000))
		cfg.PrefetchChunk = int64(rng.Pick(0, 0, 300))
		cfg.PrefetchSize = size/5 + rng.Int63n(size/2)
		cfg.FaultK = (cfg.PrefetchSize/cfg.BlobChunk + 1) * cfg.BlobChunk // alignUp(size, registry chunk)
		cfg.ThenBG, cfg.Callers = true, 1
	}
	if cfg.Probe && c.ls.Landmark == lx.LmPrefetch {
		// A' is only informative when the http cache cannot serve the head of the blob from
		// its in-memory LRU / cached descriptors after its files were removed
		cfg.LRU, cfg.Fds = 1, 1
		if cfg.BlobChunk > 1000 {
			cfg.BlobChunk = 256
		}
	}
	if cfg.Scenario == "stall" {
		// make the stall productive: something must be left to fetch after the resolution
		if c.ls.Landmark == lx.LmNoPrefetch {
			cfg.Scenario = "clean"
		} else if cfg.BlobChunk > 4096 {
			cfg.BlobChunk = 1000
		}
	}
	if cfg.Scenario == "stall" {
		// The async threshold is compared with the size REALLY prefetched (landmark offset,
		// or the configured size capped at the blob size), not with the configured size.
		// Half of the stall cases put the threshold between the two ("below": no early
		// release allowed although configured size > threshold), a quarter the mirror
		// ("above": real range > threshold, early release is legitimate), the rest as drawn.
		real := c.ls.LandmarkOffset
		if c.ls.Landmark == lx.LmNone {
			real = size
		}
		switch fam := rng.Intn(4); {
		case fam < 2 && real > 0:
			cfg.AsyncSize = real + int64(rng.Pick(0, 1, 100))
			cfg.PrefetchSize = cfg.AsyncSize + int64(rng.Pick(1, 1000, 10<<20))
			cfg.AsyncFamily = "below"
		case fam == 2 && real > 1:
			cfg.AsyncSize = []int64{1, (real + 1) / 2, real - 1}[rng.Intn(3)]
			if c.ls.Landmark == lx.LmNone {
				cfg.PrefetchSize = size * int64(rng.Pick(1, 2))
			}
			cfg.AsyncFamily = "above"
		}
	}
	c.cfg = cfg
	var conf config.Config
	conf.BlobConfig.ChunkSize = cfg.BlobChunk
	conf.BlobConfig.PrefetchChunkSize = cfg.PrefetchChunk
	conf.ResolveResultEntryTTLSec = 3600
	conf.PrefetchTimeoutSec = 1
	conf.PrefetchAsyncSize = cfg.AsyncSize
	conf.MaxConcurrency = cfg.MaxConc
	conf.DirectoryCacheConfig.SyncAdd = cfg.SyncAdd
	conf.DirectoryCacheConfig.MaxLRUCacheEntry = cfg.LRU
	conf.DirectoryCacheConfig.MaxCacheFds = cfg.Fds
	if cfg.FSMem {
		conf.FSCacheType = "memory"
	}
	if cfg.HTTPMem {
		conf.HTTPCacheType = "memory"
	}
	c.root = filepath.Join(r.Scratch, fmt.Sprintf("w-%d", idx))
	w, err := lx.NewWorld(c.root, []*lx.LayerSpec{c.ls}, conf, cfg.Store)
	if err != nil {
		r.Inconclusive("harness: world: " + err.Error())
		return nil
	}
	c.w = w
	c.dg = w.Digest(0)
	c.size = size
	return c
}

func (c *kase) step(format string, a ...any) { c.steps = append(c.steps, fmt.Sprintf(format, a...)) }
func (c *kase) count(name string, n int)      { c.cnt[name] += n }

func (c *kase) desc() string {
	return fmt.Sprintf("pool[%d] %s root=%v | %s", c.li, c.ls.Desc, c.ls.HasRoot, c.cfg.String())
}

func (c *kase) replay() map[string]any {
	return map[string]any{"stage": c.r.Child, "race_build": c.race, "case": c.idx, "seed": c.r.Seed, "layer": fmt.Sprintf("pool[%d] %s root=%v", c.li, c.ls.Desc, c.ls.HasRoot),
		"config": c.cfg.String(), "steps": c.steps}
}

func (c *kase) violate(key, what string) {
	c.r.Violate(key, what+" ["+c.desc()+"]", c.replay())
}

func (c *kase) finish() {
	c.r.Eval(1)
	for k, n := range c.cnt {
		c.r.Count(k, n)
	}
	c.r.Count("scenario_"+c.cfg.Scenario, 1)
	c.r.Count("landmark_"+c.ls.Landmark, 1)
	c.r.Count("store_"+c.cfg.Store, 1)
	if c.ls.Packed {
		c.r.Count("layer_packed_minchunksize", 1)
	}
	if len(c.strong) > 0 {
		c.r.NonTrivial(c.desc())
		for _, s := range c.strong {
			c.r.Count("strong_"+s, 1)
			if c.ls.Packed {
				c.r.Count("strong_"+s+"_on_packed_layer", 1)
			}
		}
	}
	if c.idx < 3 && !c.race {
		c.r.Sample(map[string]any{"case": c.idx, "layer": c.ls.Desc, "config": c.cfg.String(), "steps": c.steps})
	}
	if c.l != nil {
		c.l.Close()
	}
	c.w.Close()
	os.RemoveAll(c.root)
}

// ---------------------------------------------------------------------------
// memreg scripts

type injector struct {
	dgst    string
	mode    string // err | 500 | stall-release | stall
	k       int64  // fail the k-th data request (err/500/stall-release); stall: all
	armed   atomic.Bool
	seen    atomic.Int64
	hits    atomic.Int64
	reached chan struct{}
	once    sync.Once
	release chan struct{}
}

func newInjector(dgst, mode string, k int64) *injector {
	return &injector{dgst: dgst, mode: mode, k: k, reached: make(chan struct{}), release: make(chan struct{})}
}

func (f *injector) script(q *memreg.Request) memreg.Behaviour {
	if !f.armed.Load() || q.Digest != f.dgst || !lx.IsData(q) {
		return memreg.Behaviour{}
	}
	n := f.seen.Add(1)
	switch f.mode {
	case "stall":
		f.hits.Add(1)
		f.once.Do(func() { close(f.reached) })
		return memreg.Behaviour{Stall: f.release, Label: "stall"}
	case "stall-release":
		if n == f.k {
			f.hits.Add(1)
			f.once.Do(func() { close(f.reached) })
			return memreg.Behaviour{Stall: f.release, Label: "stall-release"}
		}
	case "phase2":
		// fail what prefetch asks for AFTER its range request: on a layer without landmark
		// blob.Cache(0, size) only asks for chunks below alignUp(size); anything at or beyond
		// f.k is the decompress phase fetching the rest of a file that straddles the range end
		if q.Ranges[0][0] >= f.k {
			f.hits.Add(1)
			return memreg.Behaviour{Status: 500, Label: "fault-phase2"}
		}
	case "err":
		if n == f.k {
			f.hits.Add(1)
			return memreg.Behaviour{Err: errors.New("memreg: injected transport error"), Label: "fault"}
		}
	case "500":
		if n == f.k {
			f.hits.Add(1)
			return memreg.Behaviour{Status: 500, Label: "fault"}
		}
	}
	return memreg.Behaviour{}
}

// slowdown: every data request for the digest takes 2 ms longer; reached is closed at the first.
type slowdown struct {
	dgst    string
	reached chan struct{}
	once    sync.Once
}

func (f *slowdown) script(q *memreg.Request) memreg.Behaviour {
	if q.Digest != f.dgst || !lx.IsData(q) {
		return memreg.Behaviour{}
	}
	f.once.Do(func() { close(f.reached) })
	return memreg.Behaviour{Delay: 2 * time.Millisecond, Label: "slow"}
}

// ---------------------------------------------------------------------------
// scenario

func errClass(err error) string {
	s := err.Error()
	for _, m := range []string{"tree is too deep", "already closed", "failed to prefetch layer", "failed to cache prefetched layer", "failed to cache file payload", "cacheWithReader.peek", "invalid chunk", "context canceled", "context deadline", "injected transport error", "unexpected status code", "failed to read"} {
		if strings.Contains(s, m) {
			return m
		}
	}
	if len(s) > 50 {
		s = s[:50]
	}
	return s
}

func (c *kase) verify() bool {
	if c.verified {
		return true
	}
	if err := c.l.Verify(c.ls.Built.TOCDigest); err != nil {
		c.violate("verify-fails:"+errClass(err), fmt.Sprintf("Verify with the genuine TOC digest fails: %v", err))
		return false
	}
	c.verified = true
	return true
}

func (c *kase) dataRequests(log []memreg.Request) int {
	n := 0
	for i := range log {
		if log[i].Digest == c.dg && lx.IsData(&log[i]) {
			n++
		}
	}
	return n
}

func (c *kase) forDigest(log []memreg.Request) []memreg.Request {
	var res []memreg.Request
	for i := range log {
		if log[i].Digest == c.dg {
			res = append(res, log[i])
		}
	}
	return res
}

func (c *kase) drain() bool {
	if !lx.WaitWipDrained(c.root, 2*time.Minute) {
		c.r.Inconclusive("watchdog: write-behind queue (wip/) did not drain")
		return false
	}
	return true
}

func (c *kase) run() {
	l, err := c.w.Env.Resolve(bg, c.w.Img, 0)
	if err != nil {
		c.violate("resolve-fails:registry-healthy", fmt.Sprintf("Resolve failed on a healthy registry: %v", err))
		return
	}
	c.l = l
	if c.cfg.VerifyFirst && !c.verify() {
		return
	}
	switch c.cfg.Scenario {
	case "clean", "fault":
		ok := c.prefetchPhase()
		if ok && c.cfg.ThenBG {
			c.bgPhase()
		}
	case "stall":
		c.stallPhase()
	case "bgfetch":
		if c.rng.Bool() {
			c.prefetchPhase()
		}
		c.bgPhase()
	}
}

// callPrefetch runs Prefetch from n concurrent callers; returns the errors.
func (c *kase) callPrefetch(n int) []error {
	errs := make([]error, n)
	var wg sync.WaitGroup
	for i := 0; i < n; i++ {
		wg.Add(1)
		go func(i int) {
			defer wg.Done()
			errs[i] = c.l.Prefetch(c.cfg.PrefetchSize)
		}(i)
	}
	wg.Wait()
	return errs
}

func firstErr(errs []error) error {
	for _, e := range errs {
		if e != nil {
			return e
		}
	}
	return nil
}

// knownDotDefect: db store + a tar with an explicit root entry: the root gets a child "."
// that is the root itself, VerifiableReader.Cache walks it until "tree is too deep".
func (c *kase) knownDotDefect(err error) bool {
	return c.cfg.Store == "db" && c.ls.HasRoot && strings.Contains(err.Error(), "tree is too deep")
}

// prefetchPhase: Prefetch (+Wait) and clauses A/B/C/E1. Returns false when the case should stop.
func (c *kase) prefetchPhase() bool {
	var inj *injector
	if c.cfg.Scenario == "fault" {
		inj = newInjector(c.dg, c.cfg.FaultMode, c.cfg.FaultK)
		c.w.Reg.SetScript(inj.script)
		inj.armed.Store(true)
		c.faultArmed = true
		if c.cfg.FaultMode == "stall-release" {
			// a slow registry: release the stalled request once it has been reached
			go func() {
				select {
				case <-inj.reached:
				case <-time.After(3 * time.Minute):
				}
				close(inj.release)
			}()
		}
	}
	mark := lx.Mark(c.w.Reg)
	errs := c.callPrefetch(c.cfg.Callers)
	perr := firstErr(errs)
	c.step("Prefetch(size=%d,callers=%d)->%v", c.cfg.PrefetchSize, c.cfg.Callers, perr)
	c.count("prefetch_calls", c.cfg.Callers)
	// E1: prefetch has ended (or failed) before Wait is called: Wait must report completion, not a timeout
	nw := c.rng.Range(1, 3)
	werrs := make([]error, nw)
	var wg sync.WaitGroup
	for i := 0; i < nw; i++ {
		wg.Add(1)
		go func(i int) { defer wg.Done(); werrs[i] = c.l.WaitForPrefetchCompletion() }(i)
	}
	waitDone := make(chan struct{})
	go func() { wg.Wait(); close(waitDone) }()
	select {
	case <-waitDone:
	case <-time.After(30 * time.Second):
		c.violate("wait:blocked-beyond-30x-timeout:after-prefetch-ended", "WaitForPrefetchCompletion (configured timeout 1 s) has not returned 30 s after it was called, although Prefetch had already returned")
		<-waitDone
	}
	if inj != nil {
		inj.armed.Store(false)
		c.w.Reg.SetScript(nil)
	}
	hits := int64(0)
	if inj != nil {
		hits = inj.hits.Load()
	}
	c.count("wait_calls", nw)
	for _, we := range werrs {
		if we != nil {
			state := "succeeded"
			if perr != nil {
				state = "failed"
			}
			c.violate("wait:timeout-after-prefetch-ended:prefetch-"+state, fmt.Sprintf("Prefetch had already returned (%s: %v) when WaitForPrefetchCompletion was called, yet Wait did not report completion but: %v", state, perr, we))
			break
		}
	}
	if perr != nil || hits > 0 {
		c.strong = append(c.strong, "E1-wait-after-end")
	}
	log := c.forDigest(lx.Since(c.w.Reg, mark))
	c.count("prefetch_requests", len(log))
	if perr != nil {
		switch {
		case hits > 0 && (c.cfg.FaultMode == "err" || c.cfg.FaultMode == "500" || c.cfg.FaultMode == "phase2"):
			c.count("prefetch_failed_under_fault", 1)
			if c.cfg.FaultMode == "phase2" {
				c.phase2Hit = true
				c.count("prefetch_failed_in_decompress_phase", 1)
			}
		case c.knownDotDefect(perr):
			c.violate("prefetch-fails:self-child-dot@db", fmt.Sprintf("Prefetch fails on a healthy registry: db metadata store + tar with an explicit root entry: %v", perr))
		default:
			c.violate("prefetch:fails:registry-healthy:"+errClass(perr), fmt.Sprintf("Prefetch fails although no request was failed: %v", perr))
		}
		return true // background fetch may still be tried
	}
	if c.cfg.Repeat {
		m2 := lx.Mark(c.w.Reg)
		if err := c.l.Prefetch(c.cfg.PrefetchSize); err != nil {
			c.violate("prefetch:repeated-call-fails", fmt.Sprintf("a second Prefetch after a successful one fails: %v", err))
		}
		if err := c.l.WaitForPrefetchCompletion(); err != nil {
			c.violate("wait:timeout-after-prefetch-ended:repeated", fmt.Sprintf("Wait after a repeated Prefetch reports: %v", err))
		}
		c.count("repeat_requests", len(c.forDigest(lx.Since(c.w.Reg, m2))))
		c.step("Prefetch-again")
	}
	if !c.verify() {
		return false
	}
	if !c.drain() {
		return false
	}
	switch c.ls.Landmark {
	case lx.LmNoPrefetch:
		// B
		if len(log) > 0 {
			c.violate("no-prefetch-landmark:traffic", fmt.Sprintf("Prefetch(%d) on a layer with a no-prefetch landmark sent %d request(s): %s", c.cfg.PrefetchSize, len(log), lx.DescribeReqs(log, 8)))
		}
		c.strong = append(c.strong, "B")
	case lx.LmNone:
		// C: everything fetched so far (resolution included: chunks already cached are skipped by prefetch)
		want := c.cfg.PrefetchSize
		if want > c.size {
			want = c.size
		}
		all := c.w.Reg.Log()
		if ok, upto := lx.Covered(all, c.dg, want); !ok {
			c.violate("no-landmark:range-not-covered", fmt.Sprintf("Prefetch(%d) of a %d-byte blob without landmark returned nil but the fetched ranges cover only [0,%d) of [0,%d)", c.cfg.PrefetchSize, c.size, upto, want))
		}
		if got := c.l.Info().PrefetchSize; got != want {
			c.violate("no-landmark:reported-prefetch-size", fmt.Sprintf("Prefetch(%d) of a %d-byte blob without landmark: Info().PrefetchSize = %d, want min(size, blob) = %d", c.cfg.PrefetchSize, c.size, got, want))
		}
		if want > 0 {
			c.strong = append(c.strong, "C")
		}
	case lx.LmPrefetch:
		if c.cfg.Probe && !c.cfg.HTTPMem && !c.cfg.FSMem {
			// A' instead of A (a read under A would itself put the decompressed chunks into
			// the fs cache and hide what the prefetch did not): lose the on-disk http cache
			// first (a cache may always be lost), then read
			n := wipeCacheFiles(filepath.Join(c.root, "httpcache"))
			c.count("probe_http_files_removed", n)
			c.step("ProbeHTTPCacheLoss(removed=%d)", n)
			c.clauseA(len(log), "prefetch-landmark:read-needs-registry-after-http-cache-loss")
		} else {
			// A
			c.clauseA(len(log), "prefetch-landmark:prioritized-read-hits-registry")
		}
	}
	return true
}

func (c *kase) clauseA(prefetchReqs int, key string) {
	root, rerr := lx.Root(c.l)
	if rerr != nil {
		c.violate("prefetch-landmark:read:"+rerr.Class, "cannot get the root node after prefetch: "+rerr.Detail)
		return
	}
	mark := lx.Mark(c.w.Reg)
	var bytes int64
	for _, p := range c.ls.Prioritized {
		if rerr := lx.ReadFull(root, c.ls, p); rerr != nil {
			c.violate("prefetch-landmark:read:"+rerr.Class, fmt.Sprintf("prioritized file cannot be read after prefetch (registry healthy): %v", rerr))
			return
		}
		bytes += c.ls.FS.Nodes[p].Size
	}
	after := c.forDigest(lx.Since(c.w.Reg, mark))
	c.count("prioritized_bytes_read", int(bytes))
	if len(after) > 0 {
		c.violate(key, fmt.Sprintf("after Prefetch returned nil, Wait returned and the write-behind queue drained, reading the %d prioritized file(s) %q in full caused %d registry request(s): %s", len(c.ls.Prioritized), c.ls.Prioritized, len(after), lx.DescribeReqs(after, 8)))
	}
	if bytes > 0 && prefetchReqs > 0 {
		c.strong = append(c.strong, "A")
	}
	c.step("ReadPrioritized(%d bytes)->%d requests", bytes, len(after))
}

// wipeCacheFiles removes the committed chunk files (not the directories, not wip/) below dir.
func wipeCacheFiles(dir string) int {
	n := 0
	_ = filepath.Walk(dir, func(p string, info os.FileInfo, err error) error {
		if err != nil || info.IsDir() {
			return nil
		}
		if strings.Contains(p, "/wip/") {
			return nil
		}
		if os.Remove(p) == nil {
			n++
		}
		return nil
	})
	return n
}

// stallPhase: E2.
func (c *kase) stallPhase() {
	inj := newInjector(c.dg, "stall", 0)
	c.w.Reg.SetScript(inj.script)
	inj.armed.Store(true)
	c.faultArmed = true
	var prefetchReturned atomic.Bool
	var perr error
	pdone := make(chan struct{})
	mark := lx.Mark(c.w.Reg)
	go func() {
		errs := c.callPrefetch(c.cfg.Callers)
		perr = firstErr(errs)
		prefetchReturned.Store(true)
		close(pdone)
	}()
	select {
	case <-inj.reached:
	case <-pdone:
	case <-time.After(3 * time.Minute):
		c.r.Inconclusive("watchdog: stalled prefetch neither reached the registry nor returned")
		close(inj.release)
		return
	}
	stalled := false
	select {
	case <-inj.reached:
		stalled = true
	default:
	}
	c.step("Prefetch(size=%d) stalled=%v", c.cfg.PrefetchSize, stalled)
	if !stalled {
		// nothing had to be fetched (no-prefetch landmark, or everything was cached by the
		// resolution already): degenerate, fall back to the completion checks
		c.count("stall_not_reached", 1)
		inj.armed.Store(false)
		c.w.Reg.SetScript(nil)
		if err := c.l.WaitForPrefetchCompletion(); err != nil {
			c.violate("wait:timeout-after-prefetch-ended:prefetch-succeeded", fmt.Sprintf("Prefetch had returned (%v) but Wait reports: %v", perr, err))
		}
		return
	}
	nw := c.rng.Range(1, 3)
	type wres struct {
		err            error
		prefetchEnded  bool
	}
	res := make([]wres, nw)
	var wg sync.WaitGroup
	for i := 0; i < nw; i++ {
		wg.Add(1)
		go func(i int) {
			defer wg.Done()
			err := c.l.WaitForPrefetchCompletion()
			res[i] = wres{err, prefetchReturned.Load()}
		}(i)
	}
	wdone := make(chan struct{})
	go func() { wg.Wait(); close(wdone) }()
	blocked := false
	select {
	case <-wdone:
	case <-time.After(30 * time.Second):
		blocked = true
		c.violate("wait:blocked-beyond-30x-timeout", fmt.Sprintf("%d WaitForPrefetchCompletion call(s) (configured timeout 1 s) have not returned 30 s after they were called while a prefetch request is stalled in the registry", nw))
	}
	// the stall is released only now: every Waiter that returned did so while it was held
	close(inj.release)
	if blocked {
		select {
		case <-wdone:
		case <-time.After(2 * time.Minute):
			c.r.Inconclusive("watchdog: Waiters did not return even after the stall was released")
			return
		}
	}
	c.count("wait_calls", nw)
	// an early release by the async threshold is legitimate only when the size really
	// prefetched exceeds the threshold (real < 0: unknown to the harness, not judged)
	real := c.ls.RealPrefetchSize(c.cfg.PrefetchSize)
	asyncLegit := c.cfg.AsyncSize > 0 && (real < 0 || real > c.cfg.AsyncSize)
	earlyNil := false
	timedOut := 0
	for _, w := range res {
		if w.err != nil {
			timedOut++
		}
	}
	for _, w := range res {
		switch {
		case w.err != nil:
			c.count("wait_timeout_path", 1)
		case asyncLegit:
			c.count("wait_nil_while_stalled_async_legitimate", 1)
		case timedOut > 0:
			// Slack: the Waiter whose timer fires marks the wait as done for everybody, so a
			// concurrent Waiter may see "done" (nil) instead of its own timeout: it still
			// returned "after the configured timeout".
			c.count("wait_nil_released_by_other_waiters_timeout", 1)
		case !w.prefetchEnded && !blocked:
			// (only judged for Waiters that returned while the stall was still held)
			// Slack: with an async threshold the waiter is released early on purpose; without
			// one (threshold 0) and with no Waiter having timed out, nil means "prefetch
			// ended", which it cannot have: its request is still stalled.
			if c.cfg.AsyncSize == 0 {
				c.violate("wait:returned-nil-before-prefetch-ended", "WaitForPrefetchCompletion returned nil (completion) while the prefetch was still stalled in the registry, no async threshold configured and no Waiter hit the 1 s timeout")
			} else {
				earlyNil = true // judged below, once the real size has been cross-checked
			}
		}
	}
	if c.cfg.AsyncFamily != "" && !blocked {
		c.strong = append(c.strong, "E2-async-"+c.cfg.AsyncFamily)
	}
	if !blocked {
		c.strong = append(c.strong, "E2")
	}
	select {
	case <-pdone:
	case <-time.After(3 * time.Minute):
		c.r.Inconclusive("watchdog: Prefetch did not return after the stall was released")
		return
	}
	inj.armed.Store(false)
	c.w.Reg.SetScript(nil)
	c.step("Waiters=%d released; Prefetch->%v", nw, perr)
	if earlyNil {
		if got := c.l.Info().PrefetchSize; perr == nil && got != real {
			c.r.Inconclusive("harness: the real prefetch size of the layer description differs from Info().PrefetchSize")
		} else {
			c.violate("wait:returned-nil-before-prefetch-ended:async-threshold-not-exceeded",
				fmt.Sprintf("WaitForPrefetchCompletion returned nil while the prefetch was still stalled in the registry and no Waiter hit the 1 s timeout: the async threshold (%d) releases waiters early only when the size really prefetched exceeds it, but that size is %d (configured size %d, blob %d, landmark offset %d)",
					c.cfg.AsyncSize, real, c.cfg.PrefetchSize, c.size, c.ls.LandmarkOffset))
		}
	}
	if err := c.l.WaitForPrefetchCompletion(); err != nil {
		c.violate("wait:timeout-after-prefetch-ended:after-stall", fmt.Sprintf("Prefetch has returned (%v) but a further Wait reports: %v", perr, err))
	}
	if perr != nil {
		if c.knownDotDefect(perr) {
			c.violate("prefetch-fails:self-child-dot@db", fmt.Sprintf("Prefetch fails on a healthy registry: db metadata store + tar with an explicit root entry: %v", perr))
		} else {
			c.violate("prefetch:fails:after-stall:"+errClass(perr), fmt.Sprintf("Prefetch fails although its requests were only delayed, not failed: %v", perr))
		}
		return
	}
	// the prefetch completed (late): A still applies
	if c.ls.Landmark == lx.LmPrefetch && c.verify() && c.drain() {
		log := c.forDigest(lx.Since(c.w.Reg, mark))
		c.clauseA(len(log), "prefetch-landmark:prioritized-read-hits-registry")
	}
}

// bgPhase: BackgroundFetch and clause D.
func (c *kase) bgPhase() {
	var inj *injector
	if c.cfg.Scenario == "bgfetch" && c.cfg.FaultK > 0 {
		inj = newInjector(c.dg, c.cfg.FaultMode, c.cfg.FaultK)
		c.w.Reg.SetScript(inj.script)
		inj.armed.Store(true)
		c.faultArmed = true
		if c.cfg.FaultMode == "stall-release" {
			go func() {
				select {
				case <-inj.reached:
				case <-time.After(3 * time.Minute):
				}
				close(inj.release)
			}()
		}
	}
	stopPrio := make(chan struct{})
	var prioWG sync.WaitGroup
	if c.cfg.PrioBursts > 0 {
		prioWG.Add(1)
		bursts := c.cfg.PrioBursts
		prng2 := c.rng.Derive(4242)
		go func() {
			defer prioWG.Done()
			for i := 0; i < bursts; i++ {
				select {
				case <-stopPrio:
					return
				default:
				}
				time.Sleep(time.Duration(prng2.Pick(50, 300, 1500)) * time.Microsecond)
				c.w.Env.TM.DoPrioritizedTask()
				time.Sleep(time.Duration(prng2.Pick(0, 100, 1000)) * time.Microsecond)
				c.w.Env.TM.DonePrioritizedTask()
			}
		}()
	}
	mark := lx.Mark(c.w.Reg)
	n := c.cfg.Callers
	errs := make([]error, n)
	// Every caller that gets nil has been told "the background fetch completed": the FIRST nil
	// return of any caller is taken as completion and the registry is switched off at that
	// very moment (before anything else), so that a caller released while another one is
	// still downloading is exposed by clause D. Only without an injected fault: there a
	// caller that lost the race for the single execution legitimately sees nil while the
	// executing one reports the injected failure. With several callers and no fault the
	// later callers are started once the first one's download is under way (first data
	// request seen; data requests are slowed down by 2 ms each so that there is a "while").
	firstNil := inj == nil
	type bres struct {
		i   int
		err error
	}
	results := make(chan bres, n)
	call := func(i int) { go func() { results <- bres{i, c.l.BackgroundFetch()} }() }
	var slow *slowdown
	if firstNil && n > 1 {
		slow = &slowdown{dgst: c.dg, reached: make(chan struct{})}
		c.w.Reg.SetScript(slow.script)
		call(0)
		select {
		case <-slow.reached:
		case r0 := <-results:
			results <- r0 // nothing had to be fetched: the first caller is already back
		case <-time.After(3 * time.Minute):
		}
		for i := 1; i < n; i++ {
			call(i)
		}
	} else {
		for i := 0; i < n; i++ {
			call(i)
		}
	}
	down, downBy := false, -1
	defer func() {
		if down {
			c.w.Reg.SetDown(false)
		}
	}()
	got := 0
	timeout := time.After(5 * time.Minute)
	for got < n {
		select {
		case r := <-results:
			errs[r.i] = r.err
			got++
			if firstNil && !down && r.err == nil && got == 1 {
				c.w.Reg.SetDown(true)
				down, downBy = true, r.i
			}
			if firstNil && !down && r.err != nil && got == 1 {
				firstNil = false // the first thing that happened is a failure: handled below
			}
		case <-timeout:
			c.r.Inconclusive("watchdog: BackgroundFetch did not return")
			close(stopPrio)
			return
		}
	}
	if slow != nil {
		c.w.Reg.SetScript(nil)
		c.count("bgfetch_staggered_callers", 1)
	}
	close(stopPrio)
	prioWG.Wait()
	hits := int64(0)
	if inj != nil {
		inj.armed.Store(false)
		c.w.Reg.SetScript(nil)
		hits = inj.hits.Load()
	}
	berr := firstErr(errs)
	if down {
		// completion was claimed by caller downBy; what the others report after the registry
		// was switched off does not take that claim back
		berr = nil
	}
	log := c.forDigest(lx.Since(c.w.Reg, mark))
	c.step("BackgroundFetch(callers=%d,priobursts=%d,fault=%d/%s hits=%d,first-nil-by=%d)->%v %v [%d requests]", n, c.cfg.PrioBursts, c.cfg.FaultK, c.cfg.FaultMode, hits, downBy, berr, errs, len(log))
	c.count("bgfetch_calls", n)
	c.count("bgfetch_requests", len(log))
	if berr != nil {
		switch {
		case hits > 0 && (c.cfg.FaultMode == "err" || c.cfg.FaultMode == "500"):
			c.count("bgfetch_failed_under_fault", 1)
		case c.knownDotDefect(berr):
			c.violate("backgroundfetch-fails:self-child-dot@db", fmt.Sprintf("BackgroundFetch fails on a healthy registry: db metadata store + tar with an explicit root entry: %v", berr))
		case c.cfg.PrioBursts > 0:
			c.violate("bgfetch:fails:under-prioritized-tasks:"+errClass(berr), fmt.Sprintf("BackgroundFetch fails although no request was failed; prioritized tasks began and ended while it ran: %v", berr))
		default:
			c.violate("bgfetch:fails:registry-healthy:"+errClass(berr), fmt.Sprintf("BackgroundFetch fails although no request was failed: %v", berr))
		}
		return
	}
	if !c.verify() || !c.drain() {
		return
	}
	// D: registry unreachable (already, when a first nil return switched it off), fresh root
	// node, every regular file in full
	if !down {
		c.w.Reg.SetDown(true)
		defer c.w.Reg.SetDown(false)
	}
	root, rerr := lx.Root(c.l)
	if rerr != nil {
		c.violate("bgfetch:offline-read:"+rerr.Class, "cannot get the root node with the registry down after a successful BackgroundFetch: "+rerr.Detail)
		return
	}
	var bytes int64
	bad := 0
	for _, p := range c.ls.Files {
		if rerr := lx.ReadFull(root, c.ls, p); rerr != nil {
			bad++
			ctx := ""
			if c.cfg.PrioBursts > 0 {
				ctx = ":under-prioritized-tasks"
			}
			if down && n > 1 && downBy != 0 {
				ctx += ":nil-to-a-later-caller"
			}
			if c.phase2Hit {
				ctx += ":after-prefetch-failed-in-decompress-phase"
			}
			c.violate("bgfetch:offline-read:"+rerr.Class+ctx, fmt.Sprintf("BackgroundFetch returned nil (%d caller(s), first nil return by caller %d), write-behind drained, registry down: regular file cannot be read in full: %v", n, downBy, rerr))
			if bad > 2 {
				break
			}
		}
		bytes += c.ls.FS.Nodes[p].Size
	}
	c.count("offline_bytes_read", int(bytes))
	c.count("offline_files_read", len(c.ls.Files))
	if bytes > 0 && len(log) > 0 {
		c.strong = append(c.strong, "D")
	}
	c.step("OfflineReadAll(%d files, %d bytes) bad=%d", len(c.ls.Files), bytes, bad)
}


