// C17 — the FUSE manager's persistent record equals its live mounts across re-init/restart.
//
// Real code under test: fusemanager.Server (Init / Mount / Check / Unmount / Close /
// Status, fusestore.go's bolt records, restoreFuseInfo) and, for a sixth (quick) / a tenth (thorough) of the
// sequential cases, the real gRPC server plus fusemanager.NewManagerClient / Client
// (client.go) over a unix socket.
//
// H7 (fusemanager.VerifSetWrapFS) replaces the filesystem that each Init constructs
// (the real service.NewFileSystem still runs, so construction can fail) by a recording
// in-memory snapshot.FileSystem tagged with the generation (= number of the Init call)
// and the configuration it was built from; fusemanager.RegisterConfigFunc registers two
// config functions that can be made to fail; Server.VerifStoreRecords / VerifServedMountpoints
// read the store and the manager's mountpoint map; VerifCloseStoreKeepFile is a manager
// process that dies leaving its store file.
//
// Stages (all in child processes, with an on-disk journal written before each case, so
// that a crash of the code under test — a nil dereference in a gRPC handler kills the
// process — is attributed to its case and the batch resumes behind it):
//
//	seq  (plain build)  random sequential histories; the oracle is evaluated after every operation
//	conc (race build)   workers with disjoint mountpoints race Mount/Check/Unmount against re-Init;
//	                    per-mountpoint histories are judged afterwards; race reports in fusemanager. count
//	ovl  (plain build)  imposed overlaps on ONE mountpoint: a Mount request is held inside the
//	                    filesystem's Mount while other requests for the same mountpoint run, then
//	                    made to fail or succeed; judged at the quiescent point that follows
//
// See NOTES.md for the oracle, its slack, the findings and the mutation table.
package main

import (
	"bufio"
	"fmt"
	"os"
	"path/filepath"
	"strconv"
	"strings"
	"sync"
	"time"

	"github.com/containerd/log"
	"github.com/sirupsen/logrus"
	"google.golang.org/grpc/grpclog"
	"io"

	"verifharness/internal/vf"
)

const ruleText = "seq: each case is a random history of 8-28 operations (Init with a fresh configuration and optional injected bad JSON / config-function / " +
	"filesystem-construction / restoration failures and, half of the time, the byte-identical Init again with the fault cleared or kept, Mount, Check, Unmount with injected filesystem failures, manager death with the store kept, Close) over 2-5 mountpoints, " +
	"direct or through gRPC; conc: 2-4 workers with disjoint mountpoints race 8-16 requests each against 2-4 re-Inits (optionally after a manager restart with a populated store); ovl: 1-3 rounds in which a Mount is held inside the filesystem while 1-2 other requests for the same mountpoint are issued, then fails or succeeds. " +
	"non-trivial = the history contained (a) a Check/Unmount delivered to an instance of an older generation after a re-Init, or (b) a restoration mount during the first Init after a " +
	"manager restart, or (c) a request issued after a failed Init, or (d) a byte-identical Init repeated after a failed one, or (conc) a request that overlapped an Init in time, or (ovl) a request returned while the held Mount of the same mountpoint was still inside the filesystem; distinct by the operation script"

func main() {
	vf.Main("C17", "exploration", ruleText, 60, 1200, body)
}

func quiet() {
	logrus.SetLevel(logrus.PanicLevel)
	logrus.SetOutput(io.Discard)
	log.L.Logger.SetLevel(logrus.PanicLevel)
	log.L.Logger.SetOutput(io.Discard)
	grpclog.SetLoggerV2(grpclog.NewLoggerV2(io.Discard, io.Discard, io.Discard))
}

func body(r *vf.Run) {
	quiet()
	switch r.Child {
	case "":
		top(r)
	case "seq", "conc", "ovl":
		child(r)
	default:
		r.Inconclusive("unknown stage " + r.Child)
	}
}

func top(r *vf.Run) {
	nSeq := r.N(300, 5000)
	nConc := r.N(90, 800)
	// The cases are bound by the latency of bbolt's fdatasync (two per store update),
	// not by CPU: several children run side by side, each on its own range of cases.
	t := time.Now()
	runParallel(r, "seq", nSeq, r.N(6, 8), r.N(80, 400), false)
	r.Set("stage_seq_seconds", time.Since(t).Seconds())
	t = time.Now()
	runParallel(r, "conc", nConc, 4, r.N(30, 250), true)
	r.Set("stage_conc_seconds", time.Since(t).Seconds())
	t = time.Now()
	runParallel(r, "ovl", r.N(80, 1200), r.N(4, 8), r.N(20, 150), false)
	r.Set("stage_ovl_seconds", time.Since(t).Seconds())
	r.Assume("the recording filesystem substituted through fusemanager.VerifSetWrapFS stands for the real stargz filesystem: Mount/Unmount succeed unless made to fail, a failed call changes nothing, Check/Unmount of a mountpoint the instance did not mount fail")
	r.Assume("a manager process that dies is modelled by VerifCloseStoreKeepFile + a new fusemanager.Server on the same store path; the mounts of the dead process are gone with it")
	r.Assume("bbolt persists what Update committed; the store is read through the server's own handle (VerifStoreRecords)")
	r.Assume("CLOCK_MONOTONIC orders a request that returned before an Init was called (conc stage)")
}

// runBatches runs cases [from,n) of a stage in child processes of at most `batch` cases.
// The child writes "BEGIN i" (synced) before and "END i" after each case; if it dies,
// the case left open is reported with the crash signature found in the child's output
// and the next child resumes behind it.
func runParallel(r *vf.Run, stage string, n, par, batch int, race bool) {
	var wg sync.WaitGroup
	for p := 0; p < par; p++ {
		lo, hi := n*p/par, n*(p+1)/par
		if lo == hi {
			continue
		}
		wg.Add(1)
		go func() {
			defer wg.Done()
			runBatches(r, stage, lo, hi, batch, race)
		}()
	}
	wg.Wait()
}

func runBatches(r *vf.Run, stage string, from, n, batch int, race bool) {
	crashes := 0
	for lo := from; lo < n; {
		hi := lo + batch
		if hi > n {
			hi = n
		}
		journal := filepath.Join(r.Scratch, fmt.Sprintf("journal-%s-%d-%d", stage, lo, crashes))
		timeout := 12 * time.Minute
		if r.Thorough() {
			timeout = 40 * time.Minute
		}
		ex := r.RunChild(vf.ChildSpec{
			Stage: stage, Args: []string{strconv.Itoa(lo), strconv.Itoa(hi), journal},
			Race: race, Timeout: timeout, Attribution: []string{"fusemanager."},
		})
		open, lastEnd, _ := readJournal(journal)
		if os.Getenv("C17_TRACE") != "" {
			r.Logf("child %s [%d,%d) exit=%d sig=%q open=%d lastEnd=%d", stage, lo, hi, ex.ExitCode, ex.Signal, open, lastEnd)
		}
		if ex.TimedOut {
			r.Inconclusive("watchdog: child stage " + stage + " timed out")
			if open >= 0 {
				lo = open + 1
				continue
			}
			return
		}
		// A race build that reported races exits with 66 after a complete run: the
		// journal (every case closed, the last one included) decides, not the exit code.
		if ex.Signal == "" && ex.Partial && open < 0 && lastEnd == hi-1 {
			lo = hi
			continue
		}
		// the child died
		r.Count("child_crashes", 1)
		crashes++
		if open < 0 {
			r.Inconclusive(fmt.Sprintf("child stage %s ended abnormally outside a case (exit %d %s)", stage, ex.ExitCode, ex.Signal))
			if lastEnd >= lo {
				lo = lastEnd + 1
				continue
			}
			return
		}
		class, site, head, stack := crashSignature(ex.Output)
		desc := caseDescriptor(r, stage, open)
		if class == "" {
			r.Inconclusive(fmt.Sprintf("child stage %s died in case %d without a recognisable crash report (exit %d %s)", stage, open, ex.ExitCode, ex.Signal))
		} else {
			r.Violate("panic:"+class+"@"+site,
				"the manager process crashed ("+head+") while executing "+stage+" case "+strconv.Itoa(open),
				map[string]any{"stage": stage, "case": open, "history": desc, "crash": head, "note": "process-fatal: the panic was raised in a goroutine of the code under test (gRPC handler)", "crashing_goroutine": stack})
			r.Distinct("process_crash_sites", class+"@"+site)
			if crashes == 1 {
				r.Sample(map[string]any{"stage": stage, "case": open, "history": desc, "process_crash": head, "crashing_goroutine": stack})
			}
		}
		lo = open + 1
		if crashes > 400 {
			r.Inconclusive("too many child crashes; stage " + stage + " abandoned")
			return
		}
	}
}

func caseDescriptor(r *vf.Run, stage string, idx int) string {
	if stage == "seq" {
		return genSeqCase(r.RNG(1, uint64(idx)), idx, r.N(6, 10)).desc()
	}
	if stage == "ovl" {
		return genOvlCase(r.RNG(3, uint64(idx)), idx).desc()
	}
	return genConcCase(r.RNG(2, uint64(idx)), idx).desc()
}

// readJournal returns the case left open (-1: none) and the last completed case.
func readJournal(path string) (open, lastEnd int, err error) {
	open, lastEnd = -1, -1
	f, err := os.Open(path)
	if err != nil {
		return
	}
	defer f.Close()
	sc := bufio.NewScanner(f)
	for sc.Scan() {
		var i int
		if _, e := fmt.Sscanf(sc.Text(), "BEGIN %d", &i); e == nil {
			open = i
		} else if _, e := fmt.Sscanf(sc.Text(), "END %d", &i); e == nil {
			lastEnd = i
			if open == i {
				open = -1
			}
		}
	}
	return
}

// crashSignature extracts "panic: ..." / "fatal error: ..." and the innermost
// stargz-snapshotter frame of the crashing goroutine from a dead child's output.
func crashSignature(outPath string) (class, site, head, stack string) {
	b, err := os.ReadFile(outPath)
	if err != nil {
		return "", "", "", ""
	}
	s := string(b)
	j := strings.Index(s, "\npanic: ")
	k := strings.Index(s, "\nfatal error: ")
	if strings.HasPrefix(s, "panic: ") {
		j = 0
	}
	if strings.HasPrefix(s, "fatal error: ") {
		k = 0
	}
	if j < 0 || (k >= 0 && k < j) {
		j = k
	}
	if j < 0 {
		return "", "", "", ""
	}
	rest := strings.TrimLeft(s[j:], "\n")
	head = rest
	if e := strings.Index(head, "\n"); e >= 0 {
		head = head[:e]
	}
	// the crashing goroutine is the first one printed
	g := strings.Index(rest, "\ngoroutine ")
	if g < 0 {
		return panicClass(head), "unknown", head, ""
	}
	blk := rest[g+1:]
	if e := strings.Index(blk, "\n\n"); e >= 0 {
		blk = blk[:e]
	}
	// include the "[signal SIGSEGV" line in the class decision
	cls := panicClass(rest[:g])
	return cls, innermostRepoFrame(blk), head, tail2(rest[:g]+"\n"+blk, 2500)
}

func tail2(s string, n int) string {
	if len(s) > n {
		return s[:n] + "…"
	}
	return s
}

// child runs cases [lo,hi) of its stage.
func child(r *vf.Run) {
	if len(r.ChildArgs) != 3 {
		r.Inconclusive("child started without arguments")
		return
	}
	lo, _ := strconv.Atoi(r.ChildArgs[0])
	hi, _ := strconv.Atoi(r.ChildArgs[1])
	jf, err := os.OpenFile(r.ChildArgs[2], os.O_CREATE|os.O_WRONLY|os.O_APPEND, 0o644)
	if err != nil {
		r.Inconclusive("journal cannot be created")
		return
	}
	defer jf.Close()
	installHooks()
	for i := lo; i < hi; i++ {
		fmt.Fprintf(jf, "BEGIN %d\n", i)
		_ = jf.Sync()
		dir := filepath.Join(r.Scratch, fmt.Sprintf("c%06d", i))
		if r.Child == "seq" {
			runSeqCase(r, genSeqCase(r.RNG(1, uint64(i)), i, r.N(6, 10)), dir)
		} else if r.Child == "ovl" {
			runOvlCase(r, genOvlCase(r.RNG(3, uint64(i)), i), dir)
		} else {
			runConcCase(r, genConcCase(r.RNG(2, uint64(i)), i), dir)
		}
		fmt.Fprintf(jf, "END %d\n", i)
		// persist what was observed so far: a crash in a later case loses nothing
		r.FlushPartial()
	}
}
