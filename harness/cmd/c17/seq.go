package main

// seq.go — sequential histories: generation, execution against the real
// fusemanager.Server, and the oracle of C17 evaluated after every operation
// (every point between two operations of a sequential history is quiescent).

import (
	"context"
	"fmt"
	"os"
	"path/filepath"
	"sort"
	"strings"
	"time"

	"verifharness/internal/prng"
	"verifharness/internal/vf"
)

type opKind int

const (
	opInit opKind = iota
	opMount
	opCheck
	opUnmount
	opRestart // manager process dies, store file kept, a new process starts
	opClose   // graceful Server.Close (store file removed), then 0-3 late requests, then a new process
	opStatus
)

type initFail int

const (
	failNone initFail = iota
	failBadJSON
	failCfg1
	failCfg2
	failCtor
)

func (f initFail) String() string {
	return [...]string{"", "!json", "!cfgfn1", "!cfgfn2", "!ctor"}[f]
}

type op struct {
	Kind    opKind
	MP      int
	Fail    bool     // Mount/Check/Unmount: the filesystem call is made to fail
	Tag     int64    // Init: configuration tag
	IFail   initFail // Init: early failure injected
	Retry   bool     // Init: byte-identical repetition (same root, same config bytes) of the previous Init of the case
	BlkRoot bool     // Init: the root lies below <case>/blk<tag>, a regular file while IFail == failCtor
	Restore []int    // Init: restoration mounts of these mountpoints fail
	LabelID int      // Mount/Check: labels identity
}

func (o op) String() string {
	f := ""
	if o.Fail {
		f = "!"
	}
	switch o.Kind {
	case opInit:
		s := fmt.Sprintf("I%d%s", o.Tag, o.IFail)
		if o.Retry {
			s = fmt.Sprintf("I%d=again%s", o.Tag, o.IFail)
		}
		if len(o.Restore) > 0 {
			s += fmt.Sprintf("!restore%v", o.Restore)
		}
		return s
	case opMount:
		return fmt.Sprintf("M%d%s", o.MP, f)
	case opCheck:
		return fmt.Sprintf("C%d%s", o.MP, f)
	case opUnmount:
		return fmt.Sprintf("U%d%s", o.MP, f)
	case opRestart:
		return "RESTART"
	case opClose:
		return "CLOSE"
	case opStatus:
		return "S"
	}
	return "?"
}

type seqCase struct {
	Idx  int
	GRPC bool
	NMP  int
	Ops  []op
}

func (c seqCase) desc() string {
	var sb strings.Builder
	if c.GRPC {
		sb.WriteString("grpc ")
	} else {
		sb.WriteString("direct ")
	}
	fmt.Fprintf(&sb, "mp=%d:", c.NMP)
	for _, o := range c.Ops {
		sb.WriteByte(' ')
		sb.WriteString(o.String())
	}
	return sb.String()
}

func genInit(rng *prng.R, nmp int, tag *int64, grpc bool) op {
	*tag++
	o := op{Kind: opInit, Tag: 1000 + *tag}
	x := rng.Intn(100)
	switch {
	case x < 68:
	case x < 73:
		o.IFail = failBadJSON
	case x < 81:
		o.IFail = failCfg1
	case x < 87:
		o.IFail = failCfg2
	default:
		o.IFail = failCtor
		o.BlkRoot = true
	}
	for m := 0; m < nmp; m++ {
		if rng.Chance(1, 6) {
			o.Restore = append(o.Restore, m)
		}
	}
	return o
}

// grpcOneIn: one case in that many runs through the real gRPC server and client (6 in the
// quick tier, 10 in the thorough tier: on a tree where a request can crash the manager every
// such crash costs a child restart).
func genSeqCase(rng *prng.R, idx int, grpcOneIn int) seqCase {
	c := seqCase{Idx: idx, GRPC: rng.Chance(1, grpcOneIn), NMP: rng.Range(2, 5)}
	n := rng.Range(8, 28)
	var tag int64
	pickMP := func() int {
		if rng.Chance(1, 12) {
			return c.NMP // the never-mounted mountpoint
		}
		return rng.Intn(c.NMP)
	}
	label := 0
	request := func() op {
		x := rng.Intn(100)
		switch {
		case x < 45:
			label++
			return op{Kind: opMount, MP: rng.Intn(c.NMP), Fail: rng.Chance(1, 6), LabelID: label}
		case x < 65:
			return op{Kind: opCheck, MP: pickMP(), Fail: rng.Chance(1, 6)}
		default:
			return op{Kind: opUnmount, MP: pickMP(), Fail: rng.Chance(1, 6)}
		}
	}
	// addInit appends an Init and, when a fault was injected into it, with
	// probability 1/2 the byte-identical request again (what a snapshotter that is
	// restarted by its supervisor sends): two times out of three with the fault gone,
	// otherwise with the fault still there; sometimes one request in between.
	addInit := func() {
		o := genInit(rng, c.NMP, &tag, c.GRPC)
		c.Ops = append(c.Ops, o)
		if (o.IFail != failNone || len(o.Restore) > 0) && rng.Chance(1, 2) {
			if rng.Chance(1, 4) {
				c.Ops = append(c.Ops, request())
			}
			again := o
			again.Retry = true
			if rng.Chance(2, 3) {
				if again.IFail != failBadJSON { // undecodable bytes stay undecodable
					again.IFail = failNone
				}
				again.Restore = nil
			}
			c.Ops = append(c.Ops, again)
		}
	}
	fresh := true // a process that has not been sent an Init yet
	for len(c.Ops) < n {
		if fresh {
			fresh = false
			if rng.Chance(5, 6) {
				addInit()
				continue
			}
			// requests before initialisation
			for k := rng.Range(1, 3); k > 0; k-- {
				c.Ops = append(c.Ops, request())
			}
			addInit()
			continue
		}
		x := rng.Intn(100)
		switch {
		case x < 14:
			addInit()
		case x < 23:
			c.Ops = append(c.Ops, op{Kind: opRestart})
			fresh = true
		case x < 26:
			c.Ops = append(c.Ops, op{Kind: opClose})
			for k := rng.Intn(4); k > 0; k-- {
				if rng.Chance(1, 4) {
					addInit()
				} else {
					c.Ops = append(c.Ops, request())
				}
			}
			c.Ops = append(c.Ops, op{Kind: opRestart}) // next process (the store file was removed by Close)
			fresh = true
		default:
			c.Ops = append(c.Ops, request())
		}
	}
	return c
}

// ---------------------------------------------------------------------------

// model is the monitor's view of the manager process between operations. It is
// fed only by what was observed at the two boundaries (RPC replies, calls
// received by the recording filesystems) and by the store contents.
type model struct {
	proc            int
	initsInProc     int  // Init calls issued to this process
	everConstructed bool // some Init of this process got as far as a filesystem
	lastInitGen     int
	curGen          int // generation of the instance new mounts must use (0: none): the last one constructed in this process
	lastInitOK      bool
	lastInitBuilt   bool // the last Init call constructed a filesystem
	closed          bool
	afterRestart    bool // this process found a store file left by a dead one
	allowedExtras   map[int]bool
	recs            map[int]map[string]string // store at the last quiescent point
}

type seqRunner struct {
	r     *vf.Run
	w     *world
	c     seqCase
	m     model
	trace []string
	stop  bool // a violation whose consequences are not worth following: end the case
	// what made the case non-trivial
	ntReinitOld, ntRestore, ntFailedInitReq, ntRetry bool
	initCount                                        int
}

func (s *seqRunner) replay(i int) map[string]any {
	return map[string]any{"stage": "seq", "case": s.c.Idx, "transport": map[bool]string{false: "direct", true: "grpc"}[s.c.GRPC],
		"history": s.c.desc(), "failing_op_index": i, "observed": strings.Join(s.trace, " ; ")}
}

func (s *seqRunner) violate(i int, key, what string, hard bool) {
	s.r.Violate(key, what, s.replay(i))
	if hard {
		s.stop = true
	}
}

func errClass(err error) string {
	if err == nil {
		return "ok"
	}
	e := err.Error()
	switch {
	case strings.Contains(e, "not ready"):
		return "err:not-ready"
	case strings.Contains(e, "injected"):
		return "err:injected"
	case strings.Contains(e, "failed to find filesystem"):
		return "err:no-filesystem-for-mountpoint"
	case strings.Contains(e, "recfs:"):
		return "err:recfs-not-mounted-here"
	case strings.Contains(e, "not a directory"):
		return "err:ENOTDIR"
	case strings.Contains(e, "database not open"):
		return "err:database-not-open"
	case strings.Contains(e, "unexpected end of JSON") || strings.Contains(e, "cannot unmarshal"):
		return "err:bad-json"
	case strings.Contains(e, "DeadlineExceeded") || strings.Contains(e, "deadline exceeded"):
		return "err:deadline"
	case strings.Contains(e, "Unavailable") || strings.Contains(e, "connection"):
		return "err:transport"
	}
	return "err:other"
}

// panicKey turns a recovered panic into "panic:<class>@<innermost stargz frame>".
func panicKey(val any, stack string) string {
	return "panic:" + panicClass(fmt.Sprint(val)) + "@" + innermostRepoFrame(stack)
}

func panicClass(msg string) string {
	switch {
	case strings.Contains(msg, "nil pointer dereference"):
		return "nil-deref"
	case strings.Contains(msg, "index out of range"):
		return "index-out-of-range"
	case strings.Contains(msg, "concurrent map"):
		return "concurrent-map-access"
	case strings.Contains(msg, "interface conversion"):
		return "interface-conversion"
	case strings.Contains(msg, "all goroutines are asleep"):
		return "deadlock"
	}
	return "other"
}

func innermostRepoFrame(stack string) string {
	const mod = "github.com/containerd/stargz-snapshotter/"
	for _, ln := range strings.Split(stack, "\n") {
		ln = strings.TrimSpace(ln)
		if !strings.HasPrefix(ln, mod) {
			continue
		}
		fn := strings.TrimPrefix(ln, mod)
		if strings.HasPrefix(fn, "fusemanager.Verif") || strings.Contains(fn, "verifWrapFS") {
			continue
		}
		// strip the argument list
		if j := strings.LastIndex(fn, "("); j > 0 {
			fn = fn[:j]
		}
		return fn
	}
	return "unknown"
}

func mpName(i int) string { return fmt.Sprintf("m%d", i) }

// labelsFor gives every Mount request its own label map. The key SETS differ from
// request to request (subsets of six keys, including the empty and the nil map), so a
// label that leaks from one record into another during restoration is visible: restored
// labels are compared with the recorded ones as whole maps.
func labelsFor(id int) map[string]string {
	h := prng.Hash64(0xC17, uint64(id))
	switch h % 9 {
	case 0:
		return nil
	case 1:
		return map[string]string{}
	}
	keys := [...]string{
		"verif/id",
		"containerd.io/snapshot/remote/stargz.reference",
		"containerd.io/snapshot/remote/stargz.digest",
		"containerd.io/snapshot/remote/stargz.layers",
		"containerd.io/snapshot/remote/urls.0",
		"verif/extra",
	}
	l := map[string]string{}
	for j, k := range keys {
		if (h>>(8+uint(j)))&1 == 1 {
			l[k] = fmt.Sprintf("v%d.%d", id, j)
		}
	}
	return l
}

func runSeqCase(r *vf.Run, c seqCase, dir string) {
	r.Eval(1)
	w, err := newWorld(r, dir, c.NMP, c.GRPC, false)
	if err != nil {
		r.Inconclusive("scratch setup failed: " + errClass(err))
		return
	}
	defer func() {
		w.stopTransport()
		curWorld.Store(nil)
		_ = os.RemoveAll(dir)
	}()
	if err := w.startProc(); err != nil {
		r.Inconclusive("NewFuseManager failed")
		return
	}
	s := &seqRunner{r: r, w: w, c: c}
	s.m = model{proc: w.proc, allowedExtras: map[int]bool{}, recs: map[int]map[string]string{}}
	if c.GRPC {
		r.Count("cases_grpc", 1)
	} else {
		r.Count("cases_direct", 1)
	}
	for i, o := range c.Ops {
		ok := r.Watchdog(5*time.Minute, "sequential operation "+o.Kind.name(), func() { s.exec(i, o) })
		if !ok || s.stop {
			break
		}
	}
	if !s.m.closed {
		_ = w.die()
	}
	if s.ntReinitOld || s.ntRestore || s.ntFailedInitReq || s.ntRetry {
		r.NonTrivial(c.desc())
	}
	if s.ntReinitOld {
		r.Count("cases_old_generation_request_after_reinit", 1)
	}
	if s.ntRestore {
		r.Count("cases_restore_after_restart", 1)
	}
	if s.ntFailedInitReq {
		r.Count("cases_request_after_failed_init", 1)
	}
	if s.ntRetry {
		r.Count("cases_identical_retry_after_failed_init", 1)
	}
	if c.Idx < 4 {
		r.Sample(map[string]any{"stage": "seq", "case": c.Idx, "history": c.desc(), "observed": strings.Join(s.trace, " ; ")})
	}
}

func (k opKind) name() string {
	return [...]string{"init", "mount", "check", "unmount", "restart", "close", "status"}[k]
}

// exec runs one operation and judges it.
func (s *seqRunner) exec(i int, o op) {
	w, r, m := s.w, s.r, &s.m
	ctx := context.Background()
	r.Count("op_"+o.Kind.name(), 1)

	switch o.Kind {
	case opRestart:
		if !m.closed {
			// the process dies: read what it leaves behind first
			if err := w.die(); err != nil {
				r.Inconclusive("closing the store of the dying process failed")
				s.stop = true
				return
			}
		}
		if err := w.startProc(); err != nil {
			r.Inconclusive("NewFuseManager on the kept store failed: " + errClass(err))
			s.stop = true
			return
		}
		recs, _, err := w.records()
		if err != nil {
			r.Inconclusive("store unreadable after restart")
			s.stop = true
			return
		}
		*m = model{proc: w.proc, recs: recs, allowedExtras: map[int]bool{}, afterRestart: len(recs) > 0}
		// Until this process is initialised nothing can be served: every record it
		// inherited is waiting for the restoration of the first Init.
		for k := range recs {
			m.allowedExtras[k] = true
		}
		if len(recs) > 0 {
			r.Count("restarts_with_records", 1)
		}
		s.trace = append(s.trace, fmt.Sprintf("RESTART(records=%d)", len(recs)))
		return
	case opClose:
		if m.closed {
			return
		}
		w.stopTransportForClose()
		pan, val, stack := vf.Recover(func() { err := w.fm.Close(ctx); r.Distinct("close_result", errClass(err)) })
		if pan {
			s.violate(i, panicKey(val, stack), "Server.Close panicked: "+fmt.Sprint(val), true)
			return
		}
		m.closed = true
		s.trace = append(s.trace, "CLOSE")
		return
	}

	servedBefore := w.served()
	recsBefore := m.recs
	w.takeEvents()

	// ---- perform -----------------------------------------------------------
	var err error
	var status int32 = -1
	fl := &faults{mount: map[int]bool{}}
	call := func() {
		switch o.Kind {
		case opInit:
			w.initSeq.Add(1)
			for _, x := range o.Restore {
				fl.mount[x] = true
			}
			w.faults.Store(fl)
			switch o.IFail {
			case failCfg1:
				w.failCfg.Store(1)
			case failCfg2:
				w.failCfg.Store(2)
			}
			if o.BlkRoot {
				// construction fails while <case>/blk<tag> is a regular file (ENOTDIR);
				// removing it clears the fault without changing the request
				blk := w.blocker(o.Tag)
				_ = os.RemoveAll(blk)
				if o.IFail == failCtor {
					_ = os.WriteFile(blk, []byte("x"), 0o644)
				}
			}
			err = w.doInit(ctx, w.rootFor(o.Tag, o.BlkRoot), o.Tag, o.IFail == failBadJSON)
		case opMount:
			if o.Fail {
				fl.mount[o.MP] = true
			}
			w.faults.Store(fl)
			err = w.doMount(ctx, w.mps[o.MP], labelsFor(o.LabelID))
		case opCheck:
			fl.check = o.Fail
			w.faults.Store(fl)
			err = w.doCheck(ctx, w.mps[o.MP], labelsFor(0))
		case opUnmount:
			fl.unmount = o.Fail
			w.faults.Store(fl)
			err = w.doUnmount(ctx, w.mps[o.MP])
		}
	}
	pan, val, stack := vf.Recover(call)
	w.faults.Store(nil)
	w.failCfg.Store(0)
	events := w.takeEvents()
	r.Count("fs_calls_observed", len(events))
	if pan {
		r.Count("panics_recovered", 1)
		scn := s.scenario(o)
		s.trace = append(s.trace, fmt.Sprintf("%s -> PANIC", o))
		s.violate(i, panicKey(val, stack), fmt.Sprintf("%s panicked (%s): %v", o.Kind.name(), scn, val), true)
		return
	}
	cls := errClass(err)
	r.Distinct("reply_"+o.Kind.name(), cls)
	if cls == "err:deadline" || cls == "err:transport" {
		r.Distinct("transport_errors", o.Kind.name()+": "+trimErr(err))
		r.Inconclusive("rpc " + cls)
		s.stop = true
		return
	}
	if cls == "err:other" {
		r.Distinct("other_errors", trimErr(err))
	}
	evs := ""
	for _, e := range events {
		evs += fmt.Sprintf(" g%d.%s(%s)=%v", e.Gen, e.Kind, mpName(e.MP), e.OK)
	}
	s.trace = append(s.trace, fmt.Sprintf("%s -> %s%s", o, cls, evs))

	servedAfter := w.served()

	// ---- judge the operation ----------------------------------------------
	switch o.Kind {
	case opInit:
		s.judgeInit(i, o, err, events, servedBefore, recsBefore)
		if !s.stop && !m.closed {
			st, serr := w.doStatus(ctx)
			if serr == nil {
				status = st
				r.Distinct("status_after_init", fmt.Sprintf("init=%s built=%v status=%d", cls, m.lastInitBuilt, st))
				// A manager none of whose Init calls ever got as far as a filesystem has
				// not been initialised; reporting "ready" opens the readiness gate.
				if err != nil && !m.everConstructed && status == 2 {
					s.violate(i, "failed-init:status-ready",
						"Init failed before any filesystem existed ("+cls+") but the manager reports status Ready; its readiness gate is open with a nil filesystem", false)
				}
			}
		}
	case opMount:
		s.judgeMount(i, o, err, events, servedBefore, servedAfter)
	case opCheck:
		s.judgeCheck(i, o, err, events, servedBefore)
	case opUnmount:
		s.judgeUnmount(i, o, err, events, servedBefore, servedAfter, recsBefore)
	}
	if s.stop {
		return
	}
	s.quiescent(i, o)
}

func trimErr(err error) string {
	e := err.Error()
	if len(e) > 260 {
		e = e[:260]
	}
	// paths differ per case
	for {
		j := strings.Index(e, "/var/tmp/")
		if j < 0 {
			break
		}
		k := j
		for k < len(e) && e[k] != ' ' && e[k] != ':' && e[k] != '"' {
			k++
		}
		e = e[:j] + "<path>" + e[k:]
	}
	return e
}

func (w *world) stopTransportForClose() {
	// runFuseManager stops the gRPC server before Server.Close; late requests of the
	// case then reach the closed Server directly.
	w.stopTransport()
	w.grpc = false
}

// initState classifies how far the process's initialisation got.
type initState int

const (
	stPreInit      initState = iota // no Init call was sent to this process yet
	stClosed                        // Server.Close ran
	stNeverBuilt                    // every Init so far failed before a filesystem existed
	stFailedReinit                  // the last Init failed before constructing a filesystem; an older instance exists
	stDegraded                      // the last Init constructed its filesystem but returned an error (restoration)
	stReady                         // the last Init succeeded
)

func (m *model) state() initState {
	switch {
	case m.closed:
		return stClosed
	case m.initsInProc == 0:
		return stPreInit
	case m.lastInitOK:
		return stReady
	case m.lastInitBuilt:
		return stDegraded
	case m.everConstructed:
		return stFailedReinit
	}
	return stNeverBuilt
}

func (st initState) String() string {
	return [...]string{"pre-init", "closed", "failed-init", "failed-reinit", "degraded", "ready"}[st]
}

func (s *seqRunner) scenario(o op) string {
	if o.Kind == opInit {
		switch {
		case s.m.closed:
			return "init-after-close"
		case s.m.initsInProc == 0 && s.m.afterRestart:
			return "init-after-restart"
		case s.m.initsInProc == 0:
			return "first-init"
		}
		return "re-init"
	}
	return o.Kind.name() + "@" + s.m.state().String()
}

func (s *seqRunner) judgeInit(i int, o op, err error, events []fsEvent, servedBefore map[int][]*inst, recsBefore map[int]map[string]string) {
	w, r, m := s.w, s.r, &s.m
	gen := int(w.initSeq.Load())
	scn := s.scenario(o)
	r.Count("scenario_"+scn, 1)
	built := w.instOfGen(gen)
	// An Init may legitimately keep the filesystem it already has when that one was
	// built from exactly this root and configuration; it then plays the part of the
	// instance of this Init.
	var reused *inst
	if built == nil && err == nil && m.curGen > 0 {
		if prev := w.instOfGen(m.curGen); prev != nil && prev.proc == w.proc && prev.tag == o.Tag && prev.root == w.rootFor(o.Tag, o.BlkRoot) {
			reused = prev
			r.Count("inits_reusing_the_current_filesystem", 1)
		}
	}
	restoreGen := gen
	if reused != nil {
		restoreGen = reused.gen
	}
	if o.Retry {
		r.Count("inits_identical_retry", 1)
		if !m.lastInitOK && m.initsInProc > 0 {
			r.Count("inits_identical_retry_after_failed_init", 1)
			s.ntRetry = true
		}
	}
	if len(servedBefore) > 0 {
		r.Count("inits_with_live_mounts", 1)
	}
	restoredOK, restoreFailed := 0, 0
	for _, e := range events {
		switch e.Kind {
		case evUnmount:
			if e.OK {
				s.violate(i, "init:unmounts-existing-mount", "Init unmounted "+mpName(e.MP)+" which was being served", true)
			}
		case evMount:
			if e.Gen != restoreGen {
				s.violate(i, "restore:mounted-by-stale-instance", fmt.Sprintf("restoration during Init #%d mounted %s in the instance of generation %d", gen, mpName(e.MP), e.Gen), true)
			}
			if e.MountedAny || len(servedBefore[e.MP]) > 0 {
				s.violate(i, "double-mount:restore-of-live-mountpoint@"+scn, "Init mounted "+mpName(e.MP)+" again although an instance was already serving it", true)
			}
			rl, recorded := recsBefore[e.MP]
			if !recorded {
				s.violate(i, "restore:mounted-unrecorded-mountpoint", "Init mounted "+mpName(e.MP)+" which the store did not record", true)
			} else if !labelsEqual(rl, e.Labels) {
				s.violate(i, "restore:wrong-labels@"+scn, fmt.Sprintf("restoration mounted %s with labels %v, recorded labels are %v", mpName(e.MP), e.Labels, rl), true)
			}
			if e.OK {
				restoredOK++
			} else {
				restoreFailed++
			}
		}
	}
	r.Count("restoration_mounts_ok", restoredOK)
	r.Count("restoration_mounts_failed", restoreFailed)
	if built != nil {
		if built.tag != o.Tag || built.root != w.rootFor(o.Tag, o.BlkRoot) {
			s.violate(i, "init:instance-config-mismatch", fmt.Sprintf("Init(config %d) constructed its filesystem from config %d root %s", o.Tag, built.tag, filepath.Base(built.root)), true)
		}
	}
	if err == nil {
		if built == nil && reused == nil {
			// "new mounts use the new configuration": Init reported success for this root
			// and configuration, but it constructed no filesystem from them and the one the
			// manager holds (if any) was built from another root/configuration (H7 sits
			// right behind the construction inside Init: trusted base).
			have := "none"
			if prev := w.instOfGen(m.curGen); m.curGen > 0 && prev != nil {
				have = fmt.Sprintf("generation %d built from config %d root %s", prev.gen, prev.tag, filepath.Base(prev.root))
			}
			s.violate(i, "init:success-without-filesystem-of-requested-config@"+scn,
				fmt.Sprintf("Init(config %d, root %s) reported success without constructing a filesystem; current filesystem: %s", o.Tag, filepath.Base(w.rootFor(o.Tag, o.BlkRoot)), have), true)
			return
		}
		if restoreFailed > 0 {
			s.violate(i, "restore-failure:init-reported-success@"+scn, "a restoration mount failed during Init but Init reported success", true)
		}
		if restoredOK > 0 && scn == "init-after-restart" {
			s.ntRestore = true
		}
	} else {
		r.Count("inits_failed", 1)
		if o.IFail == failNone && restoreFailed == 0 && !m.closed {
			s.violate(i, "init:failed-without-fault@"+scn, "Init failed although nothing was made to fail: "+trimErr(err), true)
		}
	}
	// Slack of the statement: "plus at most those whose restoration failed during
	// the last initialisation, which then reported the error". The mountpoints that
	// this Init had to restore are those recorded and not served when it began; if
	// (and only if) it reported an error, they may remain recorded-but-unserved
	// until the next Init. Nothing else may ever be recorded and not served.
	m.allowedExtras = map[int]bool{}
	if err != nil {
		servedAfter := w.served()
		for k := range recsBefore {
			if len(servedBefore[k]) == 0 && len(servedAfter[k]) == 0 {
				m.allowedExtras[k] = true
			}
		}
	}
	m.initsInProc++
	m.lastInitGen = gen
	m.lastInitOK = err == nil
	m.lastInitBuilt = built != nil || reused != nil
	if built != nil {
		m.everConstructed = true
		m.curGen = gen
	}
	s.initCount++
}

func (s *seqRunner) judgeMount(i int, o op, err error, events []fsEvent, before, after map[int][]*inst) {
	m := &s.m
	st := m.state()
	mp := mpName(o.MP)
	if st != stReady && st != stPreInit && st != stClosed {
		s.ntFailedInitReq = true
	}
	var mounts []fsEvent
	for _, e := range events {
		if e.Kind == evMount {
			mounts = append(mounts, e)
		} else if e.Kind == evUnmount && e.OK {
			s.violate(i, "mount:unmounted-a-served-mountpoint", "a Mount request made an instance unmount "+mpName(e.MP), true)
		}
	}
	switch st {
	case stPreInit:
		if err == nil {
			s.violate(i, "pre-init:mount-succeeds", "Mount before initialisation returned success", true)
		}
		if len(mounts) > 0 {
			s.violate(i, "pre-init:mount-reached-filesystem", "Mount before initialisation reached a filesystem instance", true)
		}
		return
	case stClosed:
		for _, e := range mounts {
			if e.OK {
				s.violate(i, "closed:mount-served-unrecorded", "after Server.Close (store closed and removed) a Mount of "+mp+" was served by generation "+fmt.Sprint(e.Gen), true)
			}
		}
		return
	case stNeverBuilt:
		// requests before initialisation fail: no Init of this process ever completed
		if err == nil {
			s.violate(i, "failed-init:mount-succeeds-uninitialised", "Mount returned success although every Init of this manager failed before a filesystem existed", true)
		}
		return
	}
	for _, e := range mounts {
		if e.MP != o.MP {
			s.violate(i, "mount:mounted-other-mountpoint", "Mount("+mp+") mounted "+mpName(e.MP), true)
			return
		}
		if e.MountedAny || len(before[o.MP]) > 0 {
			s.violate(i, "double-mount:mount-request-for-live-mountpoint", "Mount("+mp+") mounted it again although generation "+genList(before[o.MP])+" was serving it", true)
			return
		}
		want := m.curGen
		if st == stFailedReinit {
			want = 0 // the last Init built nothing: every instance is stale
		}
		if e.Gen != want {
			if !e.OK {
				continue
			}
			if st == stFailedReinit {
				// "new mounts use the new configuration": the instance that served this
				// mount was built from an older configuration than the one the manager
				// was last told to use (that Init failed), and the record carries the new one.
				s.violate(i, "failed-reinit:mount-served-by-stale-instance",
					fmt.Sprintf("after Init #%d failed before constructing a filesystem, Mount(%s) succeeded and was served by the instance of Init #%d (older configuration)", m.lastInitGen, mp, e.Gen), true)
			} else {
				s.violate(i, "mount:served-by-stale-instance", fmt.Sprintf("Mount(%s) after Init #%d (current filesystem: generation %d) was served by the instance of Init #%d", mp, m.lastInitGen, m.curGen, e.Gen), true)
			}
			return
		}
	}
	if len(mounts) > 1 {
		s.violate(i, "double-mount:one-request-mounted-twice", "one Mount request produced "+fmt.Sprint(len(mounts))+" filesystem mounts", true)
		return
	}
	if err == nil && len(after[o.MP]) == 0 {
		s.violate(i, "mount:success-not-served", "Mount("+mp+") returned success but no instance serves it", true)
		return
	}
	if st == stReady && err != nil && len(mounts) == 0 && len(before[o.MP]) == 0 {
		s.violate(i, "mount:refused-when-initialised", "Mount("+mp+") failed without reaching the filesystem although the last Init succeeded: "+trimErr(err), true)
	}
}

func genList(l []*inst) string {
	var g []string
	for _, in := range l {
		g = append(g, fmt.Sprint(in.gen))
	}
	sort.Strings(g)
	return strings.Join(g, ",")
}

func (s *seqRunner) judgeCheck(i int, o op, err error, events []fsEvent, before map[int][]*inst) {
	m := &s.m
	st := m.state()
	mp := mpName(o.MP)
	if st != stReady && st != stPreInit && st != stClosed {
		s.ntFailedInitReq = true
	}
	switch st {
	case stPreInit:
		if err == nil {
			s.violate(i, "pre-init:check-succeeds", "Check before initialisation returned success", true)
		}
		return
	case stClosed:
		return
	case stNeverBuilt:
		if err == nil {
			s.violate(i, "failed-init:check-succeeds-uninitialised", "Check returned success although every Init of this manager failed before a filesystem existed", false)
		}
		return
	}
	owners := before[o.MP]
	delivered := false
	for _, e := range events {
		if e.Kind != evCheck {
			if e.OK {
				s.violate(i, "check:mutating-filesystem-call", "a Check request made an instance "+e.Kind.String()+" "+mpName(e.MP), true)
				return
			}
			continue
		}
		if len(owners) == 1 {
			if e.Gen != owners[0].gen || e.MP != o.MP {
				s.violate(i, "check:wrong-instance", fmt.Sprintf("Check(%s), mounted by generation %d, was sent to generation %d", mp, owners[0].gen, e.Gen), true)
				return
			}
			delivered = true
		}
	}
	if len(owners) == 1 {
		if delivered && owners[0].gen != m.curGen {
			s.ntReinitOld = true
		}
		if st == stReady && !delivered {
			s.violate(i, "check:not-delivered-to-owner", fmt.Sprintf("Check(%s) did not reach generation %d which serves it: %s", mp, owners[0].gen, errClass(err)), true)
		}
	}
}

func (s *seqRunner) judgeUnmount(i int, o op, err error, events []fsEvent, before, after map[int][]*inst, recsBefore map[int]map[string]string) {
	m := &s.m
	st := m.state()
	mp := mpName(o.MP)
	if st != stReady && st != stPreInit && st != stClosed {
		s.ntFailedInitReq = true
	}
	switch st {
	case stPreInit:
		if err == nil {
			s.violate(i, "pre-init:unmount-succeeds", "Unmount before initialisation returned success", true)
		}
		return
	case stClosed:
		return
	case stNeverBuilt:
		if err == nil {
			s.violate(i, "failed-init:unmount-succeeds-uninitialised", "Unmount returned success although every Init of this manager failed before a filesystem existed (requests before initialisation must fail)", false)
		}
		return
	}
	owners := before[o.MP]
	delivered := false
	for _, e := range events {
		if e.Kind == evMount && e.OK {
			s.violate(i, "unmount:mounting-filesystem-call", "an Unmount request made an instance mount "+mpName(e.MP), true)
			return
		}
		if e.Kind != evUnmount {
			continue
		}
		if len(owners) == 1 {
			if e.Gen != owners[0].gen || e.MP != o.MP {
				s.violate(i, "unmount:wrong-instance", fmt.Sprintf("Unmount(%s), mounted by generation %d, was sent to generation %d", mp, owners[0].gen, e.Gen), true)
				return
			}
			delivered = true
		}
	}
	if len(owners) == 1 {
		if delivered && owners[0].gen != m.curGen {
			s.ntReinitOld = true
		}
		if st == stReady && !delivered {
			s.violate(i, "unmount:not-delivered-to-owner", fmt.Sprintf("Unmount(%s) did not reach generation %d which serves it: %s", mp, owners[0].gen, errClass(err)), true)
			return
		}
		if err == nil && len(after[o.MP]) > 0 {
			s.violate(i, "unmount:success-still-served", "Unmount("+mp+") returned success but the mountpoint is still served", true)
		}
		return
	}
	if len(owners) == 0 {
		_, recorded := recsBefore[o.MP]
		if !recorded && st == stReady {
			s.r.Count("unmount_of_unknown_mountpoint", 1)
			if err != nil {
				s.violate(i, "unmount-unknown:fails", "Unmount of a mountpoint that is neither recorded nor mounted failed: "+trimErr(err), true)
			}
		}
	}
}

// quiescent evaluates the store/served invariant after operation i.
func (s *seqRunner) quiescent(i int, o op) {
	w, m := s.w, &s.m
	if m.closed {
		return
	}
	scn := o.Kind.name()
	if o.Kind == opInit {
		// the model was already advanced by judgeInit; recompute the label
		switch {
		case m.initsInProc == 1 && m.afterRestart:
			scn = "init-after-restart"
		case m.initsInProc == 1:
			scn = "first-init"
		default:
			scn = "re-init"
		}
	}
	recs, ok := invariant(w, m.allowedExtras, scn, m.state().String(),
		func(key, what string) { s.violate(i, key, what, true) })
	if !ok {
		s.stop = true
		return
	}
	m.recs = recs
}

// invariant is the store/served clause of C17 at a quiescent point:
//
//	served ⊆ recorded, and recorded \ served ⊆ allowed
//
// where `allowed` are the records that have been waiting, recorded and unserved,
// since the last Init failed to restore them (or since the process started and
// was not initialised yet). It also compares the manager's own mountpoint map
// with what the instances really have mounted, and prunes `allowed`.
func invariant(w *world, allowed map[int]bool, scn, state string, viol func(key, what string)) (map[int]map[string]string, bool) {
	r := w.r
	recs, _, err := w.records()
	if err != nil {
		r.Inconclusive("store unreadable at a quiescent point")
		return nil, false
	}
	r.Count("quiescent_points_checked", 1)
	served := w.served()
	for mp, l := range served {
		if len(l) > 1 {
			viol("double-mount:served-more-than-once@"+scn, fmt.Sprintf("%s is mounted %d times (generations %s)", mpName(mp), len(l), genList(l)))
		}
		if _, ok := recs[mp]; !ok {
			viol("store!=served:served-not-recorded@"+scn, fmt.Sprintf("%s is served (generation %s) but the store has no record of it", mpName(mp), genList(l)))
		}
	}
	extra := 0
	for mp := range recs {
		if len(served[mp]) > 0 {
			continue
		}
		if allowed[mp] {
			extra++
			continue
		}
		name := "a path outside the case"
		if mp >= 0 {
			name = mpName(mp)
		}
		viol("store!=served:recorded-not-served@"+scn,
			fmt.Sprintf("the store records %s but no instance serves it, and it is not a mountpoint whose restoration the last Init failed to perform (state %s)", name, state))
	}
	if extra > 0 {
		r.Count("quiescent_points_with_tolerated_unrestored_records", 1)
	}
	// a tolerated record stops being one as soon as it is served again or deleted:
	// whatever happens to that mountpoint later is not a failed restoration any more
	for mp := range allowed {
		if _, ok := recs[mp]; !ok || len(served[mp]) > 0 {
			delete(allowed, mp)
		}
	}
	// the manager's own map must describe the same thing
	fsmap := w.fm.VerifServedMountpoints()
	for p, fs := range fsmap {
		mp, ok := w.mpIdx[p]
		in, isInst := fs.(*inst)
		if !ok || !isInst {
			r.Inconclusive("fsMap holds an entry the harness cannot interpret")
			continue
		}
		if in.proc != w.proc || in.slots[mp].mounted.Load() == 0 {
			viol("fsmap:entry-not-mounted@"+scn, fmt.Sprintf("the manager maps %s to generation %d, which does not have it mounted", mpName(mp), in.gen))
		}
	}
	for mp, l := range served {
		fs, ok := fsmap[w.mps[mp]]
		if !ok {
			viol("fsmap:mounted-not-mapped@"+scn, fmt.Sprintf("%s is mounted in generation %s but the manager has no instance for it", mpName(mp), genList(l)))
		} else if in, _ := fs.(*inst); in != l[0] && len(l) == 1 {
			viol("fsmap:mapped-to-other-instance@"+scn, fmt.Sprintf("%s is mounted in generation %s but mapped to another instance", mpName(mp), genList(l)))
		}
	}
	return recs, true
}
