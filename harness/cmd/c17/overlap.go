package main

// overlap.go — imposed overlaps on one mountpoint (stage "ovl", plain build).
//
// A Mount request A is held inside the recording filesystem's Mount (a slow, lazily
// pulling mount) by a harness gate. While it is held, 1–2 other requests B for the SAME
// mountpoint are issued one after the other. When they have returned, A's filesystem
// Mount is made to fail or to succeed. If the code's own locking does not let B run while
// A is inside the filesystem, B does not return; the gate is then opened after a grace
// period and the round is booked as "overlap infeasible" (the verdict never depends on
// that timer: whatever order results, the round ends in a quiescent point and only that
// point is judged):
//
//   - the store/served/fsMap clauses of seq.go, with no slack (the last Init succeeded);
//   - a Mount that returned success is served: unless an Unmount of the round returned
//     success too, the mountpoint must be mounted in an instance, and a Check then reaches
//     that instance and succeeds;
//   - after a following Unmount that returned success nothing is served or recorded.
//
// Nothing is inferred from the order of the overlapping requests themselves.

import (
	"context"
	"fmt"
	"os"
	"strings"
	"time"

	"verifharness/internal/prng"
	"verifharness/internal/vf"
)

type ovlRound struct {
	MP        int
	HeldFails bool     // outcome of the held filesystem Mount
	B         []concOp // requests issued while A is held
	Unmount   bool     // a sequential Unmount + quiescent check closes the round
	ReInit    bool     // a re-Init (new configuration) precedes the round
}

type ovlCase struct {
	Idx    int
	NMP    int
	Rounds []ovlRound
}

func (c ovlCase) desc() string {
	var sb strings.Builder
	fmt.Fprintf(&sb, "ovl mp=%d:", c.NMP)
	for _, r := range c.Rounds {
		out := "ok"
		if r.HeldFails {
			out = "fail"
		}
		if r.ReInit {
			sb.WriteString(" I")
		}
		fmt.Fprintf(&sb, " [hold M%d->%s |", r.MP, out)
		for _, o := range r.B {
			f := ""
			if o.Fail {
				f = "!"
			}
			fmt.Fprintf(&sb, " %c%d%s", "IMCU"[o.Kind], o.MP, f)
		}
		sb.WriteString("]")
		if r.Unmount {
			fmt.Fprintf(&sb, " U%d", r.MP)
		}
	}
	return sb.String()
}

func genOvlCase(rng *prng.R, idx int) ovlCase {
	c := ovlCase{Idx: idx, NMP: rng.Range(1, 2)}
	label := 3000
	for n := rng.Range(1, 3); n > 0; n-- {
		r := ovlRound{MP: rng.Intn(c.NMP), HeldFails: rng.Chance(3, 5), Unmount: rng.Chance(1, 2), ReInit: rng.Chance(1, 5)}
		for k := rng.Range(1, 2); k > 0; k-- {
			x := rng.Intn(100)
			switch {
			case x < 60:
				label++
				r.B = append(r.B, concOp{Kind: opMount, MP: r.MP, Fail: rng.Chance(1, 8), LabelID: label})
			case x < 80:
				r.B = append(r.B, concOp{Kind: opCheck, MP: r.MP})
			default:
				r.B = append(r.B, concOp{Kind: opUnmount, MP: r.MP})
			}
		}
		c.Rounds = append(c.Rounds, r)
	}
	return c
}

const overlapGrace = 300 * time.Millisecond

func runOvlCase(r *vf.Run, c ovlCase, dir string) {
	r.Eval(1)
	w, err := newWorld(r, dir, c.NMP, false, true)
	if err != nil {
		r.Inconclusive("scratch setup failed")
		return
	}
	defer func() {
		curWorld.Store(nil)
		_ = os.RemoveAll(dir)
	}()
	if err := w.startProc(); err != nil {
		r.Inconclusive("NewFuseManager failed")
		return
	}
	defer func() { _ = w.die() }()
	var trace []string
	replay := func() map[string]any {
		return map[string]any{"stage": "ovl", "case": c.Idx, "history": c.desc(), "observed": strings.Join(trace, " ; ")}
	}
	stop := false
	viol := func(key, what string) { r.Violate(key, what, replay()); stop = true }
	bg := context.Background()
	var tag int64 = 7000
	doInit := func() bool {
		tag++
		w.initSeq.Add(1)
		var ierr error
		pan, val, stack := vf.Recover(func() { ierr = w.doInit(bg, w.rootFor(tag, false), tag, false) })
		if pan {
			viol(panicKey(val, stack), "Init panicked: "+fmt.Sprint(val))
			return false
		}
		if ierr != nil {
			viol("init:failed-without-fault@overlap", "Init failed although nothing was made to fail: "+trimErr(ierr))
			return false
		}
		return true
	}
	if !doInit() {
		return
	}
	// request runs one request and recovers a panic of the code under test
	request := func(o concOp, origin opRef) (rerr error, panicked bool) {
		fl := &faults{mount: map[int]bool{}}
		if o.Kind == opMount {
			fl.mount[o.MP] = o.Fail
		}
		ctx := context.WithValue(context.WithValue(bg, originKey, origin), faultKey, fl)
		pan, val, stack := vf.Recover(func() {
			switch o.Kind {
			case opMount:
				rerr = w.doMount(ctx, w.mps[o.MP], labelsFor(o.LabelID))
			case opCheck:
				rerr = w.doCheck(ctx, w.mps[o.MP], labelsFor(0))
			case opUnmount:
				rerr = w.doUnmount(ctx, w.mps[o.MP])
			}
		})
		if pan {
			r.Violate(panicKey(val, stack), fmt.Sprintf("%s panicked in the overlap stage: %v", o.Kind.name(), val), replay())
			return nil, true
		}
		r.Count("op_"+o.Kind.name(), 1)
		r.Distinct("reply_"+o.Kind.name(), errClass(rerr))
		return rerr, false
	}
	nontrivial := false
	for ri, rd := range c.Rounds {
		if stop {
			break
		}
		if rd.ReInit && !doInit() {
			return
		}
		mp := rd.MP
		name := mpName(mp)
		g := &gate{mp: mp, origin: opRef{W: 100 + ri, J: 0}, arrived: make(chan struct{}), release: make(chan bool, 1)}
		w.gate.Store(g)
		type res struct {
			err error
			pan bool
		}
		aDone := make(chan res, 1)
		go func() {
			e, p := request(concOp{Kind: opMount, MP: mp, LabelID: 2000 + 10*c.Idx + ri}, g.origin)
			aDone <- res{e, p}
		}()
		held := false
		var aRes *res
		select {
		case <-g.arrived:
			held = true
		case x := <-aDone: // the mountpoint was already served: the filesystem was not asked
			aRes = &x
		case <-time.After(2 * time.Minute):
			r.Inconclusive("watchdog: held Mount neither reached the filesystem nor returned")
			return
		}
		// the other requests for the same mountpoint
		bDone := make(chan []res, 1)
		go func() {
			var out []res
			for j, o := range rd.B {
				e, p := request(o, opRef{W: 200 + ri, J: j})
				out = append(out, res{e, p})
				if p {
					break
				}
			}
			bDone <- out
		}()
		var bRes []res
		overlapped := false
		if held {
			select {
			case bRes = <-bDone:
				overlapped = true
			case <-time.After(overlapGrace):
				// the code does not run these requests while a Mount of the same
				// mountpoint is inside the filesystem: that order does not exist
				r.Count("overlap_infeasible", 1)
			}
			g.release <- rd.HeldFails
		}
		if bRes == nil {
			select {
			case bRes = <-bDone:
			case <-time.After(2 * time.Minute):
				r.Inconclusive("watchdog: overlapping requests did not return")
				return
			}
		}
		if aRes == nil {
			select {
			case x := <-aDone:
				aRes = &x
			case <-time.After(2 * time.Minute):
				r.Inconclusive("watchdog: held Mount did not return")
				return
			}
		}
		w.gate.Store(nil)
		if overlapped {
			r.Count("overlap_realised", 1)
			nontrivial = true
		} else if !held {
			r.Count("overlap_round_without_filesystem_mount", 1)
		}
		tr := fmt.Sprintf("hold M%d(held=%v fails=%v)->%s |", mp, held, rd.HeldFails, errClass(aRes.err))
		mountOK, unmountOK := aRes.err == nil, false
		anyPanic := aRes.pan
		for j, b := range bRes {
			tr += fmt.Sprintf(" %s->%s", rd.B[j].Kind.name(), errClass(b.err))
			anyPanic = anyPanic || b.pan
			if b.err == nil && rd.B[j].Kind == opMount {
				mountOK = true
			}
			if b.err == nil && rd.B[j].Kind == opUnmount {
				unmountOK = true
			}
		}
		if overlapped {
			tr += " (returned while the Mount was held)"
		}
		trace = append(trace, tr)
		if anyPanic {
			return
		}

		// ---- quiescent point -------------------------------------------------
		if _, ok := invariant(w, map[int]bool{}, "overlap", "ready", viol); !ok || stop {
			return
		}
		servedBy := w.served()[mp]
		if mountOK && !unmountOK {
			// A Mount that returned success is served (no Unmount of the round succeeded).
			if len(servedBy) == 0 {
				viol("mount:success-not-served@overlap", "a Mount("+name+") returned success, no Unmount did, and at the next quiescent point no instance serves "+name)
				return
			}
			cerr, p := request(concOp{Kind: opCheck, MP: mp}, opRef{W: 300 + ri})
			if p {
				return
			}
			trace = append(trace, "C"+fmt.Sprint(mp)+"->"+errClass(cerr))
			if cerr != nil {
				viol("check:fails-for-served-mountpoint@overlap", "Check("+name+") fails although a Mount returned success and generation "+genList(servedBy)+" has it mounted: "+trimErr(cerr))
				return
			}
		}
		if rd.Unmount {
			uerr, p := request(concOp{Kind: opUnmount, MP: mp}, opRef{W: 400 + ri})
			if p {
				return
			}
			trace = append(trace, "U"+fmt.Sprint(mp)+"->"+errClass(uerr))
			if _, ok := invariant(w, map[int]bool{}, "overlap-unmount", "ready", viol); !ok || stop {
				return
			}
			if uerr == nil && len(w.served()[mp]) > 0 {
				viol("unmount:success-still-served@overlap", "Unmount("+name+") returned success but the mountpoint is still served")
				return
			}
		}
	}
	if nontrivial {
		r.NonTrivial(c.desc())
	}
	if c.Idx < 2 {
		r.Sample(map[string]any{"stage": "ovl", "case": c.Idx, "history": c.desc(), "observed": strings.Join(trace, " ; ")})
	}
}
