package main

// conc.go — concurrent histories (race build). Workers own disjoint mountpoints (as
// the snapshotter gives every snapshot its own mount directory) and issue
// Mount/Check/Unmount while the main goroutine re-initialises the manager with new
// configurations. Nothing on the operation path is shared between workers: every
// worker logs into its own slice, the recording filesystems log per (instance,
// mountpoint), faults and the identity of the issuing operation travel in the
// context. Everything is judged after the workers were joined.

import (
	"context"
	"fmt"
	"os"
	"sort"
	"strings"
	"sync"
	"time"

	"verifharness/internal/prng"
	"verifharness/internal/vf"
)

type concOp struct {
	Kind    opKind
	MP      int
	Fail    bool
	LabelID int
	Pause   int // microseconds slept before the request (scheduling jitter only)
}

type concCase struct {
	Idx      int
	NW       int
	Restart  bool   // the concurrent phase starts on a new manager process with the store kept
	PreMount []bool // per mountpoint: mounted in the sequential prefix
	Script   [][]concOp
	Pauses   []int // microseconds slept before each concurrent Init (scheduling jitter only)
}

func (c concCase) desc() string {
	var sb strings.Builder
	fmt.Fprintf(&sb, "conc w=%d restart=%v pre=", c.NW, c.Restart)
	for _, b := range c.PreMount {
		if b {
			sb.WriteByte('1')
		} else {
			sb.WriteByte('0')
		}
	}
	fmt.Fprintf(&sb, " inits=%d", len(c.Pauses))
	for w, s := range c.Script {
		fmt.Fprintf(&sb, " | w%d:", w)
		for _, o := range s {
			f := ""
			if o.Fail {
				f = "!"
			}
			fmt.Fprintf(&sb, " %c%d%s", "IMCU"[o.Kind], o.MP, f)
		}
	}
	return sb.String()
}

func genConcCase(rng *prng.R, idx int) concCase {
	c := concCase{Idx: idx, NW: rng.Range(2, 4), Restart: rng.Chance(1, 3)}
	for i := 0; i < c.NW*2; i++ {
		c.PreMount = append(c.PreMount, rng.Chance(1, 2))
	}
	label := 1000
	for w := 0; w < c.NW; w++ {
		n := rng.Range(8, 16)
		var s []concOp
		for j := 0; j < n; j++ {
			mp := 2*w + rng.Intn(2)
			x := rng.Intn(100)
			switch {
			case x < 45:
				label++
				s = append(s, concOp{Kind: opMount, MP: mp, Fail: rng.Chance(1, 6), LabelID: label})
			case x < 65:
				s = append(s, concOp{Kind: opCheck, MP: mp, Fail: rng.Chance(1, 6)})
			default:
				s = append(s, concOp{Kind: opUnmount, MP: mp, Fail: rng.Chance(1, 6)})
			}
			if rng.Chance(1, 2) {
				s[len(s)-1].Pause = rng.Intn(400)
			}
		}
		c.Script = append(c.Script, s)
	}
	for k := rng.Range(2, 4); k > 0; k-- {
		c.Pauses = append(c.Pauses, rng.Intn(4000))
	}
	if c.Restart {
		c.Pauses[0] = rng.Intn(200) // the first Init of the new process follows at once
	}
	return c
}

type opLog struct {
	op        concOp
	j         int
	call, ret int64
	err       error
	panicked  bool
}

type initLog struct {
	gen       int
	call, ret int64
	err       error
}

func runConcCase(r *vf.Run, c concCase, dir string) {
	r.Eval(1)
	nmp := c.NW * 2
	w, err := newWorld(r, dir, nmp, false, true)
	if err != nil {
		r.Inconclusive("scratch setup failed")
		return
	}
	defer func() {
		curWorld.Store(nil)
		_ = os.RemoveAll(dir)
	}()
	if err := w.startProc(); err != nil {
		r.Inconclusive("NewFuseManager failed")
		return
	}
	replay := map[string]any{"stage": "conc", "case": c.Idx, "history": c.desc()}
	viol := func(key, what string) { r.Violate(key, what, replay) }
	bg := context.Background()
	var tag int64 = 5000
	doInit := func() initLog {
		tag++
		gen := int(w.initSeq.Add(1))
		il := initLog{gen: gen, call: now()}
		ctx := context.WithValue(bg, originKey, opRef{W: -1, J: gen})
		pan, val, stack := vf.Recover(func() { il.err = w.doInit(ctx, w.rootFor(tag, false), tag, false) })
		il.ret = now()
		if pan {
			viol(panicKey(val, stack), "Init panicked in the concurrent stage: "+fmt.Sprint(val))
			il.err = fmt.Errorf("panic")
		}
		return il
	}

	// ---- sequential prefix (not judged here: the seq stage does that) -------
	if il := doInit(); il.err != nil {
		// the prefix Init has no fault injected
		viol("init:failed-without-fault@first-init", "Init failed although nothing was made to fail: "+trimErr(il.err))
		return
	}
	for mp, pre := range c.PreMount {
		if pre {
			if err := w.doMount(bg, w.mps[mp], labelsFor(mp)); err != nil {
				r.Inconclusive("prefix mount failed")
				return
			}
		}
	}
	allowed := map[int]bool{}
	if c.Restart {
		if err := w.die(); err != nil {
			r.Inconclusive("closing the store of the dying process failed")
			return
		}
		if err := w.startProc(); err != nil {
			r.Inconclusive("NewFuseManager on the kept store failed")
			return
		}
		r.Count("conc_cases_with_restart", 1)
	}
	recs0, _, err := w.records()
	if err != nil {
		r.Inconclusive("store unreadable")
		return
	}
	served0 := w.served()
	for _, in := range w.liveInsts() { // forget the prefix calls
		for i := range in.slots {
			in.slots[i].events = nil
		}
	}

	// ---- concurrent phase ---------------------------------------------------
	logs := make([][]opLog, c.NW)
	var wg sync.WaitGroup
	start := make(chan struct{})
	for wi := 0; wi < c.NW; wi++ {
		wg.Add(1)
		go func(wi int) {
			defer wg.Done()
			lg := make([]opLog, 0, len(c.Script[wi]))
			<-start
			for j, o := range c.Script[wi] {
				fl := &faults{mount: map[int]bool{}}
				switch o.Kind {
				case opMount:
					fl.mount[o.MP] = o.Fail
				case opCheck:
					fl.check = o.Fail
				case opUnmount:
					fl.unmount = o.Fail
				}
				ctx := context.WithValue(context.WithValue(bg, originKey, opRef{W: wi, J: j}), faultKey, fl)
				if o.Pause > 0 {
					time.Sleep(time.Duration(o.Pause) * time.Microsecond) // jitter only
				}
				l := opLog{op: o, j: j, call: now()}
				pan, val, stack := vf.Recover(func() {
					switch o.Kind {
					case opMount:
						l.err = w.doMount(ctx, w.mps[o.MP], labelsFor(o.LabelID))
					case opCheck:
						l.err = w.doCheck(ctx, w.mps[o.MP], labelsFor(0))
					case opUnmount:
						l.err = w.doUnmount(ctx, w.mps[o.MP])
					}
				})
				l.ret = now()
				if pan {
					l.panicked = true
					viol(panicKey(val, stack), fmt.Sprintf("%s panicked in the concurrent stage: %v", o.Kind.name(), val))
					lg = append(lg, l)
					break
				}
				lg = append(lg, l)
			}
			logs[wi] = lg
		}(wi)
	}
	var inits []initLog
	done := make(chan struct{})
	go func() { wg.Wait(); close(done) }()
	close(start)
	for _, us := range c.Pauses {
		time.Sleep(time.Duration(us) * time.Microsecond) // jitter only; no verdict depends on it
		inits = append(inits, doInit())
	}
	select {
	case <-done:
	case <-time.After(5 * time.Minute):
		r.Inconclusive("watchdog: concurrent workers did not finish")
		return
	}

	// ---- judge ---------------------------------------------------------------
	panicked := false
	for _, il := range inits {
		r.Count("op_init", 1)
		if il.err != nil {
			panicked = true
			if il.err.Error() != "panic" {
				viol("init:failed-without-fault@conc", "Init failed although nothing was made to fail: "+trimErr(il.err))
			}
		}
	}
	overlap := 0
	for wi := range logs {
		for _, l := range logs[wi] {
			r.Count("op_"+l.op.Kind.name(), 1)
			r.Distinct("reply_"+l.op.Kind.name(), errClass(l.err))
			if l.panicked {
				panicked = true
			}
			for _, il := range inits {
				if l.call < il.ret && il.call < l.ret {
					overlap++
				}
			}
		}
	}
	r.Count("conc_requests_overlapping_an_init", overlap)
	if panicked {
		return
	}
	if overlap > 0 {
		r.NonTrivial(c.desc())
	}
	firstInitCall, firstInitRet := inits[0].call, inits[0].ret
	if !c.Restart { // the prefix Init initialised this very process
		firstInitCall, firstInitRet = 0, 0
	}
	for wi := range logs {
		for _, mp := range []int{2 * wi, 2*wi + 1} {
			judgeMountpointHistory(r, w, c, wi, mp, logs[wi], inits, firstInitCall, firstInitRet, served0, recs0, viol)
		}
	}
	// calls that arrived for a mountpoint on behalf of a request for another one
	if n := w.strayCalls.Load(); n > 0 {
		viol("conc:filesystem-call-outside-universe", "a filesystem instance was called with a path no request named")
	}
	// final quiescent point: the last Init succeeded, so no slack at all
	_ = allowed
	invariant(w, map[int]bool{}, "conc-final", "ready", viol)
	if c.Idx < 3 {
		r.Sample(map[string]any{"stage": "conc", "case": c.Idx, "history": c.desc(), "requests_overlapping_an_init": overlap})
	}
	_ = w.die()
}

// judgeMountpointHistory replays, in the order the recording filesystems saw them,
// all calls for one mountpoint and judges the owning worker's requests.
func judgeMountpointHistory(r *vf.Run, w *world, c concCase, wi, mp int, lg []opLog, inits []initLog,
	firstInitCall, firstInitRet int64, served0 map[int][]*inst, recs0 map[int]map[string]string, viol func(key, what string)) {

	var evs []fsEvent
	for _, in := range w.liveInsts() {
		s := &in.slots[mp]
		s.mu.Lock()
		evs = append(evs, s.events...)
		s.mu.Unlock()
	}
	sort.SliceStable(evs, func(a, b int) bool { return evs[a].T < evs[b].T })
	r.Count("fs_calls_observed", len(evs))

	owner := -1
	if l := served0[mp]; len(l) > 0 {
		owner = l[0].gen
	}
	_, maybeRecorded := recs0[mp] // recorded by the dead process, waiting for restoration
	if owner >= 0 {
		maybeRecorded = false
	}
	name := mpName(mp)

	initByGen := map[int]initLog{}
	for _, il := range inits {
		initByGen[il.gen] = il
	}
	allowedGen := func(l opLog, gen int) bool {
		il, ok := initByGen[gen]
		if !ok {
			// the prefix Init of this process (no restart) is generation 1
			if gen == 1 && !c.Restart {
				il = initLog{gen: 1}
			} else {
				return false
			}
		}
		if il.call > l.ret {
			return false
		}
		for _, other := range inits {
			if other.gen > gen && other.ret <= l.call {
				return false
			}
		}
		return true
	}

	// per request: owner before its first call, its calls, owner after
	type view struct {
		before, after int
		calls         []fsEvent
		seen          bool
		ambiguous     bool
	}
	views := map[int]*view{}
	opAt := map[int]opLog{}
	for _, l := range lg {
		if l.op.MP == mp {
			opAt[l.j] = l
			views[l.j] = &view{before: -2, after: -2}
		}
	}
	for _, e := range evs {
		if !e.HasOrigin {
			viol("conc:filesystem-call-without-origin", "a filesystem call lost the request context")
			continue
		}
		if e.Origin.W == -1 {
			// restoration by Init #J
			il := initByGen[e.Origin.J]
			for j, l := range opAt {
				if l.call <= il.ret && il.call <= l.ret {
					views[j].ambiguous = true
				}
			}
			if e.Kind != evMount {
				if e.OK {
					viol("init:unmounts-existing-mount", "Init unmounted "+name+" which was being served")
				}
				continue
			}
			if e.Gen != e.Origin.J {
				viol("restore:mounted-by-stale-instance", fmt.Sprintf("restoration during Init #%d mounted %s in generation %d", e.Origin.J, name, e.Gen))
			}
			if owner >= 0 {
				viol("double-mount:restore-of-live-mountpoint@conc", "Init mounted "+name+" again although generation "+fmt.Sprint(owner)+" was serving it")
			}
			if rl, ok := recs0[mp]; maybeRecorded && ok && !labelsEqual(rl, e.Labels) {
				viol("restore:wrong-labels@conc", "restoration mounted "+name+" with labels other than the recorded ones")
			}
			if e.OK {
				owner = e.Gen
				maybeRecorded = false
				r.Count("restoration_mounts_ok", 1)
			}
			continue
		}
		if e.Origin.W != wi {
			viol("conc:request-touched-foreign-mountpoint", fmt.Sprintf("a request of worker %d caused a filesystem call for %s", e.Origin.W, name))
			continue
		}
		l, ok := opAt[e.Origin.J]
		if !ok {
			viol("conc:request-touched-other-mountpoint", "a request caused a filesystem call for a mountpoint it did not name ("+name+")")
			continue
		}
		v := views[e.Origin.J]
		if !v.seen {
			v.seen = true
			v.before = owner
		}
		v.calls = append(v.calls, e)
		switch e.Kind {
		case evMount:
			if owner >= 0 {
				viol("double-mount:mount-request-for-live-mountpoint@conc", "Mount("+name+") mounted it again although generation "+fmt.Sprint(owner)+" was serving it")
			}
			if e.OK {
				if !allowedGen(l, e.Gen) {
					viol("mount:served-by-stale-instance@conc", fmt.Sprintf("Mount(%s) was served by generation %d, which was not the current one at any time during the request", name, e.Gen))
				}
				owner = e.Gen
				maybeRecorded = false
			}
		case evCheck:
			if owner >= 0 && e.Gen != owner {
				viol("check:wrong-instance@conc", fmt.Sprintf("Check(%s), mounted by generation %d, was sent to generation %d", name, owner, e.Gen))
			} else if owner >= 0 {
				r.Count("conc_check_delivered_to_owner", 1)
			}
		case evUnmount:
			if owner >= 0 && e.Gen != owner {
				viol("unmount:wrong-instance@conc", fmt.Sprintf("Unmount(%s), mounted by generation %d, was sent to generation %d", name, owner, e.Gen))
			}
			if e.OK {
				owner = -1
			}
		}
		v.after = owner
	}

	// requests without calls: their view is the owner left by all calls that arrived
	// before the request was issued (the worker's own earlier requests have returned;
	// a restoration overlapping the request makes it ambiguous, see above)
	owner0 := -1
	if l := served0[mp]; len(l) > 0 {
		owner0 = l[0].gen
	}
	ownerAt := func(t int64) int {
		o := owner0
		for _, e := range evs {
			if e.T >= t {
				break
			}
			if e.OK && e.Kind == evMount {
				o = e.Gen
			} else if e.OK && e.Kind == evUnmount {
				o = -1
			}
		}
		return o
	}
	var js []int
	for j := range opAt {
		js = append(js, j)
	}
	sort.Ints(js)
	for _, j := range js {
		l, v := opAt[j], views[j]
		if !v.seen {
			v.before = ownerAt(l.call)
			v.after = v.before
		}
		preInit := c.Restart && l.ret < firstInitCall
		ready := l.call > firstInitRet
		kind := l.op.Kind.name()
		if preInit {
			if l.err == nil {
				viol("pre-init:"+kind+"-succeeds@conc", kind+" before initialisation returned success")
			}
			if len(v.calls) > 0 {
				viol("pre-init:"+kind+"-reached-filesystem@conc", kind+" before initialisation reached a filesystem instance")
			}
			r.Count("conc_requests_before_init", 1)
			continue
		}
		if v.ambiguous {
			r.Count("conc_requests_overlapping_a_restoration_of_their_mountpoint", 1)
		}
		switch l.op.Kind {
		case opMount:
			if l.err == nil && v.after < 0 && !v.ambiguous {
				viol("mount:success-not-served@conc", "Mount("+name+") returned success but no instance serves it")
			}
			if ready && l.err != nil && len(v.calls) == 0 && v.before < 0 && !v.ambiguous {
				viol("mount:refused-when-initialised@conc", "Mount("+name+") failed without reaching the filesystem although the manager was initialised: "+trimErr(l.err))
			}
		case opCheck:
			if ready && v.before >= 0 && !v.ambiguous {
				ok := false
				for _, e := range v.calls {
					ok = ok || e.Kind == evCheck
				}
				if !ok {
					viol("check:not-delivered-to-owner@conc", fmt.Sprintf("Check(%s) did not reach generation %d which serves it", name, v.before))
				}
			}
		case opUnmount:
			if ready && v.before >= 0 && !v.ambiguous {
				ok := false
				for _, e := range v.calls {
					ok = ok || e.Kind == evUnmount
				}
				if !ok {
					viol("unmount:not-delivered-to-owner@conc", fmt.Sprintf("Unmount(%s) did not reach generation %d which serves it", name, v.before))
				}
			}
			if l.err == nil && v.after >= 0 && !v.ambiguous {
				viol("unmount:success-still-served@conc", "Unmount("+name+") returned success but the mountpoint is still served")
			}
			if ready && v.before < 0 && !maybeRecorded && !v.ambiguous && len(v.calls) == 0 {
				r.Count("unmount_of_unknown_mountpoint", 1)
				if l.err != nil {
					viol("unmount-unknown:fails@conc", "Unmount of a mountpoint that is neither recorded nor mounted failed: "+trimErr(l.err))
				}
			}
		}
	}
}
