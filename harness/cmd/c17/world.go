package main

// world.go — the environment of ONE case: a FUSE manager "process" (a
// fusemanager.Server, optionally behind a real gRPC server on a unix socket and
// the real fusemanager client), the recording in-memory filesystems that H7
// (fusemanager.VerifSetWrapFS) substitutes for the filesystem each Init
// constructs, the injected faults, and the observations.

import (
	"context"
	"encoding/json"
	"errors"
	"fmt"
	"net"
	"os"
	"path/filepath"
	"sync"
	"sync/atomic"
	"time"

	bolt "go.etcd.io/bbolt"
	"google.golang.org/grpc"
	"google.golang.org/grpc/credentials/insecure"

	"github.com/containerd/stargz-snapshotter/fusemanager"
	pb "github.com/containerd/stargz-snapshotter/fusemanager/api"
	"github.com/containerd/stargz-snapshotter/service"
	"github.com/containerd/stargz-snapshotter/snapshot"

	"verifharness/internal/vf"
)

var t0 = time.Now()

func now() int64 { return int64(time.Since(t0)) }

const maxGens = 64

type evKind int8

const (
	evMount evKind = iota
	evCheck
	evUnmount
)

func (k evKind) String() string { return [...]string{"Mount", "Check", "Unmount"}[k] }

// opRef identifies the harness operation on whose behalf a filesystem call is made.
// W == -1: Init number J of the case; W >= 0: request J of worker W (sequential
// cases have the single worker 0).
type opRef struct{ W, J int }

// fsEvent is one call received by a recording filesystem instance.
type fsEvent struct {
	T          int64
	Gen        int // generation (= number of the Init call that constructed the instance)
	Kind       evKind
	MP         int
	OK         bool
	Labels     map[string]string
	Origin     opRef
	HasOrigin  bool
	MountedAny bool // Mount only, sequential cases only: the mountpoint was mounted in some live instance when the call arrived
}

// faults is what the next operation is made to suffer.
type faults struct {
	mount   map[int]bool // filesystem Mount of these mountpoints fails
	check   bool
	unmount bool
}

// gate holds the filesystem Mount issued on behalf of one request inside the
// recording filesystem (a slow, lazily pulling Mount) until the harness decides
// its outcome (overlap stage).
type gate struct {
	mp      int
	origin  opRef
	arrived chan struct{} // closed when the held call is inside the filesystem's Mount
	release chan bool     // true: the held Mount then fails
}

type ctxKey int

const (
	originKey ctxKey = iota
	faultKey
)

var errInjected = errors.New("injected failure")

type slot struct {
	mounted atomic.Int32
	mu      sync.Mutex // concurrent cases: guards events (per mountpoint per instance: no cross-worker edge)
	events  []fsEvent
	labels  atomic.Pointer[map[string]string]
}

// inst is the recording snapshot.FileSystem substituted for the filesystem that one
// Init call constructed.
type inst struct {
	w     *world
	gen   int
	proc  int
	root  string
	tag   int64 // configuration tag carried in Config.Config.Config.PrefetchSize
	ipfs  bool
	slots []slot
}

func copyLabels(l map[string]string) map[string]string {
	c := make(map[string]string, len(l))
	for k, v := range l {
		c[k] = v
	}
	return c
}

func (in *inst) begin(ctx context.Context, kind evKind, mp string) (int, *faults, fsEvent, bool) {
	i, ok := in.w.mpIdx[mp]
	if !ok {
		in.w.strayCalls.Add(1)
		return 0, nil, fsEvent{}, false
	}
	f, _ := ctx.Value(faultKey).(*faults)
	if f == nil {
		f = in.w.faults.Load()
	}
	ev := fsEvent{T: now(), Gen: in.gen, Kind: kind, MP: i}
	if o, ok := ctx.Value(originKey).(opRef); ok {
		ev.Origin, ev.HasOrigin = o, true
	}
	return i, f, ev, true
}

func (in *inst) record(i int, ev fsEvent) {
	if in.w.conc {
		s := &in.slots[i]
		s.mu.Lock()
		s.events = append(s.events, ev)
		s.mu.Unlock()
		return
	}
	in.w.evMu.Lock()
	in.w.events = append(in.w.events, ev)
	in.w.evMu.Unlock()
}

func (in *inst) Mount(ctx context.Context, mountpoint string, labels map[string]string) error {
	i, f, ev, ok := in.begin(ctx, evMount, mountpoint)
	if !ok {
		return fmt.Errorf("recfs: mountpoint outside the case universe")
	}
	ev.Labels = copyLabels(labels)
	if !in.w.conc {
		ev.MountedAny = in.w.mountedAnywhere(i)
	}
	fail := f != nil && f.mount[i]
	if g := in.w.gate.Load(); g != nil && g.mp == i && ev.HasOrigin && ev.Origin == g.origin {
		close(g.arrived)
		fail = <-g.release
		ev.T = now() // the mount takes effect (or fails) now
	}
	if !fail {
		// like the kernel, a second mount on the same directory stacks; the monitor flags it
		in.slots[i].mounted.Add(1)
		l := ev.Labels
		in.slots[i].labels.Store(&l)
		ev.OK = true
	}
	in.record(i, ev)
	if fail {
		return errInjected
	}
	return nil
}

func (in *inst) Check(ctx context.Context, mountpoint string, labels map[string]string) error {
	i, f, ev, ok := in.begin(ctx, evCheck, mountpoint)
	if !ok {
		return fmt.Errorf("recfs: mountpoint outside the case universe")
	}
	here := in.slots[i].mounted.Load() > 0
	fail := f != nil && f.check
	ev.OK = here && !fail
	in.record(i, ev)
	if !here {
		return fmt.Errorf("recfs: layer not registered in this instance")
	}
	if fail {
		return errInjected
	}
	return nil
}

func (in *inst) Unmount(ctx context.Context, mountpoint string) error {
	i, f, ev, ok := in.begin(ctx, evUnmount, mountpoint)
	if !ok {
		return fmt.Errorf("recfs: mountpoint outside the case universe")
	}
	here := in.slots[i].mounted.Load() > 0
	fail := f != nil && f.unmount
	if here && !fail {
		in.slots[i].mounted.Add(-1)
		ev.OK = true
	}
	in.record(i, ev)
	if !here {
		return fmt.Errorf("recfs: not a mountpoint of this instance")
	}
	if fail {
		return errInjected
	}
	return nil
}

// ---------------------------------------------------------------------------

type world struct {
	r       *vf.Run
	conc    bool
	grpc    bool // transport in use by the current process image
	useGRPC bool // transport chosen for the case
	dir     string
	store   string
	mps     []string
	mpIdx   map[string]int
	unknown int // index of the mountpoint that is never passed to Mount

	// faults for the running operation (sequential cases; concurrent cases use the context)
	faults  atomic.Pointer[faults]
	gate    atomic.Pointer[gate]
	failCfg atomic.Int32 // 0 none, 1|2: that config function fails

	evMu   sync.Mutex
	events []fsEvent

	insts      [maxGens]atomic.Pointer[inst]
	nInst      atomic.Int32
	initSeq    atomic.Int32 // number of the Init call being / last executed
	proc       int
	strayCalls atomic.Int32
	cfgCalls   [3]atomic.Int32
	wrapNonNil atomic.Int32

	// the manager "process"
	fm   *fusemanager.Server
	srv  *grpc.Server
	lis  net.Listener
	sock string
	conn *grpc.ClientConn
	raw  pb.StargzFuseManagerServiceClient
	cli  snapshot.FileSystem // fusemanager.Client returned by the last successful NewManagerClient
}

var curWorld atomic.Pointer[world]

func installHooks() {
	fusemanager.VerifSetWrapFS(func(fs snapshot.FileSystem, root string, config *fusemanager.Config) snapshot.FileSystem {
		w := curWorld.Load()
		if w == nil {
			return fs
		}
		if fs != nil {
			w.wrapNonNil.Add(1)
		}
		n := int(w.nInst.Load())
		if n >= maxGens {
			return fs
		}
		in := &inst{w: w, gen: int(w.initSeq.Load()), proc: w.proc, root: root, slots: make([]slot, len(w.mps))}
		if config != nil {
			in.tag = config.Config.Config.PrefetchSize
			in.ipfs = config.IPFS
		}
		w.insts[n].Store(in)
		w.nInst.Store(int32(n + 1))
		return in
	})
	for i := 1; i <= 2; i++ {
		i := i
		fusemanager.RegisterConfigFunc(func(cc *fusemanager.ConfigContext) ([]service.Option, error) {
			w := curWorld.Load()
			if w == nil {
				return nil, nil
			}
			w.cfgCalls[i].Add(1)
			if int(w.failCfg.Load()) == i {
				return nil, fmt.Errorf("config function %d: %w", i, errInjected)
			}
			return nil, nil
		})
	}
}

func newWorld(r *vf.Run, dir string, nMP int, useGRPC, conc bool) (*world, error) {
	w := &world{r: r, dir: dir, grpc: useGRPC, useGRPC: useGRPC, conc: conc, mpIdx: map[string]int{}}
	// a case always starts from nothing (no store file of an earlier execution)
	if err := os.RemoveAll(dir); err != nil {
		return nil, err
	}
	if err := os.MkdirAll(dir, 0o755); err != nil {
		return nil, err
	}
	for i := 0; i <= nMP; i++ {
		p := filepath.Join(dir, "mnt", fmt.Sprintf("m%d", i))
		w.mps = append(w.mps, p)
		w.mpIdx[p] = i
	}
	w.unknown = nMP
	w.store = filepath.Join(dir, "fm", "fusestore.db")
	curWorld.Store(w)
	return w, nil
}

func (w *world) blocker(tag int64) string { return filepath.Join(w.dir, fmt.Sprintf("blk%d", tag)) }

// rootFor is the root sent with the Init of configuration `tag`. A "blocked" root
// lies below <case>/blk<tag>: while that is a regular file service.NewFileSystem
// fails (ENOTDIR), once it is removed the very same root works.
func (w *world) rootFor(tag int64, blocked bool) string {
	if blocked {
		return filepath.Join(w.blocker(tag), "root")
	}
	return filepath.Join(w.dir, fmt.Sprintf("root%d", tag%4))
}

// startProc starts a manager process image: a new fusemanager.Server on the store path.
func (w *world) startProc() error {
	w.proc++
	w.grpc = w.useGRPC
	ctx := context.Background()
	if !w.grpc {
		fm, err := fusemanager.NewFuseManager(ctx, nil, nil, w.store, "")
		if err != nil {
			return err
		}
		w.fm = fm
		return nil
	}
	w.sock = filepath.Join(w.dir, fmt.Sprintf("p%d.sock", w.proc))
	lis, err := net.Listen("unix", w.sock)
	if err != nil {
		return err
	}
	srv := grpc.NewServer()
	fm, err := fusemanager.NewFuseManager(ctx, lis, srv, w.store, w.sock)
	if err != nil {
		lis.Close()
		return err
	}
	pb.RegisterStargzFuseManagerServiceServer(srv, fm)
	go func() { _ = srv.Serve(lis) }()
	conn, err := grpc.NewClient("unix://"+w.sock, grpc.WithTransportCredentials(insecure.NewCredentials()))
	if err != nil {
		srv.Stop()
		return err
	}
	w.fm, w.srv, w.lis, w.conn, w.raw, w.cli = fm, srv, lis, conn, pb.NewStargzFuseManagerServiceClient(conn), nil
	return nil
}

// stopTransport stops the gRPC side of the process image (if any).
func (w *world) stopTransport() {
	if w.conn != nil {
		_ = w.conn.Close()
		w.conn = nil
	}
	if w.srv != nil {
		w.srv.Stop()
		w.srv = nil
	}
	w.cli, w.raw = nil, nil
}

// die simulates the death of the manager process with its store file kept: all
// filesystem instances of that process (and their mounts) are gone.
func (w *world) die() error {
	w.stopTransport()
	return w.fm.VerifCloseStoreKeepFile()
}

func (w *world) liveInsts() []*inst {
	var res []*inst
	n := int(w.nInst.Load())
	for i := 0; i < n; i++ {
		if in := w.insts[i].Load(); in != nil && in.proc == w.proc {
			res = append(res, in)
		}
	}
	return res
}

func (w *world) instOfGen(gen int) *inst {
	n := int(w.nInst.Load())
	for i := n - 1; i >= 0; i-- {
		if in := w.insts[i].Load(); in != nil && in.gen == gen {
			return in
		}
	}
	return nil
}

func (w *world) mountedAnywhere(i int) bool {
	for _, in := range w.liveInsts() {
		if in.slots[i].mounted.Load() > 0 {
			return true
		}
	}
	return false
}

// served is what the manager process is really serving: mountpoint -> instances
// in which it is mounted (with multiplicity).
func (w *world) served() map[int][]*inst {
	res := map[int][]*inst{}
	for _, in := range w.liveInsts() {
		for i := range in.slots {
			for c := in.slots[i].mounted.Load(); c > 0; c-- {
				res[i] = append(res[i], in)
			}
		}
	}
	return res
}

func (w *world) takeEvents() []fsEvent {
	w.evMu.Lock()
	ev := w.events
	w.events = nil
	w.evMu.Unlock()
	return ev
}

// ---- operations, over the chosen transport --------------------------------

const rpcTimeout = 120 * time.Second

func undecodable(tag int64) []byte { return []byte(fmt.Sprintf(`{"Config": [%d,2`, tag)) }

func (w *world) mkConfig(tag int64) *fusemanager.Config {
	c := &fusemanager.Config{MetadataStore: "memory", IPFS: tag%2 == 1}
	c.Config.Config.PrefetchSize = tag
	c.Config.Config.NoPrometheus = true
	return c
}

func (w *world) doInit(ctx context.Context, root string, tag int64, badJSON bool) error {
	cfg := w.mkConfig(tag)
	if !w.grpc {
		b, _ := json.Marshal(cfg)
		if badJSON {
			b = undecodable(tag)
		}
		_, err := w.fm.Init(ctx, &pb.InitRequest{Root: root, Config: b})
		return err
	}
	ctx, cancel := context.WithTimeout(ctx, rpcTimeout)
	defer cancel()
	if badJSON {
		_, err := w.raw.Init(ctx, &pb.InitRequest{Root: root, Config: undecodable(tag)})
		return err
	}
	// the real client of the snapshotter side: dial + Init (fusemanager/client.go)
	cli, err := fusemanager.NewManagerClient(ctx, root, w.sock, cfg)
	if err != nil {
		return err
	}
	w.cli = cli
	return nil
}

func (w *world) doMount(ctx context.Context, mp string, labels map[string]string) error {
	if !w.grpc {
		_, err := w.fm.Mount(ctx, &pb.MountRequest{Mountpoint: mp, Labels: labels})
		return err
	}
	ctx, cancel := context.WithTimeout(ctx, rpcTimeout)
	defer cancel()
	if w.cli != nil {
		return w.cli.Mount(ctx, mp, labels)
	}
	_, err := w.raw.Mount(ctx, &pb.MountRequest{Mountpoint: mp, Labels: labels})
	return err
}

func (w *world) doCheck(ctx context.Context, mp string, labels map[string]string) error {
	if !w.grpc {
		_, err := w.fm.Check(ctx, &pb.CheckRequest{Mountpoint: mp, Labels: labels})
		return err
	}
	ctx, cancel := context.WithTimeout(ctx, rpcTimeout)
	defer cancel()
	if w.cli != nil {
		return w.cli.Check(ctx, mp, labels)
	}
	_, err := w.raw.Check(ctx, &pb.CheckRequest{Mountpoint: mp, Labels: labels})
	return err
}

func (w *world) doUnmount(ctx context.Context, mp string) error {
	if !w.grpc {
		_, err := w.fm.Unmount(ctx, &pb.UnmountRequest{Mountpoint: mp})
		return err
	}
	ctx, cancel := context.WithTimeout(ctx, rpcTimeout)
	defer cancel()
	if w.cli != nil {
		return w.cli.Unmount(ctx, mp)
	}
	_, err := w.raw.Unmount(ctx, &pb.UnmountRequest{Mountpoint: mp})
	return err
}

func (w *world) doStatus(ctx context.Context) (int32, error) {
	if !w.grpc {
		resp, err := w.fm.Status(ctx, &pb.StatusRequest{})
		if err != nil {
			return -1, err
		}
		return resp.Status, nil
	}
	ctx, cancel := context.WithTimeout(ctx, rpcTimeout)
	defer cancel()
	resp, err := w.raw.Status(ctx, &pb.StatusRequest{})
	if err != nil {
		return -1, err
	}
	return resp.Status, nil
}

// records reads the store: through the server's open handle (H7), or, when that
// handle is closed, independently from the file (absent file = no records).
func (w *world) records() (map[int]map[string]string, bool, error) {
	conv := func(m map[string]map[string]string) map[int]map[string]string {
		res := map[int]map[string]string{}
		for k, v := range m {
			i, ok := w.mpIdx[k]
			if !ok {
				i = -1 - len(res) // a record for a path outside the universe: keep it visible
			}
			res[i] = v
		}
		return res
	}
	m, err := w.fm.VerifStoreRecords()
	if err == nil {
		return conv(m), true, nil
	}
	if _, serr := os.Stat(w.store); os.IsNotExist(serr) {
		return map[int]map[string]string{}, false, nil
	}
	db, oerr := bolt.Open(w.store, 0o600, &bolt.Options{ReadOnly: true, Timeout: 2 * time.Second})
	if oerr != nil {
		return nil, false, fmt.Errorf("store unreadable: %v / %v", err, oerr)
	}
	defer db.Close()
	res := map[string]map[string]string{}
	verr := db.View(func(tx *bolt.Tx) error {
		b := tx.Bucket([]byte("fuse-info-bucket"))
		if b == nil {
			return nil
		}
		return b.ForEach(func(k, v []byte) error {
			var rec struct {
				Mountpoint string
				Labels     map[string]string
			}
			if err := json.Unmarshal(v, &rec); err != nil {
				return err
			}
			res[string(k)] = rec.Labels
			return nil
		})
	})
	return conv(res), false, verr
}

func labelsEqual(a, b map[string]string) bool {
	if len(a) != len(b) {
		return false
	}
	for k, v := range a {
		if w, ok := b[k]; !ok || w != v {
			return false
		}
	}
	return true
}
