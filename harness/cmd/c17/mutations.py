import sys,re
name=sys.argv[1]
root='/var/tmp/wt-c17/fusemanager/'
def sub(f,old,new,count=1):
    p=root+f; s=open(p).read()
    assert s.count(old)>=1,(name,old)
    s=s.replace(old,new,count); open(p,'w').write(s)
if name=='M1': # fsMap.Store before the mount
    sub('service.go',"""	err := fm.curFs.Mount(ctx, mountpoint, labels)
	if err != nil {
		log.G(ctx).WithError(err).Errorf("failed to mount stargz")
		return err
	}

	fm.fsMap.Store(mountpoint, fm.curFs)
	return nil""","""	fm.fsMap.Store(mountpoint, fm.curFs)
	err := fm.curFs.Mount(ctx, mountpoint, labels)
	if err != nil {
		log.G(ctx).WithError(err).Errorf("failed to mount stargz")
		return err
	}

	return nil""")
elif name=='M2': # record written before the mount succeeded
    sub('service.go',"""	err := fm.mount(ctx, req.Mountpoint, req.Labels)
	if err != nil {
		log.G(ctx).WithError(err).Errorf("failed to mount stargz")
		return &pb.Response{}, err
	}

	fm.storeFuseInfo(&fuseInfo{
		Root:       fm.root,
		Mountpoint: req.Mountpoint,
		Labels:     req.Labels,
		Config:     fm.config.Config,
	})
""","""	fm.storeFuseInfo(&fuseInfo{
		Root:       fm.root,
		Mountpoint: req.Mountpoint,
		Labels:     req.Labels,
		Config:     fm.config.Config,
	})

	err := fm.mount(ctx, req.Mountpoint, req.Labels)
	if err != nil {
		log.G(ctx).WithError(err).Errorf("failed to mount stargz")
		return &pb.Response{}, err
	}
""")
elif name=='M3': # restore does not skip live mountpoints
    sub('fusestore.go',"""			return fm.mount(ctx, mi.Mountpoint, mi.Labels)""","""			if err := fm.curFs.Mount(ctx, mi.Mountpoint, mi.Labels); err != nil {
				return err
			}
			fm.fsMap.Store(mi.Mountpoint, fm.curFs)
			return nil""")
elif name=='M4': # readiness gate removed from Unmount
    sub('service.go',"""func (fm *Server) Unmount(ctx context.Context, req *pb.UnmountRequest) (*pb.Response, error) {
	fm.lock.RLock()
	defer fm.lock.RUnlock()
	if fm.status != FuseManagerReady {
		return &pb.Response{}, fmt.Errorf("fuse manager not ready")
	}
""","""func (fm *Server) Unmount(ctx context.Context, req *pb.UnmountRequest) (*pb.Response, error) {
	fm.lock.RLock()
	defer fm.lock.RUnlock()
""")
elif name=='M5': # record removed before the filesystem unmount succeeded
    sub('service.go',"""	fs := obj.(snapshot.FileSystem)
	err := fs.Unmount(ctx, req.Mountpoint)
	if err != nil {
		log.G(ctx).WithError(err).Errorf("failed to unmount filesystem")
		return &pb.Response{}, err
	}

	fm.fsMap.Delete(req.Mountpoint)
	fm.removeFuseInfo(&fuseInfo{
		Mountpoint: req.Mountpoint,
	})
""","""	fm.removeFuseInfo(&fuseInfo{
		Mountpoint: req.Mountpoint,
	})
	fs := obj.(snapshot.FileSystem)
	err := fs.Unmount(ctx, req.Mountpoint)
	if err != nil {
		log.G(ctx).WithError(err).Errorf("failed to unmount filesystem")
		return &pb.Response{}, err
	}

	fm.fsMap.Delete(req.Mountpoint)
""")
elif name=='M6': # Check goes to the current filesystem instead of the owner
    sub('service.go',"""	fs := obj.(snapshot.FileSystem)
	err := fs.Check(ctx, req.Mountpoint, req.Labels)""","""	_ = obj
	fs := fm.curFs
	err := fs.Check(ctx, req.Mountpoint, req.Labels)""")
elif name=='M7': # restore passes no labels
    sub('fusestore.go',"""			return fm.mount(ctx, mi.Mountpoint, mi.Labels)""","""			return fm.mount(ctx, mi.Mountpoint, nil)""")
elif name=='M8': # restoration failure swallowed
    sub('fusestore.go',"""			return fm.mount(ctx, mi.Mountpoint, mi.Labels)""","""			if err := fm.mount(ctx, mi.Mountpoint, mi.Labels); err != nil {
				log.G(ctx).WithError(err).Warnf("failed to restore %s", mi.Mountpoint)
			}
			return nil""")
    sub('fusestore.go','''	bolt "go.etcd.io/bbolt"
''','''	"github.com/containerd/log"
	bolt "go.etcd.io/bbolt"
''')
elif name=='M9': # Unmount of an unknown mountpoint fails
    sub('service.go',"""		if len(mounts) <= 0 {
			return &pb.Response{}, nil
		}""","""		_ = mounts""")
elif name=='M10': # readiness gate removed from Mount
    sub('service.go',"""func (fm *Server) Mount(ctx context.Context, req *pb.MountRequest) (*pb.Response, error) {
	fm.lock.RLock()
	defer fm.lock.RUnlock()
	if fm.status != FuseManagerReady {
		return &pb.Response{}, fmt.Errorf("fuse manager not ready")
	}
""","""func (fm *Server) Mount(ctx context.Context, req *pb.MountRequest) (*pb.Response, error) {
	fm.lock.RLock()
	defer fm.lock.RUnlock()
""")
elif name=='M11': # Mount does not take the lock (races with Init)
    sub('service.go',"""func (fm *Server) Mount(ctx context.Context, req *pb.MountRequest) (*pb.Response, error) {
	fm.lock.RLock()
	defer fm.lock.RUnlock()
""","""func (fm *Server) Mount(ctx context.Context, req *pb.MountRequest) (*pb.Response, error) {
""")
elif name=='M12': # Unmount forgets to delete the record
    sub('service.go',"""	fm.fsMap.Delete(req.Mountpoint)
	fm.removeFuseInfo(&fuseInfo{
		Mountpoint: req.Mountpoint,
	})
""","""	fm.fsMap.Delete(req.Mountpoint)
""")
elif name=='M13': # re-Init moves existing mounts to the new filesystem instance in the map
    sub('service.go',"""	fm.curFs = fs

	err = fm.restoreFuseInfo(ctx)""","""	fm.curFs = fs
	fm.fsMap.Range(func(k, _ any) bool {
		fm.fsMap.Store(k, fs)
		return true
	})

	err = fm.restoreFuseInfo(ctx)""")
elif name=='M14': # Init succeeds without restoring (restore only on the first Init of the process is skipped when the bucket scan is dropped)
    sub('service.go',"""	err = fm.restoreFuseInfo(ctx)
	if err != nil {""","""	err = nil
	if err != nil {""")
else:
    raise SystemExit('unknown '+name)
