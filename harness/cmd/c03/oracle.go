package main

// The oracle: three independent readings of the output bytes, each compared with the
// input MODEL (gen.Entry list), never with values taken from the code under test.

import (
	"archive/tar"
	"bytes"
	"fmt"
	"sort"
	"strings"
	"time"

	"verifharness/internal/gen"
	"verifharness/internal/specread"
)

// inEntry is one entry of the input tar as the harness knows it.
type inEntry struct {
	gen.Entry
	Fixed   []byte // non-nil: literal content instead of gen's self-describing bytes
	IsFixed bool
}

func (e *inEntry) checkContent(got []byte) error {
	if int64(len(got)) != e.Size {
		return fmt.Errorf("length %d, want %d", len(got), e.Size)
	}
	if e.IsFixed {
		if !bytes.Equal(got, e.Fixed) {
			return fmt.Errorf("literal content differs")
		}
		return nil
	}
	if i := gen.CheckContent(e.ContentID, 0, got); i >= 0 {
		return fmt.Errorf("content differs at byte %d", i)
	}
	return nil
}

func isLandmarkName(name string) bool {
	c := specread.Clean(name)
	return c == specread.PrefetchLandmark || c == specread.NoPrefetchLandmark
}

func isTOCName(name string) bool { return specread.Clean(name) == specread.TOCName }

// finding is one refuted oracle clause.
type finding struct {
	Clause string // stable clause id (part of the violation key)
	What   string // details (may contain numbers; not part of the key)
}

type verdicts struct{ fs []finding }

func (v *verdicts) add(clause, format string, a ...any) {
	if len(v.fs) < 40 {
		v.fs = append(v.fs, finding{clause, fmt.Sprintf(format, a...)})
	}
}

// stats is what the readings observed (for evidence and non-triviality).
type stats struct {
	TarEntries, TOCEntries          int
	DataEntries                     int // reg/chunk entries read back through offset/innerOffset
	MultiChunkFiles                 int
	SharedStreamEntries             int // data entries with innerOffset > 0
	Streams                         int // distinct offsets
	Landmarks                       int
	BytesVerified                   int64
	DroppedDuplicates               int
	KeptDuplicates                  int
	DigestsChecked                  int
	MaxChunksPerFile                int
	UncompressedSize, BlobBytes     int64
	UnpackCompared, UnpackHardlinks int
}

// compareHeader compares the VALUES of a tar header with the model entry.
// Slack: the encoding (PAX vs ustar vs GNU) is free; only values count. Sub-second
// mtimes are outside the generator's domain. Access/change times are not generated.
func compareHeader(h *tar.Header, body []byte, want *inEntry) []string {
	var d []string
	if h.Name != want.Name {
		d = append(d, fmt.Sprintf("name %q != %q", h.Name, want.Name))
	}
	ht := h.Typeflag
	if ht == tar.TypeRegA {
		ht = tar.TypeReg
	}
	if ht != want.Type {
		d = append(d, fmt.Sprintf("type %q != %q", ht, want.Type))
	}
	if h.Mode != want.Mode {
		d = append(d, fmt.Sprintf("mode %o != %o", h.Mode, want.Mode))
	}
	if h.Uid != want.UID || h.Gid != want.GID {
		d = append(d, fmt.Sprintf("owner %d:%d != %d:%d", h.Uid, h.Gid, want.UID, want.GID))
	}
	if h.Uname != want.Uname || h.Gname != want.Gname {
		d = append(d, fmt.Sprintf("owner names %q:%q != %q:%q", h.Uname, h.Gname, want.Uname, want.Gname))
	}
	if h.ModTime.Unix() != want.ModTime || h.ModTime.Nanosecond() != 0 {
		d = append(d, fmt.Sprintf("mtime %d.%09d != %d", h.ModTime.Unix(), h.ModTime.Nanosecond(), want.ModTime))
	}
	if h.Linkname != want.Linkname {
		d = append(d, fmt.Sprintf("linkname %q != %q", h.Linkname, want.Linkname))
	}
	if want.Type == tar.TypeChar || want.Type == tar.TypeBlock {
		if h.Devmajor != want.Devmajor || h.Devminor != want.Devminor {
			d = append(d, fmt.Sprintf("dev %d,%d != %d,%d", h.Devmajor, h.Devminor, want.Devmajor, want.Devminor))
		}
	}
	got := map[string]string{}
	for k, v := range h.PAXRecords {
		if strings.HasPrefix(k, "SCHILY.xattr.") {
			got[strings.TrimPrefix(k, "SCHILY.xattr.")] = v
		}
	}
	if len(got) != len(want.Xattrs) {
		d = append(d, fmt.Sprintf("xattr count %d != %d", len(got), len(want.Xattrs)))
	}
	for k, v := range want.Xattrs {
		if g, ok := got[k]; !ok || g != v {
			d = append(d, fmt.Sprintf("xattr %q = %q (present=%v) != %q", k, g, ok, v))
		}
	}
	if want.Type == tar.TypeReg {
		if h.Size != want.Size {
			d = append(d, fmt.Sprintf("size %d != %d", h.Size, want.Size))
		} else if err := want.checkContent(body); err != nil {
			d = append(d, "content: "+err.Error())
		}
	} else if h.Size != 0 {
		d = append(d, fmt.Sprintf("non-regular entry with size %d", h.Size))
	}
	return d
}

var tocType = map[byte]string{tar.TypeReg: "reg", tar.TypeDir: "dir", tar.TypeSymlink: "symlink", tar.TypeLink: "hardlink",
	tar.TypeChar: "char", tar.TypeBlock: "block", tar.TypeFifo: "fifo"}

// compareTOCEntry compares the metadata of a TOCEntry with the model entry.
// Slack (docs/estargz.md): mode may or may not carry file-type bits (the document's own
// example does) -> only the low 12 bits are compared; userName/groupName are OPTIONAL
// -> compared only when present; modtime empty means "zero or unknown" -> an empty
// value is accepted only for mtime 0; digest is OPTIONAL -> judged only when present.
func compareTOCEntry(e *specread.Entry, want *inEntry) []string {
	var d []string
	if e.Name != want.Name {
		d = append(d, fmt.Sprintf("name %q != %q", e.Name, want.Name))
	}
	if e.Type != tocType[want.Type] {
		d = append(d, fmt.Sprintf("type %q != %q", e.Type, tocType[want.Type]))
	}
	if e.Mode&0o7777 != want.Mode&0o7777 {
		d = append(d, fmt.Sprintf("mode %o != %o", e.Mode, want.Mode))
	}
	if e.UID != int64(want.UID) || e.GID != int64(want.GID) {
		d = append(d, fmt.Sprintf("owner %d:%d != %d:%d", e.UID, e.GID, want.UID, want.GID))
	}
	if e.UserName != "" && e.UserName != want.Uname {
		d = append(d, fmt.Sprintf("userName %q != %q", e.UserName, want.Uname))
	}
	if e.GroupName != "" && e.GroupName != want.Gname {
		d = append(d, fmt.Sprintf("groupName %q != %q", e.GroupName, want.Gname))
	}
	if e.ModTime == "" {
		if want.ModTime != 0 {
			d = append(d, fmt.Sprintf("modtime empty, want %d", want.ModTime))
		}
	} else if t, err := time.Parse(time.RFC3339, e.ModTime); err != nil || t.Unix() != want.ModTime {
		d = append(d, fmt.Sprintf("modtime %q != %d", e.ModTime, want.ModTime))
	}
	if want.Type == tar.TypeSymlink || want.Type == tar.TypeLink {
		if e.LinkName != want.Linkname {
			d = append(d, fmt.Sprintf("linkName %q != %q", e.LinkName, want.Linkname))
		}
	}
	if want.Type == tar.TypeChar || want.Type == tar.TypeBlock {
		if e.DevMajor != want.Devmajor || e.DevMinor != want.Devminor {
			d = append(d, fmt.Sprintf("dev %d,%d != %d,%d", e.DevMajor, e.DevMinor, want.Devmajor, want.Devminor))
		}
	}
	if len(e.Xattrs) != len(want.Xattrs) {
		d = append(d, fmt.Sprintf("xattr count %d != %d", len(e.Xattrs), len(want.Xattrs)))
	}
	for k, v := range want.Xattrs {
		if g, ok := e.Xattrs[k]; !ok || string(g) != v {
			d = append(d, fmt.Sprintf("xattr %q = %q (present=%v) != %q", k, g, ok, v))
		}
	}
	if want.Type == tar.TypeReg && e.Size != want.Size {
		d = append(d, fmt.Sprintf("size %d != %d", e.Size, want.Size))
	}
	return d
}

// checkCase runs the three readings. in: input entries in archive order (as handed to
// the builder, all AppendTar calls concatenated). inputTar: the uncompressed input tar
// (lossless mode only).
func checkCase(c *caseSpec, in []inEntry, inputTar []byte, b *built) (v verdicts, st stats) {
	st.BlobBytes = int64(len(b.Blob))
	zstdScheme := c.Opts.Scheme == "zstdchunked"
	isBuild := c.Mode == "build"
	lossless := c.Mode == "lossless"

	// ---- reading 2a: footer -> TOC (specread) -------------------------------------
	sb, err := specread.Parse(b.Blob, b.ExternalTOC)
	if err != nil {
		v.add("footer-or-toc-unreadable", "%v", err)
	} else {
		wantFmt := map[string]specread.Format{"gzip": specread.FormatGzip, "zstdchunked": specread.FormatZstdChunked, "externaltoc": specread.FormatExternalTOC}[c.Opts.Scheme]
		if sb.Format != wantFmt {
			v.add("footer-kind", "footer says %v, built as %s", sb.Format, c.Opts.Scheme)
		}
		if sb.ExternalTOCTrailing > 0 {
			v.add("external-toc-not-one-member", "the TOC blob handed out by WriteTOCTo has %d bytes after its first gzip member (consumers read the first member only)", sb.ExternalTOCTrailing)
		}
		if sb.Version != 1 {
			v.add("toc-version", "version %d", sb.Version)
		}
	}

	// ---- reading 1: agnostic runtime: std decompress of the whole blob, std tar ----
	raw, err := specread.DecompressAll(b.Blob, zstdScheme)
	if err != nil {
		v.add("stream-invalid", "whole-blob decompression with the std decoder failed: %v", err)
		return
	}
	st.UncompressedSize = int64(len(raw))

	// ---- reading 3: digests and sizes reported by the API ---------------------------
	if d := specread.Digest(raw); b.DiffID != d {
		v.add("diffid", "reported DiffID %s, sha256 of the decompressed stream is %s", b.DiffID, d)
	}
	if b.HasUSize && b.USize != int64(len(raw)) {
		v.add("uncompressed-size", "UncompressedSize() = %d, the decompressed stream has %d bytes", b.USize, len(raw))
	}
	if sb != nil && b.TOCDigest != sb.TOCDigest {
		v.add("toc-digest", "reported TOC digest %s, sha256 of the TOC JSON found through the footer is %s", b.TOCDigest, sb.TOCDigest)
	}

	tarPart := raw
	if lossless {
		// lossless: decompression starts with the input tar byte for byte; after it only
		// the documented addition (gzip: a tar holding the TOC entry; others: nothing).
		if !bytes.HasPrefix(raw, inputTar) {
			n := 0
			for n < len(raw) && n < len(inputTar) && raw[n] == inputTar[n] {
				n++
			}
			v.add("lossless-prefix", "decompressed stream (%d bytes) differs from the input tar (%d bytes) at byte %d", len(raw), len(inputTar), n)
			return
		}
		rest := raw[len(inputTar):]
		if sb != nil && sb.Format.EmbedsTOC() {
			ents, _, err := specread.ReadTar(rest)
			if err != nil || len(ents) != 1 || ents[0].Header.Name != specread.TOCName || !bytes.Equal(ents[0].Content, sb.TOCJSON) {
				v.add("lossless-tail", "after the input tar the stream is not exactly one %s entry equal to the TOC (entries=%d err=%v)", specread.TOCName, len(ents), err)
			}
		} else if len(rest) != 0 {
			v.add("lossless-tail", "%d bytes follow the input tar in a format that does not embed the TOC", len(rest))
		}
		tarPart = inputTar
	}
	ents, consumed, err := specread.ReadTar(tarPart)
	if err != nil {
		v.add("tar-invalid", "std archive/tar fails on the decompressed stream after %d entries: %v", len(ents), err)
		return
	}
	for _, x := range tarPart[consumed:] {
		if x != 0 {
			v.add("tar-trailing-garbage", "non-zero bytes after the end of the archive (offset %d of %d)", consumed, len(tarPart))
			break
		}
	}
	st.TarEntries = len(ents)

	// documented additions -------------------------------------------------------------
	if !lossless && sb != nil {
		if sb.Format.EmbedsTOC() {
			if len(ents) == 0 || ents[len(ents)-1].Header.Name != specread.TOCName {
				v.add("toc-entry-not-last", "the last tar entry is not %s", specread.TOCName)
			} else {
				if !bytes.Equal(ents[len(ents)-1].Content, sb.TOCJSON) {
					v.add("toc-entry-content", "the %s tar entry differs from the TOC located through the footer", specread.TOCName)
				}
				ents = ents[:len(ents)-1]
			}
		}
		for _, e := range ents {
			if isTOCName(e.Header.Name) {
				v.add("toc-entry-extra", "a second entry named like the TOC (%q) is in the output", e.Header.Name)
			}
		}
	}
	// Build: input landmarks are replaced by exactly one landmark; Writer: passes them through.
	var outEnts []specread.TarEntry
	for _, e := range ents {
		if isBuild && isLandmarkName(e.Header.Name) {
			st.Landmarks++
			h := e.Header
			if h.Typeflag != tar.TypeReg || h.Size != 1 || !bytes.Equal(e.Content, []byte{0x0f}) {
				v.add("landmark-shape", "landmark %q is not a 1-byte regular file 0x0f (type %q size %d)", h.Name, h.Typeflag, h.Size)
			}
			wantName := specread.PrefetchLandmark
			if len(c.Opts.Prioritized) == 0 {
				wantName = specread.NoPrefetchLandmark
				if h.Name != wantName {
					v.add("landmark-kind", "empty prioritized list but landmark %q", h.Name)
				}
			}
			continue
		}
		if isTOCName(e.Header.Name) {
			continue
		}
		outEnts = append(outEnts, e)
	}
	if isBuild && st.Landmarks != 1 {
		v.add("landmark-count", "%d landmark entries in the output of Build", st.Landmarks)
	}

	// reading 1b: a sequential extractor gets the same root filesystem from the output as from the input
	if ok, links := checkUnpack(&v, in, ents); ok {
		st.UnpackCompared = 1
		st.UnpackHardlinks = links
	}

	// expected input entries: TOC-named ones are documented as dropped; Build drops input landmarks
	var want []*inEntry
	for i := range in {
		e := &in[i]
		if !lossless && isTOCName(e.Name) {
			continue
		}
		if isBuild && isLandmarkName(e.Name) {
			continue
		}
		want = append(want, e)
	}
	lastIn := map[string]*inEntry{}
	byName := map[string][]*inEntry{}
	for _, e := range want {
		lastIn[gen.Clean(e.Name)] = e
		byName[e.Name] = append(byName[e.Name], e)
	}
	st.DroppedDuplicates = len(want) - len(outEnts)
	if st.DroppedDuplicates < 0 {
		st.DroppedDuplicates = 0
	}

	// (i) every output entry is, field by field, an input entry not used before
	used := map[*inEntry]bool{}
	matched := make([]*inEntry, len(outEnts)) // output position -> input entry
	lastOut := map[string]int{}
	for i, o := range outEnts {
		lastOut[gen.Clean(o.Header.Name)] = i
		cands := byName[o.Header.Name]
		if len(cands) == 0 {
			v.add("tar-entry-invented", "output entry %q (type %q) has no input entry of that name", o.Header.Name, o.Header.Typeflag)
			continue
		}
		var diffs []string
		for _, cand := range cands {
			if used[cand] {
				continue
			}
			dd := compareHeader(o.Header, o.Content, cand)
			if len(dd) == 0 {
				matched[i] = cand
				used[cand] = true
				break
			}
			diffs = dd
		}
		if matched[i] == nil {
			if diffs == nil {
				v.add("tar-entry-duplicated", "output entry %q appears more often than in the input", o.Header.Name)
			} else {
				v.add("tar-entry-altered", "output entry %q differs from the input: %s", o.Header.Name, strings.Join(diffs, "; "))
			}
		}
	}
	// (ii) nothing lost, last duplicate wins
	names := make([]string, 0, len(lastIn))
	for n := range lastIn {
		names = append(names, n)
	}
	sort.Strings(names)
	for _, n := range names {
		i, ok := lastOut[n]
		if !ok {
			v.add("tar-entry-lost", "input entry %q (type %q) is not in the output", lastIn[n].Name, lastIn[n].Type)
			continue
		}
		if matched[i] != nil && matched[i] != lastIn[n] {
			v.add("tar-last-duplicate", "the last output entry for %q is not the last input entry of that name", n)
		}
	}
	if len(outEnts) > len(lastIn) {
		st.KeptDuplicates = len(outEnts) - len(lastIn)
	}

	if sb == nil {
		return
	}

	// ---- reading 2b: the TOC describes the same entries, and every chunk is where it says
	st.TOCEntries = len(sb.Entries)
	// every distinct data offset must be the start of a compressed stream; when one is not,
	// reading chunks "from their offset" is meaningless, so the per-file readings are skipped
	// for this case (one clause instead of a cascade).
	st.Streams = len(sb.StreamOffsets())
	offsetsOK := true
	for _, off := range sb.StreamOffsets() {
		if off >= sb.PayloadEnd {
			v.add("offset-beyond-payload", "data offset %d is not before the TOC/footer (%d)", off, sb.PayloadEnd)
			offsetsOK = false
			break
		}
		if err := sb.CheckMagic(off); err != nil {
			v.add("offset-not-at-stream-start", "%v", err)
			offsetsOK = false
			break
		}
	}
	// per-name FIFO pairing of non-chunk TOC entries with output tar entries
	type q struct{ idx []int }
	queues := map[string]*q{}
	for i, o := range outEnts {
		qq := queues[o.Header.Name]
		if qq == nil {
			qq = &q{}
			queues[o.Header.Name] = qq
		}
		qq.idx = append(qq.idx, i)
	}
	tocLandmarks := 0
	for _, e := range sb.Entries {
		if e.Type == "chunk" {
			if e.Head < 0 {
				v.add("toc-chunk-orphan", "chunk entry %q has no preceding reg entry", e.Name)
			}
			continue
		}
		if isBuild && isLandmarkName(e.Name) {
			tocLandmarks++
			if !offsetsOK {
				continue
			}
			p, _, err := sb.ReadFileEntry(e)
			if err != nil || !bytes.Equal(p, []byte{0x0f}) {
				v.add("toc-landmark-unreadable", "landmark %q read through the TOC: %x err=%v", e.Name, p, err)
			}
			continue
		}
		if isTOCName(e.Name) && !lossless {
			v.add("toc-lists-toc", "the TOC lists an entry named %q", e.Name)
			continue
		}
		qq := queues[e.Name]
		if qq == nil || len(qq.idx) == 0 {
			v.add("toc-entry-invented", "TOC entry %q (%s) has no (further) tar entry of that name", e.Name, e.Type)
			continue
		}
		oi := qq.idx[0]
		qq.idx = qq.idx[1:]
		w := matched[oi]
		if w == nil {
			continue // already reported by reading 1
		}
		if dd := compareTOCEntry(e, w); len(dd) > 0 {
			v.add("toc-entry-mismatch", "TOC entry %q differs from the input: %s", e.Name, strings.Join(dd, "; "))
			continue
		}
		if e.Type != "reg" || e.Size == 0 || !offsetsOK {
			continue
		}
		content, reps, err := sb.ReadFileEntry(e)
		if err != nil {
			v.add("chunk-unreadable", "file %q cannot be read by offset/innerOffset/chunkSize: %v", e.Name, err)
			continue
		}
		if err := w.checkContent(content); err != nil {
			v.add("file-content", "file %q reassembled from its chunks: %v", e.Name, err)
		}
		st.BytesVerified += int64(len(content))
		if e.Digest != "" {
			st.DigestsChecked++
			if e.Digest != specread.Digest(content) {
				v.add("file-digest", "file %q: digest %s is not the sha256 of its content", e.Name, e.Digest)
			}
		}
		for _, rp := range reps {
			st.DataEntries++
			if rp.Entry.InnerOffset > 0 {
				st.SharedStreamEntries++
			}
			if rp.Entry.ChunkDigest == "" {
				v.add("chunk-digest-missing", "data entry of %q at chunkOffset %d has no chunkDigest", e.Name, rp.Entry.ChunkOffset)
			} else if rp.Entry.ChunkDigest != rp.Digest {
				v.add("chunk-digest", "data entry of %q at chunkOffset %d: chunkDigest is not the sha256 of the chunk", e.Name, rp.Entry.ChunkOffset)
			}
		}
		if len(reps) > 1 {
			st.MultiChunkFiles++
		}
		if len(reps) > st.MaxChunksPerFile {
			st.MaxChunksPerFile = len(reps)
		}
	}
	for name, qq := range queues {
		if len(qq.idx) > 0 {
			v.add("toc-entry-missing", "tar entry %q has no TOC entry", name)
		}
	}
	if isBuild && tocLandmarks != 1 {
		v.add("toc-landmark-count", "%d landmark entries in the TOC", tocLandmarks)
	}
	return
}
