package main

// Drivers: the three ways the repo offers to produce an eStargz blob.
//   build    : estargz.Build(sectionReader, options...)                (parallel sub-blobs, sort, landmark)
//   writer   : estargz.NewWriterLevel / NewWriterWithCompressor + AppendTar (1 or 2 calls) + Close
//   lossless : same Writer with AppendTarLossLess + Close

import (
	"bytes"
	"compress/gzip"
	"fmt"
	"io"

	"github.com/containerd/stargz-snapshotter/estargz"
	"github.com/containerd/stargz-snapshotter/estargz/externaltoc"
	"github.com/containerd/stargz-snapshotter/estargz/zstdchunked"
	"github.com/klauspost/compress/zstd"
)

type buildOpts struct {
	Scheme       string // gzip | zstdchunked | externaltoc
	Level        int    // gzip: -2..9 ; zstd: 1..4
	Chunk        int    // 0 = library default (4 MiB)
	MinChunk     int
	Workers      int // Build only; 0 = GOMAXPROCS
	Prioritized  []string
	AllowMissing bool
}

func (o buildOpts) String() string {
	return fmt.Sprintf("%s level=%d chunk=%d minchunk=%d workers=%d prio=%q allowMissing=%v", o.Scheme, o.Level, o.Chunk, o.MinChunk, o.Workers, o.Prioritized, o.AllowMissing)
}

// built is a blob plus everything the producing API reported about it.
type built struct {
	Blob        []byte
	ExternalTOC []byte
	TOCDigest   string // Blob.TOCDigest() / Writer.Close()
	DiffID      string // Blob.DiffID() / Writer.DiffID()
	USize       int64  // Blob.UncompressedSize() (Build only)
	HasUSize    bool
	Missed      []string
}

type zstdCompression struct {
	*zstdchunked.Compressor
	*zstdchunked.Decompressor
}

// sharedComp is ONE compression object used for several blobs.
type sharedComp struct {
	comp estargz.Compression
	ext  *externaltoc.GzipCompression
}

type gzipCompression struct {
	*estargz.GzipCompressor
	*estargz.GzipDecompressor
}

func newShared(o buildOpts) (*sharedComp, error) {
	comp, ext, err := compressionFor(o)
	if err != nil {
		return nil, err
	}
	if comp == nil { // gzip: the exported compressor with level
		comp = &gzipCompression{estargz.NewGzipCompressorWithLevel(o.Level), &estargz.GzipDecompressor{}}
	}
	return &sharedComp{comp: comp, ext: ext}, nil
}

func compressionFor(o buildOpts) (estargz.Compression, *externaltoc.GzipCompression, error) {
	switch o.Scheme {
	case "zstdchunked":
		return &zstdCompression{
			Compressor:   &zstdchunked.Compressor{CompressionLevel: zstd.EncoderLevel(o.Level)},
			Decompressor: &zstdchunked.Decompressor{},
		}, nil, nil
	case "externaltoc":
		ext := externaltoc.NewGzipCompressionWithLevel(nil, o.Level).(*externaltoc.GzipCompression)
		return ext, ext, nil
	case "gzip":
		return nil, nil, nil
	}
	return nil, nil, fmt.Errorf("unknown scheme %q", o.Scheme)
}

// runBuild drives estargz.Build over the (possibly compressed) input bytes.
func runBuild(input []byte, o buildOpts, sh *sharedComp) (*built, error) {
	var opts []estargz.Option
	opts = append(opts, estargz.WithChunkSize(o.Chunk))
	if o.MinChunk > 0 {
		opts = append(opts, estargz.WithMinChunkSize(o.MinChunk))
	}
	if o.Workers > 0 {
		opts = append(opts, estargz.WithParallelism(o.Workers))
	}
	if len(o.Prioritized) > 0 {
		opts = append(opts, estargz.WithPrioritizedFiles(o.Prioritized))
	}
	res := &built{}
	if o.AllowMissing {
		opts = append(opts, estargz.WithAllowPrioritizeNotFound(&res.Missed))
	}
	comp, ext, err := compressionFor(o)
	if err != nil {
		return nil, err
	}
	if sh != nil {
		comp, ext = sh.comp, sh.ext
	}
	if comp != nil {
		opts = append(opts, estargz.WithCompression(comp))
	} else {
		opts = append(opts, estargz.WithCompressionLevel(o.Level))
	}
	b, err := estargz.Build(io.NewSectionReader(bytes.NewReader(input), 0, int64(len(input))), opts...)
	if err != nil {
		return nil, err
	}
	data, err := io.ReadAll(b)
	if err != nil {
		b.Close()
		return nil, fmt.Errorf("reading the Blob: %w", err)
	}
	// accessors after the blob has been fully read, then Close (DiffID is documented
	// as valid after Close; read it after Close as well and require both to agree).
	res.Blob = data
	res.TOCDigest = b.TOCDigest().String()
	if n, err := b.UncompressedSize(); err == nil {
		res.USize, res.HasUSize = n, true
	} else {
		return nil, fmt.Errorf("UncompressedSize after full read: %w", err)
	}
	if err := b.Close(); err != nil {
		return nil, fmt.Errorf("Blob.Close: %w", err)
	}
	res.DiffID = b.DiffID().String()
	if ext != nil {
		var tb bytes.Buffer
		if _, err := ext.WriteTOCTo(&tb); err != nil {
			return nil, fmt.Errorf("external toc: %w", err)
		}
		res.ExternalTOC = tb.Bytes()
	}
	return res, nil
}

// runWriter drives the Writer API: each element of inputs is handed to one
// AppendTar / AppendTarLossLess call, then Close.
func runWriter(inputs [][]byte, o buildOpts, lossless bool, sh *sharedComp) (*built, error) {
	var out bytes.Buffer
	comp, ext, err := compressionFor(o)
	if err != nil {
		return nil, err
	}
	if sh != nil {
		comp, ext = sh.comp, sh.ext
	}
	var w *estargz.Writer
	if comp == nil {
		if o.Level == gzip.BestCompression {
			w = estargz.NewWriter(&out) // documented default: BestCompression
		} else {
			w = estargz.NewWriterLevel(&out, o.Level)
		}
	} else {
		w = estargz.NewWriterWithCompressor(&out, comp)
	}
	w.ChunkSize = o.Chunk
	w.MinChunkSize = o.MinChunk
	for i, in := range inputs {
		var err error
		if lossless {
			err = w.AppendTarLossLess(bytes.NewReader(in))
		} else {
			err = w.AppendTar(bytes.NewReader(in))
		}
		if err != nil {
			return nil, fmt.Errorf("append #%d: %w", i, err)
		}
	}
	dg, err := w.Close()
	if err != nil {
		return nil, fmt.Errorf("Writer.Close: %w", err)
	}
	res := &built{Blob: out.Bytes(), TOCDigest: dg.String(), DiffID: w.DiffID()}
	if ext != nil {
		var tb bytes.Buffer
		if _, err := ext.WriteTOCTo(&tb); err != nil {
			return nil, fmt.Errorf("external toc: %w", err)
		}
		res.ExternalTOC = tb.Bytes()
	}
	return res, nil
}

// ---------------------------------------------------------------------------
// input serialisation (harness side, std / klauspost only)

func gzipBytes(p []byte, level int) []byte {
	var b bytes.Buffer
	zw, _ := gzip.NewWriterLevel(&b, level)
	zw.Write(p)
	zw.Close()
	return b.Bytes()
}

// gzipMulti compresses p as several concatenated gzip members (a legal gzip file).
func gzipMulti(p []byte, cuts []int) []byte {
	var b bytes.Buffer
	prev := 0
	for _, c := range append(cuts, len(p)) {
		if c <= prev || c > len(p) {
			continue
		}
		zw, _ := gzip.NewWriterLevel(&b, gzip.BestSpeed)
		zw.Write(p[prev:c])
		zw.Close()
		prev = c
	}
	return b.Bytes()
}

func zstdBytes(p []byte) []byte {
	var b bytes.Buffer
	zw, _ := zstd.NewWriter(&b)
	zw.Write(p)
	zw.Close()
	return b.Bytes()
}
