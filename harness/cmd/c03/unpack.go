package main

// Reading 1b — "so an eStargz-agnostic runtime unpacks the same root filesystem".
//
// A sequential extractor is simulated on the decompressed OUTPUT tar and on the INPUT
// (the model entry list, which is what the input tar contains): entries are processed in
// archive order; missing parent directories are created implicitly; a later entry replaces
// an earlier one of the same cleaned name; a hardlink is created only if its target exists
// at that moment (otherwise the extraction FAILS, as tar/containerd's archive.Apply do);
// TOC- and landmark-named entries are the documented additions / documented drops and are
// ignored on both sides. The two resulting filesystems are compared: paths, types,
// metadata, content (sha256) and hardlink groups.
//
// Slack: only what the unpack sentence implies is demanded. The ORDER of the entries is not
// compared (that is C14's statement); an order that a sequential extractor processes to the
// same filesystem is accepted. Implicitly created directories carry no metadata of their own
// and are compared by type only. uname/gname are not filesystem state.

import (
	"archive/tar"
	"crypto/sha256"
	"fmt"
	"path"
	"sort"
	"strings"

	"verifharness/internal/gen"
	"verifharness/internal/specread"
)

type simEntry struct {
	Name     string
	Type     byte
	Mode     int64
	UID, GID int
	ModTime  int64
	Linkname string
	DevMajor int64
	DevMinor int64
	Xattrs   map[string]string
	Size     int64
	Sum      [32]byte // sha256 of the content (regular files)
}

type inode struct {
	id       int
	Type     byte
	Implicit bool
	meta     string // rendered metadata (mode, owner, mtime, linkname, dev, xattrs, size, content hash)
}

type simFS struct {
	nodes map[string]*inode // clean path -> inode ("" = root)
	next  int
}

func renderMeta(e *simEntry) string {
	var sb strings.Builder
	fmt.Fprintf(&sb, "mode=%o uid=%d gid=%d mtime=%d", e.Mode, e.UID, e.GID, e.ModTime)
	switch e.Type {
	case tar.TypeSymlink:
		fmt.Fprintf(&sb, " -> %q", e.Linkname)
	case tar.TypeChar, tar.TypeBlock:
		fmt.Fprintf(&sb, " dev=%d,%d", e.DevMajor, e.DevMinor)
	case tar.TypeReg:
		fmt.Fprintf(&sb, " size=%d sha256=%x", e.Size, e.Sum[:8])
	}
	if len(e.Xattrs) > 0 {
		ks := make([]string, 0, len(e.Xattrs))
		for k := range e.Xattrs {
			ks = append(ks, k)
		}
		sort.Strings(ks)
		for _, k := range ks {
			fmt.Fprintf(&sb, " x[%s]=%x", k, e.Xattrs[k])
		}
	}
	return sb.String()
}

func (f *simFS) mkparents(clean string) {
	if clean == "" {
		return
	}
	parts := strings.Split(clean, "/")
	for i := 0; i < len(parts); i++ {
		p := strings.Join(parts[:i], "/")
		if n, ok := f.nodes[p]; !ok || n.Type != tar.TypeDir {
			f.next++
			f.nodes[p] = &inode{id: f.next, Type: tar.TypeDir, Implicit: true}
		}
	}
}

// simUnpack extracts the entries sequentially. failure is "" or a description of the
// first step a real extractor would fail on.
func simUnpack(entries []simEntry) (fs *simFS, failure string) {
	fs = &simFS{nodes: map[string]*inode{}}
	fs.next++
	fs.nodes[""] = &inode{id: fs.next, Type: tar.TypeDir, Implicit: true}
	for i := range entries {
		e := &entries[i]
		c := gen.Clean(e.Name)
		if c == specread.TOCName || c == specread.PrefetchLandmark || c == specread.NoPrefetchLandmark {
			continue
		}
		fs.mkparents(c)
		switch e.Type {
		case tar.TypeDir:
			if n, ok := fs.nodes[c]; ok && n.Type == tar.TypeDir {
				n.Implicit = false
				n.meta = renderMeta(e)
				continue
			}
			fs.next++
			fs.nodes[c] = &inode{id: fs.next, Type: tar.TypeDir, meta: renderMeta(e)}
		case tar.TypeLink:
			t := gen.Clean(e.Linkname)
			tn, ok := fs.nodes[t]
			if !ok || tn.Type == tar.TypeDir {
				if failure == "" {
					failure = fmt.Sprintf("cannot hard link %q to %q: the target has not been extracted yet (entry %d of %d)", e.Name, e.Linkname, i, len(entries))
				}
				continue
			}
			fs.nodes[c] = tn
		default:
			fs.next++
			fs.nodes[c] = &inode{id: fs.next, Type: e.Type, meta: renderMeta(e)}
		}
	}
	return fs, failure
}

// describe renders path -> (type, metadata, link group) for comparison.
func (f *simFS) describe() map[string]string {
	groups := map[int][]string{}
	for p, n := range f.nodes {
		if n.Type != tar.TypeDir {
			groups[n.id] = append(groups[n.id], p)
		}
	}
	res := map[string]string{}
	for p, n := range f.nodes {
		switch {
		case n.Type == tar.TypeDir && n.Implicit:
			res[p] = "dir (implicit)"
		case n.Type == tar.TypeDir:
			res[p] = "dir " + n.meta
		default:
			g := groups[n.id]
			sort.Strings(g)
			res[p] = fmt.Sprintf("%c %s links=%q", n.Type, n.meta, g)
		}
	}
	return res
}

func simFromModel(in []inEntry) []simEntry {
	res := make([]simEntry, len(in))
	for i := range in {
		e := &in[i]
		s := simEntry{Name: e.Name, Type: e.Type, Mode: e.Mode, UID: e.UID, GID: e.GID, ModTime: e.ModTime, Linkname: e.Linkname,
			DevMajor: e.Devmajor, DevMinor: e.Devminor, Xattrs: e.Xattrs}
		if e.Type == tar.TypeReg {
			s.Size = e.Size
			if e.IsFixed {
				s.Sum = sha256.Sum256(e.Fixed)
			} else {
				s.Sum = sha256.Sum256(e.Content())
			}
		}
		res[i] = s
	}
	return res
}

func simFromTar(ents []specread.TarEntry) []simEntry {
	res := make([]simEntry, len(ents))
	for i, t := range ents {
		h := t.Header
		ty := h.Typeflag
		if ty == tar.TypeRegA {
			ty = tar.TypeReg
		}
		s := simEntry{Name: h.Name, Type: ty, Mode: h.Mode, UID: h.Uid, GID: h.Gid, ModTime: h.ModTime.Unix(), Linkname: h.Linkname,
			DevMajor: h.Devmajor, DevMinor: h.Devminor}
		for k, v := range h.PAXRecords {
			if strings.HasPrefix(k, "SCHILY.xattr.") {
				if s.Xattrs == nil {
					s.Xattrs = map[string]string{}
				}
				s.Xattrs[strings.TrimPrefix(k, "SCHILY.xattr.")] = v
			}
		}
		if ty == tar.TypeReg {
			s.Size = h.Size
			s.Sum = sha256.Sum256(t.Content)
		}
		res[i] = s
	}
	return res
}

// checkUnpack compares the two simulated extractions. It returns whether the clause was
// evaluated (the input itself must be extractable) and whether the input contained a
// hardlink (coverage).
func checkUnpack(v *verdicts, in []inEntry, out []specread.TarEntry) (evaluated bool, links int) {
	wantFS, inFail := simUnpack(simFromModel(in))
	if inFail != "" {
		return false, 0 // outside the domain: the input itself does not extract
	}
	gotFS, outFail := simUnpack(simFromTar(out))
	if outFail != "" {
		v.add("unpack-fails:hardlink-before-target", "a sequential extractor handles the input tar but fails on the decompressed output: %s", outFail)
		return true, 0
	}
	want, got := wantFS.describe(), gotFS.describe()
	var paths []string
	for p := range want {
		paths = append(paths, p)
	}
	for p := range got {
		if _, ok := want[p]; !ok {
			paths = append(paths, p)
		}
	}
	sort.Strings(paths)
	var diffs []string
	for _, p := range paths {
		w, okW := want[p]
		g, okG := got[p]
		switch {
		case !okG:
			diffs = append(diffs, fmt.Sprintf("%q missing (input gives: %s)", path.Join("/", p), w))
		case !okW:
			diffs = append(diffs, fmt.Sprintf("%q only in the output (%s)", path.Join("/", p), g))
		case w != g:
			diffs = append(diffs, fmt.Sprintf("%q: output %s; input %s", path.Join("/", p), g, w))
		}
		if len(diffs) >= 4 {
			break
		}
	}
	if len(diffs) > 0 {
		v.add("unpack-differs", "sequentially unpacking the output gives another root filesystem than unpacking the input: %s", strings.Join(diffs, " | "))
	}
	for i := range in {
		if in[i].Type == tar.TypeLink {
			links++
		}
	}
	return true, links
}
