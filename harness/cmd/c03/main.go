// C03 — built blobs unpack like the input tar and index themselves consistently.
//
// Real code under test: estargz.Build (sortEntries, divideEntries, parallel sub-blob
// Writers, closeWithCombine), estargz.Writer (AppendTar, AppendTarLossLess, Close), the
// gzip / zstd:chunked / external-TOC compressors. Every output blob is read three times,
// independently of /repo/estargz:
//
//	(1) std multistream gunzip / zstd decode of the whole blob -> std archive/tar -> entries
//	    compared field by field with the input MODEL (gen.Entry), last duplicate wins,
//	    only the documented additions (one landmark for Build, TOC entry last for gzip);
//	(2) internal/specread (written from docs/estargz.md): footer -> TOC -> every reg/chunk
//	    entry decompressed from its own offset/innerOffset, sha256 = chunkDigest,
//	    concatenation = file content, digest = sha256(file), magic at every offset;
//	(3) sha256 of the TOC JSON and of the decompressed stream vs TOCDigest()/DiffID()/
//	    UncompressedSize() (Writer: Close()/DiffID()); lossless: input tar is a byte prefix.
//
// Process layout: the plain top process only coordinates. Cases run in child batches
// (crash isolation, on-disk journal): stage "plain" runs every case, stage "race" (the
// -race build) re-runs the cases that use >1 worker or share a compressor pool.
package main

import (
	"archive/tar"
	"bufio"
	"fmt"
	"os"
	"path/filepath"
	"regexp"
	"strconv"
	"strings"
	"sync"
	"time"

	"github.com/sirupsen/logrus"

	"verifharness/internal/gen"
	"verifharness/internal/prng"
	"verifharness/internal/specread"
	"verifharness/internal/vf"
)

const ruleText = "each case = (random tar from gen.RandomTar incl. ./ ../ / spellings, duplicates, hardlinks, specials, xattrs, sizes around chunk multiples; " +
	"input serialisation plain|gzip|multi-member gzip|zstd|already-eStargz; mode Build|Writer(1-2 AppendTar)|AppendTarLossLess; scheme gzip|zstd:chunked|external TOC; " +
	"chunk size, min-chunk-size, level, prioritized list, WithParallelism 1..8), all drawn from the seed; " +
	"non-trivial = the blob was produced, all three readings completed and at least one data entry with chunkOffset>0 or innerOffset>0 " +
	"(a multi-chunk file or a shared stream) was read back through its own offset; distinct by case descriptor"

type caseSpec struct {
	Idx     int
	Mode    string // build | writer | writer2 | lossless
	Input   string // plain | gzip | gzipmulti | zstd | esgz-gzip | esgz-zstdchunked | esgz-externaltoc
	Opts    buildOpts
	PreOpts buildOpts // esgz-* inputs: how the input blob was built
	GenCh   int64
	Inject  string // "", "toc", "landmark"
	DupTail bool   // the order-sensitive tail (target, hardlink, duplicate of an early entry) was appended
	// Reuse > 0: this many blobs (different inputs) are produced one after the other (gzip/zstd in
	// the race stage: the first two concurrently) through ONE Compression value.
	Reuse    int
	ReuseIdx int // which of them this spec describes (0 = the case itself)
}

func (c *caseSpec) String() string {
	s := fmt.Sprintf("#%d mode=%s input=%s %s", c.Idx, c.Mode, c.Input, c.Opts)
	if strings.HasPrefix(c.Input, "esgz-") {
		s += " pre=[" + c.PreOpts.String() + "]"
	}
	if c.Inject != "" {
		s += " inject=" + c.Inject
	}
	if c.DupTail {
		s += " duptail"
	}
	if c.Reuse > 0 {
		s += fmt.Sprintf(" sharedCompression(blob %d of %d)", c.ReuseIdx+1, c.Reuse)
	}
	return s
}

// appendDupTail appends an order-sensitive tail, 1-3 times: a regular file T, a hardlink to
// T right after it, then a duplicate of a regular file X that sits early in the archive
// (X is never a hardlink or a hardlink target, so replacing it is inside the generator's
// domain). A builder that reorders entries while dropping the first X (instead of keeping
// every survivor at its own position) puts the link in front of its target.
func appendDupTail(rng *prng.R, ents []gen.Entry) []gen.Entry {
	for round, n := 0, rng.Range(1, 3); round < n; round++ {
		linked := map[string]bool{}
		for _, e := range ents {
			if e.Type == tar.TypeLink {
				linked[gen.Clean(e.Name)] = true
				linked[gen.Clean(e.Linkname)] = true
			}
		}
		var cands []int
		for i, e := range ents {
			if e.Type == tar.TypeReg && !linked[gen.Clean(e.Name)] && i+2 < len(ents) {
				cands = append(cands, i)
			}
		}
		var x gen.Entry
		if len(cands) > 0 {
			x = ents[cands[rng.Intn(len(cands))]]
		} else {
			x = gen.Entry{Name: fmt.Sprintf("zzX%d", round), Type: tar.TypeReg, Mode: 0o644, Size: int64(rng.Range(0, 40)), ContentID: 0x5eed0100 + uint64(round)*8, ModTime: 1500000000}
			pos := rng.Intn(len(ents)/2 + 1)
			ents = append(ents[:pos:pos], append([]gen.Entry{x}, ents[pos:]...)...)
		}
		t := gen.Entry{Name: fmt.Sprintf("zzT%d", round), Type: tar.TypeReg, Mode: 0o755, Size: int64(rng.Range(1, 60)), ContentID: 0x5eed0102 + uint64(round)*8, ModTime: 1500000001}
		if rng.Bool() {
			t.Name = "./" + t.Name
		}
		l := gen.Entry{Name: fmt.Sprintf("zzL%d", round), Type: tar.TypeLink, Mode: 0o644, Linkname: rng.PickS("", "./", "/") + fmt.Sprintf("zzT%d", round), ModTime: 1500000002}
		dup := x
		dup.Name = rng.PickS("", "", "./", "/") + gen.Clean(x.Name)
		dup.ContentID = 0x5eed0104 + uint64(round)*8
		dup.Size = int64(rng.Range(0, 70))
		dup.Mode = 0o600
		ents = append(ents, t, l, dup)
	}
	return ents
}

// keyClass is the stable scenario part of violation keys.
func (c *caseSpec) keyClass() string {
	k := c.Mode + ":" + c.Opts.Scheme
	if c.Opts.MinChunk > 0 {
		k += ":minchunk"
	} else if c.Mode == "build" && c.Opts.Workers > 1 {
		k += ":parallel"
	}
	if c.Reuse > 0 && c.ReuseIdx > 0 {
		k += ":reused-compression"
	}
	return k
}

func randOpts(rng *prng.R, chunk int, thorough bool) buildOpts {
	o := buildOpts{Chunk: chunk}
	o.Scheme = rng.PickS("gzip", "gzip", "zstdchunked", "externaltoc")
	if o.Scheme == "zstdchunked" {
		// zstd level 4 (SpeedBestCompression) costs tens of seconds per build on a loaded
		// machine (huge encoder tables per stream): thorough tier only, and rarely
		o.Level = rng.Pick(1, 1, 2, 2, 3, 3, 3, 4)
		if o.Level == 4 && !(thorough && rng.Chance(1, 3)) {
			o.Level = 2
		}
	} else {
		o.Level = rng.Pick(1, 6, 9, 9, -1, 0, -2)
	}
	if rng.Chance(2, 5) {
		base := chunk
		if base == 0 {
			base = 2048
		}
		o.MinChunk = rng.Pick(1, base/2+1, base, 2*base, 8*base, 100000)
	}
	o.Workers = rng.Range(1, 8)
	return o
}

// genCase is a pure function of (seed, tier, index).
func genCase(r *vf.Run, i int) (*caseSpec, []gen.Entry) {
	rng := r.RNG(uint64(i))
	c := &caseSpec{Idx: i}
	chunk := rng.Pick(16, 64, 512, 512, 4096, 4096, 32768, 0)
	c.GenCh = int64(chunk)
	if chunk == 0 {
		c.GenCh = 2048
	}
	c.Opts = randOpts(rng, chunk, r.Thorough())
	switch x := rng.Intn(10); {
	case x < 5:
		c.Mode = "build"
	case x < 7:
		c.Mode = "writer"
	case x < 8:
		c.Mode = "writer2"
	default:
		c.Mode = "lossless"
	}
	switch c.Mode {
	case "build":
		c.Input = rng.PickS("plain", "plain", "gzip", "gzipmulti", "zstd", "esgz-gzip", "esgz-zstdchunked", "esgz-externaltoc")
	case "writer", "writer2":
		// AppendTar documents "tar or tar.gz"
		c.Input = rng.PickS("plain", "plain", "gzip", "gzipmulti", "esgz-gzip", "esgz-externaltoc")
	case "lossless":
		c.Input = rng.PickS("plain", "plain", "gzip", "gzipmulti", "esgz-externaltoc", "esgz-gzip")
	}
	if c.Mode == "writer2" && strings.HasPrefix(c.Input, "esgz-") {
		c.Input = "plain"
	}
	if strings.HasPrefix(c.Input, "esgz-") {
		c.PreOpts = randOpts(rng.Derive(77), chunk, false)
		c.PreOpts.Scheme = strings.TrimPrefix(c.Input, "esgz-")
		if c.PreOpts.Scheme == "zstdchunked" {
			c.PreOpts.Level = rng.Pick(1, 2, 3)
		} else if c.PreOpts.Level < -2 || c.PreOpts.Level > 9 {
			c.PreOpts.Level = 6
		}
		if c.PreOpts.Scheme != "zstdchunked" && c.PreOpts.Level > 9 {
			c.PreOpts.Level = 9
		}
	}
	o := gen.DefaultOpts(c.GenCh)
	o.MaxEntries = rng.Pick(3, 12, 24, 24, 40)
	if c.GenCh >= 32768 {
		o.MaxEntries = rng.Pick(3, 8, 12)
	}
	ents := gen.RandomTar(rng.Derive(1), o)
	if rng.Chance(2, 5) {
		ents = appendDupTail(rng.Derive(4), ents)
		c.DupTail = true
	}
	if rng.Chance(1, 4) {
		c.Inject = rng.PickS("toc", "toc", "landmark")
	}
	if c.Mode == "build" && rng.Chance(1, 2) {
		// prioritized list: existing paths in random spellings (+ a missing one);
		// WithAllowPrioritizeNotFound always on here (C14 judges the other branch)
		prng2 := rng.Derive(2)
		var names []string
		for _, e := range ents {
			names = append(names, gen.Clean(e.Name))
		}
		for k, n := 0, prng2.Range(1, 5); k < n && len(names) > 0; k++ {
			p := names[prng2.Intn(len(names))]
			switch prng2.Intn(4) {
			case 0:
				p = "/" + p
			case 1:
				p = "./" + p
			case 2:
				p = "../" + p
			}
			c.Opts.Prioritized = append(c.Opts.Prioritized, p)
		}
		if prng2.Chance(1, 4) {
			c.Opts.Prioritized = append(c.Opts.Prioritized, "no/such/file")
		}
		c.Opts.AllowMissing = true
	}
	if rr := rng.Derive(6); rr.Chance(1, 4) {
		c.Reuse = rr.Range(2, 3)
	}
	return c, ents
}

func main() {
	vf.Main("C03", "exploration", ruleText, 12, 160, body)
}

func body(r *vf.Run) {
	logrus.SetLevel(logrus.PanicLevel)
	// estargz.Build creates its temp files with os.CreateTemp("", ...): keep them in scratch
	tmp := filepath.Join(r.Scratch, "tmp")
	_ = os.MkdirAll(tmp, 0o755)
	os.Setenv("TMPDIR", tmp)

	if r.Child != "" {
		childBody(r)
		return
	}
	n := r.N(50, 800)
	all := make([]int, n)
	for i := range all {
		all[i] = i
	}
	runBatches(r, "plain", false, all)

	// race build: cases where goroutines share state inside the builder
	var raceCases []int
	for i := 0; i < n; i++ {
		c, _ := genCase(r, i)
		if (c.Mode == "build" && c.Opts.Workers > 1 && c.Opts.MinChunk == 0) || (c.Reuse > 0 && c.Opts.Scheme != "externaltoc") {
			raceCases = append(raceCases, i)
		}
	}
	if max := r.N(8, 60); len(raceCases) > max {
		raceCases = raceCases[:max]
	}
	runBatches(r, "race", true, raceCases)

	r.Assume("Go std compress/gzip, archive/tar, encoding/json, crypto/sha256 and klauspost/compress/zstd decode correctly (they are the independent readers)")
	r.Assume("internal/specread implements docs/estargz.md (footer -> TOC -> offset/innerOffset/chunkSize); the zstd:chunked footer layout is taken from the public zstd:chunked format, not from the document")
	r.Assume("inputs stay inside the generator's domain: whole-second mtimes, PAX headers written by Go's archive/tar, hardlink targets defined earlier and never redefined")
}

var frameRe = regexp.MustCompile(`github\.com/containerd/stargz-snapshotter/(estargz[^\s(]*\.[^\s(]+)\(`)

func runBatches(r *vf.Run, stage string, race bool, cases []int) {
	remaining := append([]int(nil), cases...)
	for attempt := 0; len(remaining) > 0 && attempt < 6; attempt++ {
		list := filepath.Join(r.Scratch, fmt.Sprintf("%s-cases-%d.txt", stage, attempt))
		journal := filepath.Join(r.Scratch, fmt.Sprintf("%s-journal-%d.txt", stage, attempt))
		var sb strings.Builder
		for _, i := range remaining {
			fmt.Fprintln(&sb, i)
		}
		_ = os.WriteFile(list, []byte(sb.String()), 0o644)
		ex := r.RunChild(vf.ChildSpec{Stage: stage, Args: []string{list, journal}, Race: race, Timeout: 50 * time.Minute,
			Attribution: []string{"estargz"}})
		begun, ended := readJournal(journal)
		if ex.TimedOut {
			r.Inconclusive("watchdog: child stage " + stage)
		}
		// the race runtime makes the process exit with 66 when it reported a race (halt_on_error=0):
		// that is not a crash; the reports themselves are accounted by RunChild.
		clean := (ex.ExitCode == 0 || (race && ex.ExitCode == 66)) && ex.Signal == "" && !ex.TimedOut
		var next []int
		var inflight []int
		for _, i := range remaining {
			switch {
			case ended[i]:
			case begun[i]:
				inflight = append(inflight, i)
			default:
				next = append(next, i)
			}
		}
		if clean {
			if len(next)+len(inflight) > 0 {
				r.Inconclusive("child stage " + stage + " ended without finishing its list")
			}
			return
		}
		if !ex.TimedOut {
			site := crashSite(ex)
			var descs []string
			for _, i := range inflight {
				c, _ := genCase(r, i)
				descs = append(descs, c.String())
			}
			r.Violate("crash:"+stage+"@"+site, "the process running the builder died (exit="+strconv.Itoa(ex.ExitCode)+" signal="+ex.Signal+")",
				map[string]any{"in_flight_cases": descs, "tail": lastLines(ex.Tail, 60)})
		}
		remaining = next
	}
	if len(remaining) > 0 {
		r.Inconclusive("cases not executed after repeated crashes of stage " + stage)
	}
}

// crashSite names the innermost estargz frame of the goroutine that panicked.
func crashSite(ex vf.ChildExit) string {
	text := ex.Tail
	if b, err := os.ReadFile(ex.Output); err == nil {
		text = string(b)
	}
	for _, marker := range []string{"\npanic: ", "\nfatal error: "} {
		if i := strings.Index(text, marker); i >= 0 {
			text = text[i:]
			break
		}
	}
	if m := frameRe.FindStringSubmatch(text); m != nil {
		return m[1]
	}
	return "unknown"
}

func lastLines(s string, n int) string {
	ls := strings.Split(s, "\n")
	if len(ls) > n {
		ls = ls[len(ls)-n:]
	}
	return strings.Join(ls, "\n")
}

func readJournal(path string) (begun, ended map[int]bool) {
	begun, ended = map[int]bool{}, map[int]bool{}
	f, err := os.Open(path)
	if err != nil {
		return
	}
	defer f.Close()
	sc := bufio.NewScanner(f)
	for sc.Scan() {
		var k string
		var i int
		if _, err := fmt.Sscanf(sc.Text(), "%s %d", &k, &i); err == nil {
			if k == "BEGIN" {
				begun[i] = true
			} else if k == "END" {
				ended[i] = true
			}
		}
	}
	return
}

func childBody(r *vf.Run) {
	if len(r.ChildArgs) < 2 {
		r.Inconclusive("child without arguments")
		return
	}
	b, err := os.ReadFile(r.ChildArgs[0])
	if err != nil {
		r.Inconclusive("child cannot read its case list")
		return
	}
	var cases []int
	for _, f := range strings.Fields(string(b)) {
		i, _ := strconv.Atoi(f)
		cases = append(cases, i)
	}
	jf, err := os.OpenFile(r.ChildArgs[1], os.O_CREATE|os.O_WRONLY|os.O_APPEND, 0o644)
	if err != nil {
		r.Inconclusive("child cannot open its journal")
		return
	}
	defer jf.Close()
	var jmu sync.Mutex
	jw := func(kind string, i int) {
		jmu.Lock()
		fmt.Fprintf(jf, "%s %d\n", kind, i)
		if kind == "BEGIN" {
			jf.Sync()
		}
		jmu.Unlock()
	}
	par := 4
	if r.RaceBuild {
		par = 3
	}
	ch := make(chan int)
	var wg sync.WaitGroup
	var done int
	var dmu sync.Mutex
	for w := 0; w < par; w++ {
		wg.Add(1)
		go func() {
			defer wg.Done()
			for i := range ch {
				jw("BEGIN", i)
				runCase(r, i)
				jw("END", i)
				dmu.Lock()
				done++
				flush := done%10 == 0
				dmu.Unlock()
				if flush {
					r.FlushPartial()
				}
			}
		}()
	}
	for _, i := range cases {
		ch <- i
	}
	close(ch)
	wg.Wait()
}

func toIn(ents []gen.Entry) []inEntry {
	res := make([]inEntry, len(ents))
	for i := range ents {
		res[i] = inEntry{Entry: ents[i]}
	}
	return res
}

// dedupe is what a Build keeps: last duplicate of a clean name, at the later position.
func dedupe(in []inEntry) []inEntry {
	last := map[string]int{}
	for i := range in {
		last[gen.Clean(in[i].Name)] = i
	}
	var res []inEntry
	for i := range in {
		if last[gen.Clean(in[i].Name)] == i {
			res = append(res, in[i])
		}
	}
	return res
}

// job is one blob to produce and judge. A case is one job, or — with compression object
// reuse — 2-3 jobs over different inputs that share ONE Compression value.
type job struct {
	c        *caseSpec
	ents     []gen.Entry
	rng      *prng.R
	replay   map[string]any
	in       []inEntry
	plain    []gen.Entry
	input    []byte
	inputTar []byte
	// result of driving
	b        *built
	err      error
	panicked bool
	pv       any
	stack    string
}

func (j *job) viol(r *vf.Run, clause, what string) {
	r.Violate(clause+":"+j.c.keyClass(), what+"  ["+j.c.String()+"]", j.replay)
}

// subCase derives the k-th further input of a reuse case: other entries, other mode and
// serialisation, the SAME scheme/level (the compression object is shared).
func subCase(r *vf.Run, c *caseSpec, k int) (*caseSpec, []gen.Entry) {
	rng := r.RNG(uint64(c.Idx), 50+uint64(k))
	sc := *c
	sc.ReuseIdx = k
	sc.Inject, sc.DupTail = "", false
	sc.Opts.Prioritized, sc.Opts.AllowMissing = nil, false
	sc.Mode = rng.PickS("build", "build", "writer", "lossless")
	sc.Input = rng.PickS("plain", "gzip")
	sc.Opts.Workers = rng.Range(1, 8)
	if rng.Chance(1, 3) {
		sc.Opts.MinChunk = 0
	}
	o := gen.DefaultOpts(c.GenCh)
	o.MaxEntries = rng.Pick(3, 8, 16)
	ents := gen.RandomTar(rng.Derive(1), o)
	if rng.Chance(1, 3) {
		ents = appendDupTail(rng.Derive(4), ents)
		sc.DupTail = true
	}
	return &sc, ents
}

func runCase(r *vf.Run, idx int) {
	c, ents := genCase(r, idx)
	t0 := time.Now()
	var tBuilt time.Time
	defer func() {
		if d := time.Since(t0); d > 5*time.Second {
			r.Logf("slow case (%v, of which building %v): %s", d.Round(time.Millisecond), tBuilt.Sub(t0).Round(time.Millisecond), c.String())
		}
	}()
	r.Eval(1)
	stage := "plain"
	if r.RaceBuild {
		stage = "race"
	}
	r.Count("cases_"+stage, 1)

	jobs := []*job{{c: c, ents: ents, rng: r.RNG(uint64(idx), 9)}}
	var sh *sharedComp
	if c.Reuse > 0 {
		var err error
		if sh, err = newShared(c.Opts); err != nil {
			r.Inconclusive("cannot create the shared compression object: " + err.Error())
			return
		}
		for k := 1; k < c.Reuse; k++ {
			sc, se := subCase(r, c, k)
			jobs = append(jobs, &job{c: sc, ents: se, rng: r.RNG(uint64(idx), 9, uint64(k))})
		}
		r.Count("reuse_cases_"+c.Opts.Scheme, 1)
	}
	var ready []*job
	for _, j := range jobs {
		if j.prepare(r) {
			ready = append(ready, j)
		}
	}
	// gzip and zstd:chunked compressors are stateless / pool based, i.e. meant to be shared by
	// concurrent builds; the external-TOC object keeps the TOC of its LAST blob for WriteTOCTo,
	// so it can only be reused one blob after the other.
	concurrent := r.RaceBuild && sh != nil && c.Opts.Scheme != "externaltoc" && len(ready) >= 2
	if concurrent {
		var wg sync.WaitGroup
		for _, j := range ready[:2] {
			wg.Add(1)
			go func(j *job) { defer wg.Done(); j.drive(r, sh) }(j)
		}
		wg.Wait()
		for _, j := range ready[2:] {
			j.drive(r, sh)
		}
		r.Count("reuse_concurrent_pairs", 1)
	} else {
		for _, j := range ready {
			j.drive(r, sh)
		}
	}
	tBuilt = time.Now()
	for _, j := range ready {
		j.finish(r, stage)
	}
}

// prepare builds the input model and serialises the input. false = nothing to drive.
func (j *job) prepare(r *vf.Run) bool {
	c, rng := j.c, j.rng
	j.replay = map[string]any{"case": c.Idx, "desc": c.String(), "entries": gen.Describe(j.ents), "how": fmt.Sprintf("VERIF_SEED=%d /verif/run.sh C03 %s (case index %d)", r.Seed, r.Tier, c.Idx)}
	in := toIn(j.ents)
	switch c.Inject {
	case "toc":
		e := gen.Entry{Name: rng.PickS("stargz.index.json", "./stargz.index.json"), Type: tar.TypeReg, Mode: 0o644, Size: 33, ContentID: 0xabcdef01, ModTime: 1600000000}
		pos := rng.Intn(len(in) + 1)
		in = append(in[:pos:pos], append([]inEntry{{Entry: e}}, in[pos:]...)...)
	case "landmark":
		e := gen.Entry{Name: rng.PickS(".prefetch.landmark", ".no.prefetch.landmark", "./.prefetch.landmark"), Type: tar.TypeReg, Mode: 0o644, Size: int64(rng.Pick(1, 1, 700)), ContentID: 0xabcdef03, ModTime: 1600000001}
		pos := rng.Intn(len(in) + 1)
		in = append(in[:pos:pos], append([]inEntry{{Entry: e}}, in[pos:]...)...)
	}
	plain := make([]gen.Entry, len(in))
	for i := range in {
		plain[i] = in[i].Entry
	}
	tarBytes := gen.TarBytes(plain)
	// fifth wave (C03-7): bytes after the end-of-archive marker (GNU tar pads the archive to a
	// multiple of its 10240-byte record; other writers add a few zero blocks). Lossless mode
	// documents the input as reproduced byte for byte, so the padding belongs to inputTar.
	// Drawn from a derived stream so that the other fields of the case stay what they were.
	if c.Mode == "lossless" && (c.Input == "plain" || c.Input == "gzip" || c.Input == "gzipmulti") {
		if pr := rng.Derive(4242); c.Input != "plain" || pr.Chance(2, 3) {
			pad := 512 * pr.Range(1, 3)
			if pr.Chance(1, 2) {
				pad = (10240 - len(tarBytes)%10240) % 10240
				if pad == 0 {
					pad = 10240
				}
			}
			tarBytes = append(tarBytes[:len(tarBytes):len(tarBytes)], make([]byte, pad)...)
			r.Count("lossless_trailing_padding_"+c.Input, 1)
			j.replay["trailing_zero_bytes_after_end_of_archive"] = pad
		}
	}

	// ---- input serialisation --------------------------------------------------------
	var input []byte
	inputTar := tarBytes // uncompressed tar handed (possibly compressed) to the builder
	switch c.Input {
	case "plain":
		input = tarBytes
	case "gzip":
		input = gzipBytes(tarBytes, rng.Pick(1, 6, 9))
	case "gzipmulti":
		input = gzipMulti(tarBytes, []int{rng.Intn(len(tarBytes) + 1), 512 * rng.Intn(len(tarBytes)/512+1)})
	case "zstd":
		input = zstdBytes(tarBytes)
	default: // already eStargz: the output of a previous Build fed back in
		pre, err := runBuild(tarBytes, c.PreOpts, nil)
		if err != nil {
			j.viol(r, "build-error:pre-build", "estargz.Build failed on a valid tar: "+err.Error())
			return false
		}
		input = pre.Blob
		// the first build is a Build like any other: its output must already unpack like its input
		// (judged here so that a defect of the first stage is not attributed to the second one)
		if praw, err := specread.DecompressAll(pre.Blob, c.PreOpts.Scheme == "zstdchunked"); err == nil {
			if pents, _, err := specread.ReadTar(praw); err == nil {
				var pv verdicts
				checkUnpack(&pv, in, pents)
				if len(pv.fs) > 0 {
					for _, f := range pv.fs {
						r.Violate(f.Clause+":build:"+c.PreOpts.Scheme+":pre-build", f.What+"  ["+c.String()+"]", j.replay)
					}
					return false
				}
			}
		}
		// the model of what that blob's tar contains: deduplicated entries, no input
		// landmarks, one landmark of the first build (and for gzip a TOC entry, which every
		// non-lossless mode documents as dropped)
		var kept []inEntry
		for _, e := range dedupe(in) {
			if isLandmarkName(e.Name) || isTOCName(e.Name) {
				continue
			}
			kept = append(kept, e)
		}
		lm := inEntry{Entry: gen.Entry{Name: ".no.prefetch.landmark", Type: tar.TypeReg, Size: 1}, Fixed: []byte{0x0f}, IsFixed: true}
		in = append([]inEntry{lm}, kept...)
		inputTar = nil
		if c.Mode == "lossless" {
			raw, err := specread.DecompressAll(input, c.PreOpts.Scheme == "zstdchunked")
			if err != nil {
				j.viol(r, "stream-invalid:pre-build", "the blob of the first build cannot be decompressed: "+err.Error())
				return false
			}
			inputTar = raw
		}
	}
	r.Count("input_"+c.Input, 1)
	r.Count("mode_"+c.Mode, 1)
	r.Count("scheme_"+c.Opts.Scheme, 1)
	if c.Mode == "build" {
		r.Count(fmt.Sprintf("build_workers_%d", c.Opts.Workers), 1)
	}
	j.in, j.plain, j.input, j.inputTar = in, plain, input, inputTar
	return true
}

// drive produces the blob (no vf calls here: two drives may run concurrently in the race stage).
func (j *job) drive(r *vf.Run, sh *sharedComp) {
	c, rng := j.c, j.rng
	j.panicked, j.pv, j.stack = vf.Recover(func() {
		switch c.Mode {
		case "build":
			j.b, j.err = runBuild(j.input, c.Opts, sh)
		case "writer":
			j.b, j.err = runWriter([][]byte{j.input}, c.Opts, false, sh)
		case "writer2":
			// two AppendTar calls on one Writer: the entry list is split in two tars
			cut := rng.Intn(len(j.plain) + 1)
			t1, t2 := gen.TarBytes(j.plain[:cut]), gen.TarBytes(j.plain[cut:])
			if c.Input != "plain" {
				t1, t2 = gzipBytes(t1, 6), gzipBytes(t2, 1)
			}
			j.b, j.err = runWriter([][]byte{t1, t2}, c.Opts, false, sh)
		case "lossless":
			j.b, j.err = runWriter([][]byte{j.input}, c.Opts, true, sh)
		}
	})
}

func (j *job) finish(r *vf.Run, stage string) {
	c, b := j.c, j.b
	if j.panicked {
		site := "unknown"
		if m := frameRe.FindStringSubmatch(j.stack); m != nil {
			site = m[1]
		}
		r.Violate("panic@"+site+":"+c.keyClass(), fmt.Sprintf("panic %v while building [%s]", j.pv, c.String()), j.replay)
		return
	}
	if j.err != nil {
		hasTOCEntry := c.Input == "esgz-gzip" || (c.Inject == "toc" && !strings.HasPrefix(c.Input, "esgz-"))
		if c.Mode == "lossless" && hasTOCEntry && strings.Contains(j.err.Error(), "existing TOC JSON is not allowed") {
			// documented refusal (AppendTarLossLess doc comment): not a blob, nothing to judge
			r.Count("lossless_refused_existing_toc", 1)
			return
		}
		j.viol(r, "build-error", "the builder failed on a valid input: "+j.err.Error())
		return
	}
	if c.Mode == "lossless" && (c.Input == "esgz-gzip" || (c.Inject == "toc" && !strings.HasPrefix(c.Input, "esgz-"))) {
		r.Count("lossless_accepted_existing_toc", 1)
	}

	// ---- judge -----------------------------------------------------------------------
	v, st := checkCase(c, j.in, j.inputTar, b)
	for _, f := range v.fs {
		j.viol(r, f.Clause, f.What)
	}
	r.Count("blobs_judged", 1)
	if c.Reuse > 0 {
		r.Count(fmt.Sprintf("blobs_from_a_reused_compression_object_#%d", c.ReuseIdx), 1)
	}
	r.Count("tar_entries_compared", st.TarEntries)
	r.Count("toc_entries_seen", st.TOCEntries)
	r.Count("data_entries_read_by_offset", st.DataEntries)
	r.Count("multi_chunk_files", st.MultiChunkFiles)
	r.Count("shared_stream_entries_innerOffset_gt0", st.SharedStreamEntries)
	r.Count("streams_magic_checked", st.Streams)
	r.Count("file_bytes_verified", int(st.BytesVerified))
	r.Count("file_digests_checked", st.DigestsChecked)
	r.Count("duplicates_dropped", st.DroppedDuplicates)
	r.Count("duplicates_kept", st.KeptDuplicates)
	r.Count("sequential_unpack_compared", st.UnpackCompared)
	r.Count("sequential_unpack_hardlinks", st.UnpackHardlinks)
	if c.DupTail {
		r.Count("cases_with_dup_after_hardlink_tail_"+c.Mode, 1)
	}
	r.Count("blob_bytes", int(st.BlobBytes))
	r.Distinct("max_chunks_per_file", strconv.Itoa(st.MaxChunksPerFile))
	r.Distinct("option_classes", c.keyClass()+"/"+c.Input)
	if len(b.Missed) > 0 {
		r.Count("builds_with_missed_prioritized", 1)
	}
	if len(v.fs) == 0 && st.DataEntries > 0 && (st.MultiChunkFiles > 0 || st.SharedStreamEntries > 0) {
		r.NonTrivial(c.String())
		r.Count("nontrivial_"+stage, 1)
	}
	if c.Idx < 4 && !r.RaceBuild {
		r.Sample(map[string]any{"case": c.String(), "entries": gen.Describe(j.ents), "blob_bytes": st.BlobBytes, "uncompressed": st.UncompressedSize,
			"toc_entries": st.TOCEntries, "data_entries": st.DataEntries, "streams": st.Streams, "multi_chunk_files": st.MultiChunkFiles, "shared_stream_entries": st.SharedStreamEntries})
	}
}
