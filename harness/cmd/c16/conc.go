package main

// conc.go: the concurrent stage (race build). Several clients share one LayerManager.
// Nothing of the harness sits on the operation path: each client appends to its own event
// buffer, stamps come from the monotonic clock, verdicts are computed after the join.

import (
	"fmt"
	"path/filepath"
	"sort"
	"strings"
	"sync"
	"time"

	"github.com/anishathalye/porcupine"
	"github.com/containerd/stargz-snapshotter/fs/layer"
	"github.com/containerd/stargz-snapshotter/store"

	"verifharness/internal/nodefs"
	"verifharness/internal/prng"
	"verifharness/internal/vf"
)

var t0 = time.Now()

func now() int64 { return int64(time.Since(t0)) }

type stepKind int

const (
	stBlock    stepKind = iota // use k; lookup k; read; [expire]; re-read; release k
	stLookup                   // unowned lookup diff
	stBlob                     // unowned lookup blob
	stInfo                     // lookup info
	stExpire                   // expire the resolver caches
	stFaultOn                  // inject the case's fault
	stFaultOff                 // heal
	stUseOnly                  // use k; release k without a lookup in between
)

type step struct {
	kind   stepKind
	key    int
	expire bool // stBlock: expire the resolver caches between the two reads
	blob   bool // stBlock: look the blob up as well
}

type concCase struct {
	idx     int
	ims     []*imageSpec
	keys    []*key
	clients [][]step
	f       *fault
	wc      worldCfg
}

func (c *concCase) script() string {
	var sb strings.Builder
	for i, cl := range c.clients {
		fmt.Fprintf(&sb, "| c%d:", i)
		for _, s := range cl {
			switch s.kind {
			case stBlock:
				fmt.Fprintf(&sb, " block(%s", c.keys[s.key])
				if s.expire {
					sb.WriteString(",expire")
				}
				if s.blob {
					sb.WriteString(",blob")
				}
				sb.WriteString(")")
			case stLookup:
				fmt.Fprintf(&sb, " lookup-diff(%s)", c.keys[s.key])
			case stBlob:
				fmt.Fprintf(&sb, " lookup-blob(%s)", c.keys[s.key])
			case stInfo:
				fmt.Fprintf(&sb, " lookup-info(%s)", c.keys[s.key])
			case stExpire:
				sb.WriteString(" expire")
			case stFaultOn:
				sb.WriteString(" fault:" + c.f.String())
			case stFaultOff:
				sb.WriteString(" heal")
			case stUseOnly:
				fmt.Fprintf(&sb, " use-release(%s)", c.keys[s.key])
			}
		}
		sb.WriteString(" ")
	}
	return sb.String()
}

func genConcCase(r *vf.Run, p *pool, idx int) *concCase {
	rng := r.RNG(2, uint64(idx))
	c := &concCase{idx: idx, wc: randomCfg(rng)}
	c.ims = composeImages(rng, p, rng.Range(1, 2), 4, fmt.Sprintf("c%d", idx))
	c.keys = makeKeys(rng, p, c.ims, 1, false)
	var hot, all, unknown []int
	for _, k := range c.keys {
		all = append(all, k.id)
		if k.spec == nil {
			unknown = append(unknown, k.id)
		} else if k.imgNo == 0 {
			hot = append(hot, k.id)
		}
	}
	if len(hot) == 0 {
		hot = all
	}
	pick := func() int {
		if rng.Chance(8, 10) {
			return hot[rng.Intn(len(hot))]
		}
		return all[rng.Intn(len(all))]
	}
	nClients := rng.Range(3, 6)
	coldRace := rng.Bool()
	withFault := rng.Chance(1, 4)
	if withFault {
		c.f = randomFault(rng, c.ims)
	}
	for cl := 0; cl < nClients; cl++ {
		var st []step
		if coldRace {
			// every client starts with a lookup on the cold image 0
			if rng.Bool() {
				st = append(st, step{kind: stLookup, key: hot[rng.Intn(len(hot))]})
			} else {
				st = append(st, step{kind: stBlock, key: hot[rng.Intn(len(hot))]})
			}
		}
		n := rng.Range(3, 8)
		for len(st) < n {
			x := rng.Intn(100)
			switch {
			case x < 55:
				st = append(st, step{kind: stBlock, key: pick(), expire: rng.Chance(1, 3), blob: rng.Chance(1, 4)})
			case x < 70:
				st = append(st, step{kind: stLookup, key: pick()})
			case x < 76:
				st = append(st, step{kind: stBlob, key: pick()})
			case x < 82:
				st = append(st, step{kind: stInfo, key: pick()})
			case x < 90:
				st = append(st, step{kind: stUseOnly, key: pick()})
			case x < 95 && len(unknown) > 0:
				st = append(st, step{kind: stBlock, key: unknown[rng.Intn(len(unknown))]})
			default:
				st = append(st, step{kind: stExpire})
			}
		}
		if withFault && cl == 0 {
			at := rng.Intn(len(st))
			rest := append([]step{{kind: stFaultOn}}, st[at:]...)
			st = append(st[:at:at], rest...)
			off := at + 1 + rng.Intn(3)
			if off > len(st) {
				off = len(st)
			}
			st = append(st[:off:off], append([]step{{kind: stFaultOff}}, st[off:]...)...)
		}
		c.clients = append(c.clients, st)
	}
	return c
}

// event is one observed operation (call stamped before invoking, ret after the reply).
type event struct {
	client    int
	op        string // "use" | "release" | "lookup-diff" | "lookup-blob" | "lookup-info" | "read" | "reread" | "expire" | "fault" | "heal"
	key       int
	call, ret int64
	n         int
	err       string // error class, "" = ok
	errText   string
	gotToc    string // lookups: TOC digest of the returned layer
	state     string // lookups that failed: VerifState of the ref right after the failure
	staleMemo bool   // ... and: a memoised resolution of the layer's blob exists while the layer is not cached
	reqs      int64
	owned     bool // the client held a use of the key during the whole operation
	panicked  string
}

type cntIn struct {
	key     int
	release bool
}
type cntOut struct {
	n   int
	err bool
}

func runConcCase(r *vf.Run, p *pool, idx int) {
	c := genConcCase(r, p, idx)
	r.Eval(1)
	w, err := newWorld(r, filepath.Join(r.Scratch, fmt.Sprintf("conc-%d", idx)), c.ims, c.wc)
	if err != nil {
		r.Inconclusive("world setup failed: " + errClass(err))
		return
	}
	defer func() {
		w.heal()
		w.expireAll()
		removeAll(w.root)
	}()
	logs := make([][]event, len(c.clients))
	var wg sync.WaitGroup
	start := make(chan struct{})
	for cl := range c.clients {
		wg.Add(1)
		go func(cl int) {
			defer wg.Done()
			rng := r.RNG(21, uint64(idx), uint64(cl))
			lg := make([]event, 0, 64)
			<-start
			runClient(w, c, cl, rng, &lg)
			logs[cl] = lg
		}(cl)
	}
	finished := r.Watchdog(4*time.Minute, "concurrent clients did not finish", func() {
		close(start)
		wg.Wait()
	})
	if !finished {
		return
	}
	judgeConc(r, w, c, logs)
}

// guard runs f and records a panic of the calling goroutine in the event.
func guard(e *event, f func()) {
	if p, v, st := vf.Recover(f); p {
		e.panicked = "panic:" + panicClass(v) + "@" + panicSite(st)
		e.errText = fmt.Sprint(v)
	}
}

func runClient(w *world, c *concCase, cl int, rng *prng.R, lg *[]event) {
	idBase := uint32(cl+1) << 20
	nextID := func() uint32 { idBase++; return idBase }
	lookup := func(k *key, opn string, owned bool) (layer.Layer, bool) {
		e := event{client: cl, op: opn, key: k.id, owned: owned}
		var l layer.Layer
		var err error
		mark := w.reg.Requests()
		e.call = now()
		guard(&e, func() { l, err = w.lm.VerifGetLayer(bg, k.img.ref, k.dig) })
		e.ret = now()
		e.reqs = w.requestsSince(mark)
		if e.panicked == "" {
			if err != nil {
				e.err, e.errText = errClass(err), err.Error()
				if k.spec != nil {
					// off the normal path: only after a failure
					st := w.state()
					e.state = st.describe(k.img.ref.String(), w)
					e.staleMemo = has(st.resolved[k.img.ref.String()], k.spec.built.Digest.String()) && !has(st.layers[k.img.ref.String()], k.dig.String())
				}
			} else {
				guard(&e, func() { e.gotToc = l.Info().TOCDigest.String() })
			}
		}
		*lg = append(*lg, e)
		return l, e.panicked == "" && err == nil
	}
	read := func(k *key, root *nodefs.N, opn string) {
		e := event{client: cl, op: opn, key: k.id, owned: true}
		e.call = now()
		guard(&e, func() {
			if err := readFiles(root, k.spec, rng, 2); err != nil {
				e.err, e.errText = "read", err.Error()
			}
		})
		e.ret = now()
		if e.err != "" {
			e.state = w.state().describe(k.img.ref.String(), w)
		}
		*lg = append(*lg, e)
	}
	use := func(k *key) bool {
		e := event{client: cl, op: "use", key: k.id}
		e.call = now()
		guard(&e, func() { e.n = w.lm.VerifUse(k.img.ref, k.dig) })
		e.ret = now()
		*lg = append(*lg, e)
		return e.panicked == ""
	}
	release := func(k *key) {
		e := event{client: cl, op: "release", key: k.id}
		var err error
		e.call = now()
		guard(&e, func() { e.n, err = w.lm.VerifRelease(bg, k.img.ref, k.dig) })
		e.ret = now()
		if err != nil {
			e.err, e.errText = errClass(err), err.Error()
		}
		*lg = append(*lg, e)
	}
	for _, s := range c.clients[cl] {
		var k *key
		if s.kind <= stInfo || s.kind == stUseOnly {
			k = c.keys[s.key]
		}
		switch s.kind {
		case stBlock:
			if !use(k) {
				return
			}
			l, ok := lookup(k, "lookup-diff", true)
			if ok && k.spec != nil && l.Info().TOCDigest == k.dig {
				e := event{client: cl, op: "open", key: k.id, owned: true}
				var root *nodefs.N
				e.call = now()
				guard(&e, func() {
					var err error
					if root, err = openDiff(l, k.dig, nextID()); err != nil {
						e.err, e.errText = "open", err.Error()
					}
				})
				e.ret = now()
				if e.err != "" {
					e.state = w.state().describe(k.img.ref.String(), w)
				}
				*lg = append(*lg, e)
				if e.err == "" && e.panicked == "" {
					read(k, root, "read")
					if s.expire {
						e := event{client: cl, op: "expire", call: now()}
						w.expireAll()
						e.ret = now()
						*lg = append(*lg, e)
					}
					if s.blob {
						if lb, ok := lookup(k, "lookup-blob", true); ok && lb.Info().TOCDigest == k.dig {
							e := event{client: cl, op: "blobread", key: k.id, owned: true, call: now()}
							guard(&e, func() {
								if err := readBlob(lb, k.spec, rng); err != nil {
									e.err, e.errText = "read", err.Error()
								}
							})
							e.ret = now()
							*lg = append(*lg, e)
						}
					}
					read(k, root, "reread")
				}
			}
			release(k)
		case stUseOnly:
			if !use(k) {
				return
			}
			release(k)
		case stLookup:
			lookup(k, "lookup-diff", false)
		case stBlob:
			lookup(k, "lookup-blob", false)
		case stInfo:
			e := event{client: cl, op: "lookup-info", key: k.id}
			var li store.Layer
			var err error
			e.call = now()
			guard(&e, func() { li, err = w.lm.VerifGetLayerInfo(bg, k.img.ref, k.dig) })
			e.ret = now()
			if err != nil {
				e.err, e.errText = errClass(err), err.Error()
			} else {
				e.gotToc = li.TOCDigest.String()
				if d := li.Flags["expected-layer-diffid"]; d != "" && (k.spec == nil || d != k.spec.built.DiffID.String()) {
					e.err, e.errText = "wrong-diffid", d
				}
			}
			*lg = append(*lg, e)
		case stExpire:
			e := event{client: cl, op: "expire", call: now()}
			w.expireAll()
			e.ret = now()
			*lg = append(*lg, e)
		case stFaultOn:
			e := event{client: cl, op: "fault", call: now()}
			w.inject(c.f)
			e.ret = now()
			*lg = append(*lg, e)
		case stFaultOff:
			e := event{client: cl, op: "heal", call: now()}
			w.heal()
			e.ret = now()
			*lg = append(*lg, e)
		}
	}
}

func overlaps(a, b event) bool { return a.call <= b.ret && b.call <= a.ret }

func judgeConc(r *vf.Run, w *world, c *concCase, logs [][]event) {
	var all []event
	for _, lg := range logs {
		all = append(all, lg...)
	}
	sort.Slice(all, func(i, j int) bool { return all[i].call < all[j].call })
	hist := func() []string {
		var hs []string
		for _, e := range all {
			s := fmt.Sprintf("c%d %s", e.client, e.op)
			if e.op != "expire" && e.op != "fault" && e.op != "heal" {
				s += "(" + c.keys[e.key].String() + ")"
			}
			switch {
			case e.panicked != "":
				s += "=PANIC"
			case e.op == "use" || e.op == "release":
				s += fmt.Sprintf("=%d", e.n)
				if e.err != "" {
					s += ",err[" + e.err + "]"
				}
			case e.err != "":
				s += "=err[" + e.err + "]"
			default:
				s += "=ok"
			}
			hs = append(hs, fmt.Sprintf("%s @%d-%dus", s, e.call/1000, e.ret/1000))
		}
		if len(hs) > 160 {
			hs = append(hs[:160], "…")
		}
		return hs
	}
	replay := func() map[string]any {
		var ims []string
		for _, im := range c.ims {
			ims = append(ims, im.describe())
		}
		return map[string]any{"stage": "conc", "case": c.idx, "images": ims, "script": c.script(), "fault": c.f.String(),
			"noprefetch": c.wc.noPrefetch, "no_background_fetch": c.wc.noBackgroundFetch, "directory_caches": c.wc.dirCache, "recorded_history": hist()}
	}
	// fault window: from the call of "fault" to the return of "heal" (to the end if never healed)
	var fwin *event
	for _, e := range all {
		if e.op == "fault" {
			x := e
			x.ret = 1 << 62
			fwin = &x
		}
		if e.op == "heal" && fwin != nil {
			fwin.ret = e.ret
		}
	}
	inFault := func(e event) bool { return fwin != nil && overlaps(e, *fwin) }
	afterFault := func(e event) bool { return fwin != nil && fwin.call < e.call }
	// resolvedSinceFault: the key was looked up successfully after the fault window opened and
	// before t (then a later failure is not explained by an error memoised during the fault)
	resolvedSinceFault := func(key int, t int64) bool {
		if fwin == nil || t <= fwin.call {
			return true // no fault had been injected yet
		}
		for _, o := range all {
			if o.key == key && (o.op == "lookup-diff" || o.op == "lookup-blob") && o.err == "" && o.panicked == "" && o.call > fwin.call && o.ret < t {
				return true
			}
		}
		return false
	}

	nontrivial := false
	var ops []porcupine.Operation
	for i, e := range all {
		r.Count("conc_op_"+e.op, 1)
		k := c.keys[e.key]
		if e.panicked != "" {
			r.Violate(e.panicked, fmt.Sprintf("%s(%s) panicked in the concurrent stage: %s", e.op, k, e.errText), replay())
			continue
		}
		switch e.op {
		case "use", "release":
			if e.n < 0 {
				r.Violate("release:negative-count", fmt.Sprintf("concurrent stage: %s of %s returned the count %d", e.op, k, e.n), replay())
			}
			ret := e.ret
			if ret <= e.call {
				ret = e.call + 1
			}
			ops = append(ops, porcupine.Operation{ClientId: e.client, Input: cntIn{e.key, e.op == "release"}, Call: e.call, Output: cntOut{e.n, e.err != ""}, Return: ret})
		case "lookup-diff", "lookup-blob":
			expectOK := k.spec != nil && k.img.published
			// non-triviality: overlapping lookups on one image / lookup overlapping a release that reached zero
			for j, o := range all {
				if j == i || c.keys[o.key].imgNo != k.imgNo || !overlaps(e, o) {
					continue
				}
				if ((o.op == "lookup-diff" || o.op == "lookup-blob") && o.client != e.client) || (o.op == "release" && o.n == 0 && o.err == "") {
					nontrivial = true
				}
			}
			if e.err == "" {
				if !expectOK {
					r.Violate("lookup:succeeds-for-other-digest", fmt.Sprintf("concurrent stage: %s of %s (%s digest) returned a layer with TOC digest %s", e.op, k, k.kind, e.gotToc), replay())
				} else if e.gotToc != k.dig.String() {
					r.Violate("lookup:returns-layer-with-other-digest", fmt.Sprintf("concurrent stage: %s of %s (TOC digest %s) returned the layer with TOC digest %s", e.op, k, k.dig, e.gotToc), replay())
				} else {
					r.Count("conc_lookup_ok", 1)
				}
				continue
			}
			if !expectOK {
				r.Count("conc_lookup_other_digest_failed_as_required", 1)
				continue
			}
			if e.err == "timeout" {
				r.Inconclusive("watchdog: getLayer's own 30 s timeout fired")
				continue
			}
			if inFault(e) {
				r.Count("conc_lookup_failed_during_fault(slack)", 1)
				continue
			}
			// Slack: the drop at release-to-zero and a lookup of the same image race by design
			// (the lookup may find the memo and then miss the layer): a failure is only
			// conclusive if no release that reached zero on this image overlaps the lookup.
			racing := false
			for _, o := range all {
				if o.op == "release" && o.n == 0 && c.keys[o.key].imgNo == k.imgNo && overlaps(e, o) {
					racing = true
				}
			}
			if racing && !e.owned {
				r.Count("conc_lookup_failed_while_racing_release_to_zero(slack)", 1)
				continue
			}
			// classification (key only) from what returned before the lookup was called
			key, why := "lookup:fails-for-contained-digest", "no earlier release or fault explains it"
			outstanding := 0 // uses of other pairs of the image that had returned and were not yet released
			var lastZero *event
			for j := range all {
				o := all[j]
				if o.call >= e.call || c.keys[o.key].imgNo != k.imgNo {
					continue
				}
				if o.op == "release" && o.n == 0 && o.key == e.key {
					lastZero = &all[j]
				}
			}
			if !e.staleMemo {
				// not the "memo says resolved, layer gone" pattern: no release or fault label
			} else if lastZero != nil && resolvedSinceFault(e.key, e.call) {
				for _, o := range all {
					if c.keys[o.key].imgNo != k.imgNo || o.key == e.key {
						continue
					}
					if o.op == "use" && o.call < lastZero.call {
						outstanding++
					}
					if o.op == "release" && o.call < lastZero.ret {
						outstanding--
					}
				}
				if outstanding > 0 {
					key, why = "release-one-layer-sibling-in-use:lookup-fails", "the pair had been released to zero earlier while other layers of the image were in use"
				} else {
					key, why = "release-to-zero:lookup-fails", "the pair had been released to zero earlier"
				}
			} else if afterFault(e) {
				key, why = "resolve-error-memoised:lookup-fails-after-registry-recovers", "a fault window ended before this lookup was called"
			}
			r.Violate(key, fmt.Sprintf("concurrent stage: %s of %s by client %d failed (%s) although the image contains that layer, no fault was injected at the time and no release-to-zero overlapped; %s; %d registry requests during the lookup; state right after: %s",
				e.op, k, e.client, e.errText, why, e.reqs, e.state), replay())
		case "lookup-info":
			if e.err != "" && e.err != "wrong-diffid" && k.spec != nil && !inFault(e) {
				r.Violate("info:fails-for-contained-digest", fmt.Sprintf("concurrent stage: lookup-info of %s failed: %s", k, e.errText), replay())
			}
			if e.err == "wrong-diffid" {
				r.Violate("info:wrong-diffid", fmt.Sprintf("concurrent stage: lookup-info of %s names diff id %s", k, e.errText), replay())
			}
			if e.err == "" && e.gotToc != k.dig.String() {
				r.Violate("info:wrong-toc-digest", fmt.Sprintf("concurrent stage: lookup-info of %s answered for %s", k, e.gotToc), replay())
			}
		case "open", "read", "reread", "blobread":
			// the client holds a use of the pair from before its lookup until after this read
			if e.err == "" {
				r.Count("conc_owned_"+e.op+"_verified", 1)
				continue
			}
			if inFault(e) {
				r.Count("conc_owned_read_failed_during_fault(slack)", 1)
				continue
			}
			r.Violate("use-held:read-fails", fmt.Sprintf("concurrent stage: client %d holds a use of %s since before it looked the layer up, and its %s failed: %s; state right after: %s", e.client, k, e.op, e.errText, e.state), replay())
		}
	}
	// porcupine on the counts
	if len(ops) > 0 {
		res := porcupine.CheckOperationsTimeout(counterModel(), ops, 20*time.Second)
		switch res {
		case porcupine.Illegal:
			r.Violate("counts:not-linearizable", "the counts returned by concurrent use/release calls are not explained by one counter per (ref, digest)", replay())
		case porcupine.Unknown:
			r.Inconclusive("porcupine timeout")
		default:
			r.Count("conc_histories_linearizable", 1)
		}
		r.Count("conc_count_ops_checked", len(ops))
	}
	// sequential epilogue on the same manager: all uses are balanced, so every pair is at
	// zero; acquire, release to zero, re-acquire under the full sequential oracle.
	w.heal()
	w.strays = true
	if !w.quiesce() {
		return
	}
	sc := &seqCase{idx: c.idx, directed: "epilogue of concurrent case", ims: c.ims, keys: c.keys, wc: c.wc}
	s := &seqRun{r: r, c: sc, w: w, drv: inproc{w}, rng: r.RNG(22, uint64(c.idx)),
		uses: map[int]int{}, imgUses: map[int]int{}, usedInEpoch: map[string]bool{}, lookedHeld: map[int]bool{},
		dropped: map[int]string{}, faultedRef: map[int]bool{}, zeroThenOK: map[int]bool{}, pending: map[int]bool{}}
	s.stage = "conc-epilogue"
	s.prefix = []string{"(after the concurrent phase: " + c.script() + ")"}
	if fwin != nil {
		for i := range c.ims {
			s.faultedRef[i] = true
		}
	}
	// classification hint: pairs that were released to zero in the concurrent phase
	for _, e := range all {
		if e.op == "release" && e.n == 0 && resolvedSinceFault(e.key, 1<<62) {
			s.dropped[e.key] = "image-zero"
		}
	}
	s.checkState("the concurrent phase")
	seen := map[int]bool{}
	for _, k := range c.keys {
		if k.spec == nil || seen[k.imgNo] || s.aborted {
			continue
		}
		seen[k.imgNo] = true
		for _, o := range []opKind{opUse, opDiff, opRelease, opDiff} {
			if s.aborted || s.nviol > 4 {
				break
			}
			s.exec(op{kind: o, key: k.id})
		}
	}
	if nontrivial {
		r.NonTrivial("conc|" + strings.Join(sc.imagesShape(), ",") + "|" + c.script())
		r.Count("conc_cases_nontrivial", 1)
	}
	r.Count("conc_cases", 1)
	if c.idx < 2 {
		r.Sample(map[string]any{"stage": "conc", "case": c.idx, "script": c.script(), "recorded_history": hist()})
	}
}

// counterModel: one counter per (ref, digest).
func counterModel() porcupine.Model {
	return porcupine.Model{
		Partition: func(h []porcupine.Operation) [][]porcupine.Operation {
			m := map[int][]porcupine.Operation{}
			for _, o := range h {
				k := o.Input.(cntIn).key
				m[k] = append(m[k], o)
			}
			var res [][]porcupine.Operation
			for _, v := range m {
				res = append(res, v)
			}
			return res
		},
		Init: func() any { return 0 },
		Step: func(st, input, output any) (bool, any) {
			n := st.(int)
			in := input.(cntIn)
			out := output.(cntOut)
			if !in.release {
				return out.n == n+1, n + 1
			}
			if n == 0 {
				// Slack: releasing a pair nobody uses may fail or report 0
				return out.err || out.n == 0, 0
			}
			// Slack: an error may accompany the right count (nothing to drop)
			return out.n == n-1, n - 1
		},
		Equal: func(a, b any) bool { return a.(int) == b.(int) },
	}
}
