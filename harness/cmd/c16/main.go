// C16 — store layers can be acquired, released and re-acquired in any order.
//
// Real code under test: store.LayerManager (store/manager.go), its manifest pool
// (store/refs.go) and — in the fuse stage — the FUSE tree of store/fs.go mounted with
// store.Mount, on top of the real fs/layer resolver and an in-memory registry (memreg).
//
// Stages (each runs in child processes with an on-disk journal, so that a process-fatal
// panic in a goroutine of the code under test is attributed to the case that raised it):
//
//	seq   plain build. One client, one fresh registry + LayerManager per case. First the
//	      directed scenarios (minimal histories), then seeded random sequences over
//	      use / release / lookup(diff|blob|info) / read-through-a-held-layer / expiry of the
//	      resolver's TTL caches (H4/H5 shims: what the 120 s timer does) / registry faults
//	      and recovery, over several (ref, TOC digest) pairs incl. digests the image does
//	      not have. After every operation the manager's state (VerifState) is compared
//	      with the model; an epilogue releases everything and looks the images up again.
//	conc  race build. 3-6 clients on one manager: balanced use .. lookup .. read .. release
//	      blocks, unowned lookups, lookups racing on one cold image, a fault window; per
//	      client event buffers (no harness lock on the operation path); porcupine on the
//	      use/release counts per (ref, digest); race reports attributed to "store.".
//	fuse  plain build, behind a FUSE probe: store.Mount and syscalls
//	      (stat/open/read below <mnt>/<base64(ref)>/<tocdigest>/{diff,blob,info},
//	      open(.../use, O_CREAT) = use, rmdir(<tocdigest>) = release), same oracle.
//
// Oracle (from the statement only). Model: uses[(ref,D)] in N. The expected result of a
// lookup depends ONLY on (image content, D, registry health now): it succeeds iff the image
// has a layer whose TOC digest is D and no fault is injected; it fails for every other
// digest, healthy or not. use/release report the model's count, never a negative one.
// A layer that was looked up while in use and has been in use ever since stays readable
// (content verified against the tar model) and stays in the manager. When the last use
// of an image is released, VerifState shows neither layers nor memoised resolutions for
// that reference, and the next lookup succeeds again.
//
// Slack: any result is accepted while a fault is injected (a success must still be the
// right layer); releasing a pair nobody uses may fail or report 0; release may report an
// error together with the right count; "info" for a digest the image does not have is
// unspecified (it must not describe another layer); in the concurrent stage a lookup that
// overlaps a release-to-zero on the same image may fail (the drop and the lookup race by
// design); getLayer's own 30 s timeout and every harness wait are watchdogs (inconclusive).
package main

import (
	"bufio"
	"fmt"
	"io"
	"os"
	"path/filepath"
	"strconv"
	"strings"
	"sync"
	"syscall"
	"time"

	"github.com/containerd/log"
	"github.com/sirupsen/logrus"

	"verifharness/internal/vf"
)

const ruleText = "seq: case = fresh registry with 2-3 images x 1-4 eStargz layers (sometimes one plain layer) and one sequence of 8-36 operations " +
	"(use, release, lookup diff/blob/info, read through a held layer, resolver-cache expiry, registry fault, heal) over 3-8 (ref, digest) pairs incl. unknown digests, " +
	"plus an epilogue that releases everything and looks every used image up again; the first 20 cases are fixed minimal scenarios; in 2 of 3 random cases two of the images are two tags of ONE repository with different layer sets, often with a digest-pinned reference to one of them as a further image. " +
	"conc: 3-6 clients x 6-16 operations on one manager (balanced use/lookup/read/release blocks, unowned lookups, cold racing lookups, optional fault window). " +
	"fuse: the same sequences as syscalls on a real store.Mount tree. " +
	"non-trivial = (seq, fuse) the image of some pair was looked up successfully while in use, released down to zero uses, and looked up again afterwards on a healthy registry; " +
	"(conc) at least two lookups on one image overlapped in time, or a lookup overlapped a release that reached zero; distinct by image shapes + operation script"

func main() {
	vf.Main("C16", "exploration", ruleText, 40, 250, body)
}

func quiet() {
	logrus.SetLevel(logrus.PanicLevel)
	logrus.SetOutput(io.Discard)
	log.L.Logger.SetLevel(logrus.PanicLevel)
	log.L.Logger.SetOutput(io.Discard)
}

func body(r *vf.Run) {
	quiet()
	var lim syscall.Rlimit
	if syscall.Getrlimit(syscall.RLIMIT_NOFILE, &lim) == nil && lim.Cur < lim.Max {
		lim.Cur = lim.Max
		_ = syscall.Setrlimit(syscall.RLIMIT_NOFILE, &lim)
	}
	switch r.Child {
	case "":
		top(r)
	case "seq", "conc", "fuse":
		child(r)
	default:
		r.Inconclusive("unknown stage " + r.Child)
	}
}

var attribution = []string{"store."}

// Races inside fs/layer on the layer's reader field (Verify writes l.r, Info/RootNode read
// it) are reachable from the store's FUSE nodes too, but they are C01's finding (DESIGN.md
// section 6); they are recorded as unattributed here.
var exclude = []string{"fs/layer.(*layer).Verify", "fs/layer.(*layer).Info"}

func top(r *vf.Run) {
	nSeq := r.N(160, 800)
	nConc := r.N(32, 110)
	nFuse := r.N(16, 64)
	if only := os.Getenv("C16_ONLY"); only != "" { // debugging aid: "stage:lo:hi", e.g. seq:8:9 (with C16_REPEAT=n)
		f := strings.Split(only, ":")
		if len(f) == 3 {
			ex := r.RunChild(vf.ChildSpec{Stage: f[0], Args: []string{f[1], f[2], filepath.Join(r.Scratch, "journal-only")}, Race: f[0] == "conc", Timeout: 20 * time.Minute, Attribution: attribution, Exclude: exclude})
			r.Logf("child exit=%d signal=%q partial=%v", ex.ExitCode, ex.Signal, ex.Partial)
			return
		}
	}
	walls := map[string]float64{}
	timed := func(stage string, f func()) {
		t := time.Now()
		f()
		walls[stage] = time.Since(t).Seconds()
		r.Logf("stage %s done in %.1fs", stage, walls[stage])
	}
	timed("seq", func() { runBatches(r, "seq", nSeq, r.N(160, 200), false) })
	timed("conc", func() { runBatches(r, "conc", nConc, r.N(32, 55), true) })
	defer func() { r.Set("stage_wall_s", walls) }()
	if fuseProbe(r) {
		stop := make(chan struct{})
		go fuseReaper(r, stop)
		timed("fuse", func() { runBatches(r, "fuse", nFuse, r.N(16, 32), false) })
		close(stop)
	} else {
		r.Inconclusive("capability: FUSE mounts are not available; the fuse stage (store/fs.go through the kernel) was skipped")
	}
	r.Assume("the in-memory registry (memreg) answers manifests, blobs and ranges like a registry; l2.Publish creates images the containerd docker resolver accepts")
	r.Assume("gen.Model is what the tar of each layer describes; blob.Build (the repo's estargz.Build) reports the TOC digest of the blob it built")
	r.Assume("VerifState/VerifUse/VerifRelease/VerifGetLayer/VerifGetLayerInfo are the unexported operations of LayerManager unchanged; firing the TTL expiry of the resolver's caches (VerifExpireLayer/VerifExpireBlob) is what their 120 s timers do")
	r.Assume("a goroutine dump that shows no frame of LayerManager.resolveLayer means no resolution is in flight (quiescence is decided on that, not on time)")
	r.Assume("porcupine v1.3.0 and the per-key counter model in conc.go are correct; CLOCK_MONOTONIC is consistent across CPUs")
}

// runBatches runs cases [0,n) of a stage in child processes of at most `batch` cases. The
// child writes "BEGIN i" (synced) before and "END i" after each case; if it dies, the case
// left open is reported with the crash signature found in its output and the next child
// resumes behind it.
func runBatches(r *vf.Run, stage string, n, batch int, race bool) {
	crashes := 0
	for lo := 0; lo < n; {
		hi := lo + batch
		if hi > n {
			hi = n
		}
		journal := filepath.Join(r.Scratch, fmt.Sprintf("journal-%s-%d-%d", stage, lo, crashes))
		timeout := 10 * time.Minute
		if r.Thorough() {
			timeout = 25 * time.Minute
		}
		var env []string
		if stage == "fuse" {
			// The client syscalls and the FUSE daemon live in one process. The Go runtime's
			// preemption signal (SIGURG) would interrupt a thread that waits in a FUSE
			// request; go-fuse then cancels the request's context and the store answers EIO
			// ("cancelled by the client", by design). Without asynchronous preemption no such
			// signal is sent.
			env = []string{"GODEBUG=asyncpreemptoff=1"}
		}
		ex := r.RunChild(vf.ChildSpec{
			Stage: stage, Args: []string{strconv.Itoa(lo), strconv.Itoa(hi), journal},
			Race: race, Timeout: timeout, Attribution: attribution, Exclude: exclude, Env: env,
		})
		open, lastEnd := readJournal(journal)
		if ex.TimedOut {
			r.Inconclusive("watchdog: child stage " + stage + " timed out")
			if open >= 0 {
				lo = open + 1
				continue
			}
			return
		}
		// exit status 66 = the race runtime's exit code when it reported races (they are parsed
		// from its log); the stage itself ran to its end if the partial result and the journal say so
		if (ex.ExitCode == 0 || (race && ex.ExitCode == 66)) && ex.Signal == "" && ex.Partial && open < 0 {
			lo = hi
			continue
		}
		r.Count("child_crashes", 1)
		crashes++
		if open < 0 {
			r.Inconclusive(fmt.Sprintf("child stage %s ended abnormally outside a case (exit %d %s): %s", stage, ex.ExitCode, ex.Signal, lastLine(ex.Tail)))
			if lastEnd >= lo {
				lo = lastEnd + 1
				continue
			}
			return
		}
		class, site, head := crashSignature(ex.Output)
		if class == "" {
			r.Inconclusive(fmt.Sprintf("child stage %s died in case %d without a recognisable crash report (exit %d %s)", stage, open, ex.ExitCode, ex.Signal))
		} else {
			r.Violate("panic:"+class+"@"+site,
				"the process crashed ("+head+") in a goroutine of the code under test while executing "+stage+" case "+strconv.Itoa(open),
				map[string]any{"stage": stage, "case": open, "crash": head, "output_tail": tailStr(ex.Tail, 2500)})
		}
		lo = open + 1
		if stage == "fuse" {
			lo = hi // cases run in parallel there: the rest of the batch is not resumed
		}
		if crashes > 60 {
			r.Inconclusive("too many child crashes; stage " + stage + " abandoned")
			return
		}
	}
}

// fuseReaper: a process that hosts a FUSE daemon and is also a client of that mount cannot
// die while one of its threads waits for an answer of its own daemon (the kernel aborts the
// connection only when the last thread is gone). While the fuse stage runs, the parent
// watches for a child whose main thread has exited but which cannot be reaped, and
// force-unmounts (MNT_FORCE aborts the connection) what is mounted below the scratch
// directory. Parent and children share the private mount namespace run.sh created.
func fuseReaper(r *vf.Run, stop <-chan struct{}) {
	for {
		select {
		case <-stop:
			return
		case <-time.After(500 * time.Millisecond):
		}
		if !hasZombieChild() {
			continue
		}
		time.Sleep(300 * time.Millisecond) // an ordinary exit is reaped at once
		if !hasZombieChild() {
			continue
		}
		b, _ := os.ReadFile("/proc/self/mountinfo")
		for _, line := range strings.Split(string(b), "\n") {
			f := strings.Fields(line)
			i := strings.Index(line, " - fuse")
			if len(f) < 5 || i < 0 || !strings.HasPrefix(f[4], r.Scratch) {
				continue
			}
			if err := syscall.Unmount(f[4], syscall.MNT_FORCE); err == nil || err == syscall.EBUSY {
				r.Count("fuse_connections_aborted_for_dead_child", 1)
			}
		}
	}
}

func hasZombieChild() bool {
	me := strconv.Itoa(os.Getpid())
	ds, _ := os.ReadDir("/proc")
	for _, d := range ds {
		if n := d.Name(); n[0] < '0' || n[0] > '9' {
			continue
		}
		b, err := os.ReadFile("/proc/" + d.Name() + "/stat")
		if err != nil {
			continue
		}
		st := string(b)
		i := strings.LastIndex(st, ")")
		if i < 0 {
			continue
		}
		f := strings.Fields(st[i+1:])
		if len(f) >= 2 && f[0] == "Z" && f[1] == me {
			return true
		}
	}
	return false
}

func lastLine(s string) string {
	s = strings.TrimSpace(s)
	if i := strings.LastIndex(s, "\n"); i >= 0 {
		s = s[i+1:]
	}
	return tailStr(s, 200)
}

func tailStr(s string, n int) string {
	if len(s) > n {
		return s[len(s)-n:]
	}
	return s
}

func readJournal(path string) (open, lastEnd int) {
	open, lastEnd = -1, -1
	f, err := os.Open(path)
	if err != nil {
		return
	}
	defer f.Close()
	begun := map[int]bool{}
	sc := bufio.NewScanner(f)
	for sc.Scan() {
		var i int
		if _, e := fmt.Sscanf(sc.Text(), "BEGIN %d", &i); e == nil {
			begun[i] = true
		} else if _, e := fmt.Sscanf(sc.Text(), "END %d", &i); e == nil {
			delete(begun, i)
			if i > lastEnd {
				lastEnd = i
			}
		}
	}
	for i := range begun { // the fuse stage runs several cases at once: report the highest open one
		if i > open {
			open = i
		}
	}
	return
}

// crashSignature extracts "panic: ..." / "fatal error: ..." and the innermost
// stargz-snapshotter frame of the crashing goroutine from a dead child's output.
func crashSignature(outPath string) (class, site, head string) {
	b, err := os.ReadFile(outPath)
	if err != nil {
		return "", "", ""
	}
	s := "\n" + string(b)
	j := strings.Index(s, "\npanic: ")
	k := strings.Index(s, "\nfatal error: ")
	if j < 0 || (k >= 0 && k < j) {
		j = k
	}
	if j < 0 {
		return "", "", ""
	}
	rest := s[j+1:]
	head = rest
	if e := strings.Index(head, "\n"); e >= 0 {
		head = head[:e]
	}
	g := strings.Index(rest, "\ngoroutine ")
	if g < 0 {
		return panicClass(head), "unknown", head
	}
	blk := rest[g+1:]
	if e := strings.Index(blk, "\n\n"); e >= 0 {
		blk = blk[:e]
	}
	return panicClass(rest[:g]), panicSite(blk), head
}

// child runs cases [lo,hi) of its stage.
func child(r *vf.Run) {
	if len(r.ChildArgs) != 3 {
		r.Inconclusive("child started without arguments")
		return
	}
	lo, _ := strconv.Atoi(r.ChildArgs[0])
	hi, _ := strconv.Atoi(r.ChildArgs[1])
	jf, err := os.OpenFile(r.ChildArgs[2], os.O_CREATE|os.O_WRONLY|os.O_APPEND, 0o644)
	if err != nil {
		r.Inconclusive("journal cannot be created")
		return
	}
	defer jf.Close()
	p, err := buildPool(r, r.N(12, 24), 2)
	if err != nil {
		r.Inconclusive("layer pool could not be built: " + err.Error())
		return
	}
	var jmu sync.Mutex
	one := func(i int) {
		jmu.Lock()
		fmt.Fprintf(jf, "BEGIN %d\n", i)
		jf.Sync()
		jmu.Unlock()
		switch r.Child {
		case "seq":
			runSeqCase(r, p, i)
		case "conc":
			runConcCase(r, p, i)
		case "fuse":
			runFuseCase(r, p, i)
		}
		jmu.Lock()
		fmt.Fprintf(jf, "END %d\n", i)
		jmu.Unlock()
		r.FlushPartial()
	}
	if r.Child == "fuse" {
		// Several mounts at once: a case spends most of its time waiting for the kernel's 1 s
		// entry cache to lapse.
		next := make(chan int)
		var wg sync.WaitGroup
		for wk := 0; wk < 6; wk++ {
			wg.Add(1)
			go func() {
				defer wg.Done()
				for i := range next {
					one(i)
				}
			}()
		}
		for i := lo; i < hi && r.Violations() <= 40; i++ {
			next <- i
		}
		close(next)
		wg.Wait()
		return
	}
	rep := 1
	if n, err := strconv.Atoi(os.Getenv("C16_REPEAT")); err == nil && n > 1 {
		rep = n
	}
	for i := lo; i < hi && r.Violations() <= 40; i++ {
		for j := 0; j < rep; j++ {
			one(i)
		}
	}
}
