package main

// driver.go: the two ways the same operation sequences are applied to the store: through
// the H6 export shims (in process) and through syscalls on a store.Mount tree (fuse.go).

import (
	"github.com/containerd/stargz-snapshotter/fs/layer"
	"github.com/containerd/stargz-snapshotter/store"

	"verifharness/internal/nodefs"
	"verifharness/internal/prng"
)

// tree is an opened "diff" directory of a layer.
type tree interface {
	readFiles(s *layerSpec, rng *prng.R, n int) error
	close()
}

// looked is a successful lookup of "diff" or "blob".
type looked struct {
	toc      string // TOC digest of the layer that came back ("" = not observable at this level)
	open     func() (tree, error)
	readBlob func(s *layerSpec, rng *prng.R) error
}

type driver interface {
	use(k *key) int                            // the count after the use
	release(k *key) (int, error)               // the count after the release
	lookup(k *key, blob bool) (*looked, error) // lookup of diff / blob
	info(k *key) (store.Layer, error)
}

// inproc drives LayerManager through the verif export shims.
type inproc struct{ w *world }

type nodeTree struct{ root *nodefs.N }

func (t nodeTree) readFiles(s *layerSpec, rng *prng.R, n int) error {
	return readFiles(t.root, s, rng, n)
}
func (t nodeTree) close() {}

func (d inproc) use(k *key) int { return d.w.lm.VerifUse(k.img.ref, k.dig) }

func (d inproc) release(k *key) (int, error) { return d.w.lm.VerifRelease(bg, k.img.ref, k.dig) }

func (d inproc) lookup(k *key, blob bool) (*looked, error) {
	l, err := d.w.lm.VerifGetLayer(bg, k.img.ref, k.dig)
	if err != nil {
		return nil, err
	}
	return d.w.lookedLayer(l, k), nil
}

func (w *world) lookedLayer(l layer.Layer, k *key) *looked {
	return &looked{
		toc: l.Info().TOCDigest.String(),
		open: func() (tree, error) {
			w.nextID++
			root, err := openDiff(l, k.dig, w.nextID)
			if err != nil {
				return nil, err
			}
			return nodeTree{root}, nil
		},
		readBlob: func(s *layerSpec, rng *prng.R) error {
			if err := l.Verify(k.dig); err != nil {
				return err
			}
			return readBlob(l, s, rng)
		},
	}
}

func (d inproc) info(k *key) (store.Layer, error) {
	return d.w.lm.VerifGetLayerInfo(bg, k.img.ref, k.dig)
}
