package main

// seq.go: the sequential stage. One case = one fresh registry + LayerManager and one
// operation sequence executed by a single client through the H6 export shims, checked
// after every operation against the reference model of the statement.

import (
	"context"
	"fmt"
	"os"
	"path/filepath"
	"strings"
	"time"

	"github.com/containerd/containerd/v2/pkg/reference"
	"github.com/containerd/stargz-snapshotter/store"
	digest "github.com/opencontainers/go-digest"

	"verifharness/internal/prng"
	"verifharness/internal/vf"
)

type opKind int

const (
	opUse opKind = iota
	opRelease
	opDiff
	opBlob
	opInfo
	opHoldRead
	opExpire
	opFault
	opHeal
)

func (k opKind) String() string {
	return [...]string{"use", "release", "lookup-diff", "lookup-blob", "lookup-info", "held-read", "expire-resolver-caches", "fault", "heal"}[k]
}

type op struct {
	kind opKind
	key  int
	f    *fault
}

type seqCase struct {
	idx      int
	directed string
	ims      []*imageSpec
	keys     []*key
	ops      []op
	wc       worldCfg
}

func (c *seqCase) script() string {
	var sb strings.Builder
	if c.directed != "" {
		sb.WriteString("[" + c.directed + "] ")
	}
	for i, o := range c.ops {
		if i > 0 {
			sb.WriteString(" ")
		}
		switch o.kind {
		case opExpire, opHeal:
			sb.WriteString(o.kind.String())
		case opFault:
			sb.WriteString("fault:" + o.f.String())
		default:
			fmt.Fprintf(&sb, "%s(%s)", o.kind, c.keys[o.key])
		}
	}
	return sb.String()
}

func (c *seqCase) imagesDesc() []string {
	var s []string
	for _, im := range c.ims {
		s = append(s, im.describe())
	}
	return s
}

func randomDigest(rng *prng.R) digest.Digest {
	return digest.FromBytes(rng.Bytes(32))
}

// makeKeys selects the (ref, digest) pairs of a case: every eStargz layer of image 0, up to
// two of each other image, and unknown digests of three kinds.
func makeKeys(rng *prng.R, p *pool, ims []*imageSpec, unknown int, noImage bool) []*key {
	var ks []*key
	add := func(k *key) {
		for _, o := range ks {
			if o.imgNo == k.imgNo && o.dig == k.dig {
				return // one model counter per (ref, digest)
			}
		}
		k.id = len(ks)
		ks = append(ks, k)
	}
	for i, im := range ims {
		n := 0
		for _, l := range im.layers {
			if !l.esgz || (i > 0 && n >= 2) {
				continue
			}
			add(&key{img: im, imgNo: i, dig: l.built.TOCDigest, spec: l, kind: "known"})
			n++
		}
	}
	for u := 0; u < unknown; u++ {
		i := rng.Intn(len(ims))
		im := ims[i]
		switch rng.Intn(3) {
		case 0: // the TOC digest of a layer that this image does not have: preferably one that
			// another tag of the same repository has, else any other layer of the pool
			var cand []*layerSpec
			for _, o := range ims {
				if o != im && o.repo == im.repo {
					for _, l := range o.layers {
						if l.esgz && im.find(l.built.TOCDigest) == nil {
							cand = append(cand, l)
						}
					}
				}
			}
			if len(cand) == 0 || rng.Chance(1, 3) {
				cand = nil
				for _, l := range p.esgz {
					if im.find(l.built.TOCDigest) == nil {
						cand = append(cand, l)
					}
				}
			}
			if len(cand) > 0 {
				add(&key{img: im, imgNo: i, dig: cand[rng.Intn(len(cand))].built.TOCDigest, kind: "foreign-toc"})
				continue
			}
			fallthrough
		case 1: // the digest of the layer blob itself instead of its TOC digest
			l := im.layers[rng.Intn(len(im.layers))]
			add(&key{img: im, imgNo: i, dig: l.built.Digest, kind: "blob-digest"})
		default:
			add(&key{img: im, imgNo: i, dig: randomDigest(rng), kind: "random"})
		}
	}
	if noImage {
		// a reference that is not in the registry, asked for a TOC digest that exists elsewhere
		im := &imageSpec{repo: "c16/absent", tag: ims[0].tag, published: false, layers: nil}
		add(&key{img: im, imgNo: len(ims), dig: p.esgz[rng.Intn(len(p.esgz))].built.TOCDigest, kind: "no-image"})
	}
	return ks
}

func randomFault(rng *prng.R, ims []*imageSpec) *fault {
	switch rng.Intn(6) {
	case 0:
		return &fault{kind: "down"}
	case 1:
		return &fault{kind: "blob-status", code: rng.Pick(500, 503, 404)}
	case 2:
		return &fault{kind: "blob-err"}
	case 3:
		return &fault{kind: "manifest-status", code: rng.Pick(500, 503)}
	default:
		im := ims[0]
		l := im.layers[rng.Intn(len(im.layers))]
		return &fault{kind: "layer-status", code: rng.Pick(500, 503), dig: l.built.Digest.String()}
	}
}

func randomCfg(rng *prng.R) worldCfg {
	return worldCfg{noPrefetch: rng.Bool(), noBackgroundFetch: !rng.Chance(1, 4), chunk: int64(rng.Pick(300, 1024, 50000)), dirCache: rng.Chance(1, 3)}
}

const nScenarios = 10
const nDirected = 2 * nScenarios

// genSeqCase is a pure function of (seed, tier, idx).
func genSeqCase(r *vf.Run, p *pool, idx int) *seqCase {
	if idx < nDirected {
		return genCase(r, p, 1, idx, idx/2, idx%2, "s")
	}
	return genCase(r, p, 1, idx, -1, 0, "s")
}

// genCase draws case idx of the given stream; scenario >= 0 selects a directed scenario.
func genCase(r *vf.Run, p *pool, stream uint64, idx, scenario, variant int, tagPrefix string) *seqCase {
	rng := r.RNG(stream, uint64(idx))
	c := &seqCase{idx: idx}
	tag := fmt.Sprintf("%s%d", tagPrefix, idx)
	if scenario >= 0 {
		return directedCase(c, rng, p, tag, scenario, variant)
	}
	c.wc = randomCfg(rng)
	c.ims = composeImages(rng, p, rng.Range(2, 3), 4, tag)
	c.keys = makeKeys(rng, p, c.ims, rng.Range(2, 3), rng.Chance(1, 6))
	var hot, all []int
	for _, k := range c.keys {
		all = append(all, k.id)
		if k.imgNo == 0 || k.img.repo == c.ims[0].repo {
			hot = append(hot, k.id) // the first image and every other reference into its repository
		}
	}
	shadow := map[int]int{}
	nOps := rng.Range(8, 36)
	faultAge := -1
	for len(c.ops) < nOps {
		pick := func() int {
			if len(hot) > 0 && rng.Chance(7, 10) {
				return hot[rng.Intn(len(hot))]
			}
			return all[rng.Intn(len(all))]
		}
		if faultAge >= 0 {
			faultAge++
			if faultAge > rng.Range(1, 3) {
				c.ops = append(c.ops, op{kind: opHeal})
				faultAge = -1
				continue
			}
		}
		x := rng.Intn(100)
		switch {
		case x < 20:
			k := pick()
			shadow[k]++
			c.ops = append(c.ops, op{kind: opUse, key: k})
		case x < 41:
			k := pick()
			if rng.Chance(8, 10) { // mostly release something that is in use
				var used []int
				for _, id := range all {
					if shadow[id] > 0 {
						used = append(used, id)
					}
				}
				if len(used) > 0 {
					k = used[rng.Intn(len(used))]
				}
			}
			if shadow[k] > 0 {
				shadow[k]--
			}
			c.ops = append(c.ops, op{kind: opRelease, key: k})
		case x < 63:
			c.ops = append(c.ops, op{kind: opDiff, key: pick()})
		case x < 70:
			c.ops = append(c.ops, op{kind: opBlob, key: pick()})
		case x < 77:
			c.ops = append(c.ops, op{kind: opInfo, key: pick()})
		case x < 85:
			c.ops = append(c.ops, op{kind: opHoldRead})
		case x < 93:
			c.ops = append(c.ops, op{kind: opExpire})
		case x < 98:
			if faultAge < 0 {
				c.ops = append(c.ops, op{kind: opFault, f: randomFault(rng, c.ims)})
				faultAge = 0
			}
		default:
			c.ops = append(c.ops, op{kind: opHeal})
			faultAge = -1
		}
	}
	return c
}

// directedCase builds the short fixed scenarios that are executed first, so that the
// witness recorded for a violation key is a minimal history.
func directedCase(c *seqCase, rng *prng.R, p *pool, tag string, scenario, variant int) *seqCase {
	perm := rng.Perm(len(p.esgz))
	la, lb, lc, ld := p.esgz[perm[0]], p.esgz[perm[1]], p.esgz[perm[2]], p.esgz[perm[3]]
	c.wc = worldCfg{noPrefetch: variant == 0, noBackgroundFetch: true, chunk: 50000, dirCache: variant == 0}
	two := &imageSpec{repo: "c16/two", tag: "v" + tag, published: true, layers: []*layerSpec{la, lb}}
	one := &imageSpec{repo: "c16/one", tag: "v" + tag, published: true, layers: []*layerSpec{lc}}
	c.ims = []*imageSpec{two, one}
	A := &key{id: 0, img: two, imgNo: 0, dig: la.built.TOCDigest, spec: la, kind: "known"}
	B := &key{id: 1, img: two, imgNo: 0, dig: lb.built.TOCDigest, spec: lb, kind: "known"}
	C := &key{id: 2, img: one, imgNo: 1, dig: lc.built.TOCDigest, spec: lc, kind: "known"}
	U := &key{id: 3, img: two, imgNo: 0, dig: randomDigest(rng), kind: "random"}
	F := &key{id: 4, img: one, imgNo: 1, dig: ld.built.TOCDigest, kind: "foreign-toc"}
	X := &key{id: 5, img: two, imgNo: 0, dig: la.built.Digest, kind: "blob-digest"}
	c.keys = []*key{A, B, C, U, F, X}
	o := func(k opKind, key *key) op { return op{kind: k, key: key.id} }
	switch scenario {
	case 0:
		c.directed = "release-to-zero-then-lookup"
		c.ops = []op{o(opUse, A), o(opDiff, A), o(opRelease, A), o(opDiff, A)}
	case 1:
		c.directed = "release-to-zero-then-lookup/single-layer-image"
		c.ops = []op{o(opUse, C), o(opDiff, C), o(opRelease, C), o(opDiff, C)}
	case 2:
		c.directed = "release-more-often-than-used"
		c.ops = []op{o(opUse, A), o(opRelease, A), o(opRelease, A)}
	case 3:
		c.directed = "registry-error-during-resolution-then-recovery"
		c.ops = []op{{kind: opFault, f: &fault{kind: "layer-status", code: 503, dig: la.built.Digest.String()}}, o(opDiff, A), {kind: opHeal}, o(opDiff, A)}
	case 4:
		c.directed = "release-one-layer-while-sibling-in-use-then-lookup"
		c.ops = []op{o(opUse, A), o(opUse, B), o(opDiff, A), o(opRelease, A), o(opDiff, A), {kind: opExpire}, o(opDiff, A), {kind: opHoldRead}}
	case 5:
		c.directed = "last-use-released-with-unused-sibling-layer"
		c.ops = []op{o(opUse, A), o(opDiff, A), o(opRelease, A)}
	case 6:
		c.directed = "unknown-digests"
		c.ops = []op{o(opDiff, U), o(opBlob, F), o(opDiff, X), o(opInfo, U), o(opUse, U), o(opDiff, U), o(opDiff, A), o(opDiff, F), o(opRelease, U)}
	case 7:
		c.directed = "held-layer-survives-cache-expiry-and-partial-release"
		c.ops = []op{o(opUse, A), o(opUse, A), o(opDiff, A), {kind: opExpire}, o(opRelease, A), {kind: opHoldRead}, o(opBlob, A), o(opRelease, A)}
	case 9:
		// three references into ONE repository: two tags with different layer sets ([A,B] and
		// [B,C]) and a digest-pinned reference to the first
		c.directed = "tags-of-one-repository-are-different-images"
		va := &imageSpec{repo: "c16/app", tag: "v" + tag + "-a", published: true, layers: []*layerSpec{la, lb}}
		vb := &imageSpec{repo: "c16/app", tag: "v" + tag + "-b", published: true, layers: []*layerSpec{lb, lc}}
		pin := &imageSpec{repo: "c16/app", published: true, pinOf: va, layers: va.layers}
		if la.built.ExternalTOC != nil || lb.built.ExternalTOC != nil {
			pin = &imageSpec{repo: "c16/other", tag: "v" + tag, published: true, layers: []*layerSpec{ld}} // see composeImages
		}
		c.ims = []*imageSpec{va, vb, pin}
		aA := &key{id: 0, img: va, imgNo: 0, dig: la.built.TOCDigest, spec: la, kind: "known"}
		aB := &key{id: 1, img: va, imgNo: 0, dig: lb.built.TOCDigest, spec: lb, kind: "known"}
		bB := &key{id: 2, img: vb, imgNo: 1, dig: lb.built.TOCDigest, spec: lb, kind: "known"}
		bC := &key{id: 3, img: vb, imgNo: 1, dig: lc.built.TOCDigest, spec: lc, kind: "known"}
		bA := &key{id: 4, img: vb, imgNo: 1, dig: la.built.TOCDigest, kind: "foreign-toc"}
		aC := &key{id: 5, img: va, imgNo: 0, dig: lc.built.TOCDigest, kind: "foreign-toc"}
		pl := pin.layers[0]
		pA := &key{id: 6, img: pin, imgNo: 2, dig: pl.built.TOCDigest, spec: pl, kind: "known"}
		pC := &key{id: 7, img: pin, imgNo: 2, dig: lc.built.TOCDigest, kind: "foreign-toc"}
		c.keys = []*key{aA, aB, bB, bC, bA, aC, pA, pC}
		c.ops = []op{o(opUse, aA), o(opDiff, aA), o(opDiff, bC), o(opDiff, bA), o(opInfo, bC), o(opDiff, bB), o(opDiff, aC), o(opDiff, pA), o(opDiff, pC),
			o(opRelease, aA), o(opUse, bC), o(opDiff, bC), o(opDiff, aB), o(opBlob, bA), o(opRelease, bC), o(opDiff, aA)}
	default:
		c.directed = "images-are-independent"
		c.ops = []op{o(opUse, A), o(opDiff, A), o(opUse, C), o(opDiff, C), o(opRelease, A), {kind: opExpire}, {kind: opHoldRead}, o(opDiff, C), o(opDiff, A), o(opRelease, C)}
	}
	return c
}

// ---------------------------------------------------------------------------
// the model and the run of one case

type hold struct {
	k     *key
	root  tree
	valid bool // uses[(ref,D)] > 0 continuously since before the lookup that produced it
}

type seqRun struct {
	r   *vf.Run
	c   *seqCase
	w   *world
	drv driver
	rng *prng.R
	log []string

	uses        map[int]int     // key id -> outstanding uses (the model of the statement)
	imgUses     map[int]int     // image -> outstanding uses of all its (ref, digest) pairs
	usedInEpoch map[string]bool // ref|digest used since the image's last release-to-zero
	lookedHeld  map[int]bool    // key was looked up successfully while in use and has been in use ever since
	dropped     map[int]string  // how the key's layer was last released since its last successful lookup
	faultedRef  map[int]bool    // a lookup on this image ran while a fault was injected (classification only)
	zeroThenOK  map[int]bool    // image had a release-to-zero after a successful lookup (non-triviality)
	pending     map[int]bool    // image was resolved, used and released to zero: the next lookup is the re-acquire
	holds       []*hold
	fault       *fault
	nontrivial  bool
	aborted     bool
	nviol       int
	stage       string   // "seq" unless the run is the epilogue of another stage
	prefix      []string // what happened before this run's own history
}

var bg = context.Background()

func (s *seqRun) replay() map[string]any {
	stage := s.stage
	if stage == "" {
		stage = "seq"
	}
	return map[string]any{
		"stage": stage, "case": s.c.idx, "scenario": s.c.directed, "images": s.c.imagesDesc(),
		"noprefetch": s.c.wc.noPrefetch, "no_background_fetch": s.c.wc.noBackgroundFetch, "chunk_size": s.c.wc.chunk, "directory_caches": s.c.wc.dirCache,
		"history": append(append([]string(nil), s.prefix...), s.log...), "script": s.c.script(),
	}
}

func (s *seqRun) violate(key, what string) {
	s.nviol++
	s.r.Violate(key, what+" — history: "+strings.Join(append(append([]string(nil), s.prefix...), s.log...), " ; "), s.replay())
}

func (s *seqRun) healthy() bool { return s.fault == nil }

// call runs f (one operation of the code under test) and converts a panic on the calling
// goroutine into a violation; returns false if it panicked.
func (s *seqRun) call(what string, f func()) bool {
	p, v, st := vf.Recover(f)
	if !p {
		return true
	}
	site := panicSite(st)
	s.log = append(s.log, what+"=PANIC")
	s.violate("panic:"+panicClass(v)+"@"+site, fmt.Sprintf("%s panicked: %v", what, v))
	s.aborted = true
	return false
}

func runSeqCase(r *vf.Run, p *pool, idx int) {
	c := genSeqCase(r, p, idx)
	r.Eval(1)
	w, err := newWorld(r, filepath.Join(r.Scratch, fmt.Sprintf("seq-%d", idx)), c.ims, c.wc)
	if err != nil {
		r.Inconclusive("world setup failed: " + errClass(err))
		return
	}
	runCase(r, "seq", c, w, inproc{w}, idx < 2 || idx == nDirected || idx == nDirected+1)
}

// runCase executes the operation sequence of c on world w through drv under the model.
func runCase(r *vf.Run, stage string, c *seqCase, w *world, drv driver, sample bool) {
	// the absent image of a "no-image" key needs its parsed reference
	for _, k := range c.keys {
		if !k.img.published {
			k.img.ref = mustRef(k.img)
		}
	}
	s := &seqRun{r: r, c: c, w: w, drv: drv, stage: stage, rng: r.RNG(11, prng.Hash64(uint64(len(stage))), uint64(c.idx)),
		uses: map[int]int{}, imgUses: map[int]int{}, usedInEpoch: map[string]bool{}, lookedHeld: map[int]bool{},
		dropped: map[int]string{}, faultedRef: map[int]bool{}, zeroThenOK: map[int]bool{}, pending: map[int]bool{}}
	defer s.cleanup()
	for _, o := range c.ops {
		if s.aborted || s.nviol > 6 {
			break
		}
		s.exec(o)
	}
	if !s.aborted {
		s.epilogue()
	}
	if s.nontrivial {
		r.NonTrivial(stage + "|" + strings.Join(c.imagesShape(), ",") + "|" + c.script())
		r.Count(stage+"_cases_nontrivial", 1)
	}
	r.Count(stage+"_cases", 1)
	if sample {
		r.Sample(map[string]any{"stage": stage, "case": c.idx, "images": c.imagesDesc(), "history": s.log})
	}
}

func (c *seqCase) imagesShape() []string {
	var s []string
	for _, im := range c.ims {
		var ns []string
		for _, l := range im.layers {
			ns = append(ns, l.name())
		}
		s = append(s, strings.Join(ns, "+"))
	}
	return s
}

func (s *seqRun) cleanup() {
	for _, h := range s.holds {
		h.root.close()
	}
	s.w.heal()
	s.w.expireAll()
	removeAll(s.w.root)
}

func (s *seqRun) exec(o op) {
	s.r.Count("op_"+o.kind.String(), 1)
	if os.Getenv("C16_DEBUG") != "" {
		defer func() {
			live, res := s.w.liveLayerDirs()
			ln, bn := s.w.res.VerifCachedNames()
			s.log = append(s.log, fmt.Sprintf("  [debug: fscache dirs live=%d recreated=%d; resolver cache entries layers=%d blobs=%d]", live, res, len(ln), len(bn)))
		}()
	}
	if os.Getenv("C16_TIMING") != "" {
		t := time.Now()
		defer func() { s.r.Count("us_"+o.kind.String(), int(time.Since(t).Microseconds())) }()
	}
	switch o.kind {
	case opUse:
		s.use(s.c.keys[o.key])
	case opRelease:
		s.release(s.c.keys[o.key])
	case opDiff:
		s.lookup(s.c.keys[o.key], false)
	case opBlob:
		s.lookup(s.c.keys[o.key], true)
	case opInfo:
		s.info(s.c.keys[o.key])
	case opHoldRead:
		s.holdRead()
	case opExpire:
		n := s.w.expireAll()
		s.log = append(s.log, fmt.Sprintf("expire-resolver-caches(%d entries)", n))
	case opFault:
		s.fault = o.f
		s.w.inject(o.f)
		s.log = append(s.log, "fault:"+o.f.String())
		s.r.Distinct("faults_injected", o.f.kind)
	case opHeal:
		s.w.heal()
		s.fault = nil
		s.log = append(s.log, "heal")
	}
}

func (s *seqRun) use(k *key) {
	var n int
	if !s.call(fmt.Sprintf("use(%s)", k), func() { n = s.drv.use(k) }) {
		return
	}
	s.uses[k.id]++
	s.imgUses[k.imgNo]++
	s.usedInEpoch[k.img.ref.String()+"|"+k.dig.String()] = true
	s.log = append(s.log, fmt.Sprintf("use(%s)=%d", k, n))
	if n != s.uses[k.id] {
		s.violate("use:count-differs-from-model", fmt.Sprintf("use of %s returned %d with %d outstanding uses (itself included)", k, n, s.uses[k.id]))
	}
	s.checkState("use")
}

func (s *seqRun) release(k *key) {
	var n int
	var err error
	pre := s.w.state() // which layers of the image are cached before the release (classification only)
	if !s.call(fmt.Sprintf("release(%s)", k), func() { n, err = s.drv.release(k) }) {
		return
	}
	before := s.uses[k.id]
	if err != nil {
		s.log = append(s.log, fmt.Sprintf("release(%s)=%d,err[%s]", k, n, errClass(err)))
		s.r.Distinct("release_errors", errClass(err))
	} else {
		s.log = append(s.log, fmt.Sprintf("release(%s)=%d", k, n))
	}
	if n < 0 {
		s.violate("release:negative-count", fmt.Sprintf("release of %s with %d outstanding uses returned the count %d; state: %s", k, before, n, s.w.state().describe(k.img.ref.String(), s.w)))
		s.aborted = true // the counter of the code and the model are now apart: everything later would be a consequence
		return
	}
	if before == 0 {
		// Slack: releasing a pair nobody uses may fail or report 0; it must not report uses.
		if n > 0 {
			s.violate("release:positive-count-without-uses", fmt.Sprintf("release of %s without outstanding uses returned %d", k, n))
		}
		s.r.Count("release_without_uses", 1)
		s.checkState("release")
		return
	}
	s.uses[k.id]--
	s.imgUses[k.imgNo]--
	// Slack: release may report an error (e.g. the pair was used but never looked up, so there
	// is no layer to drop); the count it reports must still be the model's.
	if n != s.uses[k.id] {
		s.violate("release:count-differs-from-model", fmt.Sprintf("release of %s with %d outstanding uses returned %d", k, before, n))
	}
	if s.uses[k.id] == 0 {
		for _, h := range s.holds {
			if h.k.id == k.id {
				h.valid = false
			}
		}
		s.lookedHeld[k.id] = false
		if has(pre.layers[k.img.ref.String()], k.dig.String()) {
			if s.imgUses[k.imgNo] == 0 {
				s.dropped[k.id] = "image-zero"
			} else {
				s.dropped[k.id] = "sibling-in-use"
			}
		}
	}
	s.checkState("release")
	if s.imgUses[k.imgNo] == 0 {
		s.imageZero(k, pre)
	}
}

// imageZero: the last use of an image was just released. Statement: its layers and its
// resolution bookkeeping are dropped.
func (s *seqRun) imageZero(k *key, pre mstate) {
	s.r.Count("image_release_to_zero_events", 1)
	ref := k.img.ref.String()
	for _, h := range s.holds {
		if h.k.imgNo == k.imgNo {
			h.valid = false
		}
	}
	for _, kk := range s.c.keys {
		if kk.imgNo == k.imgNo && s.dropped[kk.id] == "" && has(pre.layers[ref], kk.dig.String()) {
			s.dropped[kk.id] = "image-zero"
		}
	}
	if !s.w.quiesce() {
		s.aborted = true
		return
	}
	st := s.w.state()
	if len(st.resolved[ref]) > 0 {
		s.violate("release-to-zero:bookkeeping-not-dropped",
			fmt.Sprintf("after the last use of %s was released the memoised resolution results of the image are still there: %s", ref, st.describe(ref, s.w)))
	}
	if len(st.layers[ref]) > 0 {
		if has(st.layers[ref], k.dig.String()) {
			s.violate("release-to-zero:released-layer-not-dropped",
				fmt.Sprintf("after the last use of %s was released (it was a use of %s) that very layer is still cached: %s", ref, k, st.describe(ref, s.w)))
		} else {
			s.violate("release-to-zero:sibling-layers-not-dropped",
				fmt.Sprintf("after the last use of %s was released the image's other layers (resolved together with the used one, without uses of their own now) are still cached and keep their resources: %s", ref, st.describe(ref, s.w)))
		}
	}
	for kk := range s.usedInEpoch {
		if strings.HasPrefix(kk, ref+"|") {
			delete(s.usedInEpoch, kk)
		}
	}
	if s.zeroThenOK[k.imgNo] {
		s.zeroThenOK[k.imgNo] = false
		s.r.Count("release_to_zero_after_successful_lookup", 1)
		s.dropPending(k.imgNo)
	}
}

// pendingRelookup[img] = the image was resolved, used and released to zero: the next
// conclusive lookup on it is the "re-acquire" of the statement.
func (s *seqRun) dropPending(img int) { s.pending[img] = true }

// checkState compares the manager's counters with the model and checks that no layer with
// outstanding uses left the manager.
func (s *seqRun) checkState(after string) {
	st := s.w.state()
	for _, k := range s.c.keys {
		got := st.counters[k.img.ref.String()][k.dig.String()]
		if got < 0 {
			s.violate("release:negative-count", fmt.Sprintf("after %s the manager's use counter of %s is %d (outstanding uses: %d)", after, k, got, s.uses[k.id]))
			s.aborted = true
			return
		}
		if got != s.uses[k.id] {
			s.violate("count:state-differs-from-model", fmt.Sprintf("after %s the use counter of %s is %d, outstanding uses %d", after, k, got, s.uses[k.id]))
		}
		if s.lookedHeld[k.id] && s.uses[k.id] > 0 && !has(st.layers[k.img.ref.String()], k.dig.String()) {
			s.violate("use-held:layer-dropped", fmt.Sprintf("after %s the layer of %s, which has %d outstanding uses, is no longer held by the manager: %s",
				after, k, s.uses[k.id], st.describe(k.img.ref.String(), s.w)))
			s.lookedHeld[k.id] = false
		}
	}
}

// failKey classifies a failed lookup of a contained digest on a healthy registry. The
// verdict does not depend on the history (the lookup must succeed); only the key does.
func (s *seqRun) failKey(k *key, st mstate) (string, string) {
	ref := k.img.ref.String()
	memo := has(st.resolved[ref], k.spec.built.Digest.String())
	cached := has(st.layers[ref], k.dig.String())
	if memo && !cached {
		switch {
		case s.dropped[k.id] == "image-zero":
			return "release-to-zero:lookup-fails", "the image's last use had been released before, its resolution memo was kept, so the layer is not resolved again"
		case s.dropped[k.id] == "sibling-in-use":
			return "release-one-layer-sibling-in-use:lookup-fails", "this layer had been released to zero while another layer of the image was in use; its resolution memo was kept, so the layer is not resolved again"
		case s.faultedRef[k.imgNo]:
			return "resolve-error-memoised:lookup-fails-after-registry-recovers", "an earlier resolution attempt failed while the registry was faulty; the error was memoised and is returned although the registry is healthy now"
		}
		return "lookup:fails-for-contained-digest/stale-memo", "a memoised resolution result exists but the layer is not cached"
	}
	return "lookup:fails-for-contained-digest", "no stale memo involved"
}

func (s *seqRun) lookup(k *key, blobMode bool) {
	name := "lookup-diff"
	if blobMode {
		name = "lookup-blob"
	}
	if !s.healthy() {
		s.faultedRef[k.imgNo] = true
	}
	mark := s.w.reg.Requests()
	if !s.w.cached(k) {
		s.w.strays = true
	}
	var l *looked
	var err error
	if !s.call(fmt.Sprintf("%s(%s)", name, k), func() { l, err = s.drv.lookup(k, blobMode) }) {
		return
	}
	if !s.w.quiesce() {
		s.aborted = true
		return
	}
	reqs := s.w.requestsSince(mark)
	expectOK := k.spec != nil && k.img.published
	s.r.Distinct("lookup_results", errClass(err))
	if err != nil {
		s.log = append(s.log, fmt.Sprintf("%s(%s)=err[%s]", name, k, errClass(err)))
		if errClass(err) == "timeout" {
			s.r.Inconclusive("watchdog: getLayer's own 30 s timeout fired")
			s.aborted = true
			return
		}
		if !expectOK {
			s.r.Count("lookup_other_digest_failed_as_required", 1)
			return
		}
		if !s.healthy() {
			s.r.Count("lookup_failed_during_fault(slack)", 1)
			return
		}
		st := s.w.state()
		vk, why := s.failKey(k, st)
		s.violate(vk, fmt.Sprintf("%s of %s failed (%v) although the image contains a layer whose TOC digest is %s and the registry is healthy; %s; %d registry requests were made during the lookup; state: %s",
			name, k, err, k.dig, why, reqs, st.describe(k.img.ref.String(), s.w)))
		if s.pending[k.imgNo] {
			s.nontrivial = true
			s.pending[k.imgNo] = false
		}
		return
	}
	s.log = append(s.log, fmt.Sprintf("%s(%s)=ok", name, k))
	if !expectOK {
		s.violate("lookup:succeeds-for-other-digest", fmt.Sprintf("%s of %s (%s digest %s, which is not the TOC digest of any layer of the image) succeeded (TOC digest of what came back: %q)",
			name, k, k.kind, k.dig, l.toc))
		return
	}
	if got := l.toc; got != "" && got != k.dig.String() {
		s.violate("lookup:returns-layer-with-other-digest", fmt.Sprintf("%s of %s (TOC digest %s) returned the layer with TOC digest %s", name, k, k.dig, got))
		return
	}
	if s.pending[k.imgNo] && s.healthy() {
		s.nontrivial = true
		s.pending[k.imgNo] = false
		s.r.Count("relookup_after_release_to_zero_ok", 1)
		s.r.Count("relookup_after_release_to_zero_registry_requests", int(reqs))
	}
	s.dropped[k.id] = ""
	if s.uses[k.id] > 0 {
		s.lookedHeld[k.id] = true
	}
	if s.imgUses[k.imgNo] > 0 {
		s.zeroThenOK[k.imgNo] = true
	}
	if !s.healthy() {
		s.r.Count("lookup_ok_during_fault", 1)
		return // reading needs the registry
	}
	// what the FUSE node does with the layer
	if blobMode {
		if err := l.readBlob(k.spec, s.rng); err != nil {
			if isMismatch(err) {
				s.violate("lookup:blob-differs-from-published", fmt.Sprintf("%s of %s: %v", name, k, err))
			} else {
				s.violate("lookup:layer-unusable", fmt.Sprintf("%s of %s succeeded but the blob cannot be read: %v; state: %s", name, k, err, s.w.state().describe(k.img.ref.String(), s.w)))
			}
		}
		return
	}
	root, err := l.open()
	if err != nil {
		s.violate("lookup:layer-unusable", fmt.Sprintf("%s of %s succeeded but the layer cannot be opened: %v", name, k, err))
		return
	}
	if err := root.readFiles(k.spec, s.rng, 2); err != nil {
		root.close()
		if isMismatch(err) {
			s.violate("lookup:content-differs-from-tar", fmt.Sprintf("%s of %s: %v", name, k, err))
		} else {
			s.violate("lookup:layer-unusable", fmt.Sprintf("%s of %s succeeded but the layer cannot be read: %v; state: %s", name, k, err, s.w.state().describe(k.img.ref.String(), s.w)))
		}
		return
	}
	s.r.Count("files_read_and_verified", 2)
	if len(s.holds) >= 6 {
		s.holds[0].root.close()
		s.holds = s.holds[1:]
	}
	s.holds = append(s.holds, &hold{k: k, root: root, valid: s.uses[k.id] > 0})
}

func (s *seqRun) info(k *key) {
	var li store.Layer
	var err error
	if !s.call(fmt.Sprintf("lookup-info(%s)", k), func() { li, err = s.drv.info(k) }) {
		return
	}
	s.log = append(s.log, fmt.Sprintf("lookup-info(%s)=%s", k, errClass(err)))
	if err != nil {
		if s.healthy() && k.spec != nil && k.img.published {
			s.violate("info:fails-for-contained-digest", fmt.Sprintf("lookup-info of %s failed on a healthy registry: %v", k, err))
		}
		return
	}
	// Slack: the statement does not say what "info" answers for a digest the image does not
	// have; whatever is answered must not describe another layer.
	if li.TOCDigest != k.dig {
		s.violate("info:wrong-toc-digest", fmt.Sprintf("lookup-info of %s (digest %s) answered for TOC digest %s", k, k.dig, li.TOCDigest))
	}
	if d := li.Flags["expected-layer-diffid"]; d != "" {
		if k.spec == nil {
			s.violate("info:describes-layer-for-other-digest", fmt.Sprintf("lookup-info of %s (%s) names the diff id %s", k, k.kind, d))
		} else if d != k.spec.built.DiffID.String() {
			s.violate("info:wrong-diffid", fmt.Sprintf("lookup-info of %s names diff id %s, the layer's is %s", k, d, k.spec.built.DiffID))
		} else {
			s.r.Count("info_with_diffid_verified", 1)
		}
	}
}

// holdRead: a holder that looked the layer up while it was in use, and has kept it in use,
// reads through the node tree it got back then.
func (s *seqRun) holdRead() {
	var h *hold
	for i := len(s.holds) - 1; i >= 0; i-- {
		if s.holds[i].valid && s.uses[s.holds[i].k.id] > 0 {
			h = s.holds[i]
			break
		}
	}
	if h == nil {
		s.log = append(s.log, "held-read(nothing held)")
		return
	}
	if !s.healthy() {
		s.log = append(s.log, "held-read(skipped: fault)")
		return
	}
	var err error
	if !s.call(fmt.Sprintf("held-read(%s)", h.k), func() { err = h.root.readFiles(h.k.spec, s.rng, 2) }) {
		return
	}
	if err != nil {
		s.log = append(s.log, fmt.Sprintf("held-read(%s)=err", h.k))
		vk := "use-held:read-fails"
		if isMismatch(err) {
			vk = "use-held:content-differs-from-tar"
		}
		s.violate(vk, fmt.Sprintf("a read through the layer of %s, looked up while in use and in use ever since (%d outstanding uses), failed: %v; state: %s",
			h.k, s.uses[h.k.id], err, s.w.state().describe(h.k.img.ref.String(), s.w)))
		h.valid = false
		return
	}
	s.log = append(s.log, fmt.Sprintf("held-read(%s)=ok", h.k))
	s.r.Count("held_reads_verified", 1)
}

// epilogue: heal, read once more through what is still held, release every outstanding use
// (each image reaches zero), expire the resolver caches, check that nothing is left, and
// look every used image up again.
func (s *seqRun) epilogue() {
	if s.fault != nil {
		s.exec(op{kind: opHeal})
	}
	s.holdRead()
	if s.aborted {
		return
	}
	touched := map[int]*key{}
	for _, k := range s.c.keys {
		for s.uses[k.id] > 0 && !s.aborted && s.nviol <= 8 {
			if k.spec != nil && k.img.published {
				touched[k.imgNo] = k
			}
			s.release(k)
		}
	}
	if s.aborted {
		return
	}
	for img, on := range s.pending {
		if on {
			for _, k := range s.c.keys {
				if k.imgNo == img && k.spec != nil && touched[img] == nil {
					touched[img] = k
				}
			}
		}
	}
	n := s.w.expireAll()
	s.log = append(s.log, fmt.Sprintf("expire-resolver-caches(%d entries)", n))
	if !s.w.quiesce() {
		return
	}
	st := s.w.state()
	if len(st.layers) == 0 && s.c.wc.dirCache {
		// Every layer the manager held has been given back; with the resolver's caches
		// expired, each layer object must have been closed (its cache directory removed).
		// Only checked when the manager holds nothing: layers that were looked up without
		// any use of their image stay cached by design (no "last use" event for them).
		live, res := s.w.liveLayerDirs()
		s.r.Count("fscache_dirs_recreated_after_close(not judged)", res)
		if live != 0 {
			ln, bn := s.w.res.VerifCachedNames()
			if os.Getenv("C16_DEBUG") != "" {
				for _, h := range s.holds {
					s.log = append(s.log, fmt.Sprintf("  [debug: read through old tree of %s: %v]", h.k, h.root.readFiles(h.k.spec, s.rng, 1)))
				}
				es, _ := os.ReadDir(filepath.Join(s.w.root, "fscache"))
				for _, e := range es {
					sub, _ := os.ReadDir(filepath.Join(s.w.root, "fscache", e.Name()))
					var ns []string
					for _, x := range sub {
						ns = append(ns, x.Name())
					}
					s.log = append(s.log, fmt.Sprintf("  [debug: fscache/%s: %v]", e.Name(), ns))

				}
			}
			s.violate("release-to-zero:layer-resources-leaked", fmt.Sprintf("the manager holds no layer any more and the resolver's caches are expired (%d layer / %d blob entries left in them), but %d layer objects were never closed (their fscache directories are intact)", len(ln), len(bn), live))
		} else {
			s.r.Count("drained_worlds_without_leftover", 1)
		}
	}
	for img := 0; img < len(s.c.ims); img++ {
		if k := touched[img]; k != nil && s.nviol <= 8 && !s.aborted {
			s.lookup(k, false)
		}
	}
}

func mustRef(im *imageSpec) reference.Spec {
	ref, err := reference.Parse(regHost + "/" + im.repo + ":" + im.tag)
	if err != nil {
		panic(err)
	}
	return ref
}
