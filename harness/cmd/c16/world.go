package main

// world.go: the layer pool, one "world" (registry + images + store.LayerManager) per case,
// the reference model of the property, and the helpers shared by the three stages.

import (
	"archive/tar"
	"bytes"
	"compress/gzip"
	"context"
	"fmt"
	"os"
	"path/filepath"
	"reflect"
	"runtime"
	"sort"
	"strings"
	"sync"
	"time"
	"unsafe"

	"github.com/containerd/containerd/v2/pkg/reference"
	"github.com/containerd/stargz-snapshotter/cache"
	"github.com/containerd/stargz-snapshotter/fs/config"
	"github.com/containerd/stargz-snapshotter/fs/layer"
	"github.com/containerd/stargz-snapshotter/fs/remote"
	memorymetadata "github.com/containerd/stargz-snapshotter/metadata/memory"
	"github.com/containerd/stargz-snapshotter/store"
	digest "github.com/opencontainers/go-digest"

	"verifharness/internal/blob"
	"verifharness/internal/gen"
	"verifharness/internal/l2"
	"verifharness/internal/memreg"
	"verifharness/internal/nodefs"
	"verifharness/internal/prng"
	"verifharness/internal/vf"
)

const regHost = "reg.test"

// ---------------------------------------------------------------------------
// layer pool

// layerSpec is one layer blob of the pool and the ground truth about it.
type layerSpec struct {
	idx     int
	built   *blob.Built // for a plain (non-eStargz) layer: Blob/DiffID/Digest only, TOCDigest == ""
	esgz    bool
	entries []gen.Entry
	fs      *gen.FS
	files   []string // clean paths of regular files with size > 0
}

func (s *layerSpec) name() string {
	if !s.esgz {
		return fmt.Sprintf("P%d", s.idx)
	}
	return fmt.Sprintf("L%d", s.idx)
}

type pool struct {
	esgz  []*layerSpec
	plain []*layerSpec
}

// buildPool builds the blobs once per process; it is a pure function of (seed, tier).
func buildPool(r *vf.Run, nEsgz, nPlain int) (*pool, error) {
	p := &pool{}
	seen := map[digest.Digest]bool{}
	for i := 0; len(p.esgz) < nEsgz && i < nEsgz*4; i++ {
		rng := r.RNG(900, uint64(i))
		o := gen.DefaultOpts(512)
		o.RootEntry = false // the explicit "./" root entry is C05's business (db store defect), keep out of this domain
		o.MaxEntries = 8
		ents := gen.RandomTar(rng, o)
		// make sure there is something to read: one more regular file with a unique content id
		ents = append(ents, gen.Entry{Name: fmt.Sprintf("c16-probe-%d.bin", i), Type: tar.TypeReg, Mode: 0o644,
			ModTime: 1_600_000_000, Size: int64(rng.Pick(1, 300, 511, 512, 513, 1500, 2100)), ContentID: prng.Hash64(0xC16, uint64(i))})
		bo := blob.RandomOpts(rng, 512, 4096)
		if bo.Workers > 2 {
			bo.Workers = 2
		}
		b, err := blob.Build(gen.TarBytes(ents), bo)
		if err != nil {
			return nil, fmt.Errorf("blob.Build(%s): %w", bo, err)
		}
		if seen[b.TOCDigest] || seen[b.Digest] {
			continue
		}
		seen[b.TOCDigest], seen[b.Digest] = true, true
		s := &layerSpec{idx: len(p.esgz), built: b, esgz: true, entries: ents, fs: gen.Model(ents)}
		for _, f := range s.fs.RegularFiles() {
			if s.fs.Nodes[f].Size > 0 {
				s.files = append(s.files, f)
			}
		}
		p.esgz = append(p.esgz, s)
	}
	if len(p.esgz) < nEsgz {
		return nil, fmt.Errorf("could not build %d distinct layers", nEsgz)
	}
	for i := 0; i < nPlain; i++ {
		rng := r.RNG(901, uint64(i))
		o := gen.DefaultOpts(512)
		o.RootEntry, o.MaxEntries = false, 4
		tb := gen.TarBytes(gen.RandomTar(rng, o))
		var gz bytes.Buffer
		zw := gzip.NewWriter(&gz)
		zw.Write(tb)
		zw.Close()
		b := &blob.Built{Opts: blob.Opts{Compression: "gzip"}, Blob: gz.Bytes(), DiffID: digest.FromBytes(tb), Digest: digest.FromBytes(gz.Bytes())}
		p.plain = append(p.plain, &layerSpec{idx: i, built: b})
	}
	return p, nil
}

// ---------------------------------------------------------------------------
// world

type imageSpec struct {
	repo, tag string
	layers    []*layerSpec // manifest order
	published bool         // false: the reference does not exist in the registry
	pinOf     *imageSpec   // != nil: a digest-pinned reference ("repo[:tag]@digest") to that image
	im        *l2.Image
	ref       reference.Spec
}

func (im *imageSpec) find(d digest.Digest) *layerSpec {
	for _, l := range im.layers {
		if l.esgz && l.built.TOCDigest == d {
			return l
		}
	}
	return nil
}

func (im *imageSpec) describe() string {
	var ns []string
	for _, l := range im.layers {
		ns = append(ns, l.name()+"/"+l.built.Opts.Compression)
	}
	s := im.ref.String() + "=[" + strings.Join(ns, " ") + "]"
	if !im.published {
		s += "(not in registry)"
	}
	return s
}

// key is one (image reference, TOC digest) pair the case operates on.
type key struct {
	id    int
	img   *imageSpec
	imgNo int
	dig   digest.Digest
	spec  *layerSpec // the layer of img with that TOC digest, nil = the image has no such layer
	kind  string     // "known" | "foreign-toc" | "blob-digest" | "random" | "no-image"
}

func (k *key) String() string {
	if k.spec != nil {
		return fmt.Sprintf("i%d.%s", k.imgNo, k.spec.name())
	}
	return fmt.Sprintf("i%d.?%s", k.imgNo, k.kind)
}

type worldCfg struct {
	noPrefetch, noBackgroundFetch bool
	chunk                         int64
	dirCache                      bool // directory caches (the default of the daemon) instead of memory caches
}

type world struct {
	r      *vf.Run
	reg    *memreg.Registry
	images []*imageSpec
	keys   []*key
	lm     *store.LayerManager
	res    *layer.Resolver
	root   string
	cfg    worldCfg
	nextID uint32
	strays bool // a lookup may have left goroutines of getLayer behind (see quiesce)
}

// composeImages draws nImg images of 1..maxLayers distinct pool layers (a pool layer may be
// shared by several images; never twice inside one image), sometimes with one plain
// (non-eStargz) layer in between.
func composeImages(rng *prng.R, p *pool, nImg, maxLayers int, tagSalt string) []*imageSpec {
	var ims []*imageSpec
	// Two times out of three the first two images are two TAGS OF ONE REPOSITORY with
	// different layer sets (some layers shared, some not): the references differ only in the
	// tag, so everything that is kept per reference must really be keyed by the whole reference.
	sameRepo := nImg >= 2 && rng.Chance(2, 3)
	for i := 0; i < nImg; i++ {
		n := rng.Range(1, maxLayers)
		perm := rng.Perm(len(p.esgz))
		im := &imageSpec{repo: fmt.Sprintf("c16/img%d", i), tag: "v" + tagSalt, published: true}
		if sameRepo && i < 2 {
			im.repo, im.tag = "c16/app", fmt.Sprintf("v%s-%c", tagSalt, 'a'+i)
		}
		if sameRepo && i == 1 {
			// share a (possibly empty) part of the first tag's layers, then add others, so that
			// the two layer sets differ in both directions whenever there is room
			first := ims[0]
			for _, l := range first.layers {
				if l.esgz && rng.Bool() && len(im.layers) < n-1 {
					im.layers = append(im.layers, l)
				}
			}
			for _, j := range perm {
				if len(im.layers) >= n && len(im.layers) > 0 && !sameLayerSet(im.layers, first.layers) {
					break
				}
				if first.find(p.esgz[j].built.TOCDigest) == nil {
					im.layers = append(im.layers, p.esgz[j])
				}
			}
		} else {
			for _, j := range perm[:n] {
				im.layers = append(im.layers, p.esgz[j])
			}
		}
		if len(p.plain) > 0 && rng.Chance(1, 4) {
			at := rng.Intn(len(im.layers) + 1)
			pl := p.plain[rng.Intn(len(p.plain))]
			im.layers = append(im.layers[:at:at], append([]*layerSpec{pl}, im.layers[at:]...)...)
		}
		ims = append(ims, im)
	}
	if sameRepo && rng.Chance(2, 3) {
		// a digest-pinned reference to one of the tags ("repo@sha256:<manifest digest>"): a
		// third reference into the same repository with the same image as that tag. An
		// external TOC is located through the tag ("<tag>-esgztoc"), so such layers cannot be
		// resolved through a digest-pinned reference at all: only images without them.
		var cand []*imageSpec
		for _, im := range ims[:2] {
			ok := true
			for _, l := range im.layers {
				if l.built.ExternalTOC != nil {
					ok = false
				}
			}
			if ok {
				cand = append(cand, im)
			}
		}
		if len(cand) > 0 {
			t := cand[rng.Intn(len(cand))]
			ims = append(ims, &imageSpec{repo: t.repo, published: true, pinOf: t, layers: t.layers})
		}
	}
	return ims
}

func sameLayerSet(a, b []*layerSpec) bool {
	in := func(l *layerSpec, s []*layerSpec) bool {
		for _, x := range s {
			if x == l {
				return true
			}
		}
		return false
	}
	for _, l := range a {
		if l.esgz && !in(l, b) {
			return false
		}
	}
	for _, l := range b {
		if l.esgz && !in(l, a) {
			return false
		}
	}
	return true
}

// newWorld publishes the images in a fresh registry and builds a fresh LayerManager.
func newWorld(r *vf.Run, root string, ims []*imageSpec, wc worldCfg) (*world, error) {
	return newWorldF(r, root, ims, wc, nil)
}

// newWorldF: refOK (optional) must accept the string of a digest-pinned reference (the fuse
// stage needs references whose base64 form is one path component).
func newWorldF(r *vf.Run, root string, ims []*imageSpec, wc worldCfg, refOK func(string) bool) (*world, error) {
	w := &world{r: r, reg: memreg.New(), images: ims, root: root, cfg: wc}
	for _, im := range ims {
		if im.pinOf != nil {
			continue // after its target is published
		}
		ref, err := reference.Parse(regHost + "/" + im.repo + ":" + im.tag)
		if err != nil {
			return nil, err
		}
		im.ref = ref
		if !im.published {
			continue
		}
		var bs []*blob.Built
		for _, l := range im.layers {
			bs = append(bs, l.built)
		}
		pub, err := l2.Publish(w.reg, regHost, im.repo, im.tag, bs)
		if err != nil {
			return nil, err
		}
		im.im = pub
	}
	for _, im := range ims {
		if im.pinOf == nil {
			continue
		}
		// "repo@digest"; if that form is not acceptable, "repo:<tag>@digest" with some tag
		// (the tag of such a reference is ignored by the resolver, the digest decides)
		d := im.pinOf.im.ManifestDesc.Digest.String()
		str := regHost + "/" + im.repo + "@" + d
		for i := 0; refOK != nil && !refOK(str) && i < 64; i++ {
			str = regHost + "/" + im.repo + ":p" + strings.Repeat("x", i) + "@" + d
		}
		ref, err := reference.Parse(str)
		if err != nil {
			return nil, err
		}
		im.ref, im.im = ref, im.pinOf.im
	}
	cfg := config.Config{}
	cfg.NoPrometheus = true // the metrics namespace is process-global: many managers live in one process
	cfg.NoPrefetch = wc.noPrefetch
	cfg.NoBackgroundFetch = wc.noBackgroundFetch
	cfg.BlobConfig.ChunkSize = wc.chunk
	if !wc.dirCache {
		cfg.HTTPCacheType, cfg.FSCacheType = "memory", "memory"
	}
	cfg.BlobConfig.MaxRetries = 1
	cfg.BlobConfig.MinWaitMSec = 1
	cfg.BlobConfig.MaxWaitMSec = 2
	cfg.BlobConfig.FetchTimeoutSec = 20
	if err := os.MkdirAll(root, 0o700); err != nil {
		return nil, err
	}
	t0 := time.Now()
	defer func() {
		if os.Getenv("C16_TIMING") != "" {
			r.Count("us_newmanager", int(time.Since(t0).Microseconds()))
		}
	}()
	lm, err := store.NewLayerManager(context.Background(), root, w.reg.Hosts(nil), memorymetadata.NewReader, cfg)
	if err != nil {
		return nil, err
	}
	w.lm = lm
	w.res = resolverOf(lm)
	return w, nil
}

// resolverOf reaches the manager's private layer.Resolver so that the existing verif shims
// of fs/layer (VerifExpireLayer/VerifExpireBlob/VerifCachedNames) can be used: the TTL expiry of
// the resolver's caches is an event that happens by itself in production (120 s timer) and
// the harness makes it an explicit operation. Read-only access to one pointer field.
func resolverOf(lm *store.LayerManager) *layer.Resolver {
	if x, ok := any(lm).(interface{ VerifResolver() *layer.Resolver }); ok {
		return x.VerifResolver()
	}
	f := reflect.ValueOf(lm).Elem().FieldByName("resolver")
	if !f.IsValid() || f.Kind() != reflect.Ptr {
		return nil
	}
	return *(**layer.Resolver)(unsafe.Pointer(f.UnsafeAddr()))
}

// expireAll fires the TTL expiry of every entry of the resolver's layer and blob caches
// (exactly the timer callback, H4/H5). Returns how many entries were expired.
func (w *world) expireAll() int {
	if w.res == nil {
		return 0
	}
	ls, bs := w.res.VerifCachedNames()
	for _, n := range ls {
		w.res.VerifExpireLayer(n)
	}
	for _, n := range bs {
		w.res.VerifExpireBlob(n)
	}
	return len(ls) + len(bs)
}

// liveLayerDirs counts the per-layer fscache directories of layer objects that were never
// closed. The resolver creates one directory cache per layer object (with a "wip"
// sub-directory made at construction) and closing the layer removes the whole directory.
// An asynchronous chunk write that is still in flight when the layer is closed may re-create
// the top directory (MkdirAll of a chunk path) — such a directory has no "wip" any more and
// is not counted (cache-level leftover, not this property's business).
func (w *world) liveLayerDirs() (live, resurrected int) {
	es, err := os.ReadDir(filepath.Join(w.root, "fscache"))
	if err != nil {
		return 0, 0
	}
	for _, e := range es {
		if _, err := os.Stat(filepath.Join(w.root, "fscache", e.Name(), "wip")); err == nil {
			live++
		} else {
			resurrected++
		}
	}
	return
}

var (
	resolveFrame  = []byte("stargz-snapshotter/store.(*LayerManager).resolveLayer(")
	getLayerFrame = []byte("stargz-snapshotter/store.(*LayerManager).getLayer.func1")
	wgGoCreated   = []byte("created by sync.(*WaitGroup).Go")
	chanSend      = []byte("[chan send")
	dumpMu        sync.Mutex
	dumpBuf       = make([]byte, 1<<20)
)

// resolving reports whether some goroutine of this process is (or is about to be) busy
// resolving a layer for LayerManager.getLayer: getLayer returns as soon as the wanted layer
// is there, the goroutines it started for the image's other layers continue in the
// background. A goroutine counts when it (a) has a frame of resolveLayer, (b) is one of
// getLayer's per-layer goroutines and is not parked in its final channel send (those that
// are parked there are left behind for good once getLayer has returned), or (c) was created
// by WaitGroup.Go and has not run its function yet.
func resolving() (busy bool, why string) {
	dumpMu.Lock()
	defer dumpMu.Unlock()
	var dump []byte
	for {
		n := runtime.Stack(dumpBuf, true)
		if n < len(dumpBuf) {
			dump = dumpBuf[:n]
			break
		}
		dumpBuf = make([]byte, 2*len(dumpBuf))
	}
	for _, blk := range bytes.Split(dump, []byte("\n\n")) {
		if bytes.Contains(blk, resolveFrame) {
			return true, "in-resolveLayer"
		}
		if !bytes.Contains(blk, wgGoCreated) {
			continue
		}
		head := blk
		if i := bytes.IndexByte(blk, '\n'); i >= 0 {
			head = blk[:i]
		}
		if bytes.Contains(blk, getLayerFrame) {
			if !bytes.Contains(head, chanSend) {
				return true, "getLayer-goroutine-outside-resolveLayer"
			}
			continue
		}
		if !bytes.Contains(blk, []byte("stargz-snapshotter/")) {
			return true, "goroutine-not-started-yet"
		}
	}
	return false, ""
}

// quiesce waits until no goroutine of getLayer is left that could still resolve (and cache)
// a layer. getLayer starts one goroutine per layer of the image and returns as soon as the
// wanted layer is there; the others go on in the background — possibly long after the
// call returned, and a goroutine that has not even started yet will consult the memo only
// then. strays is set by the callers whenever a lookup may have started such goroutines
// (the wanted layer was not cached before the call); without strays there is nothing to
// wait for. Decided on a goroutine dump, never on time: the wall clock is only a watchdog
// (false = inconclusive).
func (w *world) quiesce() bool {
	if !w.strays {
		return true
	}
	t := time.Now()
	if os.Getenv("C16_TIMING") != "" {
		defer func() { w.r.Count("us_quiesce", int(time.Since(t).Microseconds())); w.r.Count("n_quiesce", 1) }()
	}
	w.r.Count("quiesce_by_goroutine_dump", 1)
	for i := 0; ; i++ {
		busy, why := resolving()
		if !busy {
			break
		}
		w.r.Count("quiesce_waited_for:"+why, 1)
		if time.Since(t) > 90*time.Second {
			w.r.Inconclusive("watchdog: background resolutions did not finish")
			return false
		}
		if i < 20 {
			runtime.Gosched()
			time.Sleep(200 * time.Microsecond)
		} else {
			time.Sleep(2 * time.Millisecond)
		}
	}
	w.strays = false
	return true
}

// cached reports whether the manager holds a layer for (ref, digest) right now (then a
// lookup is answered from the cache and starts nothing).
func (w *world) cached(k *key) bool {
	return has(w.state().layers[k.img.ref.String()], k.dig.String())
}

// ---------------------------------------------------------------------------
// faults

type fault struct {
	kind string // "down" | "blob-status" | "blob-err" | "manifest-status" | "layer-status"
	dig  string // layer-status: the blob digest that fails
	code int
}

func (f *fault) String() string {
	if f == nil {
		return "none"
	}
	switch f.kind {
	case "layer-status":
		return fmt.Sprintf("%s(%d,%s)", f.kind, f.code, f.dig[7:15])
	case "blob-status", "manifest-status":
		return fmt.Sprintf("%s(%d)", f.kind, f.code)
	}
	return f.kind
}

func (w *world) inject(f *fault) {
	switch f.kind {
	case "down":
		w.reg.SetDown(true)
	default:
		ff := *f
		w.reg.SetScript(func(q *memreg.Request) memreg.Behaviour {
			switch ff.kind {
			case "blob-status":
				if q.Kind == "blob" {
					return memreg.Behaviour{Status: ff.code, Label: "fault"}
				}
			case "blob-err":
				if q.Kind == "blob" {
					return memreg.Behaviour{Err: fmt.Errorf("memreg: injected transport error"), Label: "fault"}
				}
			case "manifest-status":
				if q.Kind == "manifest" {
					return memreg.Behaviour{Status: ff.code, Label: "fault"}
				}
			case "layer-status":
				if q.Kind == "blob" && q.Digest == ff.dig {
					return memreg.Behaviour{Status: ff.code, Label: "fault"}
				}
			}
			return memreg.Behaviour{}
		})
	}
}

func (w *world) heal() {
	w.reg.SetDown(false)
	w.reg.SetScript(nil)
}

// ---------------------------------------------------------------------------
// looking at a layer the way the FUSE nodes of store/fs.go do

// classify maps an error of the code under test to a short class for the evidence.
func errClass(err error) string {
	if err == nil {
		return "ok"
	}
	s := err.Error()
	switch {
	case strings.Contains(s, "not found"):
		return "layer with TOCDigest not found"
	case strings.Contains(s, "(timeout)"):
		return "timeout"
	case strings.Contains(s, "failed to get manifest and config"):
		return "failed to get manifest and config"
	case strings.Contains(s, "already closed"):
		return "layer is already closed"
	case strings.Contains(s, "not tracked"):
		return "not tracked"
	case strings.Contains(s, "is not registered"):
		return "layer not registered"
	}
	if len(s) > 60 {
		s = s[:60]
	}
	return s
}

// openDiff does what layernode.Lookup("diff") does after getLayer: Verify(D), RootNode,
// Getattr of the root. It returns the initialised root node.
func openDiff(l layer.Layer, d digest.Digest, id uint32) (*nodefs.N, error) {
	if err := l.Verify(d); err != nil {
		return nil, fmt.Errorf("Verify: %w", err)
	}
	rn, err := l.RootNode(id)
	if err != nil {
		return nil, fmt.Errorf("RootNode: %w", err)
	}
	n := nodefs.Root(rn)
	if _, errno := n.Getattr(); errno != 0 {
		return nil, fmt.Errorf("Getattr(root): errno %d", int(errno))
	}
	return n, nil
}

// readFiles reads up to nFiles regular files of the layer through the node interfaces and
// compares size and content with the tar model.
// mismatch marks an answer that differs from the tar (as opposed to an operation that failed).
type mismatch struct{ msg string }

func (m mismatch) Error() string { return m.msg }

func mismatchf(f string, a ...any) error { return mismatch{fmt.Sprintf(f, a...)} }

func isMismatch(err error) bool { _, ok := err.(mismatch); return ok }

func readFiles(root *nodefs.N, s *layerSpec, rng *prng.R, nFiles int) error {
	if len(s.files) == 0 {
		return nil
	}
	for i := 0; i < nFiles; i++ {
		p := s.files[rng.Intn(len(s.files))]
		want := s.fs.Nodes[p]
		n, err := root.Walk(p)
		if err != nil {
			return fmt.Errorf("walk %q: %v", p, err)
		}
		a, errno := n.Getattr()
		if errno != 0 {
			return fmt.Errorf("getattr %q: errno %d", p, int(errno))
		}
		if int64(a.Size) != want.Size {
			return mismatchf("size of %q is %d, the tar says %d (content of another layer?)", p, a.Size, want.Size)
		}
		fh, _, errno := n.Open()
		if errno != 0 {
			return fmt.Errorf("open %q: errno %d", p, int(errno))
		}
		got, errno := nodefs.Read(fh, 0, int(want.Size)+16)
		nodefs.Release(fh)
		if errno != 0 {
			return fmt.Errorf("read %q: errno %d", p, int(errno))
		}
		if int64(len(got)) != want.Size {
			return mismatchf("read %q returned %d bytes, the tar says %d", p, len(got), want.Size)
		}
		if at := gen.CheckContent(want.ContentID, 0, got); at >= 0 {
			return mismatchf("content of %q differs from the tar at byte %d", p, at)
		}
	}
	return nil
}

// readBlob does what blobfile.Read does and compares with the published blob bytes.
func readBlob(l layer.Layer, s *layerSpec, rng *prng.R) error {
	if sz := l.Info().Size; sz != int64(len(s.built.Blob)) {
		return mismatchf("blob size %d, published %d", sz, len(s.built.Blob))
	}
	off := int64(rng.Intn(len(s.built.Blob)))
	n := rng.Range(1, 700)
	buf := make([]byte, n)
	got, err := l.ReadAt(buf, off, remote.WithContext(context.Background()), remote.WithCacheOpts(cache.Direct()))
	if err != nil && got == 0 {
		return fmt.Errorf("ReadAt(%d,%d): %v", off, n, err)
	}
	want := s.built.Blob[off:]
	if len(want) > n {
		want = want[:n]
	}
	if got != len(want) || !bytes.Equal(buf[:got], want) {
		return mismatchf("ReadAt(%d,%d) returned %d bytes that differ from the published blob", off, n, got)
	}
	return nil
}

// ---------------------------------------------------------------------------
// state read-back

type mstate struct {
	counters map[string]map[string]int
	layers   map[string][]string
	resolved map[string][]string
}

func (w *world) state() mstate {
	c, l, rs := w.lm.VerifState()
	return mstate{c, l, rs}
}

func has(xs []string, x string) bool {
	for _, y := range xs {
		if y == x {
			return true
		}
	}
	return false
}

func (s mstate) describe(ref string, w *world) string {
	name := func(d string) string {
		for _, im := range w.images {
			for _, l := range im.layers {
				if l.esgz && l.built.TOCDigest.String() == d {
					return "toc:" + l.name()
				}
				if l.built.Digest.String() == d {
					return "blob:" + l.name()
				}
			}
		}
		if len(d) > 15 {
			return d[7:15]
		}
		return d
	}
	var cs, ls, rs []string
	for d, n := range s.counters[ref] {
		cs = append(cs, fmt.Sprintf("%s=%d", name(d), n))
	}
	for _, d := range s.layers[ref] {
		ls = append(ls, name(d))
	}
	for _, d := range s.resolved[ref] {
		rs = append(rs, name(d))
	}
	sort.Strings(cs)
	sort.Strings(ls)
	sort.Strings(rs)
	return fmt.Sprintf("counters{%s} cachedLayers{%s} memoisedResolutions{%s}", strings.Join(cs, ","), strings.Join(ls, ","), strings.Join(rs, ","))
}

// freshBlobRequests counts blob/manifest requests logged after mark (a request count).
func (w *world) requestsSince(mark int64) int64 { return w.reg.Requests() - mark }

// panicSite extracts the innermost stargz-snapshotter frame of a recovered panic's stack.
func panicSite(stack string) string {
	const mod = "github.com/containerd/stargz-snapshotter/"
	for _, line := range strings.Split(stack, "\n") {
		if strings.HasPrefix(line, mod) {
			fn := strings.TrimPrefix(line, mod)
			if i := strings.LastIndex(fn, "("); i > 0 {
				fn = fn[:i]
			}
			return fn
		}
	}
	return "unknown"
}

func panicClass(v any) string {
	s := fmt.Sprint(v)
	switch {
	case strings.Contains(s, "nil map"):
		return "nil-map-write"
	case strings.Contains(s, "nil pointer"):
		return "nil-deref"
	case strings.Contains(s, "index out of range"), strings.Contains(s, "slice bounds"):
		return "bounds"
	}
	return "other"
}

func removeAll(dir string) { _ = os.RemoveAll(dir) }
