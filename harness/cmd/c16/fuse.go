package main

// fuse.go: the fuse stage. The same cases as the sequential stage, applied with syscalls to
// the real FUSE tree of store/fs.go (store.Mount):
//
//	<mnt>/<base64(ref)>/<tocdigest>/diff   directory: the layer's tree        (lookup diff)
//	<mnt>/<base64(ref)>/<tocdigest>/blob   regular file: the layer blob       (lookup blob)
//	<mnt>/<base64(ref)>/<tocdigest>/info   regular file: JSON store.Layer     (lookup info)
//	open(<mnt>/<base64(ref)>/<tocdigest>/use, O_CREAT)  = use   (always answers ENOENT)
//	rmdir(<mnt>/<base64(ref)>/<tocdigest>)              = release (always answers ENOENT)
//
// The counts are read back from the manager (VerifState) after each syscall.

import (
	"bytes"
	"context"
	"encoding/base64"
	"encoding/json"
	"fmt"
	"os"
	"path/filepath"
	"strings"
	"syscall"
	"time"

	"github.com/containerd/stargz-snapshotter/store"

	"verifharness/internal/gen"
	"verifharness/internal/prng"
	"verifharness/internal/vf"
)

// fuseProbe: is /dev/fuse usable at all (the mount itself is tried by the first case).
func fuseProbe(r *vf.Run) bool {
	f, err := os.OpenFile("/dev/fuse", os.O_RDWR, 0)
	if err != nil {
		r.Set("fuse_probe", "unavailable: "+err.Error())
		return false
	}
	f.Close()
	r.Set("fuse_probe", "/dev/fuse can be opened")
	return true
}

func b64ref(im *imageSpec) string {
	return base64.StdEncoding.EncodeToString([]byte(regHost + "/" + im.repo + ":" + im.tag))
}

func runFuseCase(r *vf.Run, p *pool, idx int) {
	scenario := -1
	if idx < nScenarios {
		scenario = idx
	}
	c := genCase(r, p, 3, idx, scenario, idx%2, "f")
	// the directory name of an image is base64(ref) (std alphabet): it must not contain "/"
	fix := func(im *imageSpec) {
		for i := 0; strings.Contains(b64ref(im), "/") && i < 64; i++ {
			im.tag += "x"
		}
	}
	for _, im := range c.ims {
		if im.pinOf == nil {
			fix(im)
		}
	}
	for _, k := range c.keys {
		if !k.img.published {
			fix(k.img)
		}
	}
	r.Eval(1)
	w, err := newWorldF(r, filepath.Join(r.Scratch, fmt.Sprintf("fuse-%d", idx)), c.ims, c.wc, func(ref string) bool {
		return !strings.Contains(base64.StdEncoding.EncodeToString([]byte(ref)), "/")
	})
	if err != nil {
		r.Inconclusive("world setup failed: " + errClass(err))
		return
	}
	mnt := filepath.Join(r.Scratch, fmt.Sprintf("mnt-%d", idx))
	if err := os.MkdirAll(mnt, 0o755); err != nil {
		r.Inconclusive("mountpoint cannot be created")
		return
	}
	if err := store.Mount(context.Background(), mnt, w.lm, false); err != nil {
		r.Inconclusive("capability: store.Mount failed: " + errClass(err))
		return
	}
	r.Count("fuse_mounts", 1)
	defer unmount(r, mnt)
	runCase(r, "fuse", c, w, &fuseDrv{w: w, mnt: mnt, dirty: map[string]bool{}}, idx < 2)
}

func unmount(r *vf.Run, mnt string) {
	for i := 0; i < 40; i++ {
		err := syscall.Unmount(mnt, 0)
		if err == nil || err == syscall.EINVAL || err == syscall.ENOENT {
			r.Count("fuse_unmounts", 1)
			os.Remove(mnt)
			return
		}
		if i >= 10 {
			if syscall.Unmount(mnt, syscall.MNT_DETACH) == nil {
				r.Count("fuse_unmounts_lazy", 1)
				return
			}
		}
		time.Sleep(25 * time.Millisecond)
	}
	r.Count("fuse_unmount_failed", 1)
}

type fuseDrv struct {
	w     *world
	mnt   string
	dirty map[string]bool // ref -> a release went through since the kernel's entry cache was last allowed to lapse
}

func (d *fuseDrv) dir(k *key) string {
	return filepath.Join(d.mnt, base64.StdEncoding.EncodeToString([]byte(k.img.ref.String())), k.dig.String())
}

func (d *fuseDrv) counter(k *key) int {
	return d.w.state().counters[k.img.ref.String()][k.dig.String()]
}

func (d *fuseDrv) use(k *key) int {
	fd, err := syscall.Open(filepath.Join(d.dir(k), "use"), syscall.O_CREAT|syscall.O_WRONLY, 0o600)
	for i := 0; err == syscall.EINTR && i < 100; i++ { // interrupted before the request was sent
		fd, err = syscall.Open(filepath.Join(d.dir(k), "use"), syscall.O_CREAT|syscall.O_WRONLY, 0o600)
	}
	if err == nil {
		syscall.Close(fd)
	}
	d.w.r.Distinct("fuse_use_errno", fmt.Sprint(err))
	return d.counter(k)
}

func (d *fuseDrv) release(k *key) (int, error) {
	err := syscall.Rmdir(d.dir(k))
	for i := 0; err == syscall.EINTR && i < 100; i++ {
		err = syscall.Rmdir(d.dir(k))
	}
	d.dirty[k.img.ref.String()] = true
	d.w.r.Distinct("fuse_rmdir_errno", fmt.Sprint(err))
	n := d.counter(k)
	if err == syscall.EIO {
		// refnode.Rmdir answers EIO when LayerManager.release reported an error
		return n, fmt.Errorf("rmdir: %v (the node answers EIO when LayerManager.release reports an error)", err)
	}
	return n, nil
}

// settle lets the kernel's 1 s entry/attribute cache of the mount lapse after a release, so
// that the following lookup reaches the daemon instead of being answered from the dcache.
// It only makes the check more effective: a lookup answered from the cache is a success,
// and successes are never alarmed on.
func (d *fuseDrv) settle(k *key) {
	if d.dirty[k.img.ref.String()] {
		time.Sleep(1100 * time.Millisecond)
		d.dirty[k.img.ref.String()] = false
		d.w.r.Count("fuse_waited_for_entry_cache", 1)
	}
}

func (d *fuseDrv) lookup(k *key, blob bool) (*looked, error) {
	d.settle(k)
	name := "diff"
	if blob {
		name = "blob"
	}
	path := filepath.Join(d.dir(k), name)
	var st syscall.Stat_t
	err := syscall.Lstat(path, &st)
	if err == syscall.EIO || err == syscall.EINTR {
		// Slack: a lookup whose syscall was interrupted by a signal is cancelled by design
		// (the node answers EIO). One retry tells a cancelled lookup from a failing one; the
		// failures this property is about are persistent.
		d.w.r.Count("fuse_lookup_retried_once", 1)
		time.Sleep(5 * time.Millisecond)
		err = syscall.Lstat(path, &st)
	}
	if err != nil {
		d.w.r.Distinct("fuse_lookup_errno", fmt.Sprint(err))
		if err == syscall.EIO {
			// layernode.Lookup answers EIO for every getLayer / Verify failure
			return nil, fmt.Errorf("lstat %s: %v (the node answers EIO for every getLayer or Verify failure)", name, err)
		}
		return nil, fmt.Errorf("lstat %s: %v", name, err)
	}
	return &looked{
		open: func() (tree, error) {
			f, err := os.Open(path)
			if err != nil {
				return nil, err
			}
			return &fsTree{f}, nil
		},
		readBlob: func(s *layerSpec, rng *prng.R) error {
			if st.Size != int64(len(s.built.Blob)) {
				// Not judged here: blobnode has no Getattr. A stat that the kernel answers
				// with GETATTR instead of LOOKUP (entry still valid, attributes invalidated by
				// an earlier read) gets the stable attributes only: size 0, and for the next
				// second the file reads as empty. That is a defect of the node, not of
				// acquire/release ordering; it is counted and reported, not alarmed on.
				d.w.r.Count("fuse_stat_blob_reports_wrong_size(not judged)", 1)
				return nil
			}
			f, err := os.Open(path)
			if err != nil {
				return err
			}
			defer f.Close()
			off := int64(rng.Intn(len(s.built.Blob)))
			buf := make([]byte, rng.Range(1, 700))
			n, err := f.ReadAt(buf, off)
			if n == 0 && err != nil {
				return fmt.Errorf("pread(%d,%d): %v", off, len(buf), err)
			}
			want := s.built.Blob[off:]
			if len(want) > len(buf) {
				want = want[:len(buf)]
			}
			if n != len(want) || !bytes.Equal(buf[:n], want) {
				return mismatchf("pread(%d,%d) returned %d bytes that differ from the published blob", off, len(buf), n)
			}
			return nil
		},
	}, nil
}

func (d *fuseDrv) info(k *key) (store.Layer, error) {
	var li store.Layer
	b, err := os.ReadFile(filepath.Join(d.dir(k), "info"))
	if err != nil {
		return li, err
	}
	err = json.Unmarshal(b, &li)
	return li, err
}

// fsTree is an open "diff" directory; files are reached relative to the open descriptor
// (like an overlay lower directory that is held by the kernel).
type fsTree struct{ f *os.File }

func (t *fsTree) close() { t.f.Close() }

func (t *fsTree) readFiles(s *layerSpec, rng *prng.R, n int) error {
	if len(s.files) == 0 {
		return nil
	}
	for i := 0; i < n; i++ {
		p := s.files[rng.Intn(len(s.files))]
		want := s.fs.Nodes[p]
		full := fmt.Sprintf("/proc/self/fd/%d/%s", t.f.Fd(), p)
		var st syscall.Stat_t
		if err := syscall.Lstat(full, &st); err != nil {
			return fmt.Errorf("lstat %q: %v", p, err)
		}
		if st.Size != want.Size {
			return mismatchf("size of %q is %d, the tar says %d (content of another layer?)", p, st.Size, want.Size)
		}
		got, err := os.ReadFile(full)
		if err != nil {
			return fmt.Errorf("read %q: %v", p, err)
		}
		if int64(len(got)) != want.Size {
			return mismatchf("read %q returned %d bytes, the tar says %d", p, len(got), want.Size)
		}
		if at := gen.CheckContent(want.ContentID, 0, got); at >= 0 {
			return mismatchf("content of %q differs from the tar at byte %d", p, at)
		}
	}
	return nil
}
