package main

import "verifharness/internal/vf"

func runFuseCase(r *vf.Run, p *pool, i int) {}
func fuseProbe(r *vf.Run) bool              { return false }
