#!/usr/bin/env python3
"""usage: tools_addfinding.py <property> <status known|fixed> <commit or -> <key> <what> [also_key ...]"""
import json,sys
p='/verif/known_findings.json'
d=json.load(open(p))
prop,status,commit,key,what=sys.argv[1:6]
e={"property":prop,"status":status,"key":key,"what":what}
if commit!='-': e["commit"]=commit
if len(sys.argv)>6: e["also_keys"]=sys.argv[6:]
if status=='fixed': e["line"]="fixed: property=%s %s %s"%(prop,commit,what)
d['findings']=[f for f in d['findings'] if not (f['property']==prop and f['key']==key)]
d['findings'].append(e)
json.dump(d,open(p,'w'),indent=1)
print('ok',len(d['findings']))
