#!/usr/bin/env python3
"""tools_importseed.py <seed-out-dir> <demo pkg dir> <demo run regex> <seedcheck log>
Copies an independently written, verified breaking change into /verif/seeded/<name>/ and records what was run."""
import json,sys,os,shutil,re,subprocess
src,pkg,runre,log=sys.argv[1:5]
name=os.path.basename(src.rstrip('/'))
dst='/verif/seeded/'+name
os.makedirs(dst,exist_ok=True)
_prev_meta=None
if os.path.exists(os.path.join(dst,'meta.json')):
    _prev_meta=json.load(open(os.path.join(dst,'meta.json')))
for f in os.listdir(src):
    p=os.path.join(src,f)
    if os.path.isfile(p) and (f.endswith('.go') or f in('patch.diff','meta.json','README.md')):
        shutil.copy(p,os.path.join(dst,f))
prev=(_prev_meta or {}).get('verification_by_coordinator')
meta=json.load(open(os.path.join(src,'meta.json')))
txt=open(log).read()
res=dict(re.findall(r'^RESULT \S+ (\w+): (.*)$',txt,re.M))
keys=re.findall(r'^  key=(.*)$',txt,re.M)
prop=name.split('-')[0]
meta['verification_by_coordinator']={
  'repo_head':subprocess.run(['git','-C','/repo','log','--format=%h','-1'],capture_output=True,text=True).stdout.strip(),
  'ran':'/verif/seedcheck.sh %s %s %s %s  (applies patch.diff to a scratch worktree of /repo HEAD, builds all modules, runs the tests of the touched packages, runs the demo with and without the patch, then runs ./run.sh %s quick with VERIF_REPO pointing at the patched worktree)'%(src,prop,pkg,runre,prop),
  'demo_package_dir':pkg,'demo_run_regex':runre,
  'patch_applies':res.get('apply'),'builds':res.get('build'),'touched_package_tests':res.get('pkgtests'),'demo':res.get('demo'),
  'check_result':res.get('check'),'violation_keys_reported':keys,
}
v=meta['verification_by_coordinator']
v['first_check_result']=(prev or {}).get('first_check_result',(prev or {}).get('check_result',v['check_result']))
if len(sys.argv)>5: v['caught_by']=sys.argv[5]
json.dump(meta,open(os.path.join(dst,'meta.json'),'w'),indent=1)
print(name,res.get('check'))
