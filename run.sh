#!/bin/bash
# Entry point of every check:  ./run.sh <Cxx> [quick|thorough]
# Rebuilds the check binaries from /repo's current working tree with -tags verif
# (plain and, if the check asks for it, -race), then runs the check in a private
# mount namespace with a private scratch directory.
set -u
ID="${1:?usage: run.sh <Cxx> [quick|thorough]}"
TIER="${2:-${VERIF_TIER:-quick}}"
VERIF_DIR="$(cd "$(dirname "$0")" && pwd)"
export VERIF_DIR VERIF_TIER="$TIER" VERIF_SEED="${VERIF_SEED:-1}"
. "$VERIF_DIR/env.sh"
if [ -n "${VERIF_REPO:-}" ] && [ -z "${VERIF_EVIDENCE_DIR:-}" ]; then
  # trial run against a scratch copy: never touch the real evidence
  export VERIF_EVIDENCE_DIR="/var/tmp/verif-trial-evidence"
fi
id_lc="$(echo "$ID" | tr 'A-Z' 'a-z')"
SRC="$VERIF_DIR/harness/cmd/$id_lc"
[ -d "$SRC" ] || { echo "no such check: $ID" >&2; exit 2; }

"$VERIF_DIR/build.sh" "$id_lc" || { echo "BUILD FAILED for $ID (the harness could not be built against ${VERIF_REPO:-/repo})" >&2; exit 2; }
BIN="${VERIF_BIN_DIR:-$VERIF_DIR/bin}"
export VERIF_PLAIN_BIN="$BIN/$id_lc" VERIF_RACE_BIN="$BIN/$id_lc.race"

SCRATCH="$(mktemp -d /var/tmp/verif-$id_lc-XXXXXX)"
trap 'rm -rf "$SCRATCH"' EXIT
mkdir -p "$SCRATCH/tmp"
export TMPDIR="$SCRATCH/tmp"
export VERIF_SCRATCH="$SCRATCH" VERIF_RACELOG="$SCRATCH/toprace"
export GORACE="halt_on_error=0 exitcode=0 history_size=5 log_path=$SCRATCH/toprace"
export GOTRACEBACK=all
TOP="$VERIF_PLAIN_BIN"
if grep -qx 'top=race' "$SRC/BUILDS" 2>/dev/null; then TOP="$VERIF_RACE_BIN"; fi

LIMIT=1500; [ "$TIER" = thorough ] && LIMIT=5400
if [ -f "$SRC/TIMEOUT" ]; then . "$SRC/TIMEOUT"; fi
if unshare -m --propagation private true 2>/dev/null; then
  timeout -s QUIT -k 30 "$LIMIT" unshare -m --propagation private "$TOP"
else
  timeout -s QUIT -k 30 "$LIMIT" "$TOP"
fi
rc=$?
if [ $rc -eq 124 ] || [ $rc -eq 131 ] || [ $rc -eq 137 ]; then
  echo "INCONCLUSIVE property=$ID: overall watchdog fired (rc=$rc)"; exit 3
fi
exit $rc
