#!/bin/bash
# build.sh <cxx>... : (re)build the named check binaries (plain, and race when the
# check's BUILDS file asks for it) from the current working tree of /repo
# (or of $VERIF_REPO, used to try the checks on a scratch copy with a seeded change).
set -u
VERIF_DIR="$(cd "$(dirname "$0")" && pwd)"
. "$VERIF_DIR/env.sh"
REPO="${VERIF_REPO:-/repo}"
H="$VERIF_DIR/harness"
BIN="${VERIF_BIN_DIR:-$VERIF_DIR/bin}"
mkdir -p "$BIN"
MODFILE="$H/go.mod"
if [ "$REPO" != /repo ]; then
  # alternate modfile pointing the replace directives at the scratch copy
  ALT="$(mktemp -d /var/tmp/verif-mod-XXXXXX)"
  trap 'rm -rf "$ALT"' EXIT
  sed "s#=> /repo#=> $REPO#g" "$H/go.mod" > "$ALT/go.mod"
  cat "$REPO/go.sum" "$REPO/cmd/go.sum" "$H/go.sum.extra" 2>/dev/null | sort -u > "$ALT/go.sum"
  MODFILE="$ALT/go.mod"
fi
rc=0
(
  flock 9
  cd "$H" || exit 2
  if [ "$REPO" = /repo ] && [ ! -s "$H/go.sum" ]; then
    # go.sum = union of the repository's go.sum files (go adds what is missing from the module cache)
    cat /repo/go.sum /repo/cmd/go.sum "$H/go.sum.extra" 2>/dev/null | sort -u > "$H/go.sum.$$" && mv "$H/go.sum.$$" "$H/go.sum"
  fi
  for c in "$@"; do
    [ -d "cmd/$c" ] || { echo "no cmd/$c" >&2; exit 2; }
    builds="plain"
    [ -f "cmd/$c/BUILDS" ] && builds="$(grep -v '^top=' "cmd/$c/BUILDS" | tr '\n' ' ')"
    for b in $builds; do
      case "$b" in
        plain) "$VERIF_GO" build -modfile="$MODFILE" -tags verif -o "$BIN/$c" "./cmd/$c" || exit 2 ;;
        race)  "$VERIF_GO" build -modfile="$MODFILE" -tags verif -race -o "$BIN/$c.race" "./cmd/$c" || exit 2 ;;
      esac
    done
  done
) 9>"$BIN/.lock" || rc=2
exit $rc
