#!/bin/bash
# validates MANIFEST.json and every evidence file against the schemas
python3-vt - <<'PY'
import json,jsonschema,glob,sys
ok=True
try:
    jsonschema.validate(json.load(open('/verif/MANIFEST.json')),json.load(open('/root/.vp/MANIFEST.schema.json')));print('manifest valid')
except Exception as e:
    ok=False;print('MANIFEST INVALID',e)
s=json.load(open('/root/.vp/EVIDENCE.schema.json'))
for f in sorted(glob.glob('/verif/evidence/C*.json')):
    try:
        jsonschema.validate(json.load(open(f)),s);print(f,'valid')
    except Exception as e:
        ok=False;print(f,'INVALID',str(e)[:300])
sys.exit(0 if ok else 1)
PY
