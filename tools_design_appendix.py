#!/usr/bin/env python3
"""Regenerates the generated appendices of DESIGN.md (between the BEGIN/END GENERATED markers):
Appendix B (findings: fixed / known) from known_findings.json and Appendix C (independently
written breaking changes and which check catches them) from seeded/*/meta.json."""
import json,os,glob,re
V='/verif'
out=[]
out.append('## Appendix B. Genuine defects found by the checks (generated from known_findings.json)\n')
out.append('`fixed` = repaired by the named `fix:` commit in /repo (the entry suppresses nothing: the check is silent on the repaired tree and reports the violation again if it returns). `known` = recorded, not repaired (reason in the text); the check prints `KNOWN-FINDING:` for exactly these keys and exits 0.\n')
out.append('| property | status | commit | violation key (+ further keys of the same defect) | failing input / schedule / history |')
out.append('|---|---|---|---|---|')
d=json.load(open(V+'/known_findings.json'))
for f in sorted(d['findings'],key=lambda f:(f['property'],f['status'],f['key'])):
    keys='`%s`'%f['key']
    if f.get('also_keys'): keys+='<br>'+'<br>'.join('`%s`'%k for k in f['also_keys'])
    out.append('| %s | %s | %s | %s | %s |'%(f['property'],f['status'],f.get('commit','–'),keys,f['what'].replace('|','\\|')))
out.append('')
out.append('## Appendix C. Independently written breaking changes (seeded/) and which check catches them (generated)\n')
out.append('Each change was written by a fresh sub-agent that saw only the property text and its own scratch worktree, compiles, passes the tests of the packages it touches, and comes with a demonstration that fails with the change and passes without it (verified by `seedcheck.sh`). "first run" is the result of the quick tier before any strengthening; "now" after it.\n')
out.append('| id | property | what the change does | needs to manifest | first run | now | keys reported |')
out.append('|---|---|---|---|---|---|---|')
for m in sorted(glob.glob(V+'/seeded/*/meta.json')):
    j=json.load(open(m)); name=os.path.basename(os.path.dirname(m))
    v=j.get('verification_by_coordinator',{})
    first=v.get('first_check_result',v.get('check_result','?'))
    now=v.get('check_result','?')
    keys=', '.join('`%s`'%k for k in v.get('violation_keys_reported',[])[:4])
    extra=v.get('caught_by','')
    def cell(x): return str(x).replace('|','\\|').replace('\n',' ')[:400]
    out.append('| %s | %s | %s | %s | %s | %s | %s %s |'%(name,j.get('property','?'),cell(j.get('summary','')),cell(j.get('needs','')),cell(first),cell(now),keys,cell(extra)))
txt='\n'.join(out)+'\n'
p=V+'/DESIGN.md'
s=open(p).read()
B='<!-- BEGIN GENERATED APPENDICES -->\n'; E='<!-- END GENERATED APPENDICES -->\n'
if B in s:
    s=s[:s.index(B)]+B+txt+E+s[s.index(E)+len(E):]
else:
    s=s.rstrip('\n')+'\n\n'+'-'*87+'\n\n'+B+txt+E
open(p,'w').write(s)
print('appendices regenerated:',len(d['findings']),'findings,',len(glob.glob(V+'/seeded/*/meta.json')),'seeded changes')
