#!/bin/bash
# seedcheck.sh <seed-dir> <Cxx> <demo-pkg-dir-relative-to-repo> <demo-run-regex> [tier]
# Verifies an independently written breaking change and runs the property's check against it.
#  1 applies patch.diff to a scratch worktree of /repo HEAD (never /repo itself), builds all modules
#  2 runs the tests of the packages the patch touches (they must still pass)
#  3 runs the demonstration with the patch (must fail) and without it (must pass)
#  4 runs ./run.sh <Cxx> <tier> with VERIF_REPO pointing at the patched worktree (expected: exit 1)
set -u
SD="$(cd "$1" && pwd)"; ID="$2"; PKG="$3"; RUNRE="$4"; TIER="${5:-quick}"
. /verif/env.sh
NAME="$(basename "$SD")"
WT="/var/tmp/sv-$NAME"; BIN="/var/tmp/sv-$NAME-bin"
git -C /repo worktree remove --force "$WT" 2>/dev/null; rm -rf "$WT" "$BIN"
git -C /repo worktree add -q "$WT" HEAD || exit 2
trap 'git -C /repo worktree remove --force "$WT" 2>/dev/null; rm -rf "$WT" "$BIN"' EXIT
res() { echo "RESULT $NAME $1: $2"; }
( cd "$WT" && (git apply "$SD/patch.diff" || git apply -3 "$SD/patch.diff") ) || { res apply FAIL; exit 1; }
res apply ok
for m in . cmd estargz; do ( cd "$WT/$m" && "$VERIF_GO" build ./... ) || { res build "FAIL in $m"; exit 1; }; done
res build ok
# packages touched by the patch
pk=$(grep '^+++ b/' "$SD/patch.diff" | sed 's#^+++ b/##' | xargs -n1 dirname | sort -u)
tfail=0
for d in $pk; do
  mod=.; rel="$d"
  case "$d" in cmd/*) mod=cmd; rel="${d#cmd/}";; estargz|estargz/*) mod=estargz; rel="${d#estargz}"; rel="${rel#/}"; [ -z "$rel" ] && rel=.;; esac
  ( cd "$WT/$mod" && timeout 3000 "$VERIF_GO" test -count=1 -timeout 45m "./$rel" ) > "$BIN.test.log" 2>&1 || { tfail=1; tail -15 "$BIN.test.log"; }
done
[ $tfail = 0 ] && res pkgtests ok || res pkgtests FAIL
# demo with patch
demo=$(ls "$SD"/*_test.go 2>/dev/null | head -1)
if [ -n "$demo" ]; then
  mod=.; rel="$PKG"
  case "$PKG" in cmd/*) mod=cmd; rel="${PKG#cmd/}";; estargz|estargz/*) mod=estargz; rel="${PKG#estargz}"; rel="${rel#/}"; [ -z "$rel" ] && rel=.;; esac
  cp "$demo" "$WT/$PKG/zz_seed_demo_test.go"
  ( cd "$WT/$mod" && timeout 900 "$VERIF_GO" test -count=1 -run "$RUNRE" "./$rel" ) > "$BIN.demo1.log" 2>&1; r1=$?
  ( cd "$WT" && git apply -R "$SD/patch.diff" 2>/dev/null || git checkout -q . ); cp "$demo" "$WT/$PKG/zz_seed_demo_test.go"
  ( cd "$WT/$mod" && timeout 900 "$VERIF_GO" test -count=1 -run "$RUNRE" "./$rel" ) > "$BIN.demo0.log" 2>&1; r0=$?
  rm -f "$WT/$PKG/zz_seed_demo_test.go"
  ( cd "$WT" && git checkout -q . && (git apply "$SD/patch.diff" || git apply -3 "$SD/patch.diff") )
  [ $r1 != 0 ] && [ $r0 = 0 ] && res demo "ok (fails with patch rc=$r1, passes without)" || { res demo "UNEXPECTED with=$r1 without=$r0"; tail -5 "$BIN.demo1.log" "$BIN.demo0.log"; }
else
  res demo "no _test.go demo (manual)"
fi
# the check
VERIF_REPO="$WT" VERIF_BIN_DIR="$BIN" VERIF_EVIDENCE_DIR="/var/tmp/sv-$NAME-ev" /verif/run.sh "$ID" "$TIER" > "$BIN.check.log" 2>&1; rc=$?
grep -E "^VIOLATION|^  key=|verdict=" "$BIN.check.log" | head -12
res check "exit=$rc ($([ $rc = 1 ] && echo CAUGHT || echo NOT-CAUGHT))"
rm -rf "/var/tmp/sv-$NAME-ev" "$BIN".*.log
